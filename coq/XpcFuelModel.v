(* XpcFuelModel.v — totality of the compiler model: no function of XpcParseDefs.v lengthens the token queue, and fuel
   greater than the number of tokens is never exhausted (so the Fuel outcome of `parse` is unreachable). *)
From Coq Require Import List NArith Bool Arith Lia.
Import ListNotations.
Require Import XV.XpAst XV.GenXpc XV.XpcLexDefs XV.XpcParseDefs.

Lemma tokc_cons : forall ts c, N.eqb (tokc ts) c = true -> c <> 0%N -> exists t r, ts = t :: r.
Proof.
  intros [|t r] c H Hc; [|eauto]. unfold tokc in H. apply N.eqb_eq in H. congruence.
Qed.

Lemma tl_len : forall (ts : list tok), length (tl ts) <= length ts.
Proof. destruct ts; cbn; lia. Qed.

Lemma expect_len : forall c ts r, expect c ts = Ok r -> c <> 0%N -> S (length r) = length ts.
Proof.
  unfold expect. intros c ts r H Hc. destruct (N.eqb (tokc ts) c) eqn:E; [|discriminate].
  destruct (tokc_cons _ _ E Hc) as (t & q & ->). inversion H; subst. reflexivity.
Qed.

Ltac chr := (unfold ch_lbrack, ch_rbrack, ch_lparen, ch_rparen, ch_comma, ch_solidus, ch_bar, ch_hyphen, ch_colon,
             ch_at, ch_dollar, ch_asterisk, ch_plus, ch_equals, ch_excl, ch_lt, ch_gt; discriminate).

Ltac nf1 := match goal with
  | |- context [match ?X with _ => _ end] =>
      lazymatch X with
      | context [match _ with _ => _ end] => fail
      | _ => destruct X
      end
  end.

Ltac exp_len H := let L := fresh "L" in pose proof (expect_len _ _ _ H ltac:(chr)) as L.

Lemma match_op_len : forall l ts o r, match_op l ts = Some (o, r) -> length r < length ts.
Proof.
  intros l ts o r H.
  assert (K : forall c, N.eqb (tokc ts) c = true -> c <> 0%N -> length (tl ts) < length ts /\ length (tl (tl ts)) < length ts).
  { intros c E Hc. destruct (tokc_cons _ _ E Hc) as (t & q & ->). cbn. pose proof (tl_len q). lia. }
  assert (S1 : forall k, k <> [] -> tok_is ts k = true -> length (tl ts) < length ts).
  { intros k Hk E. destruct ts; cbn in *; [destruct k; [congruence|discriminate]|lia]. }
  destruct l as [|[|[|[|[|[|[|l]]]]]]]; unfold match_op in H; try discriminate.
  - destruct (N.eqb (tokc ts) ch_asterisk) eqn:E1.
    { inversion H; subst. (destruct (K _ E1) as [? ?]; [chr|assumption]). }
    destruct (tok_is ts gen_xpc_kw_div) eqn:E2.
    { inversion H; subst. eapply S1; [|exact E2]. discriminate. }
    destruct (tok_is ts gen_xpc_kw_mod) eqn:E3; [|discriminate].
    inversion H; subst. eapply S1; [|exact E3]. discriminate.
  - destruct (N.eqb (tokc ts) ch_plus) eqn:E1.
    { inversion H; subst. (destruct (K _ E1) as [? ?]; [chr|assumption]). }
    destruct (N.eqb (tokc ts) ch_hyphen) eqn:E2; [|discriminate].
    inversion H; subst. (destruct (K _ E2) as [? ?]; [chr|assumption]).
  - destruct (N.eqb (tokc ts) ch_lt) eqn:E1.
    { destruct (N.eqb (tokc (tl ts)) ch_equals); inversion H; subst; (destruct (K _ E1) as [? ?]; [chr|assumption]). }
    destruct (N.eqb (tokc ts) ch_gt) eqn:E2; [|discriminate].
    destruct (N.eqb (tokc (tl ts)) ch_equals); inversion H; subst; (destruct (K _ E2) as [? ?]; [chr|assumption]).
  - destruct (N.eqb (tokc ts) ch_excl && look_c ts ch_equals 1)%bool eqn:E1.
    { apply andb_prop in E1. destruct E1 as [E1 _]. inversion H; subst. (destruct (K _ E1) as [? ?]; [chr|assumption]). }
    destruct (N.eqb (tokc ts) ch_equals) eqn:E2; [|discriminate].
    inversion H; subst. (destruct (K _ E2) as [? ?]; [chr|assumption]).
  - destruct (tok_is ts gen_xpc_kw_and) eqn:E; [|discriminate]. inversion H; subst. eapply S1; [|exact E]. discriminate.
  - destruct (tok_is ts gen_xpc_kw_or) eqn:E; [|discriminate]. inversion H; subst. eapply S1; [|exact E]. discriminate.
Qed.

Section Fuel.
Variable fl : flags.
Variable ns : str -> option str.
Variable pe : nat -> list tok -> res (expr * list tok).
Variable lf : nat.
Variable B : nat.
Hypothesis pe_len : forall d ts e r, pe d ts = Ok (e, r) -> length r <= length ts.
Hypothesis pe_fuel : forall d ts, length ts < B -> pe d ts <> Fuel.

Notation shrinks f := (forall ts x r, f ts = Ok (x, r) -> length r <= length ts).
Notation nofuel f := (forall ts, length ts <= B -> length ts < lf -> f ts <> Fuel).

Lemma p_literal_len : shrinks p_literal.
Proof. unfold p_literal. intros ts x r H. destruct (is_literal (cur_tok ts)); inversion H; subst. apply tl_len. Qed.

Lemma p_preds_len : forall m d, shrinks (p_preds pe m d).
Proof.
  induction m as [|m IH]; intros d ts x r H; cbn [p_preds] in H; [discriminate|].
  destruct (N.eqb (tokc ts) ch_lbrack) eqn:E; [|inversion H; subst; lia].
  destruct (pe d (tl ts)) as [[e ts1]| |] eqn:E1; try discriminate.
  destruct (expect ch_rbrack ts1) as [ts2| |] eqn:E2; try discriminate.
  destruct (p_preds pe m d ts2) as [[ps ts3]| |] eqn:E3; try discriminate.
  inversion H; subst. apply pe_len in E1. exp_len E2. apply IH in E3. pose proof (tl_len ts). lia.
Qed.

Lemma p_preds_fuel : forall m d ts, length ts <= B -> length ts < m -> p_preds pe m d ts <> Fuel.
Proof.
  induction m as [|m IH]; intros d ts HB Hm; [lia|]. cbn [p_preds].
  destruct (N.eqb (tokc ts) ch_lbrack) eqn:E; [|discriminate].
  destruct (tokc_cons _ _ E ltac:(chr)) as (t & q & ->). cbn [tl]. cbn [length] in *.
  destruct (pe d q) as [[e ts1]| |] eqn:E1; try discriminate.
  2:{ exfalso. eapply pe_fuel; [|exact E1]. lia. }
  destruct (expect ch_rbrack ts1) as [ts2| |] eqn:E2; try discriminate.
  2:{ unfold expect in E2. destruct (N.eqb (tokc ts1) ch_rbrack); discriminate. }
  apply pe_len in E1. exp_len E2.
  specialize (IH d ts2 ltac:(lia) ltac:(lia)).
  destruct (p_preds pe m d ts2) as [[ps ts3]| |]; try discriminate. congruence.
Qed.

Lemma p_args_len : forall m d, shrinks (p_args pe m d).
Proof.
  induction m as [|m IH]; intros d ts x r H; cbn [p_args] in H; [discriminate|].
  destruct (N.eqb (tokc ts) ch_rparen || isnil ts)%bool; [inversion H; subst; lia|].
  destruct (N.eqb (tokc ts) ch_comma); [discriminate|].
  destruct (pe d ts) as [[e ts1]| |] eqn:E1; try discriminate. apply pe_len in E1.
  destruct (N.eqb (tokc ts1) ch_rparen).
  - destruct (p_args pe m d ts1) as [[q ts3]| |] eqn:E3; try discriminate. inversion H; subst. apply IH in E3. lia.
  - destruct (expect ch_comma ts1) as [ts2| |] eqn:E2; try discriminate. exp_len E2.
    destruct (N.eqb (tokc ts2) ch_rparen); [discriminate|].
    destruct (p_args pe m d ts2) as [[q ts3]| |] eqn:E3; try discriminate. inversion H; subst. apply IH in E3. lia.
Qed.

Lemma p_args_fuel : forall m d ts, length ts < B -> S (length ts) < m -> p_args pe m d ts <> Fuel.
Proof.
  induction m as [|m IH]; intros d ts HB Hm; [lia|]. cbn [p_args].
  destruct (N.eqb (tokc ts) ch_rparen || isnil ts)%bool; [discriminate|].
  destruct (N.eqb (tokc ts) ch_comma); [discriminate|].
  destruct (pe d ts) as [[e ts1]| |] eqn:E1; try discriminate.
  2:{ exfalso. eapply pe_fuel; [|exact E1]. lia. }
  apply pe_len in E1.
  destruct (N.eqb (tokc ts1) ch_rparen) eqn:E4.
  - destruct m as [|m']; [lia|]. cbn [p_args]. rewrite E4. cbn. discriminate.
  - destruct (expect ch_comma ts1) as [ts2| |] eqn:E2; try discriminate.
    2:{ unfold expect in E2. destruct (N.eqb (tokc ts1) ch_comma); discriminate. }
    exp_len E2.
    destruct (N.eqb (tokc ts2) ch_rparen); [discriminate|].
    specialize (IH d ts2 ltac:(lia) ltac:(lia)).
    destruct (p_args pe m d ts2) as [[q ts3]| |]; try discriminate. congruence.
Qed.

Lemma p_call_args_len : forall d, shrinks (p_call_args pe lf d).
Proof.
  unfold p_call_args. intros d ts x r H.
  destruct (expect ch_lparen ts) as [ts1| |] eqn:E1; try discriminate. exp_len E1.
  destruct (p_args pe lf d ts1) as [[a ts2]| |] eqn:E2; try discriminate. apply p_args_len in E2.
  destruct (expect ch_rparen ts2) as [ts3| |] eqn:E3; try discriminate. exp_len E3.
  inversion H; subst. lia.
Qed.

Lemma expect_nofuel : forall c ts, expect c ts <> Fuel.
Proof. unfold expect. intros. destruct (N.eqb (tokc ts) c); discriminate. Qed.

Lemma p_call_args_fuel : forall d, nofuel (p_call_args pe lf d).
Proof.
  unfold p_call_args. intros d ts HB Hm.
  destruct (expect ch_lparen ts) as [ts1| |] eqn:E1; try discriminate.
  2:{ exfalso. eapply expect_nofuel; eauto. }
  exp_len E1.
  pose proof (p_args_fuel lf d ts1 ltac:(lia) ltac:(lia)) as F.
  destruct (p_args pe lf d ts1) as [[a ts2]| |] eqn:E2; try discriminate; [|congruence].
  destruct (expect ch_rparen ts2) as [ts3| |] eqn:E3; try discriminate.
  exfalso. eapply expect_nofuel; eauto.
Qed.

Lemma p_nodetest_len : shrinks (p_nodetest fl ns).
Proof.
  unfold p_nodetest. intros ts x r H.
  destruct (look_c ts ch_lparen 1).
  - destruct (ntype_of_name (cur_tok ts)); [|discriminate].
    destruct (expect ch_lparen (tl ts)) as [ts1| |] eqn:E1; try discriminate. exp_len E1. pose proof (tl_len ts).
    destruct n.
    + destruct (expect ch_rparen ts1) as [ts2| |] eqn:E2; try discriminate. exp_len E2. inversion H; subst. lia.
    + destruct (expect ch_rparen ts1) as [ts2| |] eqn:E2; try discriminate. exp_len E2. inversion H; subst. lia.
    + destruct (N.eqb (tokc ts1) ch_rparen).
      * inversion H; subst. pose proof (tl_len ts1). lia.
      * destruct (p_literal ts1) as [[s ts2]| |] eqn:E2; try discriminate. apply p_literal_len in E2.
        destruct (expect ch_rparen ts2) as [ts3| |] eqn:E3; try discriminate. exp_len E3. inversion H; subst. lia.
    + destruct (expect ch_rparen ts1) as [ts2| |] eqn:E2; try discriminate. exp_len E2. inversion H; subst. lia.
  - match type of H with (match ?X with _ => _ end) = _ => destruct X as [[q ts1]| |] eqn:E0 end; try discriminate.
    assert (L0 : length ts1 <= length ts).
    { destruct (look_c ts ch_colon 1); [|inversion E0; subst; lia].
      match type of E0 with (match ?X with _ => _ end) = _ => destruct X as [q0| |] end; try discriminate.
      destruct (expect ch_colon (tl ts)) as [ts1'| |] eqn:E1; try discriminate. exp_len E1. inversion E0; subst.
      pose proof (tl_len ts). lia. }
    destruct (N.eqb (tokc ts1) ch_asterisk); [inversion H; subst; pose proof (tl_len ts1); lia|].
    destruct (is_nodetest_tok (cur_tok ts1)); [|discriminate].
    destruct (fx_name fl && negb (valid_ncname (cur_tok ts1)))%bool; [discriminate|].
    inversion H; subst. pose proof (tl_len ts1). lia.
Qed.

Lemma p_nodetest_nofuel : forall ts, p_nodetest fl ns ts <> Fuel.
Proof.
  unfold p_nodetest, p_literal, expect. intros ts.
  repeat nf1; discriminate.
Qed.

Lemma p_basis_len : forall ts st real r, p_basis fl ns ts = Ok (st, real, r) -> length r <= length ts.
Proof.
  unfold p_basis. intros ts st real r H. pose proof (tl_len ts). pose proof (tl_len (tl ts)).
  destruct (look_s ts gen_xpc_kw_axis_sep 1).
  { destruct (axis_of_name (cur_tok ts)); [|discriminate].
    destruct (p_nodetest fl ns (tl (tl ts))) as [[t ts1]| |] eqn:E; try discriminate. apply p_nodetest_len in E.
    inversion H; subst. lia. }
  destruct (N.eqb (tokc ts) ch_at).
  { destruct (p_nodetest fl ns (tl ts)) as [[t ts1]| |] eqn:E; try discriminate. apply p_nodetest_len in E.
    inversion H; subst. lia. }
  destruct (N.eqb (tokc ts) ch_solidus).
  { destruct (is_axis_tok (cur_tok (tl ts)) || is_nodetest_tok (cur_tok (tl ts)))%bool; inversion H; subst. lia. }
  destruct (p_nodetest fl ns ts) as [[t ts1]| |] eqn:E; try discriminate. apply p_nodetest_len in E.
  inversion H; subst. lia.
Qed.

Lemma p_basis_nofuel : forall ts, p_basis fl ns ts <> Fuel.
Proof.
  unfold p_basis. intros ts.
  repeat match goal with
         | |- context [p_nodetest fl ns ?X] => let E := fresh in destruct (p_nodetest fl ns X) as [[? ?]| |] eqn:E;
                                            [| |exfalso; eapply p_nodetest_nofuel; eauto]
         | |- context [match ?X with _ => _ end] => destruct X; try discriminate
         | |- context [if ?X then _ else _] => destruct X; try discriminate
         end.
Qed.

Lemma p_step_len : forall d, shrinks (p_step fl ns pe lf d).
Proof.
  unfold p_step. intros d ts x r H. destruct ts as [|t q]; [discriminate|].
  destruct (str_eqb t gen_xpc_kw_dot).
  { destruct (N.eqb (tokc (tl (t :: q))) ch_lbrack); inversion H; subst. cbn. lia. }
  destruct (str_eqb t gen_xpc_kw_dotdot).
  { destruct (N.eqb (tokc (tl (t :: q))) ch_lbrack); inversion H; subst. cbn. lia. }
  match type of H with (if ?X then _ else _) = _ => destruct X end; [|discriminate].
  destruct (p_basis fl ns (t :: q)) as [[[st real] ts1]| |] eqn:E; try discriminate. apply p_basis_len in E.
  destruct real.
  - destruct (p_preds pe lf d ts1) as [[ps ts2]| |] eqn:E2; try discriminate. apply p_preds_len in E2.
    destruct st as [[a t0] ?]. inversion H; subst. lia.
  - inversion H; subst. lia.
Qed.

Lemma p_step_fuel : forall d, nofuel (p_step fl ns pe lf d).
Proof.
  unfold p_step. intros d ts HB Hm. destruct ts as [|t q]; [discriminate|].
  destruct (str_eqb t gen_xpc_kw_dot). { destruct (N.eqb (tokc (tl (t :: q))) ch_lbrack); discriminate. }
  destruct (str_eqb t gen_xpc_kw_dotdot). { destruct (N.eqb (tokc (tl (t :: q))) ch_lbrack); discriminate. }
  match goal with |- (if ?X then _ else _) <> _ => destruct X end; [|discriminate].
  destruct (p_basis fl ns (t :: q)) as [[[st real] ts1]| |] eqn:E; try discriminate.
  2:{ exfalso. eapply p_basis_nofuel; eauto. }
  apply p_basis_len in E. destruct real; [|discriminate].
  pose proof (p_preds_fuel lf d ts1 ltac:(lia) ltac:(lia)) as F.
  destruct (p_preds pe lf d ts1) as [[ps ts2]| |]; try discriminate; [|congruence].
  destruct st as [[a t0] ?]. discriminate.
Qed.

Lemma p_steps_len : forall m d, shrinks (p_steps fl ns pe lf m d).
Proof.
  induction m as [|m IH]; intros d ts x r H; cbn [p_steps] in H; [discriminate|].
  destruct (p_step fl ns pe lf d ts) as [[s ts1]| |] eqn:E; try discriminate. apply p_step_len in E.
  destruct (N.eqb (tokc ts1) ch_solidus); [|inversion H; subst; lia].
  destruct (p_steps fl ns pe lf m d (tl ts1)) as [[q ts2]| |] eqn:E2; try discriminate. apply IH in E2.
  inversion H; subst. pose proof (tl_len ts1). lia.
Qed.

Lemma p_steps_fuel : forall m d ts, length ts <= B -> length ts < lf -> length ts < m -> p_steps fl ns pe lf m d ts <> Fuel.
Proof.
  induction m as [|m IH]; intros d ts HB Hl Hm; [lia|]. cbn [p_steps].
  pose proof (p_step_fuel d ts HB Hl) as F.
  destruct (p_step fl ns pe lf d ts) as [[s ts1]| |] eqn:E; try discriminate; [|congruence]. apply p_step_len in E.
  destruct (N.eqb (tokc ts1) ch_solidus) eqn:E1; [|discriminate].
  destruct (tokc_cons _ _ E1 ltac:(chr)) as (t & q & ->). cbn [tl]. cbn [length] in *.
  specialize (IH d q ltac:(lia) ltac:(lia) ltac:(lia)).
  destruct (p_steps fl ns pe lf m d q) as [[? ?]| |]; try discriminate. congruence.
Qed.

Lemma p_locpath_len : forall d, shrinks (p_locpath fl ns pe lf d).
Proof.
  unfold p_locpath. intros d ts x r H. pose proof (tl_len ts).
  match type of H with (if ?X then _ else _) = _ => destruct X end.
  - match type of H with context [p_steps fl ns pe lf lf d ?T] => destruct (p_steps fl ns pe lf lf d T) as [[ss ts2]| |] eqn:E end;
      try discriminate.
    apply p_steps_len in E. inversion H; subst. destruct (N.eqb (tokc ts) ch_solidus); lia.
  - inversion H; subst. destruct (N.eqb (tokc ts) ch_solidus); lia.
Qed.

Lemma p_locpath_fuel : forall d, nofuel (p_locpath fl ns pe lf d).
Proof.
  unfold p_locpath. intros d ts HB Hm. pose proof (tl_len ts).
  match goal with |- (if ?X then _ else _) <> _ => destruct X end; [|discriminate].
  match goal with |- context [p_steps fl ns pe lf lf d ?T] =>
    pose proof (p_steps_fuel lf d T) as F; destruct (p_steps fl ns pe lf lf d T) as [[ss ts2]| |] end; try discriminate.
  exfalso. apply F; try reflexivity; destruct (N.eqb (tokc ts) ch_solidus); lia.
Qed.

Lemma p_qname_len : shrinks (p_qname ns).
Proof.
  unfold p_qname. intros ts x r H. pose proof (tl_len ts).
  destruct (look_c ts ch_colon 1).
  - destruct (ns (cur_tok ts)); [|discriminate].
    destruct (expect ch_colon (tl ts)) as [ts1| |] eqn:E; try discriminate. exp_len E.
    destruct (valid_ncname (cur_tok ts1)); inversion H; subst. pose proof (tl_len ts1). lia.
  - destruct (valid_ncname (cur_tok ts)); inversion H; subst. lia.
Qed.

Lemma p_qname_nofuel : forall ts, p_qname ns ts <> Fuel.
Proof.
  unfold p_qname, expect. intros ts.
  repeat nf1; discriminate.
Qed.

Lemma p_funcall_len : forall d, shrinks (p_funcall fl ns pe lf d).
Proof.
  unfold p_funcall. intros d ts x r H. pose proof (tl_len ts).
  destruct (look_c ts ch_colon 1).
  - destruct (ns (cur_tok ts)); [|discriminate].
    destruct (expect ch_colon (tl ts)) as [ts1| |] eqn:E; try discriminate. exp_len E.
    destruct (valid_ncname (cur_tok ts1)); [|discriminate].
    destruct (p_call_args pe lf d (tl ts1)) as [[a ts2]| |] eqn:E2; try discriminate. apply p_call_args_len in E2.
    inversion H; subst. pose proof (tl_len ts1). lia.
  - destruct (func_kind (cur_tok ts)); try discriminate.
    + eapply p_locpath_len; eauto.
    + destruct (p_call_args pe lf d (tl ts)) as [[a ts2]| |] eqn:E2; try discriminate. apply p_call_args_len in E2.
      match type of H with (if ?X then _ else _) = _ => destruct X end; inversion H; subst. lia.
    + destruct (p_call_args pe lf d (tl ts)) as [[a ts2]| |] eqn:E2; try discriminate. apply p_call_args_len in E2.
      inversion H; subst. lia.
Qed.

Lemma p_funcall_fuel : forall d, nofuel (p_funcall fl ns pe lf d).
Proof.
  unfold p_funcall. intros d ts HB Hm. pose proof (tl_len ts).
  destruct (look_c ts ch_colon 1).
  - destruct (ns (cur_tok ts)); [|discriminate].
    destruct (expect ch_colon (tl ts)) as [ts1| |] eqn:E; try discriminate.
    2:{ exfalso. eapply expect_nofuel; eauto. }
    exp_len E. destruct (valid_ncname (cur_tok ts1)); [|discriminate]. pose proof (tl_len ts1).
    pose proof (p_call_args_fuel d (tl ts1) ltac:(lia) ltac:(lia)) as F.
    destruct (p_call_args pe lf d (tl ts1)) as [[a ts2]| |]; try discriminate. congruence.
  - destruct (func_kind (cur_tok ts)); try discriminate.
    + apply p_locpath_fuel; assumption.
    + pose proof (p_call_args_fuel d (tl ts) ltac:(lia) ltac:(lia)) as F.
      destruct (p_call_args pe lf d (tl ts)) as [[a ts2]| |]; try discriminate; [|congruence].
      match goal with |- (if ?X then _ else _) <> _ => destruct X end; discriminate.
    + pose proof (p_call_args_fuel d (tl ts) ltac:(lia) ltac:(lia)) as F.
      destruct (p_call_args pe lf d (tl ts)) as [[a ts2]| |]; try discriminate. congruence.
Qed.

Lemma primary_group_cons : forall ts, primary_kind fl ts = PkGroup -> exists t r, ts = t :: r.
Proof.
  intros [|t r] H; [|eauto]. destruct fl as [f1 f2 f3]. destruct f3; cbv in H; discriminate.
Qed.

Lemma p_primary_len : forall d, shrinks (p_primary fl ns pe lf d).
Proof.
  unfold p_primary. intros d ts x r H. pose proof (tl_len ts).
  destruct (primary_kind fl ts).
  - destruct (p_literal ts) as [[s ts1]| |] eqn:E; try discriminate. apply p_literal_len in E. inversion H; subst. lia.
  - apply p_qname_len in H. lia.
  - destruct (pe d (tl ts)) as [[e ts1]| |] eqn:E; try discriminate. apply pe_len in E.
    destruct (expect ch_rparen ts1) as [ts2| |] eqn:E2; try discriminate. exp_len E2. inversion H; subst. lia.
  - inversion H; subst. lia.
  - eapply p_funcall_len; eauto.
  - eapply p_locpath_len; eauto.
Qed.

Lemma p_primary_fuel : forall d, nofuel (p_primary fl ns pe lf d).
Proof.
  unfold p_primary. intros d ts HB Hm.
  destruct (primary_kind fl ts) eqn:K.
  - unfold p_literal. destruct (is_literal (cur_tok ts)); discriminate.
  - apply p_qname_nofuel.
  - destruct (primary_group_cons _ K) as (t & q & ->). cbn [tl]. cbn [length] in *.
    destruct (pe d q) as [[e ts1]| |] eqn:E; try discriminate.
    2:{ exfalso. eapply pe_fuel; [|exact E]. lia. }
    destruct (expect ch_rparen ts1) eqn:E2; try discriminate. exfalso. eapply expect_nofuel; eauto.
  - discriminate.
  - apply p_funcall_fuel; assumption.
  - apply p_locpath_fuel; assumption.
Qed.

Lemma p_filter_len : forall d, shrinks (p_filter fl ns pe lf d).
Proof.
  unfold p_filter. intros d ts x r H.
  destruct (p_primary fl ns pe lf d ts) as [[p ts1]| |] eqn:E; try discriminate. apply p_primary_len in E.
  destruct (N.eqb (tokc ts1) ch_lbrack); [|inversion H; subst; lia].
  destruct (p_preds pe lf d ts1) as [[ps ts2]| |] eqn:E2; try discriminate. apply p_preds_len in E2.
  destruct (N.eqb (tokc ts2) ch_solidus); [|inversion H; subst; lia].
  destruct (p_steps fl ns pe lf lf d (tl ts2)) as [[ss ts3]| |] eqn:E3; try discriminate. apply p_steps_len in E3.
  inversion H; subst. pose proof (tl_len ts2). lia.
Qed.

Lemma p_filter_fuel : forall d, nofuel (p_filter fl ns pe lf d).
Proof.
  unfold p_filter. intros d ts HB Hm.
  pose proof (p_primary_fuel d ts HB Hm) as F.
  destruct (p_primary fl ns pe lf d ts) as [[p ts1]| |] eqn:E; try discriminate; [|congruence]. apply p_primary_len in E.
  destruct (N.eqb (tokc ts1) ch_lbrack); [|discriminate].
  pose proof (p_preds_fuel lf d ts1 ltac:(lia) ltac:(lia)) as F2.
  destruct (p_preds pe lf d ts1) as [[ps ts2]| |] eqn:E2; try discriminate; [|congruence]. apply p_preds_len in E2.
  destruct (N.eqb (tokc ts2) ch_solidus); [|discriminate]. pose proof (tl_len ts2).
  pose proof (p_steps_fuel lf d (tl ts2) ltac:(lia) ltac:(lia) ltac:(lia)) as F3.
  destruct (p_steps fl ns pe lf lf d (tl ts2)) as [[ss ts3]| |]; try discriminate. congruence.
Qed.

Lemma p_path_len : forall d, shrinks (p_path fl ns pe lf d).
Proof.
  unfold p_path. intros d ts x r H.
  destruct (p_filter fl ns pe lf d ts) as [[p ts1]| |] eqn:E; try discriminate. apply p_filter_len in E.
  destruct (N.eqb (tokc ts1) ch_solidus); [|inversion H; subst; lia].
  destruct (p_steps fl ns pe lf lf d (tl ts1)) as [[ss ts3]| |] eqn:E3; try discriminate. apply p_steps_len in E3.
  inversion H; subst. pose proof (tl_len ts1). lia.
Qed.

Lemma p_path_fuel : forall d, nofuel (p_path fl ns pe lf d).
Proof.
  unfold p_path. intros d ts HB Hm.
  pose proof (p_filter_fuel d ts HB Hm) as F.
  destruct (p_filter fl ns pe lf d ts) as [[p ts1]| |] eqn:E; try discriminate; [|congruence]. apply p_filter_len in E.
  destruct (N.eqb (tokc ts1) ch_solidus); [|discriminate]. pose proof (tl_len ts1).
  pose proof (p_steps_fuel lf d (tl ts1) ltac:(lia) ltac:(lia) ltac:(lia)) as F3.
  destruct (p_steps fl ns pe lf lf d (tl ts1)) as [[ss ts3]| |]; try discriminate. congruence.
Qed.

Lemma p_union_rest_len : forall m d, shrinks (p_union_rest fl ns pe lf m d).
Proof.
  induction m as [|m IH]; intros d ts x r H; cbn [p_union_rest] in H; [discriminate|].
  destruct (N.eqb (tokc ts) ch_bar); [|inversion H; subst; lia].
  destruct (tl ts) as [|t q] eqn:ET; [discriminate|]. rewrite <- ET in H.
  destruct (p_path fl ns pe lf d (tl ts)) as [[e ts2]| |] eqn:E; try discriminate. apply p_path_len in E.
  destruct (p_union_rest fl ns pe lf m d ts2) as [[l ts3]| |] eqn:E3; try discriminate. apply IH in E3.
  inversion H; subst. pose proof (tl_len ts). lia.
Qed.

Lemma p_union_rest_fuel : forall m d ts, length ts <= B -> length ts < lf -> length ts < m ->
  p_union_rest fl ns pe lf m d ts <> Fuel.
Proof.
  induction m as [|m IH]; intros d ts HB Hl Hm; [lia|]. cbn [p_union_rest].
  destruct (N.eqb (tokc ts) ch_bar) eqn:E0; [|discriminate].
  destruct (tokc_cons _ _ E0 ltac:(chr)) as (t & q & ->). cbn [tl]. cbn [length] in *.
  destruct q as [|t1 q1] eqn:EQ; [discriminate|]. rewrite <- EQ in *.
  pose proof (p_path_fuel d q ltac:(lia) ltac:(lia)) as F.
  destruct (p_path fl ns pe lf d q) as [[e ts2]| |] eqn:E; try discriminate; [|congruence]. apply p_path_len in E.
  specialize (IH d ts2 ltac:(lia) ltac:(lia) ltac:(lia)).
  destruct (p_union_rest fl ns pe lf m d ts2) as [[? ?]| |]; try discriminate. congruence.
Qed.

Lemma p_union_len : forall d, shrinks (p_union fl ns pe lf d).
Proof.
  unfold p_union. intros d ts x r H.
  destruct (p_path fl ns pe lf d ts) as [[e ts1]| |] eqn:E; try discriminate. apply p_path_len in E.
  destruct (p_union_rest fl ns pe lf lf d ts1) as [[l ts2]| |] eqn:E2; try discriminate. apply p_union_rest_len in E2.
  destruct l; inversion H; subst; lia.
Qed.

Lemma p_union_fuel : forall d, nofuel (p_union fl ns pe lf d).
Proof.
  unfold p_union. intros d ts HB Hm.
  pose proof (p_path_fuel d ts HB Hm) as F.
  destruct (p_path fl ns pe lf d ts) as [[e ts1]| |] eqn:E; try discriminate; [|congruence]. apply p_path_len in E.
  pose proof (p_union_rest_fuel lf d ts1 ltac:(lia) ltac:(lia) ltac:(lia)) as F2.
  destruct (p_union_rest fl ns pe lf lf d ts1) as [[l ts2]| |]; try discriminate; [|congruence].
  destruct l; discriminate.
Qed.

Lemma p_unary_len : forall m d, shrinks (p_unary fl ns pe lf m d).
Proof.
  induction m as [|m IH]; intros d ts x r H; cbn [p_unary] in H; [discriminate|].
  destruct (N.eqb (tokc ts) ch_hyphen); [|eapply p_union_len; eauto].
  destruct (tl ts) as [|t q] eqn:ET; [discriminate|]. rewrite <- ET in H.
  destruct (Nat.ltb gen_xpc_max_nesting (S d)); [discriminate|].
  destruct (p_unary fl ns pe lf m (S d) (tl ts)) as [[e ts2]| |] eqn:E; try discriminate. apply IH in E.
  inversion H; subst. pose proof (tl_len ts). lia.
Qed.

Lemma p_unary_fuel : forall m d ts, length ts <= B -> length ts < lf -> length ts < m -> p_unary fl ns pe lf m d ts <> Fuel.
Proof.
  induction m as [|m IH]; intros d ts HB Hl Hm; [lia|]. cbn [p_unary].
  destruct (N.eqb (tokc ts) ch_hyphen) eqn:E0; [|apply p_union_fuel; assumption].
  destruct (tokc_cons _ _ E0 ltac:(chr)) as (t & q & ->). cbn [tl]. cbn [length] in *.
  destruct q as [|t1 q1] eqn:EQ; [discriminate|]. rewrite <- EQ in *.
  destruct (Nat.ltb gen_xpc_max_nesting (S d)); [discriminate|].
  specialize (IH (S d) q ltac:(lia) ltac:(lia) ltac:(lia)).
  destruct (p_unary fl ns pe lf m (S d) q) as [[? ?]| |]; try discriminate. congruence.
Qed.

Lemma p_lrest_len : forall sub lvl, (shrinks sub) -> forall m acc, shrinks (p_lrest sub lvl m acc).
Proof.
  intros sub lvl Hs. induction m as [|m IH]; intros acc ts x r H; cbn [p_lrest] in H; [discriminate|].
  destruct (match_op lvl ts) as [[o ts1]|] eqn:E0; [|inversion H; subst; lia]. apply match_op_len in E0.
  destruct ts1 as [|t1 q1] eqn:EQ; [discriminate|]. rewrite <- EQ in *.
  destruct (sub ts1) as [[b ts2]| |] eqn:E; try discriminate. apply Hs in E.
  apply IH in H. lia.
Qed.

Lemma p_lrest_fuel : forall sub lvl, (shrinks sub) -> (nofuel sub) ->
  forall m acc ts, length ts <= B -> length ts < lf -> length ts < m -> p_lrest sub lvl m acc ts <> Fuel.
Proof.
  intros sub lvl Hs Hf. induction m as [|m IH]; intros acc ts HB Hl Hm; [lia|]. cbn [p_lrest].
  destruct (match_op lvl ts) as [[o ts1]|] eqn:E0; [|discriminate]. apply match_op_len in E0.
  destruct ts1 as [|t1 q1] eqn:EQ; [discriminate|]. rewrite <- EQ in *.
  pose proof (Hf ts1 ltac:(lia) ltac:(lia)) as F.
  destruct (sub ts1) as [[b ts2]| |] eqn:E; try discriminate; [|congruence]. apply Hs in E.
  apply IH; lia.
Qed.

Lemma p_rlevel_len : forall sub lvl, (shrinks sub) -> forall m, shrinks (p_rlevel sub lvl m).
Proof.
  intros sub lvl Hs. induction m as [|m IH]; intros ts x r H; cbn [p_rlevel] in H; [discriminate|].
  destruct (sub ts) as [[a ts1]| |] eqn:E; try discriminate. apply Hs in E.
  destruct (match_op lvl ts1) as [[o ts2]|] eqn:E0; [|inversion H; subst; lia]. apply match_op_len in E0.
  destruct ts2 as [|t1 q1] eqn:EQ; [discriminate|]. rewrite <- EQ in *.
  destruct (p_rlevel sub lvl m ts2) as [[b ts3]| |] eqn:E3; try discriminate. apply IH in E3.
  inversion H; subst. lia.
Qed.

Lemma p_rlevel_fuel : forall sub lvl, (shrinks sub) -> (nofuel sub) ->
  forall m ts, length ts <= B -> length ts < lf -> length ts < m -> p_rlevel sub lvl m ts <> Fuel.
Proof.
  intros sub lvl Hs Hf. induction m as [|m IH]; intros ts HB Hl Hm; [lia|]. cbn [p_rlevel].
  pose proof (Hf ts HB Hl) as F.
  destruct (sub ts) as [[a ts1]| |] eqn:E; try discriminate; [|congruence]. apply Hs in E.
  destruct (match_op lvl ts1) as [[o ts2]|] eqn:E0; [|discriminate]. apply match_op_len in E0.
  destruct ts2 as [|t1 q1] eqn:EQ; [discriminate|]. rewrite <- EQ in *.
  specialize (IH ts2 ltac:(lia) ltac:(lia) ltac:(lia)).
  destruct (p_rlevel sub lvl m ts2) as [[? ?]| |]; try discriminate. congruence.
Qed.

Lemma p_level_both : forall lvl d, (shrinks (p_level fl ns pe lf lvl d)) /\ (nofuel (p_level fl ns pe lf lvl d)).
Proof.
  induction lvl as [|l IH]; intros d.
  - split; cbn [p_level].
    + intros ts x r H. eapply p_unary_len; eauto.
    + intros ts HB Hm. apply p_unary_fuel; assumption.
  - destruct (IH d) as [IL IF]. split; cbn [p_level]; destruct (right_nested (S l)).
    + intros ts x r H. eapply p_rlevel_len; eauto.
    + intros ts x r H.
      destruct (p_level fl ns pe lf l d ts) as [[a ts1]| |] eqn:E; try discriminate. apply IL in E.
      apply (p_lrest_len _ _ IL) in H. lia.
    + intros ts HB Hm. apply p_rlevel_fuel; auto.
    + intros ts HB Hm. pose proof (IF ts HB Hm) as F.
      destruct (p_level fl ns pe lf l d ts) as [[a ts1]| |] eqn:E; try discriminate; [|congruence]. apply IL in E.
      apply p_lrest_fuel; auto; lia.
Qed.

End Fuel.

Lemma p_expr_both : forall fl ns n d ts,
  (forall e r, p_expr fl ns n d ts = Ok (e, r) -> length r <= length ts) /\
  (length ts < n -> p_expr fl ns n d ts <> Fuel).
Proof.
  intros fl ns. induction n as [|n IH]; intros d ts.
  - split; [discriminate|lia].
  - cbn [p_expr]. destruct (Nat.ltb gen_xpc_max_nesting (S d)); [split; discriminate|].
    assert (PL : forall d ts e r, p_expr fl ns n d ts = Ok (e, r) -> length r <= length ts) by (intros; eapply IH; eauto).
    assert (PF : forall d ts, length ts < n -> p_expr fl ns n d ts <> Fuel) by (intros; eapply IH; eauto).
    destruct (p_level_both fl ns (p_expr fl ns n) (S n) n PL PF 6 (S d)) as [L F].
    split; [intros; eapply L; eauto|]. intros Hn. apply F; lia.
Qed.

(* out of fuel is unreachable from the entry point *)
Theorem parse_fuel_sufficient_m : forall fl ns ts, parse fl ns ts <> Fuel.
Proof.
  intros fl ns ts. unfold parse.
  destruct (p_expr_both fl ns (S (length ts)) 0 ts) as [_ F]. specialize (F ltac:(lia)).
  destruct (p_expr fl ns (S (length ts)) 0 ts) as [[e [|t r]]| |]; try discriminate. congruence.
Qed.

(* the tokenizer reads one character per step by structural recursion: it has no Fuel outcome either *)
Lemma lex_step_nofuel : forall fl ns c nx prev acc m, lex_step fl ns c nx prev acc m <> Fuel.
Proof.
  intros. unfold lex_step, step_idle, do_delim, flush, map_ns.
  repeat nf1; discriminate.
Qed.

Lemma lex_nofuel : forall fl ns rest prev acc m, lex fl ns rest prev acc m <> Fuel.
Proof.
  intros fl ns. induction rest as [|c r IH]; intros prev acc m; cbn [lex].
  - destruct m; try discriminate. unfold flush, map_ns.
    repeat nf1; discriminate.
  - pose proof (lex_step_nofuel fl ns c (hd_error r) prev acc m).
    destruct (lex_step fl ns c (hd_error r) prev acc m) as [[a1 m1]| |]; try discriminate; [apply IH|congruence].
Qed.

Theorem compile_total_m : forall fl ns s, compile fl ns s <> Fuel.
Proof.
  intros fl ns s. unfold compile, tokenize. pose proof (lex_nofuel fl ns s [] [] MIdle).
  destruct (lex fl ns s [] [] MIdle) as [[|t r]| |]; try discriminate; [|congruence].
  apply parse_fuel_sufficient_m.
Qed.
