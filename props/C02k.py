"""C02k — stand-alone wrapper of the part "codepoints" of C02 (props/C02_codepoints.py) for development:
   python3 check.py C02k [--tier thorough]"""
from props.C02_codepoints import run_part

LEVEL = "proof"


def run(ctx):
    run_part(ctx)
    return ctx.finish("proof", checker_cmd="coq_makefile -f _CoqProject -o Makefile && make -k Properties_C02k.vo (Coq 8.16.1, full .vo build) ; coqc Properties_C02k.v (Print Assumptions)",
                      explanation="theorems over the Gallina model of the character versions of string-length / substring / translate (flags regenerated "
                                  "from /repo) + correspondence of the extracted functions of this tree with the rebuilt library + vlib/xpref.py on code points")


def replay(ctx, path):
    """a replay file of the part: '#expect G:<value>' followed by a case line of harness/xp.cpp, or by
    '# (harness/xpcp.cpp) <id>|cnt|<events>' (the length counter driven directly); exit status 1 when a case deviates"""
    import os, tempfile
    from vlib import core
    from props import C02
    raw = open(path, encoding="utf-8").read().split("\n")
    mark = "# (harness/xpcp.cpp) "
    counter, rest = [], []
    for i, l in enumerate(raw):
        if l.startswith("#expect ") and i + 1 < len(raw) and raw[i + 1].startswith(mark):
            counter.append((l.split()[1], raw[i + 1][len(mark):]))
        elif l.startswith(mark) or (l.startswith("#expect ") and i + 1 < len(raw) and raw[i + 1].startswith(mark)):
            continue
        else:
            rest.append(l)
    bad = 0
    core.build_lib("plain")
    if counter:
        exe, ok, log = core.build_harness("xpcp", "plain")
        rc, res, out = core.run_lines(exe, "\n".join(c[1] for c in counter) + "\n", sep="|")
        for exp, line in counter:
            got = res.get(line.split("|")[0])
            want = C02.parse_value(exp[2:] if exp.startswith("G:") else exp)
            ok = got is not None and float(got) == want
            print("%s %s: FormatterStringLengthCounter counted %s, the string has %d characters" % ("PASS" if ok else "FAIL", line, got, want))
            bad += 0 if ok else 1
    rc2 = 0
    if any(l.strip() and not l.startswith("#") for l in rest):
        with tempfile.NamedTemporaryFile("w", suffix=".txt", delete=False, encoding="utf-8") as f:
            f.write("\n".join(rest) + "\n")
        rc2 = C02.replay(ctx, f.name)
        os.unlink(f.name)
    return 1 if (bad or rc2) else 0
