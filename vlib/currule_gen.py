"""C10 part "currule": generator of small multi-module stylesheets that watch the current template rule,
their rendering as XSLT and as a line for the extracted model (ocaml/curRule_driver.ml).

A program: an import tree of modules (depth <= 3); every module has match rules (patterns a, b, *, /, a|b; modes;
priorities) and named templates; top-level variables with content; template bodies mix text markers, transparent
containers (xsl:if, literal result element, xsl:variable + xsl:value-of, xsl:choose/xsl:when, xsl:element, xsl:copy),
xsl:for-each, xsl:call-template (with a parameter, without, and as the only child = the "direct template"
shortcut), xsl:apply-templates, xsl:apply-imports and references to the top-level variables.  Output method text:
the result is the concatenation of the markers, so it shows which rule fired at every xsl:apply-imports.

instr (tuples): ("t", code) ("b", kind, body) ("f", "c"|"s", body) ("c", name, None|body) ("a", "c"|"s", mode)
                ("i", site) ("g", g)
Termination by construction: named templates call higher-numbered ones only; select="." re-application only
from a rule without mode into mode m1; top-level variables do not refer to top-level variables (a rule reached
from one through xsl:apply-imports/xsl:apply-templates may: that is the circularity error on both sides).

Stream "wp" (gen_case(..., with_wp=True); oracle only, the model line does not know it): one more instruction
("w", "c"|"s", mode, body) = xsl:apply-templates with <xsl:with-param name="p"> whose content is body.  In such a case every
match rule starts with <xsl:param name="p"/><xsl:value-of select="$p"/>, so the value of the parameter shows in the output.
The content of xsl:with-param belongs to the template that contains the xsl:apply-templates: current node, current template
rule and current mode are those of that template, not the mode named by the instruction (section 5.6: xsl:apply-imports
there works "in the current template rule's mode").  The draws of the other streams are unchanged (no draw is added
unless with_wp)."""
import re

XSL = "http://www.w3.org/1999/XSL/Transform"
NAMES = ["a", "b", "c", "d"]
NAME_ID = {"a": 1, "b": 2, "c": 3, "d": 4}
MODES = [None, "m1"]
MODE_ID = {None: "-", "m1": "1"}
BLOCK_KINDS = 6


class Gen:
    def __init__(self, r, cid, with_globals, n_mod=None, with_wp=False):
        self.with_wp = with_wp
        self.r = r
        self.cid = cid
        self.texts = {0: ""}
        self.site = 0
        self.var = 0
        self.with_globals = with_globals
        self.n_mod = n_mod

    def text(self, s=None):
        k = len(self.texts)
        self.texts[k] = s if s is not None else "x%d." % k
        return k

    # ---------------------------------------------------------------- structure
    def modules(self):
        r = self.r
        budget = [self.n_mod if self.n_mod is not None else r.choice([1, 2, 2, 3, 3, 4, 5])]
        mods = []

        def mk(path, depth):
            m = {"path": path, "imports": [], "rules": [], "idx": len(mods)}
            mods.append(m)
            k = 0
            while budget[0] > 0 and depth < 3 and k < 2 and r.random() < (0.9 if depth == 0 else 0.55):
                budget[0] -= 1
                m["imports"].append(mk(path + (k,), depth + 1))
                k += 1
            return m
        root = mk((), 0)
        return root, mods

    def doc(self):
        r = self.r
        nodes = [{"name": None, "kids": []}]

        def elem(parent, depth):
            i = len(nodes)
            nodes.append({"name": r.choice(NAMES[:3]), "kids": []})
            nodes[parent]["kids"].append(i)
            if depth < 3:
                for _ in range(r.choice([0, 1, 1, 2] if depth else [1, 2, 2])):
                    if len(nodes) < 7:
                        elem(i, depth + 1)
        elem(0, 0)
        return nodes

    def body(self, ctx, depth=0, top=True, in_foreach=False):
        """ctx: {"kind": "rule"|"named"|"global", "mode": .., "name": int}"""
        r = self.r
        callable_names = [n["name"] for n in self.named if ctx["kind"] != "named" or n["name"] > ctx["name"]]
        if top is not None and callable_names and r.random() < 0.16:
            return [("c", r.choice(callable_names), None)]          # the shortcut
        out = []
        for _ in range(r.choice([1, 2, 2, 3] if depth == 0 else [1, 1, 2])):
            c = r.random()
            if c < 0.22 or depth > 2:
                out.append(("t", self.text()))
            elif c < 0.36 and depth < 2:
                out.append(("b", r.randrange(BLOCK_KINDS), self.body(ctx, depth + 1)))
            elif c < 0.46 and depth < 2:
                out.append(("f", r.choice(["s", "s", "c"]), self.body(ctx, depth + 1, in_foreach=True)))
            elif c < 0.64 and callable_names:
                name = r.choice(callable_names)
                decl = [n for n in self.named if n["name"] == name][0]["declares"]
                wp = self.body(ctx, depth + 1) if decl and r.random() < 0.5 else None
                out.append(("c", name, wp))
            elif c < 0.74:
                if ctx["kind"] == "rule" and ctx["mode"] is None and r.random() < 0.3:
                    a = ("a", "s", "m1")
                else:
                    a = ("a", "c", r.choice(MODES))
                if self.with_wp and depth < 2 and r.random() < 0.7:
                    a = ("w", a[1], a[2], self.body(ctx, depth + 1, in_foreach=in_foreach))
                out.append(a)
            elif c < 0.93:
                self.site += 1
                if in_foreach:      # xsl:apply-imports as a child of xsl:for-each is refused when the stylesheet is compiled
                    out.append(("b", r.randrange(BLOCK_KINDS), [("i", self.site)]))
                else:
                    out.append(("i", self.site))
            elif self.globals and ctx["kind"] != "global":
                out.append(("g", r.choice(self.globals)["g"]))
            else:
                out.append(("t", self.text()))
        if len(out) == 1 and out[0][0] == "c" and out[0][2] is None:
            pass                                                     # a shortcut after all: fine
        return out

    def case(self):
        r = self.r
        root, mods = self.modules()
        nodes = self.doc()
        # named templates first (bodies later: they refer to each other)
        self.named = []
        for k in range(r.choice([1, 2, 3, 4])):
            self.named.append({"name": k + 1, "tid": 100 + k + 1, "mod": r.randrange(len(mods)),
                               "declares": r.random() < 0.4, "body": None})
        self.globals = []
        if self.with_globals:
            for k in range(r.choice([1, 1, 2])):
                self.globals.append({"g": k + 1, "mod": r.randrange(len(mods)), "body": None})
        tid = [0]
        pid = [0]

        def alt(text):
            pid[0] += 1
            return {"text": text, "pid": pid[0] - 1}

        def rule(m, pats, mode, prio):
            tid[0] += 1
            return {"id": tid[0], "alts": [alt(p) for p in pats], "mode": mode, "prio": prio, "mod": m["idx"], "body": None}
        for m in mods:
            if m["idx"] == 0 and r.random() < 0.9:
                m["rules"].append(rule(m, ["/"], None, None))
            for _ in range(r.choice([1, 2, 2, 3, 4])):
                c = r.random()
                if c < 0.5:
                    pats = [r.choice(NAMES[:3])]
                elif c < 0.75:
                    pats = ["*"]
                elif c < 0.9:
                    pats = r.sample(NAMES[:3], 2)
                else:
                    pats = ["/"]
                m["rules"].append(rule(m, pats, r.choice([None, None, None, "m1"]),
                                       r.choice([None, None, None, 0, 500, -500, 1000])))
        for m in mods:
            for ru in m["rules"]:
                inner = self.body({"kind": "rule", "mode": ru["mode"]})
                if len(inner) == 1 and inner[0][0] == "c" and inner[0][2] is None and r.random() < 0.6:
                    ru["body"] = inner                               # a rule that is nothing but a call
                else:
                    ru["body"] = [("t", self.text("[T%d:" % ru["id"]))] + inner + [("t", self.text("]"))]
        for n in self.named:
            inner = self.body({"kind": "named", "name": n["name"]})
            direct = len(inner) == 1 and inner[0][0] == "c" and inner[0][2] is None
            if direct and not n["declares"] and r.random() < 0.6:
                n["body"] = inner
            else:
                n["body"] = [("t", self.text("{n%d:" % n["name"]))] + inner + [("t", self.text("}"))]
        for g in self.globals:
            inner = self.body({"kind": "global"})
            direct = len(inner) == 1 and inner[0][0] == "c" and inner[0][2] is None
            g["body"] = inner if direct and r.random() < 0.7 else [("t", self.text("<g%d:" % g["g"]))] + inner + [("t", self.text(">"))]
        return {"id": self.cid, "root": root, "mods": mods, "nodes": nodes, "named": self.named, "globals": self.globals,
                "texts": self.texts, "with_globals": self.with_globals, "wp": self.with_wp}


def gen_case(r, cid, with_globals, n_mod=None, with_wp=False):
    return Gen(r, cid, with_globals, n_mod, with_wp).case()


# --------------------------------------------------------------------------------------------------
# rendering as XSLT

def prio_text(p):
    s = "%s%d.%03d" % ("-" if p < 0 else "", abs(p) // 1000, abs(p) % 1000)
    return s.rstrip("0").rstrip(".") if "." in s else s


def body_xml(case, body, cnt):
    s = ""
    for ins in body:
        k = ins[0]
        if k == "t":
            s += case["texts"][ins[1]].replace("&", "&amp;").replace("<", "&lt;").replace(">", "&gt;")
        elif k == "b":
            inner = body_xml(case, ins[2], cnt)
            kind = ins[1]
            if kind == 0:
                s += '<xsl:if test="true()">%s</xsl:if>' % inner
            elif kind == 1:
                s += "<e>%s</e>" % inner
            elif kind == 2:
                cnt[0] += 1
                s += '<xsl:variable name="v%d">%s</xsl:variable><xsl:value-of select="$v%d"/>' % (cnt[0], inner, cnt[0])
            elif kind == 3:
                s += '<xsl:choose><xsl:when test="true()">%s</xsl:when></xsl:choose>' % inner
            elif kind == 4:
                s += '<xsl:element name="e">%s</xsl:element>' % inner
            else:
                s += "<xsl:copy>%s</xsl:copy>" % inner
        elif k == "f":
            s += '<xsl:for-each select="%s">%s</xsl:for-each>' % ("*" if ins[1] == "c" else ".", body_xml(case, ins[2], cnt))
        elif k == "c":
            if ins[2] is None:
                s += '<xsl:call-template name="n%d"/>' % ins[1]
            else:
                s += '<xsl:call-template name="n%d"><xsl:with-param name="p">%s</xsl:with-param></xsl:call-template>' % (
                    ins[1], body_xml(case, ins[2], cnt))
        elif k == "a":
            s += '<xsl:apply-templates select="%s"%s/>' % ("*" if ins[1] == "c" else ".", ' mode="%s"' % ins[2] if ins[2] else "")
        elif k == "w":
            s += '<xsl:apply-templates select="%s"%s><xsl:with-param name="p">%s</xsl:with-param></xsl:apply-templates>' % (
                "*" if ins[1] == "c" else ".", ' mode="%s"' % ins[2] if ins[2] else "", body_xml(case, ins[3], cnt))
        elif k == "i":
            s += "<xsl:apply-imports/>"
        elif k == "g":
            s += '<xsl:value-of select="$g%d"/>' % ins[1]
    return s


def module_name(m):
    return "main.xsl" if not m["path"] else "m%s.xsl" % "_".join(str(i) for i in m["path"])


def sheet_files(case):
    """-> (main text, {file name: text})"""
    files = {}
    cnt = [0]
    for m in case["mods"]:
        s = '<xsl:stylesheet version="1.0" xmlns:xsl="%s">' % XSL
        for c in m["imports"]:
            s += '<xsl:import href="%s"/>' % module_name(c)
        if m["idx"] == 0:
            s += '<xsl:output method="text"/>'
        for g in case["globals"]:
            if g["mod"] == m["idx"]:
                s += '<xsl:variable name="g%d">%s</xsl:variable>' % (g["g"], body_xml(case, g["body"], cnt))
        for ru in m["rules"]:
            s += '<xsl:template match="%s"%s%s>%s%s</xsl:template>' % (
                "|".join(a["text"] for a in ru["alts"]), ' mode="%s"' % ru["mode"] if ru["mode"] else "",
                ' priority="%s"' % prio_text(ru["prio"]) if ru["prio"] is not None else "",
                '<xsl:param name="p"/><xsl:value-of select="$p"/>' if case.get("wp") else "", body_xml(case, ru["body"], cnt))
        for n in case["named"]:
            if n["mod"] == m["idx"]:
                s += '<xsl:template name="n%d">%s%s</xsl:template>' % (
                    n["name"], '<xsl:param name="p"/><xsl:value-of select="$p"/>' if n["declares"] else "",
                    body_xml(case, n["body"], cnt))
        s += "</xsl:stylesheet>"
        files[module_name(m)] = s
    main = files.pop("main.xsl")
    return main, files


def doc_xml(case):
    nodes = case["nodes"]

    def el(i):
        n = nodes[i]
        return "<%s>%s</%s>" % (n["name"], "".join(el(k) for k in n["kids"]), n["name"])
    return "".join(el(k) for k in nodes[0]["kids"])


# --------------------------------------------------------------------------------------------------
# matching of the simple patterns (shared by the model line and by the reference evaluator: a, *, /)

def pat_matches(text, nodes, i):
    if text == "/":
        return i == 0
    if i == 0:
        return False
    return text == "*" or nodes[i]["name"] == text


def default_priority(text):
    """XSLT 1.0 section 5.5, in 1/1000"""
    return {"*": -500, "/": 500}.get(text, 0)


# --------------------------------------------------------------------------------------------------
# the line for the model

def body_tok(body, named_declares):
    out = [str(len(body))]
    for ins in body:
        k = ins[0]
        if k == "t":
            out.append("t %d" % ins[1])
        elif k == "b":
            out.append("b " + body_tok(ins[2], named_declares))
        elif k == "f":
            out.append("f %s %s" % (ins[1], body_tok(ins[2], named_declares)))
        elif k == "c":
            out.append("c %d %s" % (ins[1], "-" if ins[2] is None else "+ " + body_tok(ins[2], named_declares)))
        elif k == "a":
            out.append("a %s %s" % (ins[1], MODE_ID[ins[2]]))
        elif k == "w":
            raise ValueError("the model line has no xsl:apply-templates with xsl:with-param (stream wp is oracle only)")
        elif k == "i":
            out.append("i %d" % ins[1])
        elif k == "g":
            out.append("g %d" % ins[1])
    return " ".join(out)


def model_line(case, tmpl_facts, target_tokens, alt_ctor, flags):
    """flags: (per_alternative, call_keeps, global_null, global_direct)"""
    nodes = case["nodes"]

    def alt_tok(a):
        t = a["text"]
        ca = alt_ctor("/", "root") if t == "/" else alt_ctor("*", "wild") if t == "*" else alt_ctor(t, "name", False, t)
        return "%d %s" % (a["pid"], target_tokens(ca, tmpl_facts))

    def sheet_tok(m):
        items = " ".join("T %d %s %s %d %s" % (ru["id"], MODE_ID[ru["mode"]], "-" if ru["prio"] is None else str(ru["prio"]),
                                                len(ru["alts"]), " ".join(alt_tok(a) for a in ru["alts"])) for ru in m["rules"])
        return "S %d %s %d %s" % (len(m["rules"]), items, len(m["imports"]), " ".join(sheet_tok(c) for c in m["imports"]))
    alts = [a for m in case["mods"] for ru in m["rules"] for a in ru["alts"]]
    alts.sort(key=lambda a: a["pid"])
    bits = ["".join("1" if pat_matches(a["text"], nodes, i) else "0" for i in range(len(nodes))) for a in alts]
    keys = ["r"] + ["e%d" % NAME_ID[n["name"]] for n in nodes[1:]]
    decl = {n["name"]: n["declares"] for n in case["named"]}

    def path_tok(p):
        return "%d %s" % (len(p), " ".join(str(i) for i in p))
    rules = [ru for m in case["mods"] for ru in m["rules"]]
    rtok = " ".join("%d %s %s" % (ru["id"], path_tok(case["mods"][ru["mod"]]["path"]), body_tok(ru["body"], decl)) for ru in rules)
    # a named template that declares the parameter has two more children (xsl:param, xsl:value-of): never the shortcut
    ntok = " ".join("%d %d %s %s" % (n["name"], n["tid"], path_tok(case["mods"][n["mod"]]["path"]),
                                     body_tok(([("t", 0)] if n["declares"] else []) + n["body"], decl)) for n in case["named"])
    gtok = " ".join("%d %s" % (g["g"], body_tok(g["body"], decl)) for g in case["globals"])
    dtok = " ".join("%d %d %s" % (i, len(n["kids"]), " ".join(str(k) for k in n["kids"])) for i, n in enumerate(nodes))
    pa, ck, gn, gd = flags
    line = "%s V%d C%d%d%d %s N %d %s M %d %s R %d %s T %d %s G %d %s D %d %s" % (
        case["id"], 1 if pa else 0, 1 if ck else 0, 1 if gn else 0, 1 if gd else 0, sheet_tok(case["root"]),
        len(nodes), " ".join(keys), len(bits), " ".join(bits), len(rules), rtok, len(case["named"]), ntok,
        len(case["globals"]), gtok, len(nodes), dtok)
    return re.sub(r"\s+", " ", line)


def render_codes(case, codes):
    return "".join(case["texts"][k] for k in codes)
