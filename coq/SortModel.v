(* C16 — lemmas about the model of xsl:sort (SortDefs.v). *)
From Coq Require Import ZArith List Bool Arith Lia Permutation Sorted.
Require Import ZifyBool.
Import ListNotations.
Require Import XV.GenSort XV.SortDefs XV.SortOrder.

(* ------------------------------------------------------------------------------------------ *)
(* numeric comparison *)

(* rank: NaN below everything, otherwise the sign-magnitude order of the bit pattern *)
Definition d_rank (b : Z) : Z := if d_is_nan b then (- two63)%Z else d_ord b.

Lemma d_mag_bound : forall b, (0 <= d_mag b < two63)%Z.
Proof. intros b. unfold d_mag. apply Z.mod_pos_bound. reflexivity. Qed.

Lemma d_ord_bound : forall b, (- two63 < d_ord b < two63)%Z.
Proof. intros b. unfold d_ord. pose proof (d_mag_bound b). destruct (d_neg b); lia. Qed.

Lemma num_compare_rank : forall a b, num_compare a b = Z.compare (d_rank a) (d_rank b).
Proof.
  intros a b. unfold num_compare, d_rank, d_lt, d_gt, nan_lhs_result, nan_rhs_result, lt_result, gt_result.
  pose proof (d_ord_bound a). pose proof (d_ord_bound b).
  destruct (d_is_nan a) eqn:Na; destruct (d_is_nan b) eqn:Nb; cbn [negb orb].
  - symmetry. apply Z.compare_refl.
  - symmetry. apply Z.compare_lt_iff. lia.
  - symmetry. apply Z.compare_gt_iff. lia.
  - destruct (Z.ltb (d_ord a) (d_ord b)) eqn:L.
    + symmetry. apply Z.compare_lt_iff. lia.
    + destruct (Z.ltb (d_ord b) (d_ord a)) eqn:G.
      * symmetry. apply Z.compare_gt_iff. lia.
      * symmetry. apply Z.compare_eq_iff. lia.
Qed.

Lemma Zcompare_tp : total_preorder Z Z.compare.
Proof.
  split.
  - intros x. apply Z.compare_refl.
  - intros x y. apply Z.compare_antisym.
  - intros x y z H1 H2 H. apply Z.compare_gt_iff in H.
    assert (x <= y)%Z by exact H1. assert (y <= z)%Z by exact H2. lia.
Qed.

Theorem num_compare_tp : total_preorder Z num_compare.
Proof.
  pose proof (pullback_tp Z Z d_rank Z.compare Zcompare_tp) as H.
  destruct H as [R S T]. split.
  - intros x. rewrite num_compare_rank. apply R.
  - intros x y. rewrite !num_compare_rank. apply S.
  - intros x y z. rewrite !num_compare_rank. apply T.
Qed.

Theorem num_nan_first : forall a b, d_is_nan a = true -> d_is_nan b = false -> num_compare a b = Lt.
Proof. intros a b Ha Hb. unfold num_compare. rewrite Ha, Hb. reflexivity. Qed.

Theorem num_nan_last_rhs : forall a b, d_is_nan a = false -> d_is_nan b = true -> num_compare a b = Gt.
Proof. intros a b Ha Hb. unfold num_compare. rewrite Ha, Hb. reflexivity. Qed.

Theorem num_nan_nan : forall a b, d_is_nan a = true -> d_is_nan b = true -> num_compare a b = Eq.
Proof. intros a b Ha Hb. unfold num_compare. rewrite Ha, Hb. reflexivity. Qed.

Theorem num_compare_numbers : forall a b, d_is_nan a = false -> d_is_nan b = false ->
    num_compare a b = Z.compare (d_ord a) (d_ord b).
Proof. intros a b Ha Hb. rewrite num_compare_rank. unfold d_rank. rewrite Ha, Hb. reflexivity. Qed.

(* every non-NaN value lies between -Infinity and +Infinity; the two zeros coincide *)
Definition bits_pos_inf : Z := 0x7FF0000000000000.
Definition bits_neg_inf : Z := 0xFFF0000000000000.
Definition bits_pos_zero : Z := 0.
Definition bits_neg_zero : Z := 0x8000000000000000.

Theorem num_inf_bounds : forall b, d_is_nan b = false ->
    num_compare bits_neg_inf b <> Gt /\ num_compare b bits_pos_inf <> Gt.
Proof.
  intros b Hb.
  assert (N1 : d_is_nan bits_neg_inf = false) by reflexivity.
  assert (N2 : d_is_nan bits_pos_inf = false) by reflexivity.
  rewrite (num_compare_numbers _ _ N1 Hb), (num_compare_numbers _ _ Hb N2).
  change (d_ord bits_neg_inf) with (- inf_mag)%Z. change (d_ord bits_pos_inf) with inf_mag.
  unfold d_is_nan in Hb. unfold d_ord. pose proof (d_mag_bound b).
  split; intro G; apply Z.compare_gt_iff in G; destruct (d_neg b); lia.
Qed.

Theorem num_zeros_equal : num_compare bits_pos_zero bits_neg_zero = Eq /\ num_compare bits_neg_zero bits_pos_zero = Eq.
Proof. split; reflexivity. Qed.

(* ------------------------------------------------------------------------------------------ *)
(* the multi-key comparator is a total preorder when collation is one *)

Definition coll_ok (coll : str -> case_order -> str -> str -> comparison) : Prop :=
  forall lang co, total_preorder str (coll lang co).

Section Comparator.
  Variable coll : str -> case_order -> str -> str -> comparison.
  Hypothesis COLL : coll_ok coll.
  Variable nev : nat -> nat -> Z.
  Variable sev : nat -> nat -> str.

  (* one key with its direction *)
  Definition keyc (k : skey) (ki : nat) (a b : entry) : comparison :=
    flip (k_desc k) (key_compare coll nev sev k ki a b).

  Lemma flip_revc : forall d r, flip d r = if d then CompOpp r else r.
  Proof. reflexivity. Qed.

  Lemma key_compare_tp : forall k ki, total_preorder entry (key_compare coll nev sev k ki).
  Proof.
    intros k ki. unfold key_compare. destruct (k_num k).
    - apply (pullback_tp entry Z (fun e => nev ki (e_pos e)) num_compare num_compare_tp).
    - apply (pullback_tp entry str (fun e => sev ki (e_pos e)) (coll (k_lang k) (k_case k)) (COLL _ _)).
  Qed.

  Lemma keyc_tp : forall k ki, total_preorder entry (keyc k ki).
  Proof.
    intros k ki. unfold keyc, flip. destruct (k_desc k).
    - apply (revc_tp entry _ (key_compare_tp k ki)).
    - apply key_compare_tp.
  Qed.

  Lemma compare_from_lexc : forall k rest ki a b,
      compare_from coll nev sev (k :: rest) ki a b = lexc entry (keyc k ki) (compare_from coll nev sev rest (S ki)) a b.
  Proof.
    intros. unfold lexc, keyc. simpl. destruct (key_compare coll nev sev k ki a b), (k_desc k); reflexivity.
  Qed.

  Theorem compare_from_tp : forall ks ki, total_preorder entry (compare_from coll nev sev ks ki).
  Proof.
    induction ks as [|k rest IH]; intros ki.
    - apply const_eq_tp.
    - pose proof (lexc_tp entry _ _ (keyc_tp k ki) (IH (S ki))) as [R S T]. split.
      + intros x. rewrite compare_from_lexc. apply R.
      + intros x y. rewrite !compare_from_lexc. apply S.
      + intros x y z. rewrite !compare_from_lexc. apply T.
  Qed.

  Theorem cmp_tp : forall keys, total_preorder entry (cmp coll keys nev sev).
  Proof. intros keys. apply compare_from_tp. Qed.

  (* lexicographic reading of the comparator, first key most significant *)
  Theorem compare_from_lt_iff : forall ks ki a b,
      compare_from coll nev sev ks ki a b = Lt <->
      exists i k, nth_error ks i = Some k /\ keyc k (ki + i) a b = Lt /\
                  forall j kj, j < i -> nth_error ks j = Some kj -> keyc kj (ki + j) a b = Eq.
  Proof.
    induction ks as [|k rest IH]; intros ki a b.
    - simpl. split; [discriminate|]. intros (i & k & H & _). destruct i; discriminate.
    - rewrite compare_from_lexc. unfold lexc. split.
      + destruct (keyc k ki a b) eqn:E.
        * intros H. apply IH in H. destruct H as (i & k' & Hn & Hl & Hb).
          exists (S i), k'. split; [exact Hn|]. split; [replace (ki + S i) with (S ki + i) by lia; exact Hl|].
          intros j kj Hj Hnj. destruct j; simpl in Hnj.
          -- inversion Hnj; subst. rewrite Nat.add_0_r. exact E.
          -- replace (ki + S j) with (S ki + j) by lia. apply Hb; [lia | exact Hnj].
        * intros _. exists 0, k. split; [reflexivity|]. split; [rewrite Nat.add_0_r; exact E|]. intros; lia.
        * discriminate.
      + intros (i & k' & Hn & Hl & Hb). destruct i; simpl in Hn.
        * inversion Hn; subst. rewrite Nat.add_0_r in Hl. rewrite Hl. reflexivity.
        * assert (E : keyc k ki a b = Eq).
          { specialize (Hb 0 k). rewrite Nat.add_0_r in Hb. apply Hb; [lia | reflexivity]. }
          rewrite E. apply IH. exists i, k'. split; [exact Hn|]. split; [replace (S ki + i) with (ki + S i) by lia; exact Hl|].
          intros j kj Hj Hnj. replace (S ki + j) with (ki + S j) by lia. apply Hb; [lia | exact Hnj].
  Qed.

  Theorem compare_from_eq_iff : forall ks ki a b,
      compare_from coll nev sev ks ki a b = Eq <->
      forall j kj, nth_error ks j = Some kj -> keyc kj (ki + j) a b = Eq.
  Proof.
    induction ks as [|k rest IH]; intros ki a b.
    - simpl. split; [|reflexivity]. intros _ j kj H. destruct j; discriminate.
    - rewrite compare_from_lexc. unfold lexc. split.
      + intros H j kj Hn. destruct (keyc k ki a b) eqn:E; try discriminate.
        destruct j; simpl in Hn.
        * inversion Hn; subst. rewrite Nat.add_0_r. exact E.
        * replace (ki + S j) with (S ki + j) by lia. apply (proj1 (IH (S ki) a b) H j kj Hn).
      + intros H. assert (E : keyc k ki a b = Eq).
        { specialize (H 0 k). rewrite Nat.add_0_r in H. apply H. reflexivity. }
        rewrite E. apply IH. intros j kj Hn. replace (S ki + j) with (ki + S j) by lia. apply H. exact Hn.
  Qed.
End Comparator.
