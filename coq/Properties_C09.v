(* Properties_C09.v — C09: a node matches a pattern exactly when the pattern, as an expression, selects it.

   Model (PatDefs.v): XPath::stepPattern / doStepPredicate / handleFoundIndex / NodeTester and the op-code
   choice of XPathProcessorImpl::LocationPathPattern / AbbreviatedNodeTestStep, over a node table; the
   specification is the pattern evaluated left to right as an XPath expression (child / attribute steps,
   descendant-or-self::node() for '//', the root for a leading '/', an abstract node-set for id()/key()),
   with predicates filtering by position in the candidate list.  Predicates are arbitrary functions
   node -> position -> size -> boolean-or-number carrying the compiler's positional flag; the only
   hypothesis on them is that an unflagged predicate ignores position and size (proved for the concrete
   predicate language of the generator in flag_sound). *)
From Coq Require Import List Bool Arith.
Require Import XV.PatDefs XV.PatModel XV.PatModel2 XV.PatModel3.
Require XV.GenPat XV.PatSource.
Import ListNotations.

(** Tie to the current source: the case structure of stepPattern, the node-type guards, the op codes the
    compiler emits and the positional flag, as extracted from /repo by translator/gen_pat.py on this run
    (coq/GenPat.v), are the ones the model was written against (coq/PatSource.v). *)
Theorem model_mirrors_source :
  GenPat.step_pattern_cases = PatSource.modelled_cases /\
  GenPat.root_accepted_types = PatSource.root_types /\
  (GenPat.imm_excluded_types = PatSource.imm_excluded /\
   GenPat.any_excluded_root_types = PatSource.root_types
   \/
   (* a source in which a fragment root still passes the child-axis steps: KRoot is the document node only *)
   GenPat.imm_excluded_types = PatSource.imm_excluded_documents_only /\
   GenPat.any_excluded_root_types = PatSource.root_types_documents_only) /\
  GenPat.any_cases_shared = PatSource.any_shared /\
  GenPat.any_document_excluded_for = PatSource.any_document_excluded /\
  GenPat.left_check_skipped_after = PatSource.left_any_like /\
  GenPat.name_test_attribute_axes = PatSource.attribute_axes /\
  GenPat.step_ops = PatSource.compiled_step_ops /\
  GenPat.head_ops = PatSource.compiled_head_ops /\
  GenPat.attr_tester_axis = PatSource.attribute_tester_axis /\
  forallb (fun b => b) GenPat.all_structure_flags = true.
Proof. repeat split; first [left; split; reflexivity | right; split; reflexivity]. Qed.
Print Assumptions model_mirrors_source.

(** The matcher's treatment of one step — node test, then the predicate loop in which flagged or
    number-valued predicates are decided by re-running the forward step from the parent and looking the
    node up (handleFoundIndex) — holds exactly when the node is selected by that step from its parent. *)
Theorem found_index_correct : forall D st c,
  wf_doc D = true -> Forall wf_pred (s_preds st) ->
  (step_ok D (s_attr st) (s_test st) (s_preds st) c = true <->
   exists p, parent D c = Some p /\ In c (spec_step D st p)).
Proof. exact step_ok_spec. Qed.
Print Assumptions found_index_correct.

(** The predicate loop alone: with fi the answer of the re-run, it returns membership in the filtered
    candidate list, whatever mix of positional and non-positional predicates, in any order. *)
Theorem do_step_predicate_correct : forall ps cands c,
  Forall wf_pred ps -> In c cands ->
  do_preds (mem c (apply_preds ps cands)) ps c true = mem c (apply_preds ps cands).
Proof. exact do_preds_correct. Qed.
Print Assumptions do_step_predicate_correct.

(** The expression semantics, read backwards from the selected node (used by everything below). *)
Theorem select_chain : forall D steps, wf_doc D = true -> steps <> [] -> forall cs n,
  In n (sel_steps D cs steps) <->
  exists c, reach D steps n c /\
            exists p, parent D c = Some p /\
                      In p (expand D (match steps with (sp, _) :: _ => sp | [] => SChild end) cs).
Proof. exact sel_steps_reach. Qed.
Print Assumptions select_chain.

(** The selection by a path, split at any step: the steps to the right form a chain from the selected
    node, the steps to the left select the parent of the chain's first node ('/') or an ancestor-or-self of
    that parent ('//'). *)
Theorem select_split : forall D h Q sp st r n, wf_doc D = true ->
  (Sel D h (Q ++ (sp, st) :: r) n <->
   exists c, reach D ((sp, st) :: r) n c /\ LeftOK D h Q sp c).
Proof. exact sel_split. Qed.
Print Assumptions select_split.

(** Whatever the compiled steps find is a chain of the expression semantics (whatever stands to their
    left). *)
Theorem steps_sound : forall D S, wf_doc D = true -> wf_steps S -> S <> [] -> forall acc n g,
  step_pattern D (compile_steps D acc (last_step acc) S) n = (Some g, true) -> reach D S n g.
Proof. exact gen_sound. Qed.
Print Assumptions steps_sound.

(** Completeness of the compiled steps, given the theorem for every proper prefix of the path (this is
    what re-entering stepPattern on the steps to the left provides): if the expression semantics has a
    chain whose left part is selected, the matcher succeeds with a context from which the left part is
    selected as well — the nearest ancestor when the step to the left can match any ancestor, the nearest
    ancestor from whose parent the steps to the left match when that step is exact. *)
Theorem steps_complete : forall D, wf_doc D = true -> forall h P, wf_steps P ->
  (forall Q S, P = Q ++ S -> S <> [] -> (Q = [] -> h <> HRel) -> Full D h Q) ->
  forall S Q sp st r, P = Q ++ S -> S = (sp, st) :: r ->
  forall n,
  (exists c, reach D S n c /\ LeftOK D h Q sp c) ->
  exists g, step_pattern D (compile_steps D (acc_of D h P Q sp) (last_step (acc_of D h P Q sp)) S) n = (Some g, true)
            /\ LeftOK D h Q sp g.
Proof. exact gen_complete. Qed.
Print Assumptions steps_complete.

(** One location path pattern, every head (relative, '/', '//', id()/key()), every shape. *)
Theorem match_path_iff_select : forall D p n,
  wf_doc D = true -> wf_path p -> n < length D ->
  (match_path D p n = true <-> exists a, In a (aos D n) /\ In n (sel_path D p a)).
Proof. exact match_path_iff. Qed.
Print Assumptions match_path_iff_select.

(** C09: for every union of location path patterns, every well-formed document and every node, the
    matcher says "match" exactly when some ancestor-or-self context selects the node.  No guard. *)
Theorem match_iff_select : forall D P n,
  wf_doc D = true -> wf_pattern P -> n < length D ->
  (matches D P n = true <->
   exists p a, In p P /\ In a (aos D n) /\ In n (sel_path D p a)).
Proof. exact matches_iff_selects. Qed.
Print Assumptions match_iff_select.

(** The compiler's positional flag is sound for the generator's predicate language, so for generated
    patterns the hypothesis on predicates is discharged. *)
Theorem flag_sound_concrete : forall D p, cflag p = false ->
  forall n i s i' s', ceval D p n i s = ceval D p n i' s'.
Proof. exact flag_sound. Qed.
Print Assumptions flag_sound_concrete.

Theorem match_iff_select_concrete : forall D P n,
  wf_doc D = true -> c_shape D P = true -> n < length D ->
  (c_match D P n = true <-> selects D (map (path_of D) P) n).
Proof. exact c_match_iff_select. Qed.
Print Assumptions match_iff_select_concrete.

(** The former counterexamples (K14: /a//b on <x><a><b/></a></x>; K15: c/a//b on
    <c><a><y><a><b/></a></y></a></c>) are decided as the expression semantics says. *)
Example k14_repaired : matches k14_doc k14_pat 3 = false /\ selectsb k14_doc k14_pat 3 = false.
Proof. destruct k14_facts as [_ [M S]]. auto. Qed.
Example k15_repaired : matches k15_doc k15_pat 5 = true /\ selectsb k15_doc k15_pat 5 = true.
Proof. destruct k15_facts as [_ [M S]]. auto. Qed.

(** The hypotheses of the theorem are satisfiable with non-trivial outcomes:
    a[@x]//b[position() = last()][1] | //c/@y   on   <a x=""><b/><d><b/><b/></d><c y=""/></a>
    (names a=0 b=1 c=2 d=3 x=4 y=5): matches the first b (node 3), the last b under d (node 6) and @y (8). *)
Definition ex_doc : doc :=
  [mkN KRoot None; el 0 0; mkN (KAttr 4) (Some 1); el 1 1; el 3 1; el 1 4; el 1 4; el 2 1; mkN (KAttr 5) (Some 7)].
Definition ex_pat : list cpath :=
  [mkCP CHRel [(SChild, mkCS false (TName 0) [CHasAttr 4]);
               (SDesc, mkCS false (TName 1) [CPosLast; CNum 1])];
   mkCP CHAbs [(SDesc, mkCS false (TName 2) []); (SChild, mkCS true (TName 5) [])]].

Example hypotheses_satisfiable :
  wf_doc ex_doc = true /\ c_shape ex_doc ex_pat = true /\
  map (c_match ex_doc ex_pat) (seq 0 (length ex_doc)) =
    [false; false; false; true; false; false; true; false; true] /\
  map (c_select ex_doc ex_pat) (seq 0 (length ex_doc)) =
    [false; false; false; true; false; false; true; false; true].
Proof. vm_compute. repeat split. Qed.
