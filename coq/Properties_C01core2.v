(* Properties_C01core2.v - C01, the whole-interpreter piece, part 2: the core instruction language of XsltCoreDefs.v
   EXTENDED by xsl:element with a computed name, xsl:comment and xsl:processing-instruction (computed target) whose
   bodies are instantiated into a string.  The implementation-shaped interpreter of XsltCore2Defs.v - Xalan-C's
   iterative execution loop with its explicit stacks, now including the stack of output contexts with text
   collectors (beginFormatToText / endFormatToText), the copy-text-nodes-only stack and the cached-string stack -
   computes exactly the result tree of the denotational semantics sem2, for ALL programs of the extended language,
   source trees, nestings and depths (machine2_refines_sem2: no guard).  The machine is parametrised by the two source
   variants of the findings K-C01-core2-1 / -2 (repaired in /repo by 16b1cb3 / 6d0ffbc); the flags of the current
   source are regenerated on every run and select the variant in machine2_refines_sem2_this_tree; for the variant
   before the repair the statement is _partial under the exact guard and _refuted without it.  XPath evaluation,
   sorting, template selection, node copies, QName / PITarget validity are abstract (a record [mech2]); [mech2_ok] is
   all that is assumed of them.  Nothing here but statements closed by [exact] and their assumptions. *)
From Coq Require Import List NArith Bool Arith.
Require Import XV.XsltEventsDefs XV.XsltVarsDefs XV.XsltVarsModel XV.XsltCoreDefs XV.XsltCoreModel XV.XsltCoreSim.
Require Import XV.XsltCore2Defs XV.XsltCore2Str XV.XsltCore2Model XV.XsltCore2Sim XV.XsltCore2Pkg.
Require Import XV.GenXsltCore2 XV.XsltCore2Examples.
Import ListNotations.

(* ---- the refinement ---- *)

(* THE FULL THEOREM, for the source as repaired by /repo 16b1cb3 (a fragment leaves copy-text-nodes-only mode: fx_frag =
   true), whatever xsl:copy does with an element it cannot create (fxc): if the reference semantics - no guard - defines
   the transformation (fuel f suffices and the stylesheet has no error), the machine started as StylesheetRoot::process
   starts it stops after some k loop steps - and stays stopped with any larger fuel - and the formatter of the main
   result tree has received exactly the tree of the items: out-of-fuel and errors only together. *)
Theorem machine2_refines_sem2 : forall fxc m, mech2_ok m -> forall f root items,
  SemMain2 false m f root = Some items ->
  exists k s, (forall j, MachineMain2 true fxc m (k + j) root = Done2 s) /\ result_tree2 s = Some (result_of items).
Proof. exact machine2_refines_sem2_pkg. Qed.
Print Assumptions machine2_refines_sem2.

(* the same for the machine variant the CURRENT source has: the two flags are regenerated from /repo on every run
   (GenXsltCore2.v); if the source falls back to the variant before 16b1cb3 this proof no longer checks *)
Theorem machine2_refines_sem2_this_tree : forall m, mech2_ok m -> forall f root items,
  SemMain2 false m f root = Some items ->
  exists k s, (forall j, MachineMain2 src2_fragment_leaves_text_only_mode src2_copy_skips_ignored_element m (k + j) root = Done2 s)
              /\ result_tree2 s = Some (result_of items).
Proof. exact (machine2_refines_sem2_pkg src2_copy_skips_ignored_element). Qed.
Print Assumptions machine2_refines_sem2_this_tree.

(* conversely: whenever the machine stops, what it built is the tree the semantics defines *)
Theorem machine2_result_is_sem2_result : forall fxc m, mech2_ok m -> forall f root items n s',
  SemMain2 false m f root = Some items -> MachineMain2 true fxc m n root = Done2 s' -> result_tree2 s' = Some (result_of items).
Proof. exact machine2_deterministic_pkg. Qed.
Print Assumptions machine2_result_is_sem2_result.

(* the general form: a guard on the semantics is needed only by the variant that does not leave text-only mode *)
Theorem machine2_refines_sem2_any_variant : forall gd fxf fxc, (fxf = false -> gd = true) -> forall m, mech2_ok m -> forall f root items,
  SemMain2 gd m f root = Some items ->
  exists k s, (forall j, MachineMain2 fxf fxc m (k + j) root = Done2 s) /\ result_tree2 s = Some (result_of items).
Proof. exact machine2_refines_sem2_gen_pkg. Qed.
Print Assumptions machine2_refines_sem2_any_variant.

(* the variant before the repair (K-C01-core2-1): _partial under the exact guard, _refuted without it; what the guard
   leaves out is nothing but evaluations *)
Theorem machine2_refines_sem2_before_fix_partial : forall fxc m, mech2_ok m -> forall f root items,
  SemMain2 true m f root = Some items ->
  exists k s, (forall j, MachineMain2 false fxc m (k + j) root = Done2 s) /\ result_tree2 s = Some (result_of items).
Proof. exact machine2_refines_sem2_before_fix_partial_pkg. Qed.
Print Assumptions machine2_refines_sem2_before_fix_partial.

Theorem machine2_refines_sem2_before_fix_refuted :
  exists m, mech2_ok m /\ exists f root items n s,
    SemMain2 false m f root = Some items /\ MachineMain2 false false m n root = Done2 s /\ result_tree2 s <> Some (result_of items).
Proof. exact machine2_refines_sem2_before_fix_refuted_pkg. Qed.
Print Assumptions machine2_refines_sem2_before_fix_refuted.

Theorem sem2_guard_restricts : forall m f root items,
  SemMain2 true m f root = Some items -> SemMain2 false m f root = Some items.
Proof. exact sem2_guard_restricts_pkg. Qed.
Print Assumptions sem2_guard_restricts.

(* more fuel never changes a defined result (None = out of fuel, an error of the stylesheet, or the guard) *)
Theorem sem2_main_fuel_monotone : forall g m f f' root items,
  SemMain2 g m f root = Some items -> f <= f' -> SemMain2 g m f' root = Some items.
Proof. exact sem2_main_fuel_mono_pkg. Qed.
Print Assumptions sem2_main_fuel_monotone.

(* ---- per construct ---- *)

(* every instruction of the extended language, in every mode: see the comment at instr2_pkg *)
Theorem instruction2_simulated : forall fxc m, mech2_ok m -> forall f i tm wp n l md en en' items,
  Sem2 false m f tm wp (cxof n l md) i en = Some (en', items) ->
  forall stk nodes cnl cur modes ifs pvs store o F R benv wpb,
    GoodR F R -> Fr true F benv wpb -> Res store benv en -> tflag o = mflag true tm ->
  exists k store' V newb,
    Run2_ true fxc m k (KStart i) (mkM2 stk nodes (l :: cnl) (n :: cur) (md :: modes) ifs pvs (VS F R) store o)
    = Run2 KNext (mkM2 stk nodes (l :: cnl) (n :: cur) (md :: modes) ifs pvs (VS (V ++ F) R) store' (emit2 (ops_of items) o))
    /\ Forall is_varE V /\ Fr true (V ++ F) (newb ++ benv) wpb /\ Res store' (newb ++ benv) en'
    /\ (exists ext, store' = store ++ ext) /\ (is_decl2 i = false -> V = []).
Proof. exact instr2_pkg. Qed.
Print Assumptions instruction2_simulated.

(* xsl:comment: the events of the body never reach the target the comment is written to - the body is evaluated to a
   string BEFORE the one comment event -, and the three output stacks are as they were *)
Theorem comment_body_goes_to_the_collector : forall fxc m, mech2_ok m -> forall f body tm wp n l md en its s,
  sem_seq2 (Sem2 false m f TOn wp (cxof n l md)) body en = Some its -> text_of_items its = Some s ->
  forall stk nodes cnl cur modes ifs pvs store o F R benv wpb,
    GoodR F R -> Fr true F benv wpb -> Res store benv en -> tflag o = mflag true tm ->
  exists k store',
    Run2_ true fxc m k (KStart (JComment body)) (mkM2 stk nodes (l :: cnl) (n :: cur) (md :: modes) ifs pvs (VS F R) store o)
    = Run2 KNext (mkM2 stk nodes (l :: cnl) (n :: cur) (md :: modes) ifs pvs (VS F R) store' (emit2 [IComment (fix_comment s)] o))
    /\ (exists ext, store' = store ++ ext).
Proof. exact comment_pkg. Qed.
Print Assumptions comment_body_goes_to_the_collector.

(* xsl:element: start and end tag carry the same computed name, whatever the body pushes on the cached-string stack *)
Theorem element_tags_carry_the_computed_name : forall fxc m, mech2_ok m -> forall f nm body tm wp n l md en name its,
  ev_avt (m2c_string m) (slk en) (cxof n l md) nm = Some name -> m2c_name_ok m name = true ->
  sem_seq2 (Sem2 false m f tm wp (cxof n l md)) body en = Some its ->
  forall stk nodes cnl cur modes ifs pvs store o F R benv wpb,
    GoodR F R -> Fr true F benv wpb -> Res store benv en -> tflag o = mflag true tm ->
  exists k store',
    Run2_ true fxc m k (KStart (JElement nm body)) (mkM2 stk nodes (l :: cnl) (n :: cur) (md :: modes) ifs pvs (VS F R) store o)
    = Run2 KNext (mkM2 stk nodes (l :: cnl) (n :: cur) (md :: modes) ifs pvs (VS F R) store'
                       (emit2 (IStart name :: ops_of its ++ [IEnd name]) o))
    /\ (exists ext, store' = store ++ ext).
Proof. exact element_pkg. Qed.
Print Assumptions element_tags_carry_the_computed_name.

(* a text collector reads back exactly the concatenated text, in order, of the items its body yields *)
Theorem collector_reads_back_the_text : forall its s, text_of_items its = Some s ->
  chars_of_sax (rev (out (run_ops (ops_of its) e_init))) = s.
Proof. exact collector_text. Qed.
Print Assumptions collector_reads_back_the_text.

(* the "--" loop of ElemComment::endElement and the "?>" loop of ElemPI::endElement: the identity on error-free strings
   (XSLT 1.0 7.4 / 7.3), and what they produce is never in error *)
Theorem comment_fixup_identity_on_error_free : forall s, comment_ok s = true -> fix_comment s = s.
Proof. exact fix_comment_id. Qed.
Print Assumptions comment_fixup_identity_on_error_free.

Theorem comment_fixup_output_well_formed : forall s, comment_ok (fix_comment s) = true.
Proof. exact fix_comment_wf. Qed.
Print Assumptions comment_fixup_output_well_formed.

Theorem pi_fixup_identity_on_error_free : forall s, pi_ok_data s = true -> fix_pi s = s.
Proof. exact fix_pi_id. Qed.
Print Assumptions pi_fixup_identity_on_error_free.

Theorem pi_fixup_output_well_formed : forall s, pi_ok_data (fix_pi s) = true.
Proof. exact fix_pi_wf. Qed.
Print Assumptions pi_fixup_output_well_formed.

(* ---- tie: the shapes this machine mirrors are the ones the source has (GenXsltCore2.v is regenerated from /repo on
   every run by translator/gen_xsltcore2.py; a change of any of them breaks this proof).
   The two variant flags src2_fragment_leaves_text_only_mode / src2_copy_skips_ignored_element are not asserted here:
   they select the machine variant in machine2_refines_sem2_this_tree. ---- *)
Theorem core2_machine_shapes_as_in_source :
  src2_comment_start_flag_string_children = true /\
  src2_comment_end_children_pop_event_flag = true /\
  src2_comment_fixup_space_after_hyphen_before_hyphen_or_end = true /\
  src2_pi_start_name_check_string_flag_children = true /\
  src2_pi_end_children_pop_pop_event_flag = true /\
  src2_pi_fixup_space_between_qmark_and_gt = true /\
  src2_element_start_string_name_start_children = true /\
  src2_element_end_children_pop_end = true /\
  src2_children_to_string_single_text_assigned_else_format_to_text = true /\
  src2_end_children_to_string_children_then_format = true /\
  src2_single_text_child_is_only_child_literal_text = true /\
  src2_format_to_text_pushes_output_context = true /\
  src2_end_format_to_text_no_flush_then_pop = true /\
  src2_text_only_flag_is_top_or_false = true /\
  src2_text_only_push_is_push_back = true /\
  src2_copies_pass_text_only_flag = true /\
  src2_clone_text_only_skips_non_text_top_level = true /\
  src2_fragment_copy_text_only_skips_non_text_top_level = true /\
  src2_shallow_clone_text_only_keeps_text_only = true /\
  src2_copy_end_tag_after_children = true /\
  src2_text_formatter_ignores_all_but_characters = true.
Proof. exact (conj eq_refl (conj eq_refl (conj eq_refl (conj eq_refl (conj eq_refl (conj eq_refl (conj eq_refl (conj eq_refl
        (conj eq_refl (conj eq_refl (conj eq_refl (conj eq_refl (conj eq_refl (conj eq_refl (conj eq_refl (conj eq_refl
        (conj eq_refl (conj eq_refl (conj eq_refl (conj eq_refl eq_refl)))))))))))))))))))). Qed.
Print Assumptions core2_machine_shapes_as_in_source.

(* ---- non-vacuity ---- *)
(* the hypotheses are satisfiable, the theorem applies to a program using every new construct (element with a computed
   name holding an attribute, comments with mixed bodies incl. a fragment variable and a for-each, "--" and "?>"
   fix-ups, a PI with a computed target, an element built inside a fragment and copied), and both sides compute the
   expected tree; with too little fuel the semantics is undefined *)
Example hypotheses_satisfiable : mech2_ok ex2_mech.
Proof. exact ex2_mech_ok. Qed.

Example both_sides_compute_the_expected_tree :
  option_map result_of (SemMain2 false ex2_mech 12 0%N) = Some ex2_tree /\
  (match MachineMain2 true true ex2_mech 400 0%N with Done2 s => result_tree2 s | _ => None end) = Some ex2_tree /\
  SemMain2 false ex2_mech 3 0%N = None.
Proof. exact ex2_both_sides. Qed.

Example theorem_applies_to_the_example :
  exists k s, (forall j, MachineMain2 true true ex2_mech (k + j) 0%N = Done2 s) /\ result_tree2 s = Some ex2_tree.
Proof. exact ex2_theorem_applies. Qed.

(* regression of K-C01-core2-1 (corpus/C01core2/k1_fragment_in_comment.txt): reference semantics "h"; the machine variant
   before the repair "" (the guarded semantics is undefined there); the repaired variant "h" *)
Example fragment_in_comment_before_fix_witness :
  option_map result_of (SemMain2 false kf_mech 6 0%N) = Some [RComment [104%N]] /\
  (match MachineMain2 false false kf_mech 60 0%N with Done2 s => result_tree2 s | _ => None end) = Some [RComment []] /\
  SemMain2 true kf_mech 6 0%N = None /\
  (match MachineMain2 true true kf_mech 60 0%N with Done2 s => result_tree2 s | _ => None end) = Some [RComment [104%N]].
Proof. exact kf_witness. Qed.

(* regression of K-C01-core2-2 (corpus/C01core2/k2_copy_in_pi.txt): xsl:copy of an element in the content of a PI is an error
   of the stylesheet (the semantics is undefined); the repaired variant ignores the element with its content, the variant
   before ran the content *)
Example copy_in_pi_before_fix_witness :
  SemMain2 false kc_mech 6 0%N = None /\
  (match MachineMain2 true true kc_mech 60 0%N with Done2 s => result_tree2 s | _ => None end) = Some [RPI [112%N] []] /\
  (match MachineMain2 true false kc_mech 60 0%N with Done2 s => result_tree2 s | _ => None end) = Some [RPI [112%N] [120%N]].
Proof. exact kc_witness. Qed.
