#!/bin/sh
# Run one property check against a seeded change WITHOUT touching /repo or /verif/.build:
#   vlib/mutrig.sh <ID> <patch.diff> [tier]
# Uses the persistent scratch worktree /tmp/mutrepo (git worktree of /repo) and a copy of /verif in
# /tmp/vmut (its own .build, so the shared library build is not disturbed).
set -e
# one user at a time: the scratch worktree and copy are shared
if [ -z "$MUTRIG_LOCKED" ]; then MUTRIG_LOCKED=1 exec flock /tmp/mutrig.lock env MUTRIG_LOCKED=1 "$0" "$@"; fi
ID=$1; PATCH=$2; TIER=${3:-quick}
[ -d /tmp/mutrepo ] || git -C /repo worktree add --detach /tmp/mutrepo HEAD -q
git -C /tmp/mutrepo checkout -q --detach "$(git -C /repo rev-parse HEAD)"
git -C /tmp/mutrepo checkout -- .
mkdir -p /tmp/vmut
rsync -a --delete --exclude .build --exclude out --exclude .git --exclude '*.vo' --exclude '*.vos' --exclude '*.vok' --exclude '*.glob' --exclude '.*.aux' /verif/ /tmp/vmut/
if [ -n "$PATCH" ] && [ "$PATCH" != "-" ]; then git -C /tmp/mutrepo apply "$PATCH"; fi
cd /tmp/vmut && VERIF_REPO=/tmp/mutrepo python3 check.py "$ID" --tier "$TIER" 2>&1 | grep -v '^KNOWN-FINDING' | tail -${TAILN:-6}
git -C /tmp/mutrepo checkout -- .
