"""C11, part "helpers" — what the BODIES of the specialised evaluation helpers compute.

proof:  coq/Properties_C11h.v over coq/GenExec2.v: translator/gen_exec2.py executes every helper body of
        XPath.cpp / XPath.hpp and every arm of the six executeMore switches symbolically (clang AST,
        callees inlined through the declarations the compiler resolved) and regenerates them as terms of
        coq/Exec2Defs.v on every run; the theorems (all expressions / contexts / recursion depths) consume
        these terms: every helper-overload body and every arm delivers the conversion of the generic
        value; the interpreter of the regenerated bodies agrees with XpDefs.eval on six entry points.
tie:    the translator (fail closed: a body that is not of the language is an AnchorError); the bodies
        are proved to denote what the tables of GenExec.v + the hand model of ExecDefs.v denote, whose
        extraction C11 runs against the library.
oracle: on the library's output only, per shape of body — B = boolean(G), N = number(G), S = F = string(G),
        L = G through harness/xp.cpp on operands chosen to separate the shapes' failure modes (empty
        node-sets, unions whose first operand is empty or returns an object, NaN / -0 / non-numeric
        strings, number literals as operands, variables of every type, errors in the operand a short
        circuit skips); and under xsl:strip-space (whole transformations) for the conversions that exist
        in a context-aware and a context-free overload: sum(), number(), string-length(), current() next
        to string-values computed in Python per XSLT 1.0 section 3.4."""
import os, re, math
import xml.etree.ElementTree as ET
from vlib import core, xpgen, xpref, xsltrun

PART = "helpers"

# ------------------------------------------------------------------------------------------------
# xp-level: one document, operands per type, every shape of body at the top of the expression

DOC = [("e", "r", [("id", "R")], [
    ("e", "a", [("n", "3")], [("t", "  ")]),
    ("e", "a", [], [("t", " 12 ")]),
    ("e", "b", [], [("t", "-0")]),
    ("e", "b", [], [("t", "abc")]),
    ("e", "c", [], []),
    ("e", "d", [], [("e", "e", [], [("t", "1")]), ("e", "e", [], [("t", "2.5")]), ("c", "note"), ("p", "pi", "data")]),
    ("t", "tail"),
])]

NODESETS = ["a", "b", "c", "zzz", "$ns", "$es", "(a)", "a|b", "zzz|a", "$es|b", "$ns|zzz", "zzz|$ns", "$es|zzz", "d/e", "d/e[2]",
            "$ns[1]", "(b|a)[2]", "@id", "a/@n", "text()", "d/comment()", "..", "/", "(zzz)"]
NUMBERS = ["0", "-0", "0 div 0", "1 div 0", "-1 div 0", "007", "1.5", ".5", "$n", "$nan", "$nz", "-$n", "2 - 2", "0.0"]
STRINGS = ["''", "'abc'", "' 12 '", "'-0'", "$s", "$se", "'0'", "'NaN'", "' '"]
BOOLS = ["true()", "false()", "$bt", "$bf", "not(a)", "boolean(zzz)"]
ERRORS = ["$undefined", "zzz + $undefined", "count($s)"]


def operand_pool():
    return [("ns", x) for x in NODESETS] + [("num", x) for x in NUMBERS] + [("str", x) for x in STRINGS] + [("bool", x) for x in BOOLS]


def paren(x):
    return x if re.fullmatch(r"[\w$.'@()]+|'[^']*'", x) and not x.startswith("-") else "(" + x + ")"


def xp_expressions(ctx, per_shape):
    """(class, expression text): deterministic boundary combinations + ctx.rng samples"""
    r = ctx.rng
    pool = operand_pool()
    out = []

    def some(lst, n):
        lst = list(lst)
        r.shuffle(lst)
        return lst[:n]
    pairs = [(a, b) for a in pool for b in pool]
    # ShortCircuit: Or / And; the operand that is skipped may be an error
    for op in ("or", "and"):
        for (ta, a), (tb, b) in some(pairs, per_shape):
            out.append(("shortcircuit:" + op, "%s %s %s" % (paren(a), op, paren(b))))
        for e in ERRORS:
            for t, a in some(pool, 6) + [("bool", "true()"), ("bool", "false()"), ("ns", "zzz"), ("ns", "a")]:
                out.append(("shortcircuit-error:" + op, "%s %s %s" % (paren(a), op, paren(e))))
                out.append(("shortcircuit-error:" + op, "%s %s %s" % (paren(e), op, paren(a))))
    # CompareVia
    for op in ("=", "!=", "<", "<=", ">", ">="):
        for (ta, a), (tb, b) in some(pairs, per_shape):
            out.append(("compare:%s:%s-%s" % (op, ta, tb), "%s %s %s" % (paren(a), op, paren(b))))
    # Arith / NegOfNumber: number literals go through the literal table, the rest through the double entry
    for op in ("+", "-", "*", "div", "mod"):
        for (ta, a), (tb, b) in some(pairs, per_shape):
            out.append(("arith:%s:%s-%s" % (op, ta, tb), "%s %s %s" % (paren(a), op, paren(b))))
        for lit in ("007", "0", ".5", "10"):
            for t, a in some(pool, 4):
                out.append(("arith-literal:" + op, "%s %s %s" % (lit, op, paren(a))))
                out.append(("arith-literal:" + op, "%s %s %s" % (paren(a), op, lit)))
    for t, a in pool:
        out.append(("neg:" + t, "-%s" % paren(a)))
        out.append(("neg-neg:" + t, "- -%s" % paren(a)))
    # UnionThenConvert
    ns = NODESETS
    for a in ns:
        for b in some(ns, 6):
            out.append(("union", "%s | %s" % (paren(a) if "|" in a else a, paren(b) if "|" in b else b)))
    for a, b, c3 in [("zzz", "$es", "b"), ("$ns", "a", "zzz"), ("$es", "$es", "$es"), ("d/e", "$ns", "a")]:
        out.append(("union3", "%s | %s | %s" % (a, b, c3)))
    # LiteralToken / VariableLookup / group / number literal / location path
    for t, a in pool:
        out.append(("leaf-or-path:" + t, a))
        out.append(("group:" + t, "(%s)" % a))
        out.append(("group-group:" + t, "((%s))" % a))
    for e in ERRORS:
        out.append(("error", e))
        out.append(("group-error", "(%s)" % e))
    # FunctionDispatch: the functions with an op-code of their own, and the general path
    out += [("fn0", f) for f in ("position()", "last()", "true()", "false()", "name()", "local-name()", "number()", "string-length()",
                                 "string()", "namespace-uri()", "normalize-space()")]
    for t, a in pool:
        for f in ("not", "boolean", "floor", "ceiling", "round", "number", "string-length", "string", "normalize-space"):
            out.append(("fn1:%s:%s" % (f, t), "%s(%s)" % (f, a)))
    for a in ns:
        for f in ("count", "sum", "name", "local-name", "namespace-uri"):
            out.append(("fn-nodes:" + f, "%s(%s)" % (f, a)))
    for t, a in some(pool, 12):
        out.append(("fn-general:" + t, "concat(%s, '|', %s)" % (a, a)))
        out.append(("fn-general:" + t, "substring('abcdef', %s)" % a))
        out.append(("fn-general:" + t, "starts-with(%s, '')" % a))
    # wrong argument types: an error generally, an error through every entry point
    for t, a in [x for x in pool if x[0] != "ns"][:8]:
        for f in ("count", "sum", "name"):
            out.append(("fn-type-error:" + f, "%s(%s)" % (f, a)))
    return out


def xp_cases(ctx, per_shape, prefix):
    from props import C11 as base
    nodes = xpgen.build_nodes(DOC)
    dtoks = xpgen.doc_tokens(DOC)
    by = lambda kind, q: [n.id for n in nodes if n.kind == kind and (q is None or n.qname == q)]
    a_ids, b_ids, e_ids = by("elem", "a"), by("elem", "b"), by("elem", "e")
    variables = {
        "ns": ("nodes", sorted(a_ids[:1] + b_ids[1:2] + e_ids)),
        "es": ("nodes", []),
        "n": ("num", 2.5), "nan": ("num", float("nan")), "nz": ("num", -0.0),
        "s": ("str", " 7 "), "se": ("str", ""), "bt": ("bool", True), "bf": ("bool", False),
    }
    vfield = base.vfield_of(variables)
    rid = by("elem", "r")[0]
    contexts = [(rid, [rid]), (a_ids[1], a_ids + b_ids), (by("text", None)[0], [by("text", None)[0]]), (e_ids[1], e_ids)]
    cases, k = [], 0
    exprs = xp_expressions(ctx, per_shape)
    for cls, s in exprs:
        # the element r for everything; one of the other contexts for a sample
        cs = [contexts[0]] + ([ctx.rng.choice(contexts[1:])] if ctx.rng.random() < 0.25 else []) if not ctx.thorough else contexts
        for cn, cl in cs:
            cid = "%s%d" % (prefix, k)
            line = "%s|eval|D:%s|C:%d;%s|V:%s|N:%s|X:%s" % (cid, dtoks, cn, ",".join(map(str, cl)), vfield, base.NSF, xpgen.tok(s))
            cases.append({"id": cid, "line": line, "cls": cls, "str": s, "nodes": nodes})
            k += 1
    return cases


def run_xp(ctx, impl, cases):
    from props import C11 as base
    rc, res, raw = core.run_lines_parallel(impl, [c["line"] for c in cases], sep="|")
    bad = []
    if rc != 0:
        bad.append({"case": "(process)", "what": "xp driver exited with status %d: %s" % (rc, raw[-300:])})
    ref = xpref.Ref(cases[0]["nodes"]) if cases else None
    distinct = set()
    for c in cases:
        ctx.cov["evaluations"] += 1
        ctx.count("helpers:" + c["cls"].split(":")[0])
        ri = res.get(c["id"])
        if ri is None:
            bad.append({"case": c["line"], "what": "no result from the library (crash?) for %s" % c["str"]})
            continue
        chk = base.check_line(c, ri, ref)
        if chk is None:
            ctx.count("helpers:no-value:" + ri.split(":")[0][:12])
            continue
        d = base.split_result(ri)
        distinct.add((c["cls"], d["G"][:2], c["str"]))
        ctx.count("helpers:generic:" + ("err" if d["G"].startswith("err") else d["G"].split(":")[0]))
        for name, what, fc in chk:
            if fc:
                ctx.notes.setdefault("conversion_deviations_owned_by_C18", {})
                ctx.notes["conversion_deviations_owned_by_C18"][fc] = ctx.notes["conversion_deviations_owned_by_C18"].get(fc, 0) + 1
            else:
                bad.append({"case": c["line"], "what": "[%s] %s" % (c["cls"], what)})
    ctx.cov["distinct_nontrivial"] = ctx.cov.get("distinct_nontrivial", 0) + len(distinct)
    return bad


# ------------------------------------------------------------------------------------------------
# under xsl:strip-space: the conversions that exist with and without the execution context, at the sites
# C11's own strip-space stream does not visit (functionSum's loop, number() / string-length() of the
# context node, a node-set returned by a general function)

SHEET2 = """<xsl:stylesheet version="1.0" xmlns:xsl="http://www.w3.org/1999/XSL/Transform">
<xsl:output method="xml" encoding="UTF-8" omit-xml-declaration="yes"/>
%(decl)s
<xsl:template match="/">
<out><xsl:for-each select="/r">
<sum v="{sum(%(p)s)}"><xsl:value-of select="sum(%(p)s)"/></sum>
<sumn><xsl:value-of select="sum(%(p)s) + 0"/></sumn>
<sumb><xsl:if test="sum(%(p)s)">T</xsl:if></sumb>
<sumg><xsl:value-of select="concat(sum(%(p)s), '')"/></sumg>
<xsl:for-each select="%(q)s">
<i num="{number()}" len="{string-length()}" cur="{current()}">
<num><xsl:value-of select="number()"/></num><numn><xsl:value-of select="number() + 0"/></numn><numb><xsl:if test="number()">T</xsl:if></numb>
<len><xsl:value-of select="string-length()"/></len><lenn><xsl:value-of select="string-length() + 0"/></lenn><lenb><xsl:if test="string-length()">T</xsl:if></lenb>
<cur><xsl:value-of select="current()"/></cur><curn><xsl:value-of select="current() + 0"/></curn><curl><xsl:value-of select="string-length(current())"/></curl>
<curg><xsl:value-of select="concat(current(), '')"/></curg>
</i>
</xsl:for-each>
</xsl:for-each></out>
</xsl:template>
</xsl:stylesheet>"""

SUM_PATHS = ["*", "name", "a/b", "descendant::b", "a | name", "*[2]", "(name)", "*[last()]"]
EACH_PATHS = ["*", "descendant::b", "name", "a | name", "a/b", "."]


def gen_sum_doc(r, base):
    """<r> whose element children hold digit-bearing elements separated by whitespace-only text: with the
       blanks stripped the string-value is a number ("12"), with them it is not ("1 2")"""
    def leaf(name):
        n = base.SNode("e", name)
        t = base.SNode("t", text=r.choice(["1", "2", "7", "0", "5", ".5", "3"]))
        t.parent = n
        n.children = [t]
        return n

    def group(name):
        n = base.SNode("e", name)
        out = []
        if r.random() < 0.4:
            out.append(base.SNode("t", text=r.choice(base.WS)))
        for i in range(r.randrange(1, 4)):
            if i and r.random() < 0.85:
                out.append(base.SNode("t", text=r.choice(base.WS)))
            out.append(leaf(r.choice(["b", "b", "c"])))
        if r.random() < 0.4:
            out.append(base.SNode("t", text=r.choice(base.WS)))
        for c in out:
            c.parent = n
        n.children = out
        return n
    root = base.SNode("e", "r")
    out = [base.SNode("t", text="\n")]
    for _ in range(r.randrange(2, 5)):
        out.append(group(r.choice(["a", "name", "a"])) if r.random() < 0.8 else leaf("name"))
        out.append(base.SNode("t", text=r.choice(base.WS)))
    for c in out:
        c.parent = root
    root.children = out
    k = [0]

    def number(n):
        n.order = k[0]
        k[0] += 1
        for c in n.children:
            number(c)
    number(root)
    return root


def strip_cases(ctx, n_docs):
    from props import C11 as base
    r = ctx.rng
    out = []
    for di in range(n_docs):
        root = gen_sum_doc(r, base) if di % 2 == 0 else base.gen_ws_doc(r)
        src = base.ws_xml(root)
        strip, preserve = base.STRIP_DECLS[di % len(base.STRIP_DECLS)]
        decl = ""
        if strip:
            decl += '<xsl:strip-space elements="%s"/>' % " ".join(strip)
        if preserve:
            decl += '<xsl:preserve-space elements="%s"/>' % " ".join(preserve)
        p, q = r.choice(SUM_PATHS), r.choice(EACH_PATHS)
        out.append({"id": "hs%d" % di, "p": p, "q": q, "root": root, "source": src, "strip": strip, "preserve": preserve,
                    "sheet": SHEET2 % {"decl": decl, "p": base.esc(p, True), "q": base.esc(q, True)}})
    return out


def run_strip(ctx, cases):
    from props import C11 as base
    if not cases:
        return []
    res = xsltrun.run([{"id": c["id"], "sheet": c["sheet"], "source": c["source"]} for c in cases])
    bad = []
    nstr = lambda x: xpref.num_to_str(x)
    for c in cases:
        ctx.cov["evaluations"] += 1
        ctx.count("helpers:strip:" + ("none" if not c["strip"] else "+".join(c["strip"])))
        out = res.get(c["id"])
        if out is None or out[0] != "ok":
            bad.append((c, "the transformation %s" % ("crashed" if out is None or out[0] == "crash" else "failed: " + out[2][:160])))
            continue
        try:
            root = ET.fromstring(out[1].decode("utf-8"))
        except Exception as ex:
            bad.append((c, "unparsable output: %s" % ex))
            continue
        ref = base.StripRef(c["root"], c["strip"], c["preserve"])
        sel = ref.select(c["p"], c["root"])
        total = 0.0
        for n in sel:
            total = total + xpref.str_to_num(ref.sv(n))
        if any(base.is_ws(t.text) and ref.stripped(t) for n in sel for t in base.all_text(n)):
            ctx.count("helpers:strip:summed-node-holds-stripped-text")
        plain = base.StripRef(c["root"], [], [])
        if any(not base.same_num(xpref.str_to_num(ref.sv(n)), xpref.str_to_num(plain.sv(n))) for n in sel):
            ctx.count("helpers:strip:sum-differs-without-stripping")
        g = lambda el, tag: base.text_of(el.find(tag))

        def numeric(what, got, x):
            if got is None or not base.num_str_ok(got, x):
                bad.append((c, "%s observes %r; the value is %s" % (what, got, nstr(x))))
        numeric("sum(%s) as characters (xsl:value-of)" % c["p"], g(root, "sum"), total)
        numeric("sum(%s) in an attribute value template (string entry point)" % c["p"], root.find("sum").get("v"), total)
        numeric("sum(%s) + 0 (double entry point)" % c["p"], g(root, "sumn"), total + 0.0)
        numeric("concat(sum(%s), '') (generic)" % c["p"], g(root, "sumg"), total)
        if (g(root, "sumb") == "T") != (total == total and total != 0):
            bad.append((c, "xsl:if test=sum(%s) observes %r; the value is %s" % (c["p"], g(root, "sumb"), nstr(total))))
        items = root.findall("i")
        nodes = ref.select(c["q"], c["root"])
        if len(items) != len(nodes):
            bad.append((c, "for-each over %s visits %d nodes, expected %d" % (c["q"], len(items), len(nodes))))
            continue
        for el, n in zip(items, nodes):
            S = ref.sv(n)
            x = xpref.str_to_num(S)
            L = len(S.encode("utf-16-le")) // 2
            w = "context node %s: " % c["q"]
            numeric(w + "number() in an AVT (string entry point)", el.get("num"), x)
            numeric(w + "number() as characters", g(el, "num"), x)
            numeric(w + "number() + 0 (double entry point)", g(el, "numn"), x + 0.0)
            if (g(el, "numb") == "T") != (x == x and x != 0):
                bad.append((c, w + "xsl:if test=number() observes %r; string-value %r" % (g(el, "numb"), S)))
            for what, got in (("string-length() in an AVT", el.get("len")), ("string-length() as characters", g(el, "len")),
                              ("string-length() + 0", g(el, "lenn")), ("string-length(current())", g(el, "curl"))):
                if got != str(L):
                    bad.append((c, w + "%s observes %r; string-value %r has length %d" % (what, got, S, L)))
            if (g(el, "lenb") == "T") != (L > 0):
                bad.append((c, w + "xsl:if test=string-length() observes %r; string-value %r" % (g(el, "lenb"), S)))
            for what, got in (("current() in an AVT (string entry point)", el.get("cur")), ("current() as characters", g(el, "cur")),
                              ("concat(current(), '') (generic)", g(el, "curg"))):
                if got != S:
                    bad.append((c, w + "%s observes %r; string-value %r" % (what, got, S)))
            numeric(w + "current() + 0 (double entry point)", g(el, "curn"), x + 0.0)
    return bad


# ------------------------------------------------------------------------------------------------

def run_part(ctx):
    ctx.assumptions += [
        "helpers: XPath::step, the operand loop of Union(.., MutableNodeRefList&), runFunction / runExtFunction, "
        "functionLocalName(XalanNode*) and getNumericOperand are primitives of the body language (their form is checked by the "
        "translator; what they compute is C02's model and correspondence)",
        "helpers: a function call compiled to an op-code of its own has the number of arguments XPathProcessorImpl demands",
    ]
    rule = ("helpers: one fixed document x four contexts x expressions with every shape of helper body at the top "
            "(short circuit, comparison, arithmetic with and without number-literal operands, negation, union, literal, variable, "
            "group, number literal, location path, the functions with an op-code of their own, general functions) over operands of "
            "every type chosen at the conversions' boundaries; distinct = distinct (shape class, type of the generic result, "
            "expression text); non-trivial = the expression compiled and the generic entry point delivered a value or an error")
    ctx.notes["rule"] = (ctx.notes.get("rule", "") + " | " + rule) if ctx.notes.get("rule") else rule
    proved = ctx.prove(["Properties_C11h.v"], ["GenExec2"])
    # the regenerated-body interpreter = the extracted interpreter (depends on ExecModel.v, where the digest fact lives)
    ctx.prove(["Properties_C11hs.v"], [])
    gen = (ctx.notes.get("gen") or {}).get("GenExec2") or {}
    impl, ok_h, hlog = core.build_harness("xp", "plain")
    if not ok_h:
        ctx.broken.append("helpers: harness does not compile against the working tree: " + hlog[-500:])
        return
    per_shape = 24 if not ctx.thorough else 700
    cases = xp_cases(ctx, per_shape, "h")
    ctx.cov["samples"] = (ctx.cov.get("samples") or []) + [c["str"] for c in cases[:6]]
    bad = run_xp(ctx, impl, cases)
    sbad = run_strip(ctx, strip_cases(ctx, 30 if not ctx.thorough else 600))
    if not proved and not bad and not sbad and not ctx.thorough:
        ctx.escalated = True
        bad += run_xp(ctx, impl, xp_cases(ctx, 120, "hy"))
        sbad += run_strip(ctx, strip_cases(ctx, 120))
    ctx.notes["helpers_oracle_failures"] = len(bad)
    ctx.notes["helpers_stripspace_failures"] = len(sbad)
    if bad:
        bad.sort(key=lambda o: len(o["case"]))
        txt = "\n".join("# %s\n%s" % (o["what"], o["case"]) for o in bad[:40])
        ctx.violation("helpers-oracle", "# C11 (helper bodies): a specialised entry point of XPath::execute does not deliver the XPath conversion of the generic result\n"
                                        "# replay: python3 check.py C11 --replay <this file>\n" + txt)
    if sbad:
        txt = "\n".join("# sum(%s) / for-each %s: %s\n#   source: %s\n#   stylesheet: %s" % (
            c["p"], c["q"], what, c["source"].replace("\n", "\\n").replace("\t", "\\t"), c["sheet"].replace("\n", " ")) for c, what in sbad[:20])
        ctx.violation("helpers-stripspace", "# C11 (helper bodies): under xsl:strip-space a conversion does not see what the execution context strips\n"
                                            "# replay: run the stylesheet over the source (vlib/xsltrun.py) and compare the named elements of the output\n" + txt)
