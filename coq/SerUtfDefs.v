(* SerUtfDefs.v — C04, layer 1: the buffered writers of the XML serializer
   (XalanUTF8Writer.hpp, XalanUTF16Writer.hpp, XalanOtherEncodingWriter.hpp) as they are.
   Definitions only.  Constants, guards and byte formulas come from GenSer.v (regenerated from
   /repo on every run).

   A writer call is modelled by the list of [item]s it performs on the staging buffer; nothing in
   the serializer reads the buffer state, so a whole serialization is a list of items that
   [run] executes against the writer state [wr].  A store beyond m_buffer[kBufferSize-1] is
   undefined behaviour in C++: the model stops with [Oob]. *)
From Coq Require Import NArith List Bool.
Require Import XV.GenSer.
Import ListNotations.
Local Open Scope N_scope.

Inductive res (A : Type) : Type :=
| Ok (a : A)
| Oob                      (* a store outside the staging buffer *)
| Thrown (code : N).       (* a C++ exception *)
Arguments Ok {A} a.
Arguments Oob {A}.
Arguments Thrown {A} code.

(* exception classes *)
Definition err_surrogate : N := 1.        (* throwInvalidUTF16SurrogateException *)
Definition err_scalar : N := 2.           (* throwInvalidCharacterException (> 0x10FFFF) *)
Definition err_forbidden : N := 3.        (* throwInvalidXMLCharacterException *)
Definition err_unrepresentable : N := 4.  (* throwUnrepresentableCharacterException *)

Inductive item : Type :=
| IPut (guard : N) (xs : list N) (dec : N)
    (* if (m_bufferRemaining < guard) flushBuffer();  *m_bufferPosition++ = x for x in xs;
       m_bufferRemaining -= dec *)
| IDirect (xs : list N)       (* flushBuffer(); m_writer.write(xs, 0, n) *)
| IFlush                      (* flushBuffer() *)
| IThrow (code : N).

Definition len (l : list N) : N := N.of_nat (length l).

(* ---- writer state ------------------------------------------------------------------------- *)
Record wr : Type := mkwr {
  out_rev : list N;     (* units already handed to m_writer, most recent first *)
  buf_rev : list N;     (* content of m_buffer[0 .. pos), most recent first *)
  pos : N;              (* m_bufferPosition - m_buffer *)
  rem : N               (* m_bufferRemaining (size_type, 64 bit) *)
}.

Definition wr_init (kb : N) : wr := mkwr [] [] 0 kb.

Definition flush (kb : N) (w : wr) : wr := mkwr (buf_rev w ++ out_rev w) [] 0 kb.

(* size_type subtraction (64-bit, wraps) *)
Definition two64 : N := 18446744073709551616.
Definition sub64 (a b : N) : N := if b <=? a then a - b else a + two64 - b.

Fixpoint stores (kb : N) (xs : list N) (w : wr) : option wr :=
  match xs with
  | [] => Some w
  | x :: r =>
      if pos w <? kb
      then stores kb r (mkwr (out_rev w) (x :: buf_rev w) (pos w + 1) (rem w))
      else None
  end.

Definition run_item (kb : N) (it : item) (w : wr) : res wr :=
  match it with
  | IPut g xs d =>
      let w1 := if rem w <? g then flush kb w else w in
      match stores kb xs w1 with
      | Some w2 => Ok (mkwr (out_rev w2) (buf_rev w2) (pos w2) (sub64 (rem w2) d))
      | None => Oob
      end
  | IDirect xs =>
      let w1 := flush kb w in
      Ok (mkwr (rev xs ++ out_rev w1) (buf_rev w1) (pos w1) (rem w1))
  | IFlush => Ok (flush kb w)
  | IThrow c => Thrown c
  end.

Fixpoint run (kb : N) (its : list item) (w : wr) : res wr :=
  match its with
  | [] => Ok w
  | it :: r =>
      match run_item kb it w with
      | Ok w' => run kb r w'
      | Oob => Oob
      | Thrown c => Thrown c
      end
  end.

(* everything written so far, in order *)
Definition all_units (w : wr) : list N := rev (out_rev w) ++ rev (buf_rev w).

(* the buffer-free meaning of an item list: the concatenation of what is stored, up to the first
   exception *)
Fixpoint payload (its : list item) : res (list N) :=
  match its with
  | [] => Ok []
  | IThrow c :: _ => Thrown c
  | IPut _ xs _ :: r | IDirect xs :: r =>
      match payload r with Ok l => Ok (xs ++ l) | e => e end
  | IFlush :: r => payload r
  end.

(* an item whose guard really protects its stores, for a buffer of kb units *)
Definition item_sound (kb : N) (it : item) : bool :=
  match it with
  | IPut g xs d => (len xs <=? g) && (len xs <=? kb) && (d =? len xs)
  | _ => true
  end.

(* ---- surrogates (XalanFormatterWriter.hpp) -------------------------------------------------- *)
Definition is_high (u : N) : bool := (high_sur_lo <=? u) && (u <=? high_sur_hi).
Definition is_low (u : N) : bool := (low_sur_lo <=? u) && (u <=? low_sur_hi).
Definition decode_pair (hi lo : N) : N :=
  N.shiftl (hi - sur_sub_hi) sur_shift + lo - sur_sub_lo + sur_add.

(* ---- XalanUTF8Writer -------------------------------------------------------------------------- *)
Definition u8_unit (c : N) : list item := [IPut unit_guard_utf8 [c] 1].

Definition u8_block (xs : list N) : list item :=
  if kbuf_utf8 <? len xs then [IDirect xs] else [IPut (len xs) xs (len xs)].

Definition row_bytes (cp : N) (st : list (N * N * N)) : list N :=
  map (fun s => match s with (off, sh, mask) => (off + N.land (N.shiftr cp sh) mask) mod 256 end) st.

Fixpoint u8_rows_find (cp : N) (rows : list (N * N * list (N * N * N) * N)) : list item :=
  match rows with
  | [] => [IThrow err_scalar]
  | (upper, g, st, d) :: r =>
      if cp <=? upper then [IPut g (row_bytes cp st) d] else u8_rows_find cp r
  end.

(* write(XalanUnicodeChar) *)
Definition u8_code (cp : N) : list item :=
  if cp <=? utf8_ascii_upper then u8_unit cp else u8_rows_find cp utf8_rows.

(* write(const XalanDOMChar*, size_type): UTF-16 in, UTF-8 out *)
Fixpoint u8_str (l : list N) : list item :=
  match l with
  | [] => []
  | c :: r =>
      if is_low c then [IThrow err_surrogate]
      else if negb (is_high c) then u8_code c ++ u8_str r
      else match r with
           | [] => [IThrow err_surrogate]
           | lo :: r' =>
               if is_low lo then u8_code (decode_pair c lo) ++ u8_str r'
               else [IThrow err_surrogate]
           end
  end.

(* write(chars, start, length): one character; the flag says that chars[start+1] was consumed too *)
Definition u8_at (c : N) (r : list N) : list item * bool :=
  if is_low c then ([IThrow err_surrogate], false)
  else if negb (is_high c) then (u8_code c, false)
  else match r with
       | [] => ([IThrow err_surrogate], false)
       | lo :: _ => if is_low lo then (u8_code (decode_pair c lo), true) else ([IThrow err_surrogate], false)
       end.

(* for (i = 0; i < n; ++i) i = write(data, i, n);   with a one-character write [one] *)
Fixpoint at_loop (one : N -> list N -> list item * bool) (l : list N) : list item :=
  match l with
  | [] => []
  | c :: r =>
      let '(its, skip) := one c r in
      its ++ (if skip then match r with [] => [] | _ :: r' => at_loop one r' end else at_loop one r)
  end.

(* ---- XalanUTF16Writer ------------------------------------------------------------------------- *)
Definition u16_unit (c : N) : list item := [IPut unit_guard_utf16 [c] 1].
Definition u16_block (xs : list N) : list item :=
  if kbuf_utf16 <? len xs then [IDirect xs] else [IPut (len xs) xs (len xs)].

(* write(chars, start, length): a single unit or a surrogate pair; unpaired surrogates are errors *)
Definition u16_at (c : N) (r : list N) : list item * bool :=
  if is_high c then
    match r with
    | [] => ([IThrow err_surrogate], false)
    | lo :: _ => if is_low lo then (u16_unit c ++ u16_unit lo, true) else ([IThrow err_surrogate], false)
    end
  else if is_low c then ([IThrow err_surrogate], false)
  else (u16_unit c, false).

(* writePIChars / writeCommentChars *)
Definition u16_chars (l : list N) : list item := at_loop u16_at l.

(* ---- XalanOtherEncodingWriter (rep = m_predicate = canTranscodeTo) ----------------------------- *)
Fixpoint digits_rev (fuel : nat) (n : N) : list N :=
  match fuel with
  | O => []
  | S f => if n <? 10 then [48 + n] else (48 + n mod 10) :: digits_rev f (n / 10)
  end.
Definition decimal (n : N) : list N := rev (digits_rev 20 n).   (* NumberToDOMString, n < 2^32 *)

Definition charref (cp : N) : list N := 38 :: 35 :: decimal cp ++ [59].

Section Other.
  Variable rep : N -> bool.

  Definition o_charref (cp : N) : list item :=
    let s := charref cp in [IPut (len s) s (len s)].

  (* write(XalanDOMChar) *)
  Definition o_unit (c : N) : list item :=
    if rep c then [IPut unit_guard_other [c] 1]
    else IPut unit_guard_other [] 0 :: o_charref c.

  Definition o_str (l : list N) : list item := flat_map o_unit l.

  (* write(XalanUnicodeChar) *)
  Definition o_code (cp : N) : list item :=
    if other_split_gt <? cp
    then [IPut other_pair_guard
            [(N.shiftr cp other_hi_shift + other_hi_add) mod 65536;
             (N.land cp other_lo_mask + other_lo_add) mod 65536] other_pair_decrement]
    else [IPut unit_guard_other [cp] 1].

  (* write(chars, start, length, failureHandler) *)
  Definition o_at_gen (fail : N -> list item) (c : N) (r : list N) : list item * bool :=
    if is_high c then
      match r with
      | [] => ([IThrow err_surrogate], false)
      | lo :: _ =>
          if is_low lo then
            let v := decode_pair c lo in ((if rep v then o_code v else fail v), true)
          else ([IThrow err_surrogate], false)
      end
    else if is_low c then ([IThrow err_surrogate], false)
    else ((if rep c then o_code c else fail c), false).

  Definition o_at := o_at_gen o_charref.
  Definition o_at_name := o_at_gen (fun _ => [IThrow err_unrepresentable]).

  (* writeNameChar, writePIChars, writeCommentChars *)
  Definition o_name (l : list N) : list item := at_loop o_at_name l.

  (* writeCDATAChar: items, chars[start+1] consumed, new outsideCDATA *)
  Definition o_cdata_char (open close : list N) (c : N) (r : list N) (outside : bool)
    : list item * bool * bool :=
    let dec :=
      if is_high c then
        match r with
        | [] => None
        | lo :: _ => if is_low lo then Some (decode_pair c lo, true) else None
        end
      else if is_low c then None
      else Some (c, false) in
    match dec with
    | None => ([IThrow err_surrogate], false, outside)
    | Some (v, skip) =>
        if rep v then
          ((if outside then o_str open else []) ++ o_code v, skip, false)
        else
          ((if outside then [] else o_str close) ++ o_charref v, skip, true)
    end.
End Other.

Definition rep_latin1 (cp : N) : bool := cp <=? 255.
Definition rep_ascii (cp : N) : bool := cp <=? 127.

(* ---- specification side: UTF-8 as in RFC 3629 (independent of the tables above) ---------------- *)
Definition utf8_spec (cp : N) : list N :=
  if cp <? 128 then [cp]
  else if cp <? 2048 then [192 + cp / 64; 128 + cp mod 64]
  else if cp <? 65536 then [224 + cp / 4096; 128 + (cp / 64) mod 64; 128 + cp mod 64]
  else [240 + cp / 262144; 128 + (cp / 4096) mod 64; 128 + (cp / 64) mod 64; 128 + cp mod 64].

Definition is_cont (b : N) : bool := (128 <=? b) && (b <? 192).
Definition is_scalar (cp : N) : bool := ((cp <? 55296) || (57343 <? cp)) && (cp <? 1114112).

(* strict decoder: shortest form only, no surrogates, at most U+10FFFF *)
Fixpoint utf8_decode (fuel : nat) (l : list N) : option (list N) :=
  match fuel with
  | O => match l with [] => Some [] | _ => None end
  | S f =>
      match l with
      | [] => Some []
      | b0 :: r =>
          if b0 <? 128 then option_map (cons b0) (utf8_decode f r)
          else if b0 <? 192 then None
          else if b0 <? 224 then
            match r with
            | b1 :: r1 =>
                let cp := (b0 - 192) * 64 + (b1 - 128) in
                if is_cont b1 && (128 <=? cp) then option_map (cons cp) (utf8_decode f r1) else None
            | _ => None
            end
          else if b0 <? 240 then
            match r with
            | b1 :: b2 :: r2 =>
                let cp := (b0 - 224) * 4096 + (b1 - 128) * 64 + (b2 - 128) in
                if is_cont b1 && is_cont b2 && (2048 <=? cp) && is_scalar cp
                then option_map (cons cp) (utf8_decode f r2) else None
            | _ => None
            end
          else if b0 <? 248 then
            match r with
            | b1 :: b2 :: b3 :: r3 =>
                let cp := (b0 - 240) * 262144 + (b1 - 128) * 4096 + (b2 - 128) * 64 + (b3 - 128) in
                if is_cont b1 && is_cont b2 && is_cont b3 && (65536 <=? cp) && is_scalar cp
                then option_map (cons cp) (utf8_decode f r3) else None
            | _ => None
            end
          else None
      end
  end.

(* code points of a UTF-16 string; None when a surrogate is unpaired *)
Fixpoint code_points (l : list N) : option (list N) :=
  match l with
  | [] => Some []
  | c :: r =>
      if (55296 <=? c) && (c <=? 56319) then
        match r with
        | lo :: r' =>
            if (56320 <=? lo) && (lo <=? 57343)
            then option_map (cons ((c - 55296) * 1024 + (lo - 56320) + 65536)) (code_points r')
            else None
        | [] => None
        end
      else if (56320 <=? c) && (c <=? 57343) then None
      else option_map (cons c) (code_points r)
  end.
