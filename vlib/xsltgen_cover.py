"""C01, part "cover": generator of error-free XSLT 1.0 programs that use the items of the property's instruction
list which vlib/xsltgen.py never or hardly ever produces (see audit()), nested inside each other and inside
sort / for-each / apply-templates / call-template / variables / result tree fragments; printer of the extended AST
(see vlib/xsltref_cover.py) and the audit of a program against the property's list."""
import collections

from vlib import xpgen, xsltgen
from vlib.xsltgen import P, N, num, lit, fn
from vlib.xsltref_cover import XSL_NS, LEAN_NS, RICH_NS, DEFAULT_HEADER

IDM = "idm"          # mode of the identity-style templates: they only apply templates downward in the same mode
FORMATS = ["1", "1", "01", "a", "A", "i", "I", "1.1", "1.a-i", "A.1", "i-1", "(1)", "[1.A]", "1. ", "I.a.1", "-1-", "1,a", "001:A"]
PLAIN_FORMATS = [f for f in FORMATS if f[0].isalnum() and f[-1].isalnum()]

# the items of the property's quantifier text, in its order
ITEMS = ["template-match", "template-name", "template-mode", "template-priority", "apply-templates", "call-template",
         "for-each", "sort", "value-of", "copy", "copy-of", "element", "attribute", "attribute-set", "text", "comment",
         "processing-instruction", "if", "choose", "variable", "param", "with-param", "number", "key", "import", "include",
         "strip-space", "literal-result-element", "attribute-value-template", "exclude-result-prefixes", "namespace-alias"]
# sub-forms counted next to them
SUBITEMS = ["number:value", "number:count", "number:level-single", "number:level-multiple", "number:level-any", "number:count-pattern",
            "number:from-pattern", "number:format-with-separators", "key:declaration", "key:call", "key:node-set-argument",
            "key:same-name-twice", "key:several-names", "attribute-set:used-by-lre", "attribute-set:used-by-element",
            "attribute-set:used-by-copy", "attribute-set:used-by-set", "attribute-set:same-name-twice", "attribute-set:in-import",
            "apply-imports", "preserve-space", "strip-space:in-import", "exclude-result-prefixes:on-lre",
            "exclude-result-prefixes:beyond-default-header", "lre:local-xmlns", "lre:aliased-name", "template-priority:same-pattern-twice",
            "template-mode:identity", "variable:fragment", "variable:top-level", "param:top-level", "param:template", "sort:in-apply", "sort:in-for-each"]


def _has_key_call(x):
    """(calls of key(), calls with a non-literal second argument) anywhere inside an expression/AST value"""
    n = m = 0
    if isinstance(x, tuple) and len(x) == 3 and x[0] == "fn" and x[1] == "key":
        n += 1
        if x[2][1][0] != "lit":
            m += 1
    if isinstance(x, (tuple, list)):
        for y in x:
            a, b2 = _has_key_call(y)
            n += a
            m += b2
    elif isinstance(x, dict):
        for y in x.values():
            a, b2 = _has_key_call(y)
            n += a
            m += b2
    return n, m


def audit(sheet):
    """Counter: how often every item of the property's list occurs in the program, and "<item> in <enclosing
    instruction>" for the two nearest enclosing instructions"""
    c = collections.Counter()

    def hit(item, ctxs, n=1):
        c[item] += n
        for o in ctxs[-2:]:
            c["%s in %s" % (item, o)] += n

    def vdef(vd, ctxs, tag):
        if vd[0] == "body":
            hit("variable:fragment", ctxs)
            body(vd[1], ctxs + [tag])

    def sorts(ss, ctxs, where):
        for _ in ss:
            hit("sort", ctxs)
            hit("sort:in-" + where, ctxs)

    def body(b, ctxs):
        for i in b:
            k = i[0]
            if k == "lre":
                hit("literal-result-element", ctxs)
                if any(not isinstance(p, str) for _, parts in i[2] for p in parts):
                    hit("attribute-value-template", ctxs)
                if len(i) > 4 and i[4]:
                    hit("attribute-set:used-by-lre", ctxs)
                ex = i[5] if len(i) > 5 and i[5] else {}
                if ex.get("exclude"):
                    hit("exclude-result-prefixes", ctxs)
                    hit("exclude-result-prefixes:on-lre", ctxs)
                if ex.get("xmlns"):
                    hit("lre:local-xmlns", ctxs)
                if i[1].split(":")[0] in ("ax", "ay") and ":" in i[1]:
                    hit("lre:aliased-name", ctxs)
                body(i[3], ctxs + ["lre"])
            elif k == "element":
                hit("element", ctxs)
                if any(not isinstance(p, str) for p in i[1]):
                    hit("attribute-value-template", ctxs)
                if len(i) > 3 and i[3]:
                    hit("attribute-set:used-by-element", ctxs)
                body(i[2], ctxs + ["element"])
            elif k == "attribute":
                hit("attribute", ctxs)
                body(i[2], ctxs + ["attribute"])
            elif k in ("text", "lit"):
                if k == "text" or i[1].strip(" \t\r\n") == "":
                    hit("text", ctxs)
            elif k == "value-of":
                hit("value-of", ctxs)
            elif k == "comment":
                hit("comment", ctxs)
                body(i[1], ctxs + ["comment"])
            elif k == "pi":
                hit("processing-instruction", ctxs)
                body(i[2], ctxs + ["processing-instruction"])
            elif k == "copy":
                hit("copy", ctxs)
                if len(i) > 2 and i[2]:
                    hit("attribute-set:used-by-copy", ctxs)
                body(i[1], ctxs + ["copy"])
            elif k == "copy-of":
                hit("copy-of", ctxs)
            elif k == "apply":
                hit("apply-templates", ctxs)
                sorts(i[3], ctxs + ["apply-templates"], "apply")
                for _, vd in i[4]:
                    hit("with-param", ctxs + ["apply-templates"])
                    vdef(vd, ctxs + ["apply-templates"], "with-param")
            elif k == "call":
                hit("call-template", ctxs)
                for _, vd in i[2]:
                    hit("with-param", ctxs + ["call-template"])
                    vdef(vd, ctxs + ["call-template"], "with-param")
            elif k == "for-each":
                hit("for-each", ctxs)
                sorts(i[2], ctxs + ["for-each"], "for-each")
                body(i[3], ctxs + ["for-each" + ("(sorted)" if i[2] else "")])
            elif k == "if":
                hit("if", ctxs)
                body(i[2], ctxs + ["if"])
            elif k == "choose":
                hit("choose", ctxs)
                for _, b2 in i[1]:
                    body(b2, ctxs + ["choose"])
                if i[2]:
                    body(i[2], ctxs + ["choose"])
            elif k == "variable":
                hit("variable", ctxs)
                vdef(i[2], ctxs, "variable")
            elif k == "number":
                hit("number", ctxs)
                hit("number:value", ctxs)
            elif k == "numberc":
                hit("number", ctxs)
                hit("number:count", ctxs)
                hit("number:level-" + i[1], ctxs)
                if i[2] is not None:
                    hit("number:count-pattern", ctxs)
                if i[3] is not None:
                    hit("number:from-pattern", ctxs)
                if len(i[4]) > 2 or not i[4][:1].isalnum():
                    hit("number:format-with-separators", ctxs)
            elif k == "apply-imports":
                hit("apply-imports", ctxs)

    keynames = collections.Counter()
    setnames = collections.Counter()
    patterns = collections.Counter()

    def tops(sh, imported):
        h = sh.get("header")
        if h is not None and sorted(h.get("exclude", [])) != ["p", "q"]:
            hit("exclude-result-prefixes", [])
            hit("exclude-result-prefixes:beyond-default-header", [])
        for imp in sh.get("imports", []):
            hit("import", [])
            tops(imp, True)
        for t in sh["tops"]:
            k = t[0]
            if k == "include":
                hit("include", [])
                tops(t[1], imported)
            elif k == "template":
                d = t[1]
                if d.get("match") is not None:
                    hit("template-match", [])
                    patterns[(d.get("mode"), repr(d["match"]))] += 1
                if d.get("name") is not None:
                    hit("template-name", [])
                if d.get("mode"):
                    hit("template-mode", [])
                    if d["mode"] == IDM:
                        hit("template-mode:identity", [])
                if d.get("priority") is not None:
                    hit("template-priority", [])
                for _, vd in d.get("params", []):
                    hit("param", ["template"])
                    hit("param:template", [])
                    vdef(vd, ["template"], "param")
                body(d.get("body", []), ["template"])
            elif k in ("variable", "param"):
                hit(k, [])
                hit(k + ":top-level", [])
                vdef(t[2], [], "top-" + k)
            elif k == "key":
                hit("key", [])
                hit("key:declaration", [])
                keynames[t[1]] += 1
            elif k == "attribute-set":
                hit("attribute-set", [])
                setnames[t[1]] += 1
                if t[2]:
                    hit("attribute-set:used-by-set", [])
                if imported:
                    hit("attribute-set:in-import", [])
                for _, b2 in t[3]:
                    hit("attribute", ["attribute-set"])
                    body(b2, ["attribute-set", "attribute"])
            elif k == "strip-space":
                hit("strip-space", [])
                if imported:
                    hit("strip-space:in-import", [])
            elif k == "preserve-space":
                hit("preserve-space", [])
            elif k == "namespace-alias":
                hit("namespace-alias", [])
    tops(sheet, False)
    n, m = _has_key_call(sheet)
    if n:
        c["key"] += n
        c["key:call"] += n
    if m:
        c["key:node-set-argument"] += m
    if any(v > 1 for v in keynames.values()):
        c["key:same-name-twice"] += 1
    if len(keynames) > 1:
        c["key:several-names"] += 1
    if any(v > 1 for v in setnames.values()):
        c["attribute-set:same-name-twice"] += 1
    if any(v > 1 for v in patterns.values()):
        c["template-priority:same-pattern-twice"] += 1
    return c


def audit_table(counters, n_programs):
    """rows (item, programs containing it, occurrences, most frequent enclosing instructions)"""
    progs, occ = collections.Counter(), collections.Counter()
    for c in counters:
        for k, v in c.items():
            occ[k] += v
            progs[k] += 1
    rows = []
    for it in ITEMS + SUBITEMS:
        inside = sorted(((v, k.split(" in ", 1)[1]) for k, v in occ.items() if k.startswith(it + " in ")), reverse=True)
        rows.append((it, progs.get(it, 0), occ.get(it, 0), ", ".join("%s %d" % (k, v) for v, k in inside[:6])))
    return rows


# ---------------------------------------------------------------------------------------------------

def name_pattern(r, allow_ns=True):
    k = r.random()
    if k < 0.5:
        return [P([("child", N(r.choice(["a", "b", "c", "d"])), [])])]
    if k < 0.65:
        return [P([("child", N(None), [])])]
    if k < 0.75 and allow_ns:
        return [P([("child", N(r.choice(["a", "b", None]), "urn:p"), [])])]
    if k < 0.82:
        return [P([("child", N("a"), [])]), P([("child", N("b"), [])])]
    if k < 0.88:
        return [P([("child", "node", [])])]
    if k < 0.92:
        return [P([("child", "text", [])])]
    if k < 0.96:
        return [P([("child", N(r.choice(["a", "b"])), []), ("child", N(r.choice(["a", "b", None])), [])])]
    return [P([("child", N(r.choice(["a", "b"])), [(False, P([("attribute", N(r.choice(["x", "id"])), [])]))])])]


class CoverGen(xsltgen.Gen):
    def __init__(self, r, size="small"):
        xsltgen.Gen.__init__(self, r, size)
        self.rich = r.random() < 0.45          # the modules declare r, ax, ay besides p, q
        self.has_idm = r.random() < 0.5
        self.pre_sets = []
        self.pre_keys = []

    # ---- new instructions ----
    def numberc(self):
        r = self.r
        level = r.choice(["single", "single", "multiple", "any"])
        count = name_pattern(r) if r.random() < 0.55 else None
        if level == "multiple" and r.random() < 0.5:
            count = r.choice([[P([("child", N(None), [])])], [P([("child", "node", [])])], [P([("child", N("a"), [])]), P([("child", N("b"), [])])]])
        frm = name_pattern(r) if r.random() < 0.3 else None
        fmt = r.choice(FORMATS if level == "multiple" else FORMATS[:9] + FORMATS[11:14])
        if level == "any" or count is not None or frm is not None:
            # the list may be empty: formats with leading/trailing punctuation are left to multiple/single defaults
            fmt = r.choice(PLAIN_FORMATS)
        return ("numberc", level, count, frm, fmt)

    def lre_ns(self, cx, env, d):
        r = self.r
        names = ["e", "p:h", "q:g"] + (["r:e", "r:f", "ax:t", "ay:u", "ax:t"] if self.rich else [])
        name = r.choice(names)
        extra = {}
        if r.random() < 0.4:
            extra["xmlns"] = {"z": "urn:z"} if r.random() < 0.7 else {"z": "urn:z", "y": "urn:q"}
            if r.random() < 0.3:
                name = "z:n"
        avail = ["p", "q"] + (["r"] if self.rich else []) + list(extra.get("xmlns", {}))
        if r.random() < 0.5:
            extra["exclude"] = r.sample(avail, r.choice([1, 1, 2]))
        attrs, used = [], set()
        for _ in range(r.choice([0, 1, 1, 2])):
            an = r.choice(["k", "m", "p:w"] + (["ax:v", "r:w"] if self.rich else []) + (["z:a"] if "xmlns" in extra else []))
            if an not in used:
                used.add(an)
                attrs.append((an, self.avt(env, 1)))
        uses = r.sample(self.asets, 1) if self.asets and r.random() < 0.25 else []
        return ("lre", name, attrs, self.body(cx, dict(env), d - 1, in_elem=True), uses, extra)

    def key_use(self, cx, env, d):
        r = self.r
        kn, vals = r.choice(self.keys)
        arg = lit(r.choice(vals)) if r.random() < 0.45 else r.choice([
            P([("attribute", N(r.choice(xsltgen.ATS)), [])]), P([("child", N(None), []), ("attribute", N(None), [])]),
            P([("root", "root", []), ("descendant-or-self", "node", []), ("attribute", N(r.choice(["x", "id", "n"])), [])]),
            fn("local-name")])
        call = fn("key", lit(kn), arg)
        k = r.random()
        if k < 0.3:
            return ("value-of", fn("count", call))
        if k < 0.45:
            return ("copy-of", call)
        env3 = dict(env)
        env3.pop("#nopos", None)
        cx2 = dict(cx, down=False)
        inner = self.body(cx2, env3, d - 1)
        if r.random() < 0.5:
            inner.insert(0, self.numberc())
        return ("for-each", call, self.sorts(env3), inner)

    def sorted_numbering(self, cx, env, d):
        """one xsl:number instruction evaluated for several nodes that are not in document order"""
        r = self.r
        sel = r.choice([P([("child", N(None), [])]), P([("child", "node", [])]), P([("descendant", N(None), [])]),
                        P([("child", N(r.choice(["a", "b"])), [])]), P([("descendant", N(r.choice(["a", "b"])), [])]),
                        P([("root", "root", []), ("descendant-or-self", "node", []), ("child", N(r.choice(["a", "b", None])), [])])])
        k = r.random()
        if k < 0.3:
            srt = [(P([("attribute", N(r.choice(["x", "n", "id"])), [])]), "text", r.choice(["ascending", "descending"]))]
        elif k < 0.5:
            srt = [(fn("count", P([("preceding-sibling", N(None), [])])), "number", "descending")]
        elif k < 0.65:
            srt = [(fn("count", P([("following", "node", [])])), "number", "ascending")]
        elif k < 0.8:
            srt = [(fn("local-name"), "text", r.choice(["ascending", "descending"])),
                   (fn("count", P([("preceding", "node", [])])), "number", "descending")]
        else:
            srt = self.sorts(env) or [(fn("count", P([("child", "node", [])])), "number", "descending")]
        env3 = dict(env)
        env3.pop("#nopos", None)
        cx2 = dict(cx, down=cx["down"] and sel[3][0][0] != "root")
        inner = [("lre", "i", [], [self.numberc()])]
        if r.random() < 0.5:
            inner += self.body(cx2, env3, d - 1)
        if r.random() < 0.4 and not cx["named"] and not cx.get("noapply"):
            # the same through apply-templates with a sort in the numbering mode of the identity templates
            return ("apply", sel, IDM, srt, []) if self.has_idm else ("for-each", sel, srt, inner)
        return ("for-each", sel, srt, inner)

    def new_instr(self, cx, env, d):
        r = self.r
        k = r.random()
        if k < 0.3:
            return self.numberc()
        if k < 0.48:
            return self.sorted_numbering(cx, env, d)
        if k < 0.56:
            if self.asets:
                return ("copy", self.body(cx, dict(env), d - 1, in_elem=True), r.sample(self.asets, r.choice([1, 1, 2][:len(self.asets)])))
            return None
        if k < 0.7:
            return self.lre_ns(cx, env, d)
        if k < 0.78:
            if not cx["named"] and not cx.get("noapply"):
                return ("apply-imports",)
            return None
        if k < 0.9:
            if self.keys:
                return self.key_use(cx, env, d)
            return None
        if self.has_idm and not cx["named"] and not cx.get("noapply"):
            sel = xpgen.fix_bare_root(self.g_nodes(env, 2, rich=True))
            return ("apply", sel, IDM, self.sorts(env) if r.random() < 0.4 else [], [])
        return None

    def instr(self, cx, env, d):
        if d > 0 and self.r.random() < 0.3:
            ins = self.new_instr(cx, env, d)
            if ins is not None:
                self.budget -= 1
                return ins
        return xsltgen.Gen.instr(self, cx, env, d)

    # ---- top level ----
    def idm_templates(self, genv):
        r = self.r
        both = [P([("attribute", N(None), [])]), P([("child", "node", [])])]
        down = ("apply", ("union", [P([("attribute", N(None), [])]), P([("child", "node", [])])]), IDM, [], [])
        cx = {"rank": len(xsltgen.MODES) - 1, "down": True, "named": False, "noapply": True}
        tops = [("template", {"match": both + ([P([("root", "root", [])])] if r.random() < 0.5 else []), "mode": IDM, "params": [],
                              "body": [("copy", [down] if r.random() < 0.8 else [("numberc", "any", None, None, "1"), down])]})]
        for _ in range(r.choice([0, 1, 1, 2])):
            self.budget = max(self.budget, 4)
            env = dict(genv)
            b = [self.numberc()] + (self.body(cx, env, 1) if r.random() < 0.5 else [])
            if r.random() < 0.7:
                b = [("copy", b + [("apply", None if r.random() < 0.5 else P([("child", N(None), [])]), IDM,
                                    self.sorts(env) if r.random() < 0.5 else [], [])])]
            d = {"match": name_pattern(r), "mode": IDM, "params": [], "body": b}
            if r.random() < 0.4:
                d["priority"] = r.choice(["1", "0", "-0.5", "0.5", "-0.25", "2"])
            tops.append(("template", d))
        return tops

    def space_tops(self, r):
        def tests():
            out = []
            for _ in range(r.choice([1, 1, 2])):
                out.append(r.choice([N(None), N(None), N("a"), N("b"), N("c"), N(None, "urn:p"), N("a", "urn:p"), N("d")]))
            return out
        tops = [("strip-space", tests())]
        if r.random() < 0.45:
            tops.insert(r.randrange(2), ("preserve-space", tests()))
        return tops

    def priority_twins(self, tops):
        """a second rule for the pattern of an existing rule, in the same mode, with an explicit priority"""
        r = self.r
        idx = [i for i, t in enumerate(tops) if t[0] == "template" and t[1].get("match") and t[1]["match"][0][3][0][0] != "root"]
        for i in sorted(r.sample(idx, min(len(idx), r.choice([0, 1, 1, 2]))), reverse=True):
            d = tops[i][1]
            pr = r.choice(["0", "-0.5", "0.5", "-0.25", "1", "0.25"])
            twin = ("template", {"match": d["match"], "mode": d.get("mode"), "priority": pr, "params": [],
                                 "body": [("lre", "tw", [("pr", [pr])], [self.numberc() if r.random() < 0.5 else ("value-of", fn("name"))])]})
            tops.insert(i + r.choice([0, 1]), twin)
        return tops

    def sheet(self):
        r = self.r
        # names that the instruction generator may use; their declarations are added below
        if r.random() < 0.5:
            self.pre_sets = ["c0", "c1"][:r.choice([1, 2])]
            self.asets += self.pre_sets
        for kn in ["k2", "k3"][:r.choice([0, 1, 1, 2])]:
            self.pre_keys.append(kn)
            self.keys.append((kn, ["1", "2", "a", "b", "10", "x", "c", ""]))
        main = xsltgen.Gen.sheet(self)
        mods = [main] + [m for m in self._imports_of(main)]
        genv0 = {"#nopos": True}
        # keys: several names, one name twice (12.2: all definitions are used)
        for kn in self.pre_keys + (["k1"] if any(k == "k1" for k, _ in self.keys) and r.random() < 0.4 else []):
            for _ in range(r.choice([1, 1, 2])):
                alts = name_pattern(r) if r.random() < 0.8 else [P([("attribute", N(r.choice(["x", "id", None])), [])])]
                use = r.choice([P([("attribute", N(r.choice(xsltgen.ATS)), [])]), fn("local-name"), P([("attribute", N(None), [])]),
                                P([("child", N(None), [])]), P([("self", "node", [])]), fn("string", fn("count", P([("child", N(None), [])])))])
                r.choice(mods)["tops"].insert(0, ("key", kn, alts, use))
        # attribute sets: merged over import precedence, using each other
        for i, nm in enumerate(self.pre_sets):
            for _ in range(r.choice([1, 1, 2])):
                uses = [self.pre_sets[0]] if i == 1 and r.random() < 0.4 else []
                attrs = [([r.choice(["k", "m", "x", "s", "p:w", "c"])], self.text_body(genv0, 1)) for _ in range(r.choice([1, 2]))]
                r.choice(mods)["tops"].insert(0, ("attribute-set", nm, uses, attrs))
        if self.has_idm:
            r.choice(mods)["tops"] += self.idm_templates({})
        for m in mods:
            if r.random() < (0.45 if m is main else 0.3):
                m["tops"] = self.space_tops(r) + m["tops"]
            if r.random() < 0.5:
                m["tops"] = self.priority_twins(list(m["tops"]))
        self.boost(main, mods)
        # headers: the same declarations everywhere, the excluded prefixes differ per module (also of included ones)
        ns = RICH_NS if self.rich else LEAN_NS
        for m in mods + self._includes_of(main):
            k = r.random()
            if k < 0.45:
                ex = ["p", "q"]
            elif k < 0.6:
                ex = []
            else:
                pool = ["p", "q"] + (["r"] if self.rich else [])
                ex = r.sample(pool, r.choice([1, 2]))
            m["header"] = {"xmlns": dict(ns), "exclude": ex}
        if self.rich:
            for m in mods:
                if r.random() < 0.5:
                    for sp in r.sample(["ax", "ay"], r.choice([1, 2])):
                        m["tops"].insert(0, ("namespace-alias", sp, r.choice(["q", "r", "xsl", "r"])))
        sanitize(main)
        return main

    def boost(self, main, mods):
        """make the rules fire: the initial template continues downward (sometimes sorted), rules continue in their own
        mode, imported modules get rules for patterns of the importing module, which then uses xsl:apply-imports"""
        r = self.r
        is_root = lambda t: t[0] == "template" and t[1].get("match") and t[1]["match"][0][3][0][0] == "root" and len(t[1]["match"][0][3]) == 1 and not t[1].get("mode")
        roots = [t for t in main["tops"] if is_root(t)]
        sel = r.choice([None, None, P([("child", N(None), [])]), P([("descendant", N(None), [])]), P([("child", N(None), []), ("child", "node", [])]),
                        P([("descendant", N(r.choice(["a", "b"])), [])]), P([("child", N(None), []), ("child", N(None), [])])])
        srt = []
        if r.random() < 0.5:
            srt = [r.choice([(fn("count", P([("following", "node", [])])), "number", "ascending"),
                             (fn("count", P([("preceding-sibling", "node", [])])), "number", "descending"),
                             (fn("local-name"), "text", "descending"),
                             (P([("attribute", N(r.choice(["x", "n", "id"])), [])]), "text", "ascending")])]
        go = ("apply", sel, None, srt, [])
        if not roots:
            if r.random() < 0.8:
                main["tops"].append(("template", {"match": [P([("root", "root", [])])], "params": [], "body": [("lre", "out", [], [go])]}))
        elif r.random() < 0.75:
            d = roots[-1][1]
            if d["body"] and d["body"][-1][0] == "lre":
                l = list(d["body"][-1])
                l[3] = list(l[3]) + [go]
                d["body"] = d["body"][:-1] + [tuple(l)]
            else:
                d["body"] = list(d["body"]) + [go]
        rules = []
        for m in mods:
            for t in m["tops"]:
                if t[0] == "template" and t[1].get("match") and t[1].get("mode") != IDM and not is_root(t) and t[1]["match"][0][3][0][0] != "root":
                    rules.append((m, t))
        for m, t in rules:
            d = t[1]
            k = r.random()
            if k < 0.3:
                d["body"] = [("lre", "n", [], [self.numberc()])] + list(d["body"])
            if r.random() < 0.4:
                d["body"] = list(d["body"]) + [("apply", None if r.random() < 0.6 else P([("child", N(None), [])]), d.get("mode"),
                                                 srt if r.random() < 0.3 else [], [])]
        imps = [m for m in mods if m is not main]
        for m, t in rules:
            if m is main and imps and r.random() < 0.45:
                d = t[1]
                twin = {"match": d["match"], "mode": d.get("mode"), "params": [],
                        "body": [("lre", "imp", [], [self.numberc() if r.random() < 0.5 else ("value-of", fn("name"))])]}
                if r.random() < 0.3:
                    twin["priority"] = r.choice(["1", "-1", "0.5"])
                if r.random() < 0.3:
                    twin["body"].append(("apply", None, d.get("mode"), [], []))
                r.choice(imps)["tops"].append(("template", twin))
                if r.random() < 0.7:
                    d["body"] = list(d["body"]) + [("apply-imports",)]

    def _imports_of(self, sh):
        out = []
        for imp in sh.get("imports", []):
            out.append(imp)
            out += self._imports_of(imp)
        return out

    def _includes_of(self, sh):
        out = []
        for imp in sh.get("imports", []):
            out += self._includes_of(imp)
        for t in sh["tops"]:
            if t[0] == "include":
                out.append(t[1])
                out += self._includes_of(t[1])
        return out


def sanitize(sheet):
    """xsl:apply-imports is an error when the current template rule is null (inside xsl:for-each, in a top-level
    variable) and is not generated inside named templates (the current rule would be the caller's): replaced there"""
    def body(b, ok):
        out = []
        for i in b:
            k = i[0]
            if k == "apply-imports":
                out.append(i if ok else ("lit", "ai"))
                continue
            i = list(i)
            if k in ("lre", "for-each"):
                i[3] = body(i[3], ok and k != "for-each")
            elif k in ("element", "attribute", "pi", "if"):
                i[2] = body(i[2], ok)
            elif k in ("comment", "copy"):
                i[1] = body(i[1], ok)
            elif k == "choose":
                i[1] = [(t, body(b2, ok)) for t, b2 in i[1]]
                if i[2]:
                    i[2] = body(i[2], ok)
            elif k == "variable" and i[2][0] == "body":
                i[2] = ("body", body(i[2][1], False))
            elif k == "apply":
                i[4] = [(n, ("body", body(vd[1], False)) if vd[0] == "body" else vd) for n, vd in i[4]]
            elif k == "call":
                i[2] = [(n, ("body", body(vd[1], False)) if vd[0] == "body" else vd) for n, vd in i[2]]
            out.append(tuple(i))
        return out

    def tops(sh):
        for imp in sh.get("imports", []):
            tops(imp)
        new = []
        for t in sh["tops"]:
            if t[0] == "include":
                tops(t[1])
            elif t[0] == "template":
                d = dict(t[1])
                rule = d.get("match") is not None and d.get("name") is None
                d["body"] = body(d.get("body", []), rule)
                d["params"] = [(n, ("body", body(vd[1], False)) if vd[0] == "body" else vd) for n, vd in d.get("params", [])]
                t = ("template", d)
            elif t[0] in ("variable", "param") and t[2][0] == "body":
                t = (t[0], t[1], ("body", body(t[2][1], False)))
            new.append(t)
        sh["tops"] = new
    tops(sheet)


def gen_doc(r):
    """documents of xpgen plus wider sibling lists (numbering needs several counted siblings) and xml:space"""
    k = r.random()
    if k < 0.45:
        doc = xpgen.gen_doc(r, r.choice(["small", "small", "medium"]))
    else:
        names = r.choice([["a", "b", "a", "a"], ["a", "b", "c", "p:a", "a"], ["a", "a", "b", "d", "p:b"]])
        root = xpgen.gen_tree(r, 2, names, r.choice([4, 5, 6]))
        root = ("e", root[1], ([("xmlns:p", "urn:p")] if not any(a == "xmlns:p" for a, _ in root[2]) else []) + root[2], root[3])
        doc = [root]
        if r.random() < 0.1:
            doc.insert(0, ("c", "top"))

    def sp(t):
        if t[0] != "e":
            return t
        attrs = list(t[2])
        if r.random() < 0.06 and not any(a == "xml:space" for a, _ in attrs):
            attrs.append(("xml:space", r.choice(["preserve", "preserve", "default"])))
        kids = [sp(c) for c in t[3]]
        if kids and r.random() < 0.3:
            # whitespace-only text nodes between the children (what xsl:strip-space is about)
            out = []
            for i, c in enumerate(kids):
                if c[0] != "t" and (not out or out[-1][0] != "t") and r.random() < 0.6:
                    out.append(("t", r.choice([" ", "\n  ", "\t", "  "])))
                out.append(c)
            if out[-1][0] != "t" and r.random() < 0.5:
                out.append(("t", "\n"))
            kids = out
        return ("e", t[1], attrs, kids)
    return [sp(t) for t in doc]


def gen_case(r):
    doc = gen_doc(r)
    g = CoverGen(r)
    return g.sheet(), doc


# ---------------------------------------------------------------------------------------------------
# printing (the extended AST; the unchanged kinds are printed exactly as vlib/xsltgen.py prints them)

px, p_avt, p_pattern, esc_text = xsltgen.px, xsltgen.p_avt, xsltgen.p_pattern, xsltgen.esc_text


def p_vdef(tag, name, vdef):
    if vdef[0] == "select":
        return '<xsl:%s name="%s" select="%s"/>' % (tag, name, px(vdef[1]))
    if vdef[0] == "empty" or not vdef[1]:
        return '<xsl:%s name="%s"/>' % (tag, name)
    return '<xsl:%s name="%s">%s</xsl:%s>' % (tag, name, p_body(vdef[1]), tag)


def p_body(body):
    return "".join(p_instr(i) for i in body)


def p_nametest(t):
    return xpgen.p_test(t)


def p_instr(i):
    k = i[0]
    if k == "lre":
        uses = ' xsl:use-attribute-sets="%s"' % " ".join(i[4]) if len(i) > 4 and i[4] else ""
        ex = i[5] if len(i) > 5 and i[5] else {}
        decl = "".join(' xmlns:%s="%s"' % (p, u) for p, u in sorted(ex.get("xmlns", {}).items()))
        excl = ' xsl:exclude-result-prefixes="%s"' % " ".join(ex["exclude"]) if ex.get("exclude") else ""
        return "<%s%s%s%s%s>%s</%s>" % (i[1], decl, excl, uses, "".join(' %s="%s"' % (a, p_avt(v)) for a, v in i[2]), p_body(i[3]), i[1])
    if k == "element":
        uses = ' use-attribute-sets="%s"' % " ".join(i[3]) if len(i) > 3 and i[3] else ""
        return '<xsl:element name="%s"%s>%s</xsl:element>' % (p_avt(i[1]), uses, p_body(i[2]))
    if k == "attribute":
        return '<xsl:attribute name="%s">%s</xsl:attribute>' % (p_avt(i[1]), p_body(i[2]))
    if k == "comment":
        return "<xsl:comment>%s</xsl:comment>" % p_body(i[1])
    if k == "pi":
        return '<xsl:processing-instruction name="%s">%s</xsl:processing-instruction>' % (p_avt(i[1]), p_body(i[2]))
    if k == "copy":
        uses = ' use-attribute-sets="%s"' % " ".join(i[2]) if len(i) > 2 and i[2] else ""
        return "<xsl:copy%s>%s</xsl:copy>" % (uses, p_body(i[1]))
    if k == "apply":
        return "<xsl:apply-templates%s%s>%s%s</xsl:apply-templates>" % (
            ' select="%s"' % px(i[1]) if i[1] is not None else "", ' mode="%s"' % i[2] if i[2] else "",
            xsltgen.p_sorts(i[3]), "".join(p_vdef("with-param", n, v) for n, v in i[4]))
    if k == "call":
        return '<xsl:call-template name="%s">%s</xsl:call-template>' % (i[1], "".join(p_vdef("with-param", n, v) for n, v in i[2]))
    if k == "for-each":
        return '<xsl:for-each select="%s">%s%s</xsl:for-each>' % (px(i[1]), xsltgen.p_sorts(i[2]), p_body(i[3]))
    if k == "if":
        return '<xsl:if test="%s">%s</xsl:if>' % (px(i[1]), p_body(i[2]))
    if k == "choose":
        return "<xsl:choose>%s%s</xsl:choose>" % (
            "".join('<xsl:when test="%s">%s</xsl:when>' % (px(t), p_body(b)) for t, b in i[1]),
            "<xsl:otherwise>%s</xsl:otherwise>" % p_body(i[2]) if i[2] is not None else "")
    if k == "variable":
        return p_vdef("variable", i[1], i[2])
    if k == "numberc":
        return "<xsl:number%s%s%s%s/>" % (
            ' level="%s"' % i[1] if i[1] != "single" or len(i[4]) % 2 else "",
            ' count="%s"' % p_pattern(i[2]) if i[2] is not None else "",
            ' from="%s"' % p_pattern(i[3]) if i[3] is not None else "",
            ' format="%s"' % xsltgen.esc_attr(i[4]) if i[4] != "1" or i[1] == "any" else "")
    if k == "apply-imports":
        return "<xsl:apply-imports/>"
    return xsltgen.p_instr(i)      # text, lit, value-of, copy-of, number value=


def p_top(t, files, counter):
    k = t[0]
    if k == "template":
        d = t[1]
        at = ""
        if d.get("match") is not None:
            at += ' match="%s"' % p_pattern(d["match"])
        if d.get("name") is not None:
            at += ' name="%s"' % d["name"]
        if d.get("mode"):
            at += ' mode="%s"' % d["mode"]
        if d.get("priority") is not None:
            at += ' priority="%s"' % d["priority"]
        return "<xsl:template%s>%s%s</xsl:template>" % (at, "".join(p_vdef("param", n, v) for n, v in d.get("params", [])), p_body(d.get("body", [])))
    if k in ("variable", "param"):
        return p_vdef(k, t[1], t[2])
    if k == "attribute-set":
        return '<xsl:attribute-set name="%s"%s>%s</xsl:attribute-set>' % (
            t[1], ' use-attribute-sets="%s"' % " ".join(t[2]) if t[2] else "",
            "".join('<xsl:attribute name="%s">%s</xsl:attribute>' % (p_avt(a), p_body(b)) for a, b in t[3]))
    if k == "include":
        counter[0] += 1
        name = "inc%d.xsl" % counter[0]
        files[name] = p_module(t[1], files, counter)
        return '<xsl:include href="%s"/>' % name
    if k in ("strip-space", "preserve-space"):
        return '<xsl:%s elements="%s"/>' % (k, " ".join(p_nametest(x) for x in t[1]))
    if k == "namespace-alias":
        return '<xsl:namespace-alias stylesheet-prefix="%s" result-prefix="%s"/>' % (t[1], t[2])
    return xsltgen.p_top(t, files, counter)      # key


def p_module(sheet, files, counter):
    h = sheet.get("header") or DEFAULT_HEADER
    out = ['<xsl:stylesheet version="1.0" xmlns:xsl="%s"%s%s>' % (
        XSL_NS, "".join(' xmlns:%s="%s"' % (p, u) for p, u in sorted(h["xmlns"].items())),
        ' exclude-result-prefixes="%s"' % " ".join(h["exclude"]) if h.get("exclude") else "")]
    for imp in sheet.get("imports", []):
        counter[0] += 1
        name = "imp%d.xsl" % counter[0]
        files[name] = p_module(imp, files, counter)
        out.append('<xsl:import href="%s"/>' % name)
    out.append('<xsl:output method="xml" indent="no"/>')
    for t in sheet["tops"]:
        out.append(p_top(t, files, counter))
    out.append("</xsl:stylesheet>")
    return "\n".join(out)


def print_sheet(sheet):
    files = {}
    main = p_module(sheet, files, [0])
    return main, files
