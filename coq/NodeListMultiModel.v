(* C12 - lists holding nodes of several documents (the scan loop that keeps a document's nodes together):
   addNodeInDocOrder refines [minsert]; every history keeps the grouped-blocks invariant. *)
From Coq Require Import List Arith Bool Lia ZifyBool ZifyNat.
Import ListNotations.
Require Import XV.GenNodelist XV.NodeListDefs XV.DocOrderModel XV.NodeListModel.

Section Multi.
  Variable W : world.

  Definition wv (n : lnode) : Prop := wvalid W n = true.

  Fixpoint ginv (l : list lnode) : Prop :=
    match l with
    | [] => True
    | c :: r => (forall m, In m r -> fst m = fst c -> key W c < key W m) /\
                (match r with [] => True | b :: _ => fst b = fst c \/ forall m, In m r -> fst m <> fst c end) /\
                ginv r
    end.

  Lemma ginvb_spec : forall l, ginvb W l = true <-> ginv l.
  Proof.
    induction l as [|c r IH]; simpl; [tauto|].
    assert (M : (match r with [] => true | b :: _ => (fst b =? fst c) || forallb (fun m => negb (fst m =? fst c)) r end) = true
             <-> match r with [] => True | b :: _ => fst b = fst c \/ forall m, In m r -> fst m <> fst c end).
    { destruct r as [|b r']; [tauto|]. rewrite orb_true_iff, Nat.eqb_eq, forallb_forall.
      split; (intros [H|H]; [left; exact H | right; intros m Hm; specialize (H m Hm)]).
      - apply negb_true_iff, Nat.eqb_neq in H. exact H.
      - apply negb_true_iff, Nat.eqb_neq. exact H. }
    rewrite !andb_true_iff, M, IH, forallb_forall. split.
    - intros [[A B] C]. split; [|split; assumption]. intros m Hm E. specialize (A m Hm).
      apply orb_true_iff in A. destruct A as [A|A].
      + apply negb_true_iff, Nat.eqb_neq in A. congruence.
      + apply Nat.ltb_lt. exact A.
    - intros (A & B & C). split; [split|]; try assumption. intros m Hm.
      destruct (fst m =? fst c) eqn:E; simpl; [|reflexivity]. apply Nat.eqb_eq in E. apply Nat.ltb_lt. auto.
  Qed.

  Lemma wv_indoc : forall n, wv n -> indoc W (fst n) n.
  Proof.
    intros n H. unfold wv, wvalid in H. apply andb_true_iff in H. destruct H as [_ H].
    unfold indoc, in_doc. rewrite Nat.eqb_refl. exact H.
  Qed.

  Lemma wkey_inj : forall a b, wv a -> wv b -> fst a = fst b -> key W a = key W b -> a = b.
  Proof.
    intros a b Ha Hb E K. apply (key_inj W (fst a)); [apply wv_indoc; assumption | | assumption].
    rewrite E. apply wv_indoc. assumption.
  Qed.

  Lemma lnode_neq : forall c n : lnode, lnode_eqb c n = false -> c <> n.
  Proof. intros c n E H. subst. rewrite (proj2 (lnode_eqb_eq n n) eq_refl) in E. discriminate. Qed.

  (* ---- the two predicates on nodes of one document ---- *)

  Lemma ecpred_same_doc : forall n c, wv n -> wv c -> fst c = fst n -> c <> n ->
    executionContextPredicate W n c = (key W c <? key W n).
  Proof.
    intros [d n] [dc c] Hn Hc E Hne. simpl in E. subst dc.
    apply wv_indoc in Hn. apply wv_indoc in Hc. unfold indoc, in_doc in *. simpl in *.
    rewrite Nat.eqb_refl in *. simpl in Hn, Hc.
    unfold executionContextPredicate, documentPredicate, is_doc, key. simpl.
    rewrite Nat.eqb_refl. simpl negb. cbv iota.
    destruct n as [|sn n].
    - symmetry. apply Nat.ltb_ge. change (index (wtree W d) []) with 0. lia.
    - destruct c as [|sc c].
      + symmetry. apply Nat.ltb_lt. change (index (wtree W d) []) with 0.
        pose proof (index_nonroot_pos (wtree W d) (sn :: n) ltac:(discriminate)). lia.
      + unfold isNodeAfter, getIndex, isIndexed. simpl. destruct (windexed W d).
        * unfold key. simpl. reflexivity.
        * apply struct_order_eq_index_order_lemma; try assumption. left. discriminate.
  Qed.

  Lemma indexpred_same_doc : forall n c, isIndexed W n = true -> fst c = fst n ->
    indexPredicate W n c = (key W c <? key W n).
  Proof.
    intros n c Hi E. unfold indexPredicate, documentPredicate, getIndex. unfold isIndexed in *.
    rewrite E, Nat.eqb_refl, Hi. simpl. reflexivity.
  Qed.

  (* ---- the scan loop with the own-document flag computes minsert ---- *)

  Lemma linear_multi : forall pred n l pos seen, wv n -> Forall wv l ->
    (forall c, In c l -> fst c = fst n -> c <> n -> pred n c = (key W c <? key W n)) ->
    let '(ins, ip) := linearSearch true pred l n pos seen in
    pos <= ip /\ (if ins then insert_at (ip - pos) n l else l) = minsert W n l seen.
  Proof.
    intros pred n l. induction l as [|c r IH]; intros pos seen Hn Hl Hp.
    - simpl. split; [lia|]. rewrite Nat.sub_diag. reflexivity.
    - inversion Hl; subst. cbn [linearSearch minsert]. destruct (lnode_eqb c n) eqn:E.
      + apply lnode_eqb_eq in E; subst c. split; [lia|].
        rewrite Nat.eqb_refl, Nat.ltb_irrefl, Nat.eqb_refl. reflexivity.
      + apply lnode_neq in E. unfold documentPredicate. simpl andb.
        destruct (fst n =? fst c) eqn:Ed; simpl negb; cbv iota.
        * apply Nat.eqb_eq in Ed. rewrite (Hp c (or_introl eq_refl) (eq_sym Ed) E).
          assert (Hk : key W c <> key W n) by (intro K; apply E; apply wkey_inj; auto).
          destruct (key W c <? key W n) eqn:E1; simpl negb; cbv iota.
          -- apply Nat.ltb_lt in E1.
             specialize (IH (S pos) true Hn H2 ltac:(intros; apply Hp; [right|assumption|]; assumption)).
             simpl orb. destruct (linearSearch true pred r n (S pos) true) as [ins ip]. destruct IH as [Hle Heq].
             split; [lia|].
             replace (key W n <? key W c) with false by (symmetry; apply Nat.ltb_ge; lia).
             replace (key W n =? key W c) with false by (symmetry; apply Nat.eqb_neq; lia).
             rewrite <- Heq. destruct ins; [|reflexivity].
             replace (ip - pos) with (S (ip - S pos)) by lia. reflexivity.
          -- apply Nat.ltb_ge in E1. split; [lia|]. rewrite Nat.sub_diag.
             replace (key W n <? key W c) with true by (symmetry; apply Nat.ltb_lt; lia). reflexivity.
        * destruct seen.
          -- split; [lia|]. rewrite Nat.sub_diag. reflexivity.
          -- specialize (IH (S pos) false Hn H2 ltac:(intros; apply Hp; [right|assumption|]; assumption)).
             destruct (linearSearch true pred r n (S pos) false) as [ins ip]. destruct IH as [Hle Heq].
             split; [lia|]. rewrite <- Heq. destruct ins; [|reflexivity].
             replace (ip - pos) with (S (ip - S pos)) by lia. reflexivity.
  Qed.

  (* ---- minsert keeps the invariant ---- *)

  Lemma minsert_in : forall n l seen, wv n -> Forall wv l ->
    forall m, In m (minsert W n l seen) <-> m = n \/ In m l.
  Proof.
    intros n l. induction l as [|c r IH]; intros seen Hn Hl m; simpl.
    - intuition.
    - inversion Hl; subst. destruct (fst n =? fst c) eqn:Ed.
      + apply Nat.eqb_eq in Ed. destruct (key W n <? key W c) eqn:E1; simpl; [intuition|].
        destruct (key W n =? key W c) eqn:E2; simpl.
        * apply Nat.eqb_eq in E2. pose proof (wkey_inj n c Hn H1 Ed E2). subst. intuition.
        * rewrite IH by assumption. intuition.
      + destruct seen; simpl; [intuition|]. rewrite IH by assumption. intuition.
  Qed.

  Lemma minsert_wv : forall n l seen, wv n -> Forall wv l -> Forall wv (minsert W n l seen).
  Proof.
    intros n l seen Hn Hl. apply Forall_forall. intros m Hm. apply minsert_in in Hm; try assumption.
    destruct Hm as [->|Hm]; [assumption|]. rewrite Forall_forall in Hl. auto.
  Qed.

  Lemma minsert_head_seen : forall n l, exists b t, minsert W n l true = b :: t /\ fst b = fst n.
  Proof.
    intros n [|c r]; simpl; [eexists; eexists; split; reflexivity|].
    destruct (fst n =? fst c) eqn:Ed.
    - apply Nat.eqb_eq in Ed. destruct (key W n <? key W c); [eexists; eexists; split; reflexivity|].
      destruct (key W n =? key W c); eexists; eexists; split; try reflexivity; auto.
    - eexists; eexists; split; reflexivity.
  Qed.

  Definition headcond (d : nat) (l : list lnode) : Prop :=
    match l with [] => True | b :: _ => fst b = d \/ forall m, In m l -> fst m <> d end.

  Lemma headcond_all : forall d l, (forall m, In m l -> fst m <> d) -> headcond d l.
  Proof. intros d [|b t] H; simpl; [exact I | right; exact H]. Qed.

  Lemma minsert_ginv : forall n l seen, wv n -> Forall wv l -> ginv l ->
    (seen = true -> headcond (fst n) l) -> ginv (minsert W n l seen).
  Proof.
    intros n l. induction l as [|c r IH]; intros seen Hn Hl G Hs.
    - simpl. tauto.
    - inversion Hl; subst. destruct G as (A & B & C). cbn [minsert].
      destruct (fst n =? fst c) eqn:Ed.
      + apply Nat.eqb_eq in Ed. destruct (key W n <? key W c) eqn:E1.
        * apply Nat.ltb_lt in E1. split; [|split].
          -- intros m [<-|Hm] E; [exact E1|]. specialize (A m Hm ltac:(congruence)). lia.
          -- left. congruence.
          -- split; [|split]; assumption.
        * apply Nat.ltb_ge in E1. destruct (key W n =? key W c) eqn:E2; [split; [|split]; assumption|].
          apply Nat.eqb_neq in E2. split; [|split].
          -- intros m Hm E. apply minsert_in in Hm; try assumption. destruct Hm as [->|Hm]; [lia|]. auto.
          -- destruct (minsert_head_seen n r) as (b & t & Hb & Fb). rewrite Hb. left. congruence.
          -- apply IH; try assumption. intros _. unfold headcond. rewrite Ed. exact B.
      + apply Nat.eqb_neq in Ed. destruct seen.
        * specialize (Hs eq_refl). simpl in Hs. destruct Hs as [Hs|Hs]; [congruence|].
          split; [|split].
          -- intros m Hm E. exfalso. apply (Hs m Hm). exact E.
          -- right. exact Hs.
          -- split; [|split]; assumption.
        * split; [|split].
          -- intros m Hm E. apply minsert_in in Hm; try assumption. destruct Hm as [->|Hm]; [congruence|]. auto.
          -- destruct r as [|b r'].
             ++ simpl. right. intros m [<-|[]]. exact Ed.
             ++ destruct B as [B|B].
                ** cbn [minsert]. replace (fst n =? fst b) with false by (symmetry; apply Nat.eqb_neq; congruence).
                   left. exact B.
                ** apply (headcond_all (fst c)). intros m Hm. apply minsert_in in Hm; try assumption.
                   destruct Hm as [->|Hm]; [exact Ed | auto].
          -- apply IH; try assumption. intros; discriminate.
  Qed.

  Lemma minsert_dup : forall n l seen, ginv l -> In n l -> (seen = true -> headcond (fst n) l) ->
    minsert W n l seen = l.
  Proof.
    intros n l. induction l as [|c r IH]; intros seen G Hin Hs; [contradiction|].
    destruct G as (A & B & C). cbn [minsert]. destruct Hin as [->|Hin].
    - rewrite Nat.eqb_refl, Nat.ltb_irrefl, Nat.eqb_refl. reflexivity.
    - destruct (fst n =? fst c) eqn:Ed.
      + apply Nat.eqb_eq in Ed. specialize (A n Hin Ed).
        replace (key W n <? key W c) with false by (symmetry; apply Nat.ltb_ge; lia).
        replace (key W n =? key W c) with false by (symmetry; apply Nat.eqb_neq; lia).
        f_equal. apply IH; try assumption. intros _. unfold headcond. rewrite Ed. exact B.
      + apply Nat.eqb_neq in Ed. destruct seen.
        * specialize (Hs eq_refl). simpl in Hs. destruct Hs as [Hs|Hs]; [congruence|].
          exfalso. apply (Hs n (or_intror Hin)). reflexivity.
        * f_equal. apply IH; try assumption. intros; discriminate.
  Qed.

  (* a one-document list: the invariant is sortedness, minsert is sinsert *)

  Lemma ginv_sorted : forall l d, (forall m, In m l -> fst m = d) -> ginv l -> sorted W l = true.
  Proof.
    induction l as [|c r IH]; intros d Hd G; [reflexivity|]. destruct G as (A & _ & C).
    apply sorted_cons. split.
    - intros m Hm. apply A; [assumption|]. rewrite (Hd m (or_intror Hm)), (Hd c (or_introl eq_refl)). reflexivity.
    - apply (IH d); [intros; apply Hd; right; assumption | assumption].
  Qed.

  Lemma minsert_sinsert : forall n l seen, (forall m, In m l -> fst m = fst n) ->
    minsert W n l seen = sinsert W n l.
  Proof.
    intros n l. induction l as [|c r IH]; intros seen Hd; [reflexivity|]. simpl.
    rewrite (Hd c (or_introl eq_refl)), Nat.eqb_refl.
    destruct (key W n <? key W c); [reflexivity|]. destruct (key W n =? key W c); [reflexivity|].
    f_equal. apply IH. intros; apply Hd; right; assumption.
  Qed.

  Lemma ginv_first_last : forall l f, ginv (f :: l) -> fst (last (f :: l) dummy) = fst f ->
    forall m, In m (f :: l) -> fst m = fst f.
  Proof.
    induction l as [|b r IH]; intros f G E m Hm.
    - destruct Hm as [<-|[]]. reflexivity.
    - destruct G as (A & B & C). change (last (f :: b :: r) dummy) with (last (b :: r) dummy) in E.
      destruct B as [B|B].
      + destruct Hm as [<-|Hm]; [reflexivity|]. rewrite <- B. apply (IH b C); [congruence | assumption].
      + exfalso. apply (B (last (b :: r) dummy)); [apply last_in | exact E].
  Qed.

  (* ---- the insertion routine (variant with the flag) refines minsert, on any documents ---- *)

  Theorem add_multi_refines : forall l n, Forall wv l -> wv n -> ginv l ->
    addNodeInDocOrder_v true W l n = Some (minsert W n l false).
  Proof.
    intros l n Hl Hn G. destruct l as [|f l']; [reflexivity|].
    destruct (forallb (fun m => fst m =? fst n) (f :: l')) eqn:All.
    - rewrite forallb_forall in All.
      assert (Hd : forall m, In m (f :: l') -> fst m = fst n) by (intros m Hm; apply Nat.eqb_eq; auto).
      rewrite (add_refines_v W (fst n)).
      + rewrite minsert_sinsert by assumption. reflexivity.
      + apply Forall_forall. intros m Hm. rewrite <- (Hd m Hm). apply wv_indoc. rewrite Forall_forall in Hl. auto.
      + apply wv_indoc. assumption.
      + apply (ginv_sorted _ (fst n)); assumption.
    - assert (Hother : exists m, In m (f :: l') /\ fst m <> fst n).
      { destruct (Exists_dec (fun m => fst m <> fst n) (f :: l')) as [E|E].
        - intro x. destruct (Nat.eq_dec (fst x) (fst n)); [right; tauto | left; assumption].
        - apply Exists_exists in E. exact E.
        - exfalso. assert (forallb (fun m => fst m =? fst n) (f :: l') = true); [|congruence].
          apply forallb_forall. intros m Hm. apply Nat.eqb_eq.
          destruct (Nat.eq_dec (fst m) (fst n)); [assumption|]. exfalso. apply E. apply Exists_exists. eauto. }
      unfold addNodeInDocOrder_v. cbv beta iota. set (l := f :: l') in *.
      assert (HlastIn : In (last l dummy) l) by apply last_in.
      destruct (lnode_eqb (last l dummy) n) eqn:Elast.
      + apply lnode_eqb_eq in Elast. f_equal. symmetry. apply minsert_dup; try assumption.
        * rewrite <- Elast. assumption.
        * intros; discriminate.
      + cbv zeta.
        assert (Hpe : forall c, In c l -> fst c = fst n -> c <> n ->
                  executionContextPredicate W n c = (key W c <? key W n)).
        { intros c Hc E Hne. apply ecpred_same_doc; try assumption. rewrite Forall_forall in Hl. auto. }
        destruct (isIndexed W n && (fst n =? fst f)) eqn:EB.
        * apply andb_true_iff in EB. destruct EB as [Hi Ef]. apply Nat.eqb_eq in Ef.
          destruct (fst f =? fst (last l dummy)) eqn:EL.
          -- exfalso. apply Nat.eqb_eq in EL. destruct Hother as (m & Hm & Hne). apply Hne.
             rewrite Ef. apply (ginv_first_last l' f G); [symmetry; exact EL | exact Hm].
          -- pose proof (linear_multi (indexPredicate W) n l 0 false Hn Hl) as Hlin.
             destruct (linearSearch true (indexPredicate W) l n 0 false) as [ins ip].
             destruct Hlin as [_ Heq].
             ++ intros c Hc E Hne. apply indexpred_same_doc; assumption.
             ++ f_equal. rewrite Nat.sub_0_r in Heq. exact Heq.
        * pose proof (linear_multi (executionContextPredicate W) n l 0 false Hn Hl Hpe) as Hlin.
          destruct (linearSearch true (executionContextPredicate W) l n 0 false) as [ins ip].
          destruct Hlin as [_ Heq]. f_equal. rewrite Nat.sub_0_r in Heq. exact Heq.
  Qed.

  (* ---- histories ---- *)

  Definition mfold (ns l : list lnode) : list lnode := fold_left (fun acc n => minsert W n acc false) ns l.

  Lemma mfold_props : forall ns l, Forall wv ns -> Forall wv l -> ginv l ->
    ginv (mfold ns l) /\ Forall wv (mfold ns l) /\ (forall m, In m (mfold ns l) <-> In m l \/ In m ns).
  Proof.
    induction ns as [|n ns IH]; intros l Hns Hl G; simpl.
    - split; [assumption | split; [assumption|]]. intro m. intuition.
    - inversion Hns; subst.
      destruct (IH (minsert W n l false) H2 (minsert_wv n l false H1 Hl)
                   (minsert_ginv n l false H1 Hl G ltac:(intros; discriminate))) as (A & B & C).
      split; [assumption | split; [assumption|]]. intro m. rewrite C, minsert_in by assumption. intuition.
  Qed.

  Theorem add_history_multi : forall ns l, Forall wv ns -> Forall wv l -> ginv l ->
    fold_left (add_step_v true W) ns (Some l) = Some (mfold ns l).
  Proof.
    induction ns as [|n ns IH]; intros l Hns Hl G; simpl; [reflexivity|].
    inversion Hns; subst. rewrite add_multi_refines by assumption.
    apply IH; [assumption | apply minsert_wv; assumption | apply minsert_ginv; try assumption; intros; discriminate].
  Qed.

  (* ---- what the invariant means for the observations of the property ---- *)

  Lemma ginv_nodup : forall l, ginv l -> NoDup l.
  Proof.
    induction l as [|c r IH]; intro G; [constructor|]. destruct G as (A & _ & C).
    constructor; [|auto]. intro Hin. specialize (A c Hin eq_refl). lia.
  Qed.

  Lemma ginv_grouped : forall l, ginv l -> groupedb (map fst l) = true.
  Proof.
    assert (D : forall r c, ginv (c :: r) -> existsb (Nat.eqb (fst c)) (drop_while_eq (fst c) (map fst r)) = false).
    { induction r as [|b r IH]; intros c G; [reflexivity|]. destruct G as (A & B & C). simpl.
      destruct (fst c =? fst b) eqn:E.
      - apply Nat.eqb_eq in E. rewrite E. apply IH. exact C.
      - apply Nat.eqb_neq in E. destruct B as [B|B]; [congruence|].
        apply not_true_is_false. intro X. apply existsb_exists in X. destruct X as (x & Hx & Ex).
        apply Nat.eqb_eq in Ex. change (fst b :: map fst r) with (map fst (b :: r)) in Hx.
        apply in_map_iff in Hx. destruct Hx as (m & Em & Hm). apply (B m Hm). congruence. }
    induction l as [|c r IH]; intro G; [reflexivity|]. simpl. rewrite (D r c G). simpl.
    apply IH. destruct G as (_ & _ & C). exact C.
  Qed.

  Lemma ginv_block_sorted : forall l i j, ginv l -> i < j -> j < length l ->
    fst (nth i l dummy) = fst (nth j l dummy) -> key W (nth i l dummy) < key W (nth j l dummy).
  Proof.
    induction l as [|c r IH]; intros i j G Hij Hj E; simpl in Hj; [lia|]. destruct G as (A & _ & C).
    destruct j as [|j]; [lia|]. destruct i as [|i]; simpl in *.
    - apply A; [apply nth_In; lia | congruence].
    - apply IH; try assumption; lia.
  Qed.

  (* ---- bulk merge and union over several documents ---- *)

  Lemma fold_add_multi : forall ns l, Forall wv ns -> Forall wv l -> ginv l ->
    exists r, fold_left (add_step W) ns (Some l) = Some r /\ ginv r /\ Forall wv r /\
              (forall m, In m r <-> In m l \/ In m ns).
  Proof.
    intros ns l Hns Hl G. exists (mfold ns l). destruct (mfold_props ns l Hns Hl G) as (A & B & C).
    split; [|split; [assumption | split; assumption]].
    unfold add_step. change keeps_documents_together with true. apply add_history_multi; assumption.
  Qed.

  Lemma Forall_rev_wv : forall l, Forall wv l -> Forall wv (rev l).
  Proof. intros l H. apply Forall_forall. intros m Hm. apply in_rev in Hm. rewrite Forall_forall in H. auto. Qed.

  Theorem addNodesInDocOrder_multi : forall dst src,
    Forall wv (items dst) -> Forall wv (items src) -> ginv (items dst) -> honest_multi W src = true ->
    exists r, addNodesInDocOrder W dst src = Some (NL r (ord dst)) /\ ginv r /\ Forall wv r /\
              (forall m, In m r <-> In m (items dst) \/ In m (items src)).
  Proof.
    intros [dl dord] [sl sord] Hd Hsrc G Hh. unfold honest_multi in Hh. simpl in *.
    unfold addNodesInDocOrder. simpl.
    assert (Case : forall ns, Forall wv ns -> (forall m, In m ns <-> In m sl) ->
              exists r, match fold_left (add_step W) ns (Some dl) with None => None | Some l => Some (NL l dord) end
                        = Some (NL r dord) /\ ginv r /\ Forall wv r /\ (forall m, In m r <-> In m dl \/ In m sl)).
    { intros ns Hns Hsame. destruct (fold_add_multi ns dl Hns Hd G) as (r & Hr & A & B & C).
      exists r. rewrite Hr. split; [reflexivity | split; [assumption | split; [assumption|]]].
      intro m. rewrite C, Hsame. reflexivity. }
    destruct sord.
    - apply Case; [assumption | intro; reflexivity].
    - destruct dl as [|c dl'].
      + exists sl. split; [reflexivity|]. split; [apply ginvb_spec; assumption|]. split; [assumption|].
        intro m. simpl. intuition.
      + apply Case; [assumption | intro; reflexivity].
    - destruct dl as [|c dl'].
      + exists (rev sl). split; [reflexivity|]. split; [apply ginvb_spec; assumption|].
        split; [apply Forall_rev_wv; assumption|]. intro m. simpl. rewrite <- in_rev. intuition.
      + apply Case; [apply Forall_rev_wv; assumption | intro m; rewrite <- in_rev; reflexivity].
  Qed.

  Theorem union_multi : forall ops,
    Forall (fun o => Forall wv (items o)) ops -> Forall (fun o => honest_multi W o = true) ops ->
    exists r, union_code W ops = Some (NL r DocOrder) /\ ginv r /\ Forall wv r /\
              (forall m, In m r <-> exists o, In o ops /\ In m (items o)).
  Proof.
    intros ops Hv Hh. unfold union_code.
    assert (Gen : forall ops acc o, Forall (fun x => Forall wv (items x)) ops ->
              Forall (fun x => honest_multi W x = true) ops -> Forall wv acc -> ginv acc ->
              exists r, fold_left (fun a x => match a with None => None | Some q => addNodesInDocOrder W q x end)
                                  ops (Some (NL acc o)) = Some (NL r o) /\ ginv r /\ Forall wv r /\
                        (forall m, In m r <-> In m acc \/ exists x, In x ops /\ In m (items x))).
    { clear. induction ops as [|x ops IH]; intros acc o Hv Hh Ha G; simpl.
      - exists acc. split; [reflexivity | split; [assumption | split; [assumption|]]].
        intro m. split; [tauto|]. intros [H|(x & [] & _)]. exact H.
      - inversion Hv; subst. inversion Hh; subst.
        destruct (addNodesInDocOrder_multi (NL acc o) x Ha H1 G H3) as (r1 & E1 & G1 & V1 & I1).
        rewrite E1. simpl ord. destruct (IH r1 o H2 H4 V1 G1) as (r & E & G2 & V2 & I2).
        exists r. split; [exact E | split; [assumption | split; [assumption|]]].
        intro m. rewrite I2, I1. simpl. split.
        + intros [[H|H]|(y & Hy & Hm)]; [left; exact H | right; exists x; tauto | right; exists y; tauto].
        + intros [H|(y & [<-|Hy] & Hm)]; [tauto | tauto | right; exists y; tauto]. }
    destruct (Gen ops [] Unknown Hv Hh (Forall_nil _) I) as (r & E & G & V & In_r).
    exists r. rewrite E. simpl. split; [reflexivity | split; [assumption | split; [assumption|]]].
    intro m. rewrite In_r. simpl. tauto.
  Qed.
End Multi.
