(* C01 core2: concrete instantiations of the abstract mechanisms satisfying mech2_ok.
   ex2_mech / ex2_prog: xsl:element with a computed name holding an attribute, a comment whose body mixes literal text,
   value-of, a for-each and a fragment variable, a comment with a single literal text containing "--" and a trailing
   "-", a processing instruction with a computed target whose body contains "?>", an element inside a fragment variable
   that is copied into the result - the non-vacuity examples of Properties_C01core2.v.
   kf_mech / kf_prog: the witness of finding K-C01-core2-1 (an xsl:copy-of of an element node inside the body of an
   xsl:variable inside xsl:comment). *)
From Coq Require Import List NArith Bool Arith.
Require Import XV.XsltEventsDefs XV.XsltVarsDefs XV.XsltCoreDefs XV.XsltCoreModel XV.XsltCoreSim.
Require Import XV.XsltCore2Defs XV.XsltCore2Model XV.XsltCore2Sim XV.XsltCore2Pkg.
Import ListNotations.

Definition e2_d (n : N) : str := [(48 + n)%N].
Fixpoint e2_text (l : list rnode) : str :=
  match l with
  | [] => []
  | RText s :: r => s ++ e2_text r
  | RElem _ _ ch :: r => (fix go (c : list rnode) : str := match c with [] => [] | RText s :: r' => s ++ go r' | _ :: r' => go r' end) ch ++ e2_text r
  | _ :: r => e2_text r
  end.
Definition e2_vstr (v : value) : str :=
  match v with VAtom _ s => s | VNodes l => match l with n :: _ => e2_d n | [] => [] end | VRtf t => e2_text t end.
Definition e2_value (id : N) (vals : list value) (n p z : N) : value :=
  if N.eqb id 11 then match vals with
                      | VRtf t :: _ => if forallb rnames_ok t then VRtf t else VAtom [] []
                      | v :: _ => v
                      | [] => VAtom [] []
                      end
  else VNodes [n].
Definition e2_string (id : N) (vals : list value) (n p z : N) : str :=
  if N.eqb id 2 then e2_d n else if N.eqb id 3 then e2_d p ++ [47%N] ++ e2_d z else if N.eqb id 4 then flat_map e2_vstr vals
  else if N.eqb id 7 then [110%N] ++ e2_d z else [].
Definition e2_bool (id : N) (vals : list value) (n p z : N) : bool := true.
Definition e2_nodes (id : N) (vals : list value) (n p z : N) : list N :=
  if N.eqb id 1 then (if N.eqb n 0 then [1; 2; 3]%N else []) else [].
Definition e2_sort (id : N) (vals : list value) (n p z : N) (l : list N) : list N := rev l.
Definition e2_sel (n md : N) : option N := if N.eqb n 0 then Some 0%N else None.
Definition e2_copy (n : N) : list item := if N.eqb n 9 then [GText [57%N]] else [GElem (e2_d n) [] [GText (e2_d n)]].
Definition e2_shallow (n : N) : shallow := if N.eqb n 0 then ShRoot else if N.eqb n 9 then ShLeaf [GText [57%N]] else ShElem (e2_d n).
Definition e2_name_ok (s : str) : bool := nonempty s.
Definition e2_pi_ok (s : str) : bool := nonempty s.
Definition X2 (id : N) (vs : list N) := mkX id vs.
Definition hy : N := 45%N.
Definition ex2_prog : list instr2 :=
 [ JTemplate []
     [JElement [ALit [101%N]; AExp (X2 7 [])]
        [JAttribute [107%N] [AExp (X2 3 [])];
         JComment [JText [97%N]; JValueOf (X2 3 []);
                   JVar 1 None [JLre [98%N] [] [JValueOf (X2 2 [])]];
                   JForEach (X2 1 []) (Some (X2 20 [])) [JValueOf (X2 3 []); JText [hy]];
                   JValueOf (X2 4 [1%N]); JText [hy]];
         JComment [JText [120; 45; 45; 121; 45]%N];
         JPI [ALit [112%N]; AExp (X2 2 [])] [JText [63%N]; JText [62%N]; JValueOf (X2 3 [])];
         JVar 2 None [JElement [AExp (X2 7 [])] [JComment [JText [99%N]]]];
         JCopyOf (X2 11 [2%N])]] ].
Definition ex2_mech : mech2 :=
  mkMech2 e2_value e2_string e2_bool e2_nodes e2_sort e2_sel e2_copy e2_shallow ex2_prog e2_name_ok e2_pi_ok.

Lemma ex2_mech_ok : mech2_ok ex2_mech.
Proof.
  unfold mech2_ok, ex2_mech; cbn [m2c_nodes m2c_sort m2c_copy m2c_shallow m2c_value m2c_name_ok]. repeat split.
  - intros. unfold e2_nodes.
    repeat match goal with |- context [if ?b then _ else _] => destruct b end;
    repeat constructor; simpl; intuition discriminate.
  - intros. unfold e2_sort. apply NoDup_rev. assumption.
  - intros. unfold e2_copy. destruct (N.eqb n 9); reflexivity.
  - intros. unfold e2_shallow in H. destruct (N.eqb n 0); try discriminate. destruct (N.eqb n 9); try discriminate.
    inversion H. reflexivity.
  - intros n H. exact H.
  - intros id vs n p z t. unfold e2_value. destruct (N.eqb id 11); try discriminate.
    destruct vs as [|v r]; try discriminate. destruct v; try discriminate.
    destruct (forallb rnames_ok t0) eqn:E; try discriminate. intros H. inversion H. subst. exact E.
Qed.

Definition ex2_tree : list rnode :=
  let t := fun s => RText s in
  [RElem [101; 110; 49]%N [([107%N], [49; 47; 49]%N)]
     [RComment [97; 49; 47; 49; 49; 47; 51; 45; 50; 47; 51; 45; 51; 47; 51; 45; 48; 45; 32]%N;
      RComment [120; 45; 32; 45; 121; 45; 32]%N;
      RPI [112; 48]%N [63; 32; 62; 49; 47; 49]%N;
      RElem [110; 49]%N [] [RComment [99%N]]]].

Lemma ex2_both_sides :
  option_map result_of (SemMain2 false ex2_mech 12 0%N) = Some ex2_tree /\
  (match MachineMain2 true true ex2_mech 400 0%N with Done2 s => result_tree2 s | _ => None end) = Some ex2_tree /\
  SemMain2 false ex2_mech 3 0%N = None.
Proof. vm_compute. repeat split; reflexivity. Qed.

Lemma ex2_theorem_applies :
  exists k s, (forall j, MachineMain2 true true ex2_mech (k + j) 0%N = Done2 s) /\ result_tree2 s = Some ex2_tree.
Proof.
  destruct (SemMain2 false ex2_mech 12 0%N) as [items|] eqn:E.
  - destruct (machine2_refines_sem2_pkg true ex2_mech ex2_mech_ok 12 0%N items E) as [k [s [H1 H2]]].
    exists k, s. split; auto. rewrite H2. f_equal.
    pose proof ex2_both_sides as [X _]. rewrite E in X. simpl in X. inversion X. reflexivity.
  - pose proof ex2_both_sides as [X _]. rewrite E in X. discriminate.
Qed.

(* ---- the witness of K-C01-core2-1 ----
   <xsl:template match="/"><xsl:comment><xsl:variable name="v"><xsl:copy-of select="a"/></xsl:variable>
   <xsl:value-of select="$v"/></xsl:comment></xsl:template>   on <a>h</a> *)
Definition kf_value (id : N) (vals : list value) (n p z : N) : value := VNodes [5%N].
Definition kf_string (id : N) (vals : list value) (n p z : N) : str := flat_map e2_vstr vals.
Definition kf_copy (n : N) : list item := [GElem [97%N] [] [GText [104%N]]].
Definition kf_prog : list instr2 :=
  [ JTemplate [] [JComment [JVar 1 None [JCopyOf (X2 1 [])]; JValueOf (X2 2 [1%N])]] ].
Definition kf_mech : mech2 :=
  mkMech2 kf_value kf_string e2_bool (fun _ _ _ _ _ => []) (fun _ _ _ _ _ l => l) (fun _ _ => Some 0%N) kf_copy (fun _ => ShRoot)
          kf_prog e2_name_ok e2_pi_ok.

Lemma kf_mech_ok : mech2_ok kf_mech.
Proof.
  unfold mech2_ok, kf_mech; cbn [m2c_nodes m2c_sort m2c_copy m2c_shallow m2c_value m2c_name_ok]. repeat split.
  - intros. constructor.
  - intros. assumption.
  - intros. discriminate.
  - intros n H. exact H.
  - intros. discriminate.
Qed.

(* the reference semantics defines the comment "h"; the machine of the variant before the repair (16b1cb3) stops with the
   empty comment, where the guarded semantics is undefined; the machine of the repaired variant builds "h" *)
Lemma kf_witness :
  option_map result_of (SemMain2 false kf_mech 6 0%N) = Some [RComment [104%N]] /\
  (match MachineMain2 false false kf_mech 60 0%N with Done2 s => result_tree2 s | _ => None end) = Some [RComment []] /\
  SemMain2 true kf_mech 6 0%N = None /\
  (match MachineMain2 true true kf_mech 60 0%N with Done2 s => result_tree2 s | _ => None end) = Some [RComment [104%N]].
Proof. vm_compute. repeat split; reflexivity. Qed.

Lemma machine2_refines_sem2_before_fix_refuted_pkg :
  exists m, mech2_ok m /\ exists f root items n s,
    SemMain2 false m f root = Some items /\ MachineMain2 false false m n root = Done2 s /\ result_tree2 s <> Some (result_of items).
Proof.
  exists kf_mech. split. exact kf_mech_ok.
  destruct (SemMain2 false kf_mech 6 0%N) as [items|] eqn:E.
  2:{ pose proof kf_witness as [X _]. rewrite E in X. discriminate. }
  destruct (MachineMain2 false false kf_mech 60 0%N) as [c s|s|] eqn:Em.
  1,3: pose proof kf_witness as [_ [X _]]; rewrite Em in X; discriminate.
  exists 6, 0%N, items, 60, s. split; [exact E|]. split; [exact Em|].
  pose proof kf_witness as [X [Y _]]. rewrite E in X. rewrite Em in Y. simpl in X. inversion X as [X1].
  rewrite Y. rewrite X1. intros C. discriminate.
Qed.

(* ---- xsl:copy of an element node inside the content of a PI (an error of the stylesheet: sem2 is undefined) ----
   <xsl:template match="/"><xsl:processing-instruction name="p"><xsl:copy>x</xsl:copy></xsl:processing-instruction>
   </xsl:template> with an element as current node: the repaired variant (6d0ffbc) ignores the element with its content, the
   variant before ran the content and issued an end tag without a start tag *)
Definition kc_prog : list instr2 := [ JTemplate [] [JPI [ALit [112%N]] [JCopy [JText [120%N]]]] ].
Definition kc_mech : mech2 :=
  mkMech2 kf_value kf_string e2_bool (fun _ _ _ _ _ => []) (fun _ _ _ _ _ l => l) (fun _ _ => Some 0%N) kf_copy (fun _ => ShElem [97%N])
          kc_prog e2_name_ok e2_pi_ok.

Lemma kc_witness :
  SemMain2 false kc_mech 6 0%N = None /\
  (match MachineMain2 true true kc_mech 60 0%N with Done2 s => result_tree2 s | _ => None end) = Some [RPI [112%N] []] /\
  (match MachineMain2 true false kc_mech 60 0%N with Done2 s => result_tree2 s | _ => None end) = Some [RPI [112%N] [120%N]].
Proof. vm_compute. repeat split; reflexivity. Qed.
