(* C02, extension part (family xpx): math:min / max / highest / lowest (XalanEXSLTMath.cpp findValue, findNodes). *)
From Coq Require Import List NArith ZArith Bool Arith Lia.
From Coq Require Import ZifyBool ZifyNat ZifyN.
Require Import XV.GenXpx XV.XpxDefs XV.XpxModel.
Import ListNotations.

Lemma is_nan_true : forall c, is_nan c = true -> c = XNaN.
Proof. intros [|z]; [reflexivity | discriminate]. Qed.

Lemma better_nan_r : forall dir c, better dir c XNaN = false.
Proof. intros dir [|z]; reflexivity. Qed.

(* once the running result is NaN it stays NaN (the comparisons with NaN are false) *)
Lemma fv_loop_nan_start : forall dir l, fv_loop dir XNaN l = XNaN.
Proof.
  intros dir. induction l as [|c t IH]; cbn [fv_loop]; [reflexivity|].
  destruct (is_nan c) eqn:E; [apply is_nan_true; exact E|]. rewrite better_nan_r. exact IH.
Qed.

Lemma fv_loop_nan : forall dir l r, has_nan l = true -> fv_loop dir r l = XNaN.
Proof.
  intros dir. induction l as [|c t IH]; intros r H; [discriminate|]. cbn [fv_loop].
  unfold has_nan in H. cbn [existsb] in H. destruct (is_nan c) eqn:E; [apply is_nan_true; exact E|].
  cbn in H. destruct (better dir c r); apply IH; exact H.
Qed.

Lemma find_value_empty : forall dir, find_value dir [] = XNaN.
Proof. reflexivity. Qed.

(* NaN anywhere (first node included) gives NaN *)
Lemma find_value_nan : forall dir l, has_nan l = true -> find_value dir l = XNaN.
Proof.
  intros dir [|x t] H; [reflexivity|]. cbn [find_value]. unfold has_nan in H. cbn [existsb] in H.
  destruct (is_nan x) eqn:E.
  - apply is_nan_true in E. subst. apply fv_loop_nan_start.
  - apply fv_loop_nan. exact H.
Qed.

Lemma fv_loop_spec : forall dir l r, has_nan l = false ->
  exists m, fv_loop dir (XV r) l = XV m /\ (m = r \/ In (XV m) l) /\ dir_le dir m r /\
            forall v, In (XV v) l -> dir_le dir m v.
Proof.
  intros dir. induction l as [|c t IH]; intros r H.
  - exists r. cbn. split; [reflexivity|]. split; [left; reflexivity|]. split; [destruct dir; cbn; lia | intros v []].
  - unfold has_nan in H. cbn [existsb] in H. apply orb_false_iff in H. destruct H as [Hc Ht].
    destruct c as [|v]; [discriminate|]. cbn [fv_loop is_nan].
    destruct (better dir (XV v) (XV r)) eqn:B.
    + destruct (IH v Ht) as [m [H1 [H2 [H3 H4]]]]. exists m. split; [exact H1|]. split.
      * right. destruct H2 as [H2 | H2]; [left; congruence | right; exact H2].
      * split.
        -- destruct dir; cbn in *; lia.
        -- intros w [Hw | Hw]; [inversion Hw; subst; exact H3 | auto].
    + destruct (IH r Ht) as [m [H1 [H2 [H3 H4]]]]. exists m. split; [exact H1|]. split.
      * destruct H2 as [H2 | H2]; [left; exact H2 | right; right; exact H2].
      * split; [exact H3|]. intros w [Hw | Hw]; [|auto]. inversion Hw; subst. destruct dir; cbn in *; lia.
Qed.

(* without NaN: the result is a value of the list and no value of the list is better *)
Lemma find_value_spec : forall dir l, has_nan l = false -> l <> [] ->
  exists m, find_value dir l = XV m /\ In (XV m) l /\ forall v, In (XV v) l -> dir_le dir m v.
Proof.
  intros dir [|x t] H Hne; [congruence|]. unfold has_nan in H. cbn [existsb] in H.
  apply orb_false_iff in H. destruct H as [Hx Ht]. destruct x as [|r]; [discriminate|].
  cbn [find_value]. destruct (fv_loop_spec dir t r Ht) as [m [H1 [H2 [H3 H4]]]].
  exists m. split; [exact H1|]. split.
  - destruct H2 as [H2 | H2]; [left; congruence | right; exact H2].
  - intros v [Hv | Hv]; [inversion Hv; subst; exact H3 | auto].
Qed.

(* ---------------------------------------------------------------------------------------------- *)
(* highest / lowest *)

Lemma fn_loop_nan : forall dir t cur acc, has_nan (map snd t) = true -> fn_loop dir cur acc t = [].
Proof.
  intros dir. induction t as [|[n c] t IH]; intros cur acc H; [discriminate|]. cbn [fn_loop].
  unfold has_nan in H. cbn [map snd existsb] in H. destruct (is_nan c) eqn:E; [reflexivity|]. cbn in H.
  destruct (xeq c cur); [apply IH; exact H|]. destruct (better dir c cur); apply IH; exact H.
Qed.

Lemma find_nodes_m_nan : forall dir l, has_nan (map snd l) = true -> find_nodes_m dir l = [].
Proof.
  intros dir [|[n v] t] H; [reflexivity|]. cbn [find_nodes_m]. unfold has_nan in H. cbn [map snd existsb] in H.
  destruct (is_nan v) eqn:E; [reflexivity|]. apply fn_loop_nan. exact H.
Qed.

Lemma fn_loop_sorted : forall dir t cur acc, sorted acc -> sorted (fn_loop dir cur acc t).
Proof.
  intros dir. induction t as [|[n c] t IH]; intros cur acc Hs; cbn [fn_loop]; [exact Hs|].
  destruct (is_nan c); [exact I|]. destruct (xeq c cur); [apply IH; apply insert_sorted; exact Hs|].
  destruct (better dir c cur); [apply IH; cbn; split; [intros y [] | exact I] | apply IH; exact Hs].
Qed.

Lemma find_nodes_m_sorted : forall dir l, sorted (find_nodes_m dir l).
Proof.
  intros dir [|[n v] t]; [exact I|]. cbn [find_nodes_m]. destruct (is_nan v); [exact I|].
  apply fn_loop_sorted. cbn. split; [intros y [] | exact I].
Qed.

Lemma fv_loop_le : forall dir l r m, has_nan l = false -> fv_loop dir (XV r) l = XV m -> dir_le dir m r.
Proof.
  intros dir l r m H E. destruct (fv_loop_spec dir l r H) as [m' [H1 [_ [H3 _]]]]. rewrite H1 in E. inversion E; subst. exact H3.
Qed.

Lemma fn_loop_In : forall dir t c acc x, has_nan (map snd t) = false ->
  exists m, fv_loop dir (XV c) (map snd t) = XV m /\
    (In x (fn_loop dir (XV c) acc t) <-> (In x acc /\ m = c) \/ (exists v, In (x, XV v) t /\ v = m)).
Proof.
  intros dir. induction t as [|[n cv] t IH]; intros c acc x H.
  - exists c. cbn. split; [reflexivity|]. split; [intros Hx; left; auto | intros [[Hx _] | [v [[] _]]]; exact Hx].
  - unfold has_nan in H. cbn [map snd existsb] in H. apply orb_false_iff in H. destruct H as [Hc Ht].
    destruct cv as [|v]; [discriminate|]. cbn [map snd fv_loop fn_loop is_nan xeq].
    destruct (Z.eqb v c) eqn:EQ.
    + assert (v = c) by lia. subst v.
      assert (B : better dir (XV c) (XV c) = false) by (destruct dir; cbn; lia). rewrite B.
      destruct (IH c (insert n acc) x Ht) as [m [H1 H2]]. exists m. split; [exact H1|]. rewrite H2. rewrite insert_In.
      split.
      * intros [[[Hx | Hx] Hm] | [w [Hw1 Hw2]]].
        -- subst. right. exists c. split; [left; reflexivity | reflexivity].
        -- left. auto.
        -- right. exists w. split; [right; exact Hw1 | exact Hw2].
      * intros [[Hx Hm] | [w [[Hw1 | Hw1] Hw2]]].
        -- left. auto.
        -- inversion Hw1; subst. left. auto.
        -- right. exists w. auto.
    + destruct (better dir (XV v) (XV c)) eqn:B.
      * destruct (IH v [n] x Ht) as [m [H1 H2]]. exists m. split; [exact H1|]. rewrite H2.
        assert (Hle := fv_loop_le dir _ _ _ Ht H1).
        assert (Hne : m <> c) by (destruct dir; cbn in *; lia).
        split.
        -- intros [[[Hx | []] Hm] | [w [Hw1 Hw2]]].
           ++ subst. right. exists v. split; [left; reflexivity | reflexivity].
           ++ right. exists w. split; [right; exact Hw1 | exact Hw2].
        -- intros [[Hx Hm] | [w [[Hw1 | Hw1] Hw2]]].
           ++ contradiction.
           ++ inversion Hw1; subst. left. split; [left; reflexivity | reflexivity].
           ++ right. exists w. auto.
      * destruct (IH c acc x Ht) as [m [H1 H2]]. exists m. split; [exact H1|]. rewrite H2.
        assert (Hle := fv_loop_le dir _ _ _ Ht H1).
        split.
        -- intros [[Hx Hm] | [w [Hw1 Hw2]]]; [left; auto | right; exists w; split; [right; exact Hw1 | exact Hw2]].
        -- intros [[Hx Hm] | [w [[Hw1 | Hw1] Hw2]]].
           ++ left; auto.
           ++ inversion Hw1; subst. exfalso. destruct dir; cbn in *; lia.
           ++ right. exists w. auto.
Qed.

(* math:highest / lowest = the nodes whose value equals math:max / min of the same list *)
Lemma find_nodes_m_spec : forall dir l x, has_nan (map snd l) = false ->
  (In x (find_nodes_m dir l) <-> exists v, In (x, XV v) l /\ find_value dir (map snd l) = XV v).
Proof.
  intros dir [|[n cv] t] x H.
  - cbn. split; [intros [] | intros [v [[] _]]].
  - unfold has_nan in H. cbn [map snd existsb] in H. apply orb_false_iff in H. destruct H as [Hc Ht].
    destruct cv as [|c]; [discriminate|]. cbn [find_nodes_m is_nan map snd find_value].
    destruct (fn_loop_In dir t c [n] x Ht) as [m [H1 H2]]. rewrite H2, H1. split.
    + intros [[[Hx | []] Hm] | [w [Hw1 Hw2]]].
      * subst. exists c. split; [left; reflexivity | reflexivity].
      * subst. exists m. split; [right; exact Hw1 | reflexivity].
    + intros [w [[Hw1 | Hw1] Hw2]].
      * inversion Hw1; subst. inversion Hw2; subst. left. split; [left; reflexivity | reflexivity].
      * inversion Hw2; subst. right. exists w. auto.
Qed.
