(* bridge: the two loops establish exactly the hyphen / '?>' conjuncts of the serializer-level guards
   SerDocDefs.comment_ok and SerDocDefs.pi_ok, under which C04's serialize_parse theorems hold *)
From Coq Require Import NArith List Bool.
Require Import XV.XmlParseDefs XV.SerDocDefs XV.FixupDefs XV.FixupModel.
Import ListNotations.
Local Open Scope N_scope.

Lemma has_sub_pair : forall a b s, has_sub [a; b] s = has_pair a b s.
Proof.
  intros a b. induction s as [|c r IH]; [reflexivity|].
  cbn [has_sub]. rewrite IH. rewrite has_pair_cons.
  cbn [starts_with]. destruct r as [|d t].
  - destruct (a =? c); reflexivity.
  - rewrite (N.eqb_sym a c), (N.eqb_sym b d).
    destruct (c =? a); [destruct (d =? b)|]; reflexivity.
Qed.

Theorem xsl_comment_data_meets_serializer_guard : forall v11 s,
  raw_data_ok v11 (fix_comment s) = true -> comment_ok v11 (fix_comment s) = true.
Proof.
  intros v11 s H. unfold comment_ok. rewrite H. cbn [andb].
  pose proof (fix_comment_ok s) as K. unfold comment_hyphens_ok, ends_with in K.
  change 45 with hyphen. rewrite has_sub_pair. exact K.
Qed.

Theorem xsl_pi_data_has_no_close : forall s, has_sub [63; 62] (fix_pi s) = false.
Proof.
  intro s. change 63 with qmark. change 62 with gt. rewrite has_sub_pair.
  pose proof (fix_pi_ok s) as K. unfold pi_close_ok in K. now apply negb_true_iff in K.
Qed.
