(* ExecModel.v — C11: lemmas and proofs about the model of the six evaluation entry points
   (ExecDefs.v) dispatching through the regenerated tables (GenExec.v).
   Part 1: per-op-code table facts (finite domain, computed and lifted).
   Part 2: every entry point delivers the XPath conversion of the value the generic model
           XpDefs.eval delivers, by induction on the recursion depth, simultaneously for the six
           entry points (they call each other: Or/And -> bool, arithmetic -> double, count()/sum()/
           name()/path heads/unions -> node list, string-length() -> character events, comparisons and
           predicates and general function arguments -> generic). *)
From Coq Require Import ZArith NArith List Bool Arith Lia SpecFloat.
Require Import XV.GenNum XV.NumDefs XV.XpAst XV.DomDefs XV.XpDefs XV.XpModel XV.ExecArms XV.GenExec XV.ExecShapes XV.ExecDefs.
Import ListNotations.
Local Open Scope list_scope.

(** * Part 1: the tables *)
Lemma all_opcodes_complete : forall op, In op all_opcodes.
Proof. destruct op; unfold all_opcodes; repeat (try (left; reflexivity); right). Qed.

Lemma forall_opcodes (P : opcode -> bool) : forallb P all_opcodes = true -> forall op, P op = true.
Proof. intros H op. eapply forallb_forall in H; [exact H | apply all_opcodes_complete]. Qed.

Lemma generic_table_ok : forall op, generic_arm_ok (arm_generic op) = true.
Proof. apply forall_opcodes. vm_compute. reflexivity. Qed.

Lemma spec_table_ok : forall en op, spec_arm_ok en (arm_generic op) (arm_of en op) = true.
Proof. intros en. destruct en; apply forall_opcodes; vm_compute; reflexivity. Qed.

Lemma nodes_post_check_present : nodes_post_check = true.
Proof. reflexivity. Qed.

(* the bodies of the helper overloads the model mirrors are the ones it was written from *)
Lemma helper_bodies_as_modelled : helper_shapes = pinned_shapes.
Proof. reflexivity. Qed.

(* the op-code the model assigns to a function call is the one the compiler's tables assign *)
Lemma fn_opcode_follows_compiler_lemma : forall name args, fn_opcode name args = compiler_fn_opcode name args.
Proof.
  intros name args. unfold fn_opcode, compiler_fn_opcode, fn_is.
  cbn [find compiler_fn_table fst snd].
  unfold s_position, s_last, s_count, s_not, s_true_fn, s_false_fn, s_boolean, s_name, s_local_name, s_number,
    s_floor, s_ceiling, s_round, s_sum, s_string_length.
  repeat match goal with
         | |- context [str_eqb name ?K] =>
             let T := fresh "T" in
             destruct (str_eqb name K) eqn:T;
             [apply str_eqb_eq in T; subst name; destruct args; reflexivity |]
         end.
  reflexivity.
Qed.

(** * Part 2: one value *)
Definition forget {A} (r : res A) : option A := match r with Ok a => Some a | Err _ => None end.
Definition obind {A B} (o : option A) (f : A -> option B) : option B :=
  match o with Some a => f a | None => None end.

Lemma forget_bind {A B} (r : res A) (k : A -> res B) :
  forget (bind r k) = obind (forget r) (fun a => forget (k a)).
Proof. destruct r; reflexivity. Qed.

Lemma forget_ok {A} (r : res A) a : forget r = Some a -> r = Ok a.
Proof. destruct r; cbn; congruence. Qed.

Lemma forget_eq_bind {A B} (r1 r2 : res A) (k1 k2 : A -> res B) :
  forget r1 = forget r2 -> (forall a, forget (k1 a) = forget (k2 a)) ->
  forget (bind r1 k1) = forget (bind r2 k2).
Proof. intros H K. rewrite !forget_bind, H. destruct (forget r2); cbn; auto. Qed.

(* folds in the error monad *)
Lemma forget_fold {A B} (F1 F2 : res A -> B -> res A) :
  (forall a1 a2 b, forget a1 = forget a2 -> forget (F1 a1 b) = forget (F2 a2 b)) ->
  forall l a1 a2, forget a1 = forget a2 -> forget (fold_left F1 l a1) = forget (fold_left F2 l a2).
Proof. intros H. induction l as [|b l IH]; intros a1 a2 Ha; cbn [fold_left]; auto. Qed.

Lemma merge_ordered_id l : ordered l -> merge_doc_order [] l = l.
Proof.
  intros H. apply ordered_ext; [apply merge_ordered, ordered_nil | exact H |].
  intros x. rewrite merge_In. cbn. tauto.
Qed.

(** extensionality of the step / predicate / function machinery of XpDefs in the evaluator it is
    given, up to the kind of error, over the contexts that share the variable bindings *)
Section Ext.
  Variables ev1 ev2 : ctx -> expr -> res value.
  Variable P : ctx -> Prop.
  Hypothesis Pnode : forall c n l, P c -> P (with_node c n l).
  Hypothesis H12 : forall c e, P c -> forget (ev1 c e) = forget (ev2 c e).

  Lemma pred_filter_ext c l pe rest i : P c ->
    forget (pred_filter ev1 c l pe rest i) = forget (pred_filter ev2 c l pe rest i).
  Proof.
    intros Pc. revert i. induction rest as [|n r IH]; intros i; cbn [pred_filter]; [reflexivity|].
    apply forget_eq_bind; [apply H12, Pnode, Pc|]. intros v.
    apply forget_eq_bind; [apply IH|]. reflexivity.
  Qed.

  Lemma apply_pred_ext c l p : P c -> forget (apply_pred ev1 c l p) = forget (apply_pred ev2 c l p).
  Proof.
    intros Pc. unfold apply_pred. destruct l as [|a l']; [reflexivity|].
    destruct (snd p); try apply pred_filter_ext; auto.
  Qed.

  Lemma apply_preds_ext c ps : P c -> forall l, forget (apply_preds ev1 c l ps) = forget (apply_preds ev2 c l ps).
  Proof.
    intros Pc l. unfold apply_preds. apply forget_fold; [|reflexivity].
    intros a1 a2 p Ha. apply forget_eq_bind; [exact Ha|]. intros l'. apply apply_pred_ext, Pc.
  Qed.

  Lemma steps_from_ext c : P c -> forall sfuel sub rv rest,
    forget (steps_from ev1 c sfuel sub rv rest) = forget (steps_from ev2 c sfuel sub rv rest).
  Proof.
    intros Pc. induction sfuel as [|sf IH]; intros sub rv rest; cbn [steps_from]; [reflexivity|].
    destruct rest as [|[[ax t] ps] rest']; [reflexivity|].
    apply forget_fold; [|reflexivity].
    intros a1 a2 n Ha. apply forget_eq_bind; [exact Ha|]. intros q.
    apply forget_eq_bind; [reflexivity|]. intros [l0 rv0].
    apply forget_eq_bind; [apply apply_preds_ext, Pc|]. intros l1.
    apply forget_eq_bind; [apply IH|]. reflexivity.
  Qed.
End Ext.

Section FnExt.
  Variables ev1 ev2 : ctx -> expr -> res value.
  Variable c : ctx.
  Hypothesis H12 : forall e, forget (ev1 c e) = forget (ev2 c e).

  Lemma ev_num_ext x : forget (ev_num ev1 c x) = forget (ev_num ev2 c x).
  Proof. unfold ev_num. destruct x; try reflexivity; (apply forget_eq_bind; [apply H12 | reflexivity]). Qed.

  Lemma ev_bool_ext x : forget (ev_bool ev1 c x) = forget (ev_bool ev2 c x).
  Proof. unfold ev_bool. apply forget_eq_bind; [apply H12 | reflexivity]. Qed.

  Ltac ext1 :=
    first [ reflexivity | apply H12 | apply ev_num_ext | apply ev_bool_ext
          | apply forget_eq_bind; [|intro] ].

  Lemma call_function_ext name args :
    forget (call_function ev1 c name args) = forget (call_function ev2 c name args).
  Proof.
    unfold call_function.
    repeat match goal with
           | |- forget (if ?b then _ else _) = forget (if ?b then _ else _) => destruct b
           end;
    try (destruct args as [|a1 [|a2 [|a3 [|a4 rest]]]]; repeat ext1; fail).
    all: try reflexivity.
    destruct args as [|a1 [|a2 rest]]; try reflexivity.
    set (l := a1 :: a2 :: rest). clearbody l.
    apply forget_eq_bind; [|reflexivity].
    apply forget_fold; [|reflexivity].
    intros q1 q2 x Hq. apply forget_eq_bind; [exact Hq|]. intros q. repeat ext1.
  Qed.
End FnExt.

Record agrees (E : evs) (ev : ctx -> expr -> res value) (c : ctx) (e : expr) : Prop := mkAgrees {
  ag_g : forget (ev_g E c e) = forget (ev c e);
  ag_b : forget (ev_b E c e) = option_map to_boolean (forget (ev c e));
  ag_n : forget (ev_n E c e) = option_map (to_number c) (forget (ev c e));
  ag_s : forall buf, forget (ev_s E c e buf) = option_map (fun v => buf ++ to_string c v) (forget (ev c e));
  ag_f : forall acc, forget (ev_f E c e acc) = option_map (fun v => acc ++ to_string c v) (forget (ev c e));
  ag_l : option_map nl_nodes (forget (ev_l E c e)) = obind (forget (ev c e)) (fun v => forget (as_nodes v))
}.

Lemma vars_ordered_with_node c n l : vars_ordered c -> vars_ordered (with_node c n l).
Proof. intros H. exact H. Qed.

Lemma option_map_map {A B C} (g : B -> C) (h : A -> B) o : option_map g (option_map h o) = option_map (fun a => g (h a)) o.
Proof. destruct o; reflexivity. Qed.

Lemma xo_boolean_num_spec x : xo_boolean_num x = to_boolean (VNum x).
Proof. unfold xo_boolean_num; cbn. destruct (d_is_nan x), (d_is_zero x); reflexivity. Qed.

Ltac crush :=
  repeat (rewrite ?forget_bind;
          match goal with
          | |- context [obind (forget ?X) _] => destruct (forget X); cbn [obind option_map forget]
          end);
  try reflexivity.

Section Step.
  Variable f : nat.
  Let E := execs f.
  Let ev := eval f.
  Hypothesis IH : forall c e, vars_ordered c -> agrees E ev c e.

  Lemma operand_ok c x : vars_ordered c -> forget (numeric_operand E c x) = forget (ev_num ev c x).
  Proof.
    intros Hc. unfold numeric_operand, ev_num.
    destruct x; try reflexivity; rewrite forget_bind, (ag_n _ _ _ _ (IH c _ Hc)); destruct (forget (ev c _)); reflexivity.
  Qed.

  Lemma number_arg_ok c x : vars_ordered c -> forget (number_arg E c x) = forget (ev_num ev c x).
  Proof.
    intros Hc. unfold number_arg, ev_num.
    destruct x; try reflexivity; rewrite forget_bind, (ag_n _ _ _ _ (IH c _ Hc)); destruct (forget (ev c _)); reflexivity.
  Qed.

  Lemma bool_ok c x : vars_ordered c -> forget (ev_b E c x) = forget (ev_bool ev c x).
  Proof.
    intros Hc. unfold ev_bool. rewrite forget_bind, (ag_b _ _ _ _ (IH c x Hc)). destruct (forget (ev c x)); reflexivity.
  Qed.

  Lemma nl_facts c x r : vars_ordered c -> ev_l E c x = Ok r ->
    forget (ev c x) = Some (VNodes (nl_nodes r)) /\ ordered (nl_nodes r).
  Proof.
    intros Hc Hr. pose proof (ag_l _ _ _ _ (IH c x Hc)) as H. rewrite Hr in H. cbn in H.
    destruct (forget (ev c x)) as [v|] eqn:Ev; cbn in H; [|discriminate].
    destruct v; cbn in H; try discriminate. inversion H; subst. split; [reflexivity|].
    apply forget_ok in Ev. apply eval_nodes_ordered in Ev; [|exact Hc]. exact Ev.
  Qed.

  Lemma nl_none c x : vars_ordered c -> forget (ev_l E c x) = None ->
    obind (forget (ev c x)) (fun v => forget (as_nodes v)) = None.
  Proof.
    intros Hc Hr. pose proof (ag_l _ _ _ _ (IH c x Hc)) as H. rewrite Hr in H. cbn in H. auto.
  Qed.

  Lemma nl_merged_nodes c x r : vars_ordered c -> ev_l E c x = Ok r -> nl_merged r = nl_nodes r.
  Proof.
    intros Hc Hr. destruct (nl_facts c x r Hc Hr) as [_ Ho].
    destruct r; cbn in *; [apply merge_ordered_id; exact Ho | reflexivity].
  Qed.

  (* the node-list entry point against "evaluate generally, then require a node-set" *)
  Lemma nodes_ok {A} c x (k1 k2 : list nat -> res A) : vars_ordered c ->
    (forall l, ordered l -> forget (k1 l) = forget (k2 l)) ->
    forget (do r <- ev_l E c x; k1 (nl_nodes r)) = forget (do v <- ev c x; do ns <- as_nodes v; k2 ns).
  Proof.
    intros Hc K. rewrite !forget_bind.
    destruct (ev_l E c x) as [r|] eqn:Er; cbn.
    - destruct (nl_facts c x r Hc Er) as [Hv Ho]. rewrite Hv. cbn. apply K, Ho.
    - pose proof (nl_none c x Hc) as H. rewrite Er in H. specialize (H eq_refl).
      destruct (forget (ev c x)) as [v|]; cbn in *; [|reflexivity].
      rewrite forget_bind. rewrite H. reflexivity.
  Qed.

  Lemma merged_ok {A} c x (k1 k2 : list nat -> res A) : vars_ordered c ->
    (forall l, ordered l -> forget (k1 l) = forget (k2 l)) ->
    forget (do r <- ev_l E c x; k1 (nl_merged r)) =
    forget (do v <- ev c x; do ns <- as_nodes v; k2 (merge_doc_order [] ns)).
  Proof.
    intros Hc K. rewrite !forget_bind.
    destruct (ev_l E c x) as [r|] eqn:Er; cbn.
    - destruct (nl_facts c x r Hc Er) as [Hv Ho]. rewrite Hv. cbn.
      rewrite (nl_merged_nodes c x r Hc Er), (merge_ordered_id _ Ho). apply K, Ho.
    - pose proof (nl_none c x Hc) as H. rewrite Er in H. specialize (H eq_refl).
      destruct (forget (ev c x)) as [v|]; cbn in *; [|reflexivity].
      rewrite forget_bind. rewrite H. reflexivity.
  Qed.

  Lemma union_ok c l : vars_ordered c ->
    forget (union_nodes E c l) =
    forget (fold_left (fun acc x => do q <- acc; do v <- ev c x; do ns <- as_nodes v; Ok (merge_doc_order q ns)) l (Ok [])).
  Proof.
    intros Hc. unfold union_nodes. apply forget_fold; [|reflexivity].
    intros a1 a2 x Ha. apply forget_eq_bind; [exact Ha|]. intros q.
    apply (nodes_ok c x (fun l => Ok (merge_doc_order q l)) (fun l => Ok (merge_doc_order q l))); [exact Hc|]. reflexivity.
  Qed.

  Let evg_ok c x : vars_ordered c -> forget (ev_g E c x) = forget (ev c x) := fun Hc => ag_g _ _ _ _ (IH c x Hc).

  Lemma steps_ok c sfuel sub rv rest : vars_ordered c ->
    forget (steps_from (ev_g E) c sfuel sub rv rest) = forget (steps_from ev c sfuel sub rv rest).
  Proof.
    intros Hc. apply (steps_from_ext (ev_g E) ev vars_ordered); auto.
  Qed.

  Lemma preds_ok c l ps : vars_ordered c ->
    forget (apply_preds (ev_g E) c l ps) = forget (apply_preds ev c l ps).
  Proof.
    intros Hc. apply (apply_preds_ext (ev_g E) ev vars_ordered); auto.
  Qed.

  (* locationPath(.., MutableNodeRefList&) against the location-path case of XpDefs.eval *)
  Lemma path_ok c h hp st : vars_ordered c ->
    option_map VNodes (forget (path_nodes E c (EPath h hp st))) = forget (eval (S f) c (EPath h hp st)).
  Proof.
    intros Hc. cbn [eval path_nodes]. destruct h as [h|].
    - assert (G : forget (do r <- ev_l E c h; do l1 <- apply_preds (ev_g E) c (nl_merged r) hp;
                          steps_from (ev_g E) c (S (length st)) l1 false st) =
                  forget (do v <- ev c h; do ns <- as_nodes v;
                          do l1 <- apply_preds ev c (merge_doc_order [] ns) hp;
                          steps_from ev c (S (length st)) l1 false st)).
      { apply (merged_ok c h (fun l => do l1 <- apply_preds (ev_g E) c l hp; steps_from (ev_g E) c (S (length st)) l1 false st)
                            (fun l => do l1 <- apply_preds ev c l hp; steps_from ev c (S (length st)) l1 false st)); [exact Hc|].
        intros l _. apply forget_eq_bind; [apply preds_ok, Hc|]. intros l1. apply steps_ok, Hc. }
      destruct h; try reflexivity; rewrite G; change (eval f) with ev; crush.
    - rewrite steps_ok by exact Hc. change (eval f) with ev. crush.
  Qed.

  (** the six arms of one op-code against the generic model's value for the expression *)
  Definition arms_agree (ag ab an as_ af al : arm) (c : ctx) (e : expr) : Prop :=
    let v := forget (eval (S f) c e) in
    forget (run_g E ag c e) = v /\
    forget (run_b E ab c e) = option_map to_boolean v /\
    forget (run_n E an c e) = option_map (to_number c) v /\
    (forall buf, forget (run_s E as_ c e buf) = option_map (fun x => buf ++ to_string c x) v) /\
    (forall acc, forget (run_f E af c e acc) = option_map (fun x => acc ++ to_string c x) v) /\
    option_map nl_nodes (forget (run_l E al c e)) = obind v (fun x => forget (as_nodes x)).

  Lemma bool_arms h c e :
    forget (eval (S f) c e) = option_map VBool (forget (h_bool E h c e)) ->
    arms_agree (ACall h SgBool CvCreateBoolean) (ACall h SgBool CvDirect) (ACall h SgBool CvNumber)
               (ACall h SgBool CvString) (ACall h SgBool CvString) ANotNodeSet c e.
  Proof.
    intros H. unfold arms_agree. rewrite H. cbn [run_g run_b run_n run_s run_f run_l].
    repeat split; intros; rewrite ?forget_bind; destruct (forget (h_bool E h c e)) as [[|]|]; reflexivity.
  Qed.

  Lemma num_arms h c e af :
    forget (eval (S f) c e) = option_map VNum (forget (h_num E h c e)) ->
    (forall acc, forget (run_f E af c e acc) = option_map (fun x => acc ++ xo_string_num x) (forget (h_num E h c e))) ->
    arms_agree (ACall h SgNum CvCreateNumber) (ACall h SgNum CvBoolean) (ACall h SgNum CvDirect)
               (ACall h SgNum CvString) af ANotNodeSet c e.
  Proof.
    intros H F. unfold arms_agree. rewrite H. cbn [run_g run_b run_n run_s run_l].
    repeat split; intros; rewrite ?F, ?forget_bind; destruct (forget (h_num E h c e)) as [x|]; cbn;
      rewrite ?xo_boolean_num_spec; reflexivity.
  Qed.

  Lemma num_chars_string h c e acc :
    forget (run_f E (ACall h SgNum CvString) c e acc) = option_map (fun x => acc ++ xo_string_num x) (forget (h_num E h c e)).
  Proof. cbn [run_f]. rewrite forget_bind. destruct (forget (h_num E h c e)); reflexivity. Qed.

  Lemma num_chars_out h c e acc :
    match h with HPlus | HMinus | HMult | HDiv | HMod | HNeg => True | _ => False end ->
    forget (run_f E (ACall h SgOut CvDirect) c e acc) = option_map (fun x => acc ++ xo_string_num x) (forget (h_num E h c e)).
  Proof.
    intros Hh. cbn [run_f]. destruct h; try contradiction; cbn [h_out_f]; rewrite forget_bind;
      match goal with |- context [forget ?X] => destruct (forget X) end; reflexivity.
  Qed.

  Lemma str_arms h c e :
    forget (eval (S f) c e) = option_map VStr (forget (h_strref E h c e)) ->
    arms_agree (ACall h SgStrRef CvCreateStringReference) (ACall h SgStrRef CvBoolean) (ACall h SgStrRef CvNumber)
               (ACall h SgStrRef CvAppend) (ACall h SgStrRef CvStringToChars) ANotNodeSet c e.
  Proof.
    intros H. unfold arms_agree. rewrite H. cbn [run_g run_b run_n run_s run_f run_l].
    repeat split; intros; rewrite ?forget_bind; destruct (forget (h_strref E h c e)) as [x|]; reflexivity.
  Qed.

  Lemma const_arms b c e :
    forget (eval (S f) c e) = forget (arg0 e (Ok (VBool b))) ->
    arms_agree (AConst b CvCreateBoolean) (AConst b CvDirect) (AConst b CvNumber)
               (AConst b CvString) (AConst b CvString) ANotNodeSet c e.
  Proof.
    intros H. unfold arms_agree. rewrite H. cbn [run_g run_b run_n run_s run_f run_l]. unfold arg0.
    destruct e; try (repeat split; reflexivity).
    destruct args; repeat split; intros; destruct b; reflexivity.
  Qed.

  (* an XObjectPtr helper converted through the object's member functions *)
  Lemma obj_member_arms h c e :
    forget (eval (S f) c e) = forget (h_obj E h c e) ->
    let v := forget (eval (S f) c e) in
    forget (run_g E (ACall h SgObj CvDirect) c e) = v /\
    forget (run_b E (ACall h SgObj CvMemberBoolean) c e) = option_map to_boolean v /\
    forget (run_n E (ACall h SgObj CvMemberNum) c e) = option_map (to_number c) v /\
    (forall buf, forget (run_s E (ACall h SgObj CvMemberStr) c e buf) = option_map (fun x => buf ++ to_string c x) v) /\
    (forall acc, forget (run_f E (ACall h SgObj CvMemberStr) c e acc) = option_map (fun x => acc ++ to_string c x) v) /\
    option_map nl_nodes (forget (run_l E (ACall h SgObj CvKeep) c e)) = obind v (fun x => forget (as_nodes x)).
  Proof.
    intros H. cbn zeta. rewrite H. cbn [run_g run_b run_n run_s run_f run_l].
    repeat split; intros; rewrite ?forget_bind; destruct (forget (h_obj E h c e)) as [[]|]; reflexivity.
  Qed.
End Step.

(* the cases of XpDefs.call_function for the functions that have an op-code of their own *)
Section CallFn.
  Variable ev : ctx -> expr -> res value.
  Variable c : ctx.
  Let nodes_arg (x : expr) : res (list nat) := do v <- ev c x; as_nodes v.
  Let ctx_or_first (k : ctx -> nat -> str) (args : list expr) : res value :=
    match args with
    | [] => Ok (VStr (k c (cx_node c)))
    | [a] => do l <- nodes_arg a; Ok (VStr (match l with [] => [] | n :: _ => k c n end))
    | _ => Err EArgs
    end.
  Lemma cf_position args : call_function ev c s_position args =
    match args with [] => Ok (VNum (d_of_nat (position_of c))) | _ => Err EArgs end.
  Proof. reflexivity. Qed.
  Lemma cf_last args : call_function ev c s_last args =
    match args with [] => Ok (VNum (d_of_nat (length (cx_list c)))) | _ => Err EArgs end.
  Proof. reflexivity. Qed.
  Lemma cf_count args : call_function ev c s_count args =
    match args with [a] => do l <- nodes_arg a; Ok (VNum (d_of_nat (length l))) | _ => Err EArgs end.
  Proof. reflexivity. Qed.
  Lemma cf_not args : call_function ev c s_not args =
    match args with [a] => do b <- ev_bool ev c a; Ok (VBool (negb b)) | _ => Err EArgs end.
  Proof. reflexivity. Qed.
  Lemma cf_true args : call_function ev c s_true_fn args =
    match args with [] => Ok (VBool true) | _ => Err EArgs end.
  Proof. reflexivity. Qed.
  Lemma cf_false args : call_function ev c s_false_fn args =
    match args with [] => Ok (VBool false) | _ => Err EArgs end.
  Proof. reflexivity. Qed.
  Lemma cf_boolean args : call_function ev c s_boolean args =
    match args with [a] => do b <- ev_bool ev c a; Ok (VBool b) | _ => Err EArgs end.
  Proof. reflexivity. Qed.
  Lemma cf_name args : call_function ev c s_name args = ctx_or_first name_of args.
  Proof. reflexivity. Qed.
  Lemma cf_local_name args : call_function ev c s_local_name args = ctx_or_first local_name_of args.
  Proof. reflexivity. Qed.
  Lemma cf_number args : call_function ev c s_number args =
    match args with
    | [] => Ok (VNum (string_to_number (node_string c (cx_node c))))
    | [a] => do x <- ev_num ev c a; Ok (VNum x)
    | _ => Err EArgs
    end.
  Proof. reflexivity. Qed.
  Lemma cf_floor args : call_function ev c s_floor args =
    match args with [a] => do x <- ev_num ev c a; Ok (VNum (d_floor x)) | _ => Err EArgs end.
  Proof. reflexivity. Qed.
  Lemma cf_ceiling args : call_function ev c s_ceiling args =
    match args with [a] => do x <- ev_num ev c a; Ok (VNum (d_ceiling x)) | _ => Err EArgs end.
  Proof. reflexivity. Qed.
  Lemma cf_round args : call_function ev c s_round args =
    match args with [a] => do x <- ev_num ev c a; Ok (VNum (d_round x)) | _ => Err EArgs end.
  Proof. reflexivity. Qed.
  Lemma cf_sum args : call_function ev c s_sum args =
    match args with [a] => do l <- nodes_arg a; Ok (VNum (sum_nodes c l)) | _ => Err EArgs end.
  Proof. reflexivity. Qed.
  Lemma cf_string_length args : call_function ev c s_string_length args =
    match args with
    | [] => Ok (VNum (d_of_nat (length (node_string c (cx_node c)))))
    | [a] => do s <- (do v <- ev c a; Ok (to_string c v)); Ok (VNum (d_of_nat (length s)))
    | _ => Err EArgs
    end.
  Proof. reflexivity. Qed.
End CallFn.

Section Step2.
  Variable f : nat.
  Hypothesis IH : forall c e, vars_ordered c -> agrees (execs f) (eval f) c e.

  Lemma agrees_of_arms c e :
    arms_agree f (arm_generic (opcode_of e)) (arm_bool (opcode_of e)) (arm_num (opcode_of e))
               (arm_str (opcode_of e)) (arm_chars (opcode_of e)) (arm_nodes (opcode_of e)) c e ->
    agrees (execs (S f)) (eval (S f)) c e.
  Proof. intros (Hg & Hb & Hn & Hs & Hf & Hl). constructor; assumption. Qed.

  Ltac use_bool Hc :=
    apply (bool_arms f); cbn [eval h_bool]; unfold cmp2, arg1, arg0;
    rewrite ?forget_bind, ?(bool_ok f IH _ _ Hc), ?(ag_g _ _ _ _ (IH _ _ Hc)).

  Lemma step_binary_bool c e : vars_ordered c ->
    match e with EOr _ _ | EAnd _ _ | ENe _ _ | EEq _ _ | ELte _ _ | ELt _ _ | EGte _ _ | EGt _ _ => True | _ => False end ->
    agrees (execs (S f)) (eval (S f)) c e.
  Proof.
    intros Hc He. apply agrees_of_arms. destruct e; try contradiction;
      cbn [opcode_of arm_generic arm_bool arm_num arm_str arm_chars arm_nodes]; use_bool Hc.
    1,2: destruct (forget (ev_bool (eval f) c e1)) as [[|]|]; cbn [obind option_map forget]; try reflexivity;
         rewrite ?forget_bind, ?(bool_ok f IH _ _ Hc); destruct (forget (ev_bool (eval f) c e2)); reflexivity.
    all: destruct (forget (eval f c e1)); cbn [obind option_map forget]; try reflexivity;
         rewrite ?forget_bind, ?(ag_g _ _ _ _ (IH _ _ Hc)); destruct (forget (eval f c e2)); reflexivity.
  Qed.

  Lemma step_arith c e : vars_ordered c ->
    match e with EPlus _ _ | EMinus _ _ | EMult _ _ | EDiv _ _ | EMod _ _ | ENeg _ => True | _ => False end ->
    agrees (execs (S f)) (eval (S f)) c e.
  Proof.
    intros Hc He. apply agrees_of_arms. destruct e; try contradiction;
      cbn [opcode_of arm_generic arm_bool arm_num arm_str arm_chars arm_nodes];
      (apply (num_arms f); [| intros acc; apply num_chars_out; exact I]);
      cbn [eval h_num]; unfold arith; rewrite ?forget_bind, ?(operand_ok f IH _ _ Hc).
    1-5: destruct (forget (ev_num (eval f) c e1)); cbn [obind option_map forget]; try reflexivity;
         rewrite ?forget_bind, ?(operand_ok f IH _ _ Hc); destruct (forget (ev_num (eval f) c e2)); reflexivity.
    destruct (forget (ev_num (eval f) c e)); reflexivity.
  Qed.

  Lemma to_number_nodes c r : to_number c (VNodes r) = xo_number_nodes c r.
  Proof. destruct r; reflexivity. Qed.
  Lemma to_string_nodes c r : to_string c (VNodes r) = xo_string_nodes c r.
  Proof. destruct r; reflexivity. Qed.

  (* Union / locationPath: the list is built once, every overload converts it *)
  Lemma nodes_arms h c e (X : res (list nat)) :
    option_map VNodes (forget X) = forget (eval (S f) c e) ->
    h_obj (execs f) h c e = (do r <- X; Ok (VNodes r)) ->
    h_out_b (execs f) h c e = (do r <- X; Ok (xo_boolean_nodes r)) ->
    h_out_n (execs f) h c e = (do r <- X; Ok (xo_number_nodes c r)) ->
    (forall buf, h_out_s (execs f) h c e buf = (do r <- X; Ok (buf ++ xo_string_nodes c r))) ->
    (forall acc, h_out_f (execs f) h c e acc = (do r <- X; Ok (acc ++ xo_string_nodes c r))) ->
    h_out_l (execs f) h c e = X ->
    arms_agree f (ACall h SgObj CvDirect) (ACall h SgOut CvDirect) (ACall h SgOut CvDirect)
               (ACall h SgOut CvDirect) (ACall h SgOut CvDirect) (ACall h SgOut CvDirect) c e.
  Proof.
    intros H Hg Hb Hn Hs Hf Hl. unfold arms_agree. rewrite <- H. cbn [run_g run_b run_n run_s run_f run_l].
    rewrite Hg, Hb, Hn, Hl.
    repeat split; intros; rewrite ?Hs, ?Hf, ?forget_bind; destruct (forget X) as [r|]; cbn [obind option_map forget];
      rewrite ?to_number_nodes, ?to_string_nodes; reflexivity.
  Qed.

  Lemma step_union c l : vars_ordered c -> agrees (execs (S f)) (eval (S f)) c (EUnion l).
  Proof.
    intros Hc. apply agrees_of_arms. cbn [opcode_of arm_generic arm_bool arm_num arm_str arm_chars arm_nodes].
    apply (nodes_arms HUnion c (EUnion l) (union_nodes (execs f) c l)); try reflexivity.
    rewrite (union_ok f IH c l Hc). cbn [eval]. rewrite forget_bind.
    match goal with |- context [obind (forget ?X) _] => destruct (forget X) end; reflexivity.
  Qed.

  Lemma step_path c h hp st : vars_ordered c -> agrees (execs (S f)) (eval (S f)) c (EPath h hp st).
  Proof.
    intros Hc. apply agrees_of_arms. cbn [opcode_of arm_generic arm_bool arm_num arm_str arm_chars arm_nodes].
    apply (nodes_arms HLocationPath c (EPath h hp st) (path_nodes (execs f) c (EPath h hp st))); try reflexivity.
    apply (path_ok f IH), Hc.
  Qed.

  Lemma step_literal c s : agrees (execs (S f)) (eval (S f)) c (ELiteral s).
  Proof.
    apply agrees_of_arms. cbn [opcode_of arm_generic arm_bool arm_num arm_str arm_chars arm_nodes].
    unfold arms_agree. repeat split; reflexivity.
  Qed.

  Lemma step_numlit c t : agrees (execs (S f)) (eval (S f)) c (ENumLit t).
  Proof.
    apply agrees_of_arms. cbn [opcode_of arm_generic arm_bool arm_num arm_str arm_chars arm_nodes].
    unfold arms_agree. repeat split; try reflexivity.
    cbn [run_b h_out_b eval forget option_map]. unfold tk_boolean, num_token. cbn [tk_is_string tk_num].
    rewrite xo_boolean_num_spec. reflexivity.
  Qed.

  Lemma step_var c ns local : agrees (execs (S f)) (eval (S f)) c (EVar ns local).
  Proof.
    apply agrees_of_arms. cbn [opcode_of arm_generic arm_bool arm_num arm_str arm_chars arm_nodes].
    apply (obj_member_arms f HVariable c (EVar ns local)). reflexivity.
  Qed.

  Lemma step_extfunc c ns name args : agrees (execs (S f)) (eval (S f)) c (EExtFunc ns name args).
  Proof.
    apply agrees_of_arms. cbn [opcode_of arm_generic arm_bool arm_num arm_str arm_chars arm_nodes].
    apply (obj_member_arms f HRunExtFunction c (EExtFunc ns name args)). reflexivity.
  Qed.

  Lemma step_group c x : vars_ordered c -> agrees (execs (S f)) (eval (S f)) c (EGroup x).
  Proof.
    intros Hc. apply agrees_of_arms. cbn [opcode_of arm_generic arm_bool arm_num arm_str arm_chars arm_nodes].
    destruct (IH c x Hc) as [Hg Hb Hn Hs Hf Hl].
    unfold arms_agree. cbn [eval run_g run_b run_n run_s run_f run_l h_obj h_out_b h_out_n h_out_s h_out_f h_out_l].
    repeat split; auto.
    rewrite <- Hl. rewrite !forget_bind.
    destruct (ev_l (execs f) c x) as [r|] eqn:Er; cbn; [|reflexivity].
    rewrite (nl_merged_nodes f IH c x r Hc Er). reflexivity.
  Qed.

  Lemma bind_assoc {A B C} (r : res A) (k1 : A -> res B) (k2 : B -> res C) :
    bind (bind r k1) k2 = bind r (fun a => bind (k1 a) k2).
  Proof. destruct r; reflexivity. Qed.

  (* count / sum / name(x) / local-name(x): the argument goes through the node-list entry point *)
  Lemma nodes_arg_ok {A} c a (k : list nat -> A) (g : A -> value) : vars_ordered c ->
    forget (do l <- (do v <- eval f c a; as_nodes v); Ok (g (k l))) =
    option_map g (forget (do r <- ev_l (execs f) c a; Ok (k (nl_nodes r)))).
  Proof.
    intros Hc. rewrite bind_assoc.
    rewrite <- (nodes_ok f IH c a (fun l => Ok (g (k l))) (fun l => Ok (g (k l))) Hc (fun _ _ => eq_refl)).
    rewrite !forget_bind. destruct (forget (ev_l (execs f) c a)); reflexivity.
  Qed.

  Ltac fn_num Hc :=
    apply (num_arms f); [| intros acc; apply num_chars_string];
    cbn [eval h_num]; unfold arg0, arg1.
  Ltac args01 args := destruct args as [|? [|? ?]]; try reflexivity.

  Lemma step_func c name args : vars_ordered c -> agrees (execs (S f)) (eval (S f)) c (EFunc name args).
  Proof.
    intros Hc. apply agrees_of_arms. cbn [opcode_of]. unfold fn_opcode, fn_is.
    destruct (str_eqb name s_position) eqn:T1;
      [apply str_eqb_eq in T1; subst name; cbn [arm_generic arm_bool arm_num arm_str arm_chars arm_nodes]|].
    { fn_num Hc. rewrite cf_position. args01 args. }
    destruct (str_eqb name s_last) eqn:T2;
      [apply str_eqb_eq in T2; subst name; cbn [arm_generic arm_bool arm_num arm_str arm_chars arm_nodes]|].
    { fn_num Hc. rewrite cf_last. args01 args. }
    destruct (str_eqb name s_count) eqn:T3;
      [apply str_eqb_eq in T3; subst name; cbn [arm_generic arm_bool arm_num arm_str arm_chars arm_nodes]|].
    { fn_num Hc. rewrite cf_count. args01 args.
      apply (nodes_arg_ok c e (fun l => d_of_nat (length l)) VNum Hc). }
    destruct (str_eqb name s_not) eqn:T4;
      [apply str_eqb_eq in T4; subst name; cbn [arm_generic arm_bool arm_num arm_str arm_chars arm_nodes]|].
    { apply (bool_arms f). cbn [eval h_bool]. unfold arg1. rewrite cf_not. args01 args.
      rewrite !forget_bind, (bool_ok f IH _ _ Hc). destruct (forget (ev_bool (eval f) c e)); reflexivity. }
    destruct (str_eqb name s_true_fn) eqn:T5;
      [apply str_eqb_eq in T5; subst name; cbn [arm_generic arm_bool arm_num arm_str arm_chars arm_nodes]|].
    { apply (const_arms f). cbn [eval]. rewrite cf_true. unfold arg0. args01 args. }
    destruct (str_eqb name s_false_fn) eqn:T6;
      [apply str_eqb_eq in T6; subst name; cbn [arm_generic arm_bool arm_num arm_str arm_chars arm_nodes]|].
    { apply (const_arms f). cbn [eval]. rewrite cf_false. unfold arg0. args01 args. }
    destruct (str_eqb name s_boolean) eqn:T7;
      [apply str_eqb_eq in T7; subst name; cbn [arm_generic arm_bool arm_num arm_str arm_chars arm_nodes]|].
    { apply (bool_arms f). cbn [eval h_bool]. unfold arg1. rewrite cf_boolean. args01 args.
      rewrite !forget_bind, (bool_ok f IH _ _ Hc). destruct (forget (ev_bool (eval f) c e)); reflexivity. }
    destruct (str_eqb name s_name) eqn:T8;
      [apply str_eqb_eq in T8; subst name|].
    { destruct args as [|a [|b rest]]; cbn [by_arity arm_generic arm_bool arm_num arm_str arm_chars arm_nodes];
        apply (str_arms f); cbn [eval h_strref]; unfold arg0, arg1; rewrite cf_name; try reflexivity.
      apply (nodes_arg_ok c a (fun l => first_or_empty c name_of l) VStr Hc). }
    destruct (str_eqb name s_local_name) eqn:T9;
      [apply str_eqb_eq in T9; subst name|].
    { destruct args as [|a [|b rest]]; cbn [by_arity arm_generic arm_bool arm_num arm_str arm_chars arm_nodes];
        apply (str_arms f); cbn [eval h_strref]; unfold arg0, arg1; rewrite cf_local_name; try reflexivity.
      apply (nodes_arg_ok c a (fun l => first_or_empty c local_name_of l) VStr Hc). }
    destruct (str_eqb name s_number) eqn:T10;
      [apply str_eqb_eq in T10; subst name|].
    { destruct args as [|a [|b rest]]; cbn [by_arity arm_generic arm_bool arm_num arm_str arm_chars arm_nodes];
        fn_num Hc; rewrite cf_number; try reflexivity.
      rewrite forget_bind, (number_arg_ok f IH _ _ Hc). destruct (forget (ev_num (eval f) c a)); reflexivity. }
    destruct (str_eqb name s_floor) eqn:T11;
      [apply str_eqb_eq in T11; subst name; cbn [arm_generic arm_bool arm_num arm_str arm_chars arm_nodes]|].
    { fn_num Hc. rewrite cf_floor. args01 args. rewrite !forget_bind, (number_arg_ok f IH _ _ Hc).
      destruct (forget (ev_num (eval f) c e)); reflexivity. }
    destruct (str_eqb name s_ceiling) eqn:T12;
      [apply str_eqb_eq in T12; subst name; cbn [arm_generic arm_bool arm_num arm_str arm_chars arm_nodes]|].
    { fn_num Hc. rewrite cf_ceiling. args01 args. rewrite !forget_bind, (number_arg_ok f IH _ _ Hc).
      destruct (forget (ev_num (eval f) c e)); reflexivity. }
    destruct (str_eqb name s_round) eqn:T13;
      [apply str_eqb_eq in T13; subst name; cbn [arm_generic arm_bool arm_num arm_str arm_chars arm_nodes]|].
    { fn_num Hc. rewrite cf_round. args01 args. rewrite !forget_bind, (number_arg_ok f IH _ _ Hc).
      destruct (forget (ev_num (eval f) c e)); reflexivity. }
    destruct (str_eqb name s_sum) eqn:T14;
      [apply str_eqb_eq in T14; subst name; cbn [arm_generic arm_bool arm_num arm_str arm_chars arm_nodes]|].
    { fn_num Hc. rewrite cf_sum. args01 args.
      apply (nodes_arg_ok c e (fun l => sum_nodes c l) VNum Hc). }
    destruct (str_eqb name s_string_length) eqn:T15;
      [apply str_eqb_eq in T15; subst name|].
    { destruct args as [|a [|b rest]]; cbn [by_arity arm_generic arm_bool arm_num arm_str arm_chars arm_nodes];
        fn_num Hc; rewrite cf_string_length; try reflexivity.
      rewrite !forget_bind, (ag_f _ _ _ _ (IH c a Hc)). destruct (forget (eval f c a)); reflexivity. }
    cbn [arm_generic arm_bool arm_num arm_str arm_chars arm_nodes].
    apply (obj_member_arms f HRunFunction c (EFunc name args)). cbn [eval h_obj].
    apply call_function_ext. intros x. symmetry. apply (ag_g _ _ _ _ (IH c x Hc)).
  Qed.

  Theorem step_agrees c e : vars_ordered c -> agrees (execs (S f)) (eval (S f)) c e.
  Proof.
    intros Hc. destruct e.
    1-8: apply step_binary_bool; [exact Hc | exact I].
    1-6: apply step_arith; [exact Hc | exact I].
    - apply step_union, Hc.
    - apply step_literal.
    - apply step_var.
    - apply step_group, Hc.
    - apply step_numlit.
    - apply step_func, Hc.
    - apply step_extfunc.
    - apply step_path, Hc.
  Qed.
End Step2.

(** * the induction *)
Theorem execs_agree : forall f c e, vars_ordered c -> agrees (execs f) (eval f) c e.
Proof.
  induction f as [|f IH]; intros c e Hc.
  - constructor; reflexivity.
  - apply step_agrees; assumption.
Qed.

(** * the public entry points (XPath::execute overloads) against XpDefs.eval_top *)
Lemma exec_generic_agrees c e : vars_ordered c -> forget (exec_generic c e) = forget (eval_top c e).
Proof. intros Hc. exact (ag_g _ _ _ _ (execs_agree (fuel_for e) c e Hc)). Qed.

Lemma exec_bool_agrees c e : vars_ordered c ->
  forget (exec_bool c e) = option_map to_boolean (forget (eval_top c e)).
Proof. intros Hc. exact (ag_b _ _ _ _ (execs_agree (fuel_for e) c e Hc)). Qed.

Lemma exec_num_agrees c e : vars_ordered c ->
  forget (exec_num c e) = option_map (to_number c) (forget (eval_top c e)).
Proof. intros Hc. exact (ag_n _ _ _ _ (execs_agree (fuel_for e) c e Hc)). Qed.

Lemma exec_str_agrees c e buf : vars_ordered c ->
  forget (exec_str c e buf) = option_map (fun v => buf ++ to_string c v) (forget (eval_top c e)).
Proof. intros Hc. exact (ag_s _ _ _ _ (execs_agree (fuel_for e) c e Hc) buf). Qed.

Lemma exec_chars_agrees c e acc : vars_ordered c ->
  forget (exec_chars c e acc) = option_map (fun v => acc ++ to_string c v) (forget (eval_top c e)).
Proof. intros Hc. exact (ag_f _ _ _ _ (execs_agree (fuel_for e) c e Hc) acc). Qed.

Lemma exec_nodelist_agrees c e : vars_ordered c ->
  forget (exec_nodelist c e) = obind (forget (eval_top c e)) (fun v => forget (as_nodes v)).
Proof.
  intros Hc. unfold exec_nodelist, eval_top. rewrite forget_bind.
  change (S (expr_size e)) with (fuel_for e).
  rewrite <- (ag_l _ _ _ _ (execs_agree (fuel_for e) c e Hc)).
  destruct (forget (ev_l (execs (fuel_for e)) c e)); reflexivity.
Qed.

(* readable consequences *)
Lemma generic_then_specialised c e v : vars_ordered c -> exec_generic c e = Ok v ->
  exec_bool c e = Ok (to_boolean v) /\
  exec_num c e = Ok (to_number c v) /\
  (forall buf, exec_str c e buf = Ok (buf ++ to_string c v)) /\
  (forall acc, exec_chars c e acc = Ok (acc ++ to_string c v)) /\
  (forall l, v = VNodes l -> exec_nodelist c e = Ok l) /\
  (is_nodes v = false -> forget (exec_nodelist c e) = None).
Proof.
  intros Hc Hg.
  assert (Ht : forget (eval_top c e) = Some v) by (rewrite <- exec_generic_agrees, Hg by exact Hc; reflexivity).
  repeat split; intros; apply forget_ok || idtac.
  - rewrite exec_bool_agrees, Ht by exact Hc. reflexivity.
  - rewrite exec_num_agrees, Ht by exact Hc. reflexivity.
  - rewrite exec_str_agrees, Ht by exact Hc. reflexivity.
  - rewrite exec_chars_agrees, Ht by exact Hc. reflexivity.
  - rewrite exec_nodelist_agrees, Ht by exact Hc. subst v. reflexivity.
  - rewrite exec_nodelist_agrees, Ht by exact Hc. destruct v; try reflexivity. discriminate.
Qed.

Lemma specialised_then_generic c e : vars_ordered c ->
  (forall b, exec_bool c e = Ok b -> exists v, exec_generic c e = Ok v /\ to_boolean v = b) /\
  (forall x, exec_num c e = Ok x -> exists v, exec_generic c e = Ok v /\ to_number c v = x) /\
  (forall buf s, exec_str c e buf = Ok s -> exists v, exec_generic c e = Ok v /\ buf ++ to_string c v = s) /\
  (forall acc s, exec_chars c e acc = Ok s -> exists v, exec_generic c e = Ok v /\ acc ++ to_string c v = s) /\
  (forall l, exec_nodelist c e = Ok l -> exec_generic c e = Ok (VNodes l)).
Proof.
  intros Hc.
  assert (G : forall v, forget (eval_top c e) = Some v -> exec_generic c e = Ok v).
  { intros v Hv. apply forget_ok. rewrite exec_generic_agrees by exact Hc. exact Hv. }
  repeat split.
  - intros b H. pose proof (exec_bool_agrees c e Hc) as A. rewrite H in A. cbn [forget] in A.
    destruct (forget (eval_top c e)) as [v|] eqn:Ev; cbn [option_map obind] in A; [|discriminate]. exists v. split; [auto | congruence].
  - intros x H. pose proof (exec_num_agrees c e Hc) as A. rewrite H in A. cbn [forget] in A.
    destruct (forget (eval_top c e)) as [v|] eqn:Ev; cbn [option_map obind] in A; [|discriminate]. exists v. split; [auto | congruence].
  - intros buf s H. pose proof (exec_str_agrees c e buf Hc) as A. rewrite H in A. cbn [forget] in A.
    destruct (forget (eval_top c e)) as [v|] eqn:Ev; cbn [option_map obind] in A; [|discriminate]. exists v. split; [auto | congruence].
  - intros acc s H. pose proof (exec_chars_agrees c e acc Hc) as A. rewrite H in A. cbn [forget] in A.
    destruct (forget (eval_top c e)) as [v|] eqn:Ev; cbn [option_map obind] in A; [|discriminate]. exists v. split; [auto | congruence].
  - intros l H. pose proof (exec_nodelist_agrees c e Hc) as A. rewrite H in A. cbn [forget] in A.
    destruct (forget (eval_top c e)) as [v|] eqn:Ev; cbn [option_map obind] in A; [|discriminate].
    destruct v; cbn [as_nodes forget] in A; try discriminate. inversion A; subst. auto.
Qed.

(* attribute value templates: AVTPartXPath::evaluate appends each part to one buffer *)
Lemma avt_parts_concatenate c e1 e2 v1 v2 buf : vars_ordered c ->
  exec_generic c e1 = Ok v1 -> exec_generic c e2 = Ok v2 ->
  (do b1 <- exec_str c e1 buf; exec_str c e2 b1) = Ok (buf ++ to_string c v1 ++ to_string c v2).
Proof.
  intros Hc H1 H2.
  destruct (generic_then_specialised c e1 v1 Hc H1) as (_ & _ & S1 & _).
  destruct (generic_then_specialised c e2 v2 Hc H2) as (_ & _ & S2 & _).
  rewrite S1. cbn [bind]. rewrite S2, app_assoc. reflexivity.
Qed.
