"""C14 — facts of XSLTEngineImpl.cpp / DOMServices.cpp / XalanNamespacesStack.cpp / AttributeListImpl.cpp
consumed by coq/NsfixModel.v (GenNsfix.v): the literal strings the namespace fix-up compares against, the shape
of the unique-prefix loop (prefix "ns", post-incremented counter starting at 0, loop while the candidate is
bound), the lazily created context of addDeclaration, and the replace-by-name of the pending attribute list.
The model's atoms (AXmlns, AXml, AGen n) and unique_loop are meaningful only under these facts. Fail closed."""
import re
import srcfacts
from srcfacts import AnchorError, need, read, strip_comments, function_body, HEADER


def _sq(s):
    return re.sub(r"\s+", "", strip_comments(s))


def gen_nsfix():
    eng = read("XSLT/XSLTEngineImpl.cpp")
    dom = read("DOMSupport/DOMServices.cpp")
    rns = read("DOMSupport/XalanNamespacesStack.cpp")
    need(r"XalanNamespacesStack\s+m_resultNamespacesStack;", read("XSLT/XSLTEngineImpl.hpp"), "XSLTEngineImpl::m_resultNamespacesStack is a XalanNamespacesStack")
    facts = {}
    d = _sq(dom)
    for var, val in (("s_XMLString", "xml"), ("s_XMLNamespace", "xmlns"), ("s_XMLNamespaceWithSeparator", "xmlns:"),
                     ("s_XMLNamespacePrefix", "xmlns:xml")):
        need(re.escape('::%s.reset(theManager,"%s")' % (var, val)), d, 'DOMServices::%s == "%s"' % (var, val))
        facts[var] = val
    e = _sq(eng)
    m = need(r'::s_uniqueNamespacePrefix\.reset\(theManager,"([A-Za-z_][A-Za-z0-9_.-]*)"\)', e, 's_uniqueNamespacePrefix is a name')
    if m.group(1).lower().startswith("xml"):
        raise AnchorError("s_uniqueNamespacePrefix starts with xml: the atoms AGen/AXmlish of the model would overlap")
    facts["unique_prefix"] = m.group(1)      # props/C14.py renders AGen n as this string + decimal n
    need(re.escape("m_uniqueNSValue(0)"), e, "m_uniqueNSValue starts at 0")
    body = _sq(function_body(eng, r"XSLTEngineImpl::getUniqueNamespaceValue\s*\([^)]*\)\s*\{", "getUniqueNamespaceValue"))
    need(re.escape("do{m_scratchString.assign(s_uniqueNamespacePrefix);NumberToDOMString(m_uniqueNSValue++,m_scratchString);}"
                   "while(getResultNamespaceForPrefix(m_scratchString)!=0);theValue.append(m_scratchString);"),
         body, "getUniqueNamespaceValue: do { ns + counter++ } while (bound)")
    facts["unique_loop"] = "do-while, post-increment"
    add = _sq(function_body(rns, r"XalanNamespacesStack::addDeclaration\s*\([^)]*\)\s*\{", "XalanNamespacesStack::addDeclaration"))
    need(re.escape("if(m_createNewContextStack.back()==true){++m_stackPosition;"), add, "addDeclaration creates the context lazily")
    need(re.escape("theCurrentEntry.addDeclaration(thePrefix,theURI,theLength);"), add, "addDeclaration appends (prefix, uri) to the current context")
    start = _sq(function_body(eng, r"XSLTEngineImpl::startElement\s*\(\s*const XalanDOMChar\*\s*name\s*\)\s*\{", "XSLTEngineImpl::startElement(name)"))
    need(re.escape("flushPending();m_resultNamespacesStack.pushContext();setPendingElementName(name);"), start,
         "startElement: flushPending, pushContext, setPendingElementName")
    cp = _sq(function_body(eng, r"XSLTEngineImpl::copyNamespaceAttributes\s*\([^)]*\)\s*\{", "XSLTEngineImpl::copyNamespaceAttributes"))
    need(re.escape("while(parent!=0&&parent->getNodeType()==XalanNode::ELEMENT_NODE){"), cp, "copyNamespaceAttributes walks the ancestor-or-self elements")
    need(re.escape("FindStringPointerFunctor(nodeName))==m_attributeNamesVisited.end()){addResultNamespace(*attr,thePendingAttributes,true);m_attributeNamesVisited.push_back(&nodeName);}"),
         cp, "copyNamespaceAttributes: an attribute name not yet visited is offered and recorded")
    need(re.escape("parent=parent->getParentNode();}m_attributeNamesVisited.clear();}"), cp,
         "copyNamespaceAttributes clears the visited names once, after the ancestor walk")
    facts["copy_ns_walk"] = "visited list kept across the ancestor walk"
    out = HEADER
    out += "(* facts of the namespace fix-up code (translator/gen_nsfix.py) *)\n"
    out += "From Coq Require Import NArith.\n"
    out += "Definition unique_counter_start : N := 0%N.\n"
    out += "Definition unique_counter_step : N := 1%N.        (* m_uniqueNSValue++ inside the loop *)\n"
    out += "Definition unique_loops_while_bound : bool := true.\n"
    out += "Definition copy_ns_visited_kept_across_ancestors : bool := true.\n"
    out += "Definition xmlns_xml_never_written : bool := true.  (* s_XMLNamespacePrefix == \"xmlns:xml\" *)\n"
    return out, facts


GENERATORS = {"GenNsfix": gen_nsfix}
