(* ContListModel.v — proofs about the XalanList model: the values of the node sequence refine the
   std::list specification for every op sequence (node recycling through the free chain never changes
   the observable list). *)
From Coq Require Import List Arith Bool Lia.
Require Import XV.ContVecDefs XV.ContListDefs.
Import ListNotations.

Definition vals (l : xl) : list nat := map snd (lo l).

Lemma map_insert_at {A B} (f : A -> B) p x l : map f (insert_at p x l) = insert_at p (f x) (map f l).
Proof. unfold insert_at. rewrite map_app, firstn_map, skipn_map. reflexivity. Qed.
Lemma map_remove_at {A B} (f : A -> B) p l : map f (remove_at p l) = remove_at p (map f l).
Proof. unfold remove_at. rewrite map_app, firstn_map, skipn_map. reflexivity. Qed.
Lemma map_move_in {A B} (f : A -> B) p seg l : map f (move_in p seg l) = move_in p (map f seg) (map f l).
Proof. unfold move_in. rewrite !map_app, firstn_map, skipn_map. reflexivity. Qed.

Lemma construct_vals : forall l nx p v, vals (fst (construct_node l nx p v)) = insert_at p v (vals l).
Proof. intros. unfold construct_node, vals. destruct (lfree l); simpl; apply (map_insert_at snd). Qed.

Lemma construct_next : forall l nx p v, nx <= snd (construct_node l nx p v).
Proof. intros. unfold construct_node. destruct (lfree l); simpl; lia. Qed.

Lemma free_vals : forall l p, p < length (lo l) -> vals (free_node l p) = remove_at p (vals l).
Proof.
  intros l p H. unfold free_node, vals. destruct (nth_error (lo l) p) as [[id x]|] eqn:E.
  - simpl. apply (map_remove_at snd).
  - apply nth_error_None in E. lia.
Qed.

Definition grel (s : gstate) (t : lstate) : Prop := vals (g0 s) = l0 t /\ vals (g1 s) = l1 t /\ gcur s = lcur t.

Lemma set_cur_g_rel : forall s t x n l, grel s t -> vals x = l -> grel (set_cur_g s x n) (set_cur_l t l).
Proof. intros s t x n l (A & B & C) H. unfold set_cur_g, set_cur_l, grel. rewrite C. destruct (lcur t); simpl; auto. Qed.
Lemma set_both_g_rel : forall s t c o lc lo', grel s t -> vals c = lc -> vals o = lo' -> grel (set_both_g s c o) (set_both_l t lc lo').
Proof. intros s t c o lc lo' (A & B & C) H1 H2. unfold set_both_g, set_both_l, grel. rewrite C. destruct (lcur t); simpl; auto. Qed.

Lemma gstep_refines : forall s t o, grel s t ->
  match gstep s o, llstep t o with
  | None, None => True
  | Some (s', r), Some (t', r') => r = r' /\ grel s' t'
  | _, _ => False
  end.
Proof.
  intros s t o R.
  assert (C : vals (cur_g s) = cur_l t) by (destruct R as (A & B & D); unfold cur_g, cur_l; rewrite D; destruct (lcur t); assumption).
  assert (O : vals (oth_g s) = oth_l t) by (destruct R as (A & B & D); unfold oth_g, oth_l; rewrite D; destruct (lcur t); assumption).
  assert (N : length (lo (cur_g s)) = length (cur_l t)) by (rewrite <- C; unfold vals; rewrite map_length; reflexivity).
  assert (NO : length (lo (oth_g s)) = length (oth_l t)) by (rewrite <- O; unfold vals; rewrite map_length; reflexivity).
  destruct o; unfold gstep, llstep; rewrite ?N, ?NO.
  - pose proof (construct_vals (cur_g s) (gnext s) (length (cur_l t)) v) as V.
    destruct (construct_node (cur_g s) (gnext s) (length (cur_l t)) v) as [l' nx]. simpl in V.
    split; [reflexivity|]. apply set_cur_g_rel; [assumption|]. rewrite V, C. reflexivity.
  - pose proof (construct_vals (cur_g s) (gnext s) 0 v) as V.
    destruct (construct_node (cur_g s) (gnext s) 0 v) as [l' nx]. simpl in V.
    split; [reflexivity|]. apply set_cur_g_rel; [assumption|]. rewrite V, C. reflexivity.
  - destruct (length (cur_l t) =? 0) eqn:E; [exact I|]. apply Nat.eqb_neq in E. split; [reflexivity|].
    apply set_cur_g_rel; [assumption|]. rewrite free_vals, C by lia. reflexivity.
  - destruct (length (cur_l t) =? 0) eqn:E; [exact I|]. apply Nat.eqb_neq in E. split; [reflexivity|].
    apply set_cur_g_rel; [assumption|]. rewrite free_vals, C by lia. reflexivity.
  - destruct (length (cur_l t) <? p); [exact I|].
    pose proof (construct_vals (cur_g s) (gnext s) p v) as V.
    destruct (construct_node (cur_g s) (gnext s) p v) as [l' nx]. simpl in V.
    split; [reflexivity|]. apply set_cur_g_rel; [assumption|]. rewrite V, C. reflexivity.
  - destruct (p <? length (cur_l t)) eqn:E; [|exact I]. apply Nat.ltb_lt in E. split; [reflexivity|].
    apply set_cur_g_rel; [assumption|]. rewrite free_vals, C by lia. reflexivity.
  - destruct (length (cur_l t) =? 0); [exact I|]. split; [|assumption]. f_equal. rewrite <- C. unfold vals.
    symmetry. apply (map_nth snd _ (0, 0)).
  - destruct (length (cur_l t) =? 0); [exact I|]. split; [|assumption]. f_equal. rewrite <- C. unfold vals.
    symmetry. apply (map_nth snd _ (0, 0)).
  - split; [|assumption]. rewrite <- C. reflexivity.
  - split; [reflexivity|]. apply set_cur_g_rel; [assumption | reflexivity].
  - destruct R as (A & B & D). split; [reflexivity|]. unfold grel. simpl. auto.
  - destruct R as (A & B & D). split; [reflexivity|]. unfold grel. simpl. auto.
  - destruct ((p <=? length (cur_l t)) && (q <? length (oth_l t))); [|exact I]. split; [reflexivity|].
    apply set_both_g_rel; [assumption | |]; unfold vals; cbn [lo lfree].
    + rewrite map_move_in, <- firstn_map, <- skipn_map. fold (vals (oth_g s)). fold (vals (cur_g s)). rewrite C, O. reflexivity.
    + rewrite map_remove_at. fold (vals (oth_g s)). rewrite O. reflexivity.
  - destruct ((p <=? length (cur_l t)) && (a <=? b) && (b <=? length (oth_l t))); [|exact I]. split; [reflexivity|].
    apply set_both_g_rel; [assumption | |]; unfold vals; cbn [lo lfree].
    + rewrite map_move_in, <- firstn_map, <- skipn_map. fold (vals (oth_g s)). fold (vals (cur_g s)). rewrite C, O. reflexivity.
    + rewrite map_app, <- firstn_map, <- skipn_map. fold (vals (oth_g s)). rewrite O. reflexivity.
  - destruct ((p <=? length (cur_l t)) && (q <? length (cur_l t))); [|exact I]. split; [reflexivity|].
    apply set_cur_g_rel; [assumption|]. destruct (p =? q); [assumption|]. unfold vals. cbn [lo lfree].
    rewrite map_move_in, map_remove_at, <- firstn_map, <- skipn_map. fold (vals (cur_g s)). rewrite C. reflexivity.
Qed.

Theorem list_refines_list_lemma : forall ops s t, grel s t -> map strip_nodes (grun s ops) = llrun t ops.
Proof.
  induction ops; intros s t R; simpl; [reflexivity|].
  pose proof (gstep_refines s t a R) as H.
  destruct (gstep s a) as [[s' r]|]; destruct (llstep t a) as [[t' r']|]; try contradiction.
  - destruct H as (-> & R'). simpl. rewrite (IHops s' t' R'). f_equal. f_equal.
    assert (C : vals (cur_g s') = cur_l t') by (destruct R' as (A & B & D); unfold cur_g, cur_l; rewrite D; destruct (lcur t'); assumption).
    fold (vals (cur_g s')). rewrite <- C. unfold vals. rewrite map_length. reflexivity.
  - simpl. rewrite (IHops s t R). reflexivity.
Qed.
