(* C01 core2: packaged statements (consumed by Properties_C01core2.v) *)
From Coq Require Import List NArith Bool Arith Lia.
Require Import XV.XsltEventsDefs XV.XsltEventsModel XV.XsltVarsDefs XV.XsltVarsModel XV.XsltCoreDefs XV.XsltCoreModel XV.XsltCoreSim.
Require Import XV.XsltCore2Defs XV.XsltCore2Model XV.XsltCore2Sim.
Import ListNotations.

(* an instantiation of the abstract mechanisms + a program of the extended language *)
Record mech2 := mkMech2 {
  m2c_value : N -> list value -> N -> N -> N -> value;
  m2c_string : N -> list value -> N -> N -> N -> str;
  m2c_bool : N -> list value -> N -> N -> N -> bool;
  m2c_nodes : N -> list value -> N -> N -> N -> list N;
  m2c_sort : N -> list value -> N -> N -> N -> list N -> list N;
  m2c_template : N -> N -> option N;
  m2c_copy : N -> list item;
  m2c_shallow : N -> shallow;
  m2c_program : list instr2;
  m2c_name_ok : str -> bool;
  m2c_pi_ok : str -> bool }.

(* what is assumed of them: node lists are sets; element names (in copies of source nodes, in fragments an expression
   returns, and those name_ok accepts) are not empty *)
Definition mech2_ok (m : mech2) : Prop :=
  (forall id vs n p z, NoDup (m2c_nodes m id vs n p z)) /\
  (forall id vs n p z l, NoDup l -> NoDup (m2c_sort m id vs n p z l)) /\
  (forall n, forallb names_ok (m2c_copy m n) = true) /\
  (forall n its, m2c_shallow m n = ShLeaf its -> forallb names_ok its = true) /\
  (forall n, m2c_name_ok m n = true -> nonempty n = true) /\
  (forall id vs n p z t, m2c_value m id vs n p z = VRtf t -> forallb rnames_ok t = true).

Definition Sem2 (g : bool) (m : mech2) := sem2 g (m2c_value m) (m2c_string m) (m2c_bool m) (m2c_nodes m) (m2c_sort m) (m2c_template m) (m2c_copy m) (m2c_shallow m) (m2c_program m) (m2c_name_ok m) (m2c_pi_ok m).
Definition SemMain2 (g : bool) (m : mech2) := sem_main2 g (m2c_value m) (m2c_string m) (m2c_bool m) (m2c_nodes m) (m2c_sort m) (m2c_template m) (m2c_copy m) (m2c_shallow m) (m2c_program m) (m2c_name_ok m) (m2c_pi_ok m).
Definition SemTmpl2 (m : mech2) := sem_tmpl2 (m2c_value m) (m2c_program m).
Definition Run2_ (fxf fxc : bool) (m : mech2) := run2 fxf fxc (m2c_value m) (m2c_string m) (m2c_bool m) (m2c_nodes m) (m2c_sort m) (m2c_template m) (m2c_copy m) (m2c_shallow m) (m2c_program m) (m2c_name_ok m) (m2c_pi_ok m).
Definition MachineMain2 (fxf fxc : bool) (m : mech2) := machine_main2 fxf fxc (m2c_value m) (m2c_string m) (m2c_bool m) (m2c_nodes m) (m2c_sort m) (m2c_template m) (m2c_copy m) (m2c_shallow m) (m2c_program m) (m2c_name_ok m) (m2c_pi_ok m).
Definition Sim2 (gd fxf fxc : bool) (m : mech2) := SimI (m2c_value m) (m2c_string m) (m2c_bool m) (m2c_nodes m) (m2c_sort m) (m2c_template m) (m2c_copy m) (m2c_shallow m) (m2c_program m) (m2c_name_ok m) (m2c_pi_ok m) gd fxf fxc.

(* the general statement: the guard is needed only by the source variant that does not leave copy-text-nodes-only mode
   while a fragment is built (fxf = false) *)
Lemma machine2_refines_sem2_gen_pkg : forall gd fxf fxc, (fxf = false -> gd = true) -> forall m, mech2_ok m -> forall f root items,
  SemMain2 gd m f root = Some items ->
  exists k s, (forall j, MachineMain2 fxf fxc m (k + j) root = Done2 s) /\ result_tree2 s = Some (result_of items).
Proof. intros gd fxf fxc Hg m (H1 & H2 & H3 & H4 & H5 & H6). exact (machine_refines_sem_thm _ _ _ _ _ _ _ _ _ _ _ gd fxf fxc Hg H1 H2 H3 H4 H5 H6). Qed.

Lemma machine2_deterministic_gen_pkg : forall gd fxf fxc, (fxf = false -> gd = true) -> forall m, mech2_ok m -> forall f root items n s',
  SemMain2 gd m f root = Some items -> MachineMain2 fxf fxc m n root = Done2 s' -> result_tree2 s' = Some (result_of items).
Proof. intros gd fxf fxc Hg m (H1 & H2 & H3 & H4 & H5 & H6). exact (machine_deterministic_thm _ _ _ _ _ _ _ _ _ _ _ gd fxf fxc Hg H1 H2 H3 H4 H5 H6). Qed.

Lemma no_guard_when_repaired : forall gd, true = false -> gd = true.
Proof. intros; discriminate. Qed.

Lemma guard_when_unrepaired : false = false -> true = true.
Proof. reflexivity. Qed.

(* the repaired variant (fragments leave text-only mode): the FULL theorem, against the reference semantics (no guard),
   whatever xsl:copy does with an ignored element *)
Lemma machine2_refines_sem2_pkg : forall fxc m, mech2_ok m -> forall f root items,
  SemMain2 false m f root = Some items ->
  exists k s, (forall j, MachineMain2 true fxc m (k + j) root = Done2 s) /\ result_tree2 s = Some (result_of items).
Proof. intros fxc. exact (machine2_refines_sem2_gen_pkg false true fxc (no_guard_when_repaired false)). Qed.

Lemma machine2_deterministic_pkg : forall fxc m, mech2_ok m -> forall f root items n s',
  SemMain2 false m f root = Some items -> MachineMain2 true fxc m n root = Done2 s' -> result_tree2 s' = Some (result_of items).
Proof. intros fxc. exact (machine2_deterministic_gen_pkg false true fxc (no_guard_when_repaired false)). Qed.

(* the variant before the repair: under the guard only *)
Lemma machine2_refines_sem2_before_fix_partial_pkg : forall fxc m, mech2_ok m -> forall f root items,
  SemMain2 true m f root = Some items ->
  exists k s, (forall j, MachineMain2 false fxc m (k + j) root = Done2 s) /\ result_tree2 s = Some (result_of items).
Proof. intros fxc. exact (machine2_refines_sem2_gen_pkg true false fxc guard_when_unrepaired). Qed.

Lemma sem2_main_fuel_mono_pkg : forall g m f f' root items,
  SemMain2 g m f root = Some items -> f <= f' -> SemMain2 g m f' root = Some items.
Proof.
  intros g m f f' root items H Hle. unfold SemMain2, sem_main2 in *. destruct (m2c_template m root 0%N); try discriminate.
  eapply sem_tmpl_mono; [|exact H]. intros. apply sem_fuel_le. assumption.
Qed.

(* the guarded semantics is the reference semantics restricted: whatever it defines, the reference semantics defines equally *)
Lemma sem2_guard_restricts_pkg : forall m f root items,
  SemMain2 true m f root = Some items -> SemMain2 false m f root = Some items.
Proof.
  intros m f root items H. unfold SemMain2, sem_main2 in *. destruct (m2c_template m root 0%N); try discriminate.
  eapply sem_tmpl_mono; [|exact H]. intros. apply sem_guard_le.
Qed.

Lemma sim2_all_pkg : forall gd fxf fxc, (fxf = false -> gd = true) -> forall m, mech2_ok m -> forall f, Sim2 gd fxf fxc m f.
Proof. intros gd fxf fxc Hg m (H1 & H2 & H3 & H4 & H5 & H6). exact (sim_all _ _ _ _ _ _ _ _ _ _ _ gd fxf fxc Hg H1 H2 H3 H4 H5 H6). Qed.

(* one instruction, whatever it is (spelled out: Sim2): from "about to call startElement" to "about to ask the invoker for
   the next sibling" the machine adds to the CURRENT output target exactly the events of the items the semantics
   yields - whatever nested targets (fragments, text collectors) were pushed in between have been popped -, leaves every
   control stack, the copy-text-nodes-only stack and the cached-string stack as they were, and the variables in scope
   are those the semantics binds *)
Lemma instr2_pkg : forall fxc m, mech2_ok m -> forall f i tm wp n l md en en' items,
  Sem2 false m f tm wp (cxof n l md) i en = Some (en', items) ->
  forall stk nodes cnl cur modes ifs pvs store o F R benv wpb,
    GoodR F R -> Fr true F benv wpb -> Res store benv en -> tflag o = mflag true tm ->
  exists k store' V newb,
    Run2_ true fxc m k (KStart i) (mkM2 stk nodes (l :: cnl) (n :: cur) (md :: modes) ifs pvs (VS F R) store o)
    = Run2 KNext (mkM2 stk nodes (l :: cnl) (n :: cur) (md :: modes) ifs pvs (VS (V ++ F) R) store' (emit2 (ops_of items) o))
    /\ Forall is_varE V /\ Fr true (V ++ F) (newb ++ benv) wpb /\ Res store' (newb ++ benv) en'
    /\ (exists ext, store' = store ++ ext) /\ (is_decl2 i = false -> V = []).
Proof. intros fxc m Hm f. exact (sim2_all_pkg false true fxc (no_guard_when_repaired false) m Hm f). Qed.

(* xsl:comment: none of the events of the body reaches the target the comment is written to; that target receives the one
   comment event, carrying the concatenated text of the body after the "--" loop *)
Lemma comment_pkg : forall fxc m, mech2_ok m -> forall f body tm wp n l md en its s,
  sem_seq2 (Sem2 false m f TOn wp (cxof n l md)) body en = Some its -> text_of_items its = Some s ->
  forall stk nodes cnl cur modes ifs pvs store o F R benv wpb,
    GoodR F R -> Fr true F benv wpb -> Res store benv en -> tflag o = mflag true tm ->
  exists k store',
    Run2_ true fxc m k (KStart (JComment body)) (mkM2 stk nodes (l :: cnl) (n :: cur) (md :: modes) ifs pvs (VS F R) store o)
    = Run2 KNext (mkM2 stk nodes (l :: cnl) (n :: cur) (md :: modes) ifs pvs (VS F R) store' (emit2 [IComment (fix_comment s)] o))
    /\ (exists ext, store' = store ++ ext).
Proof.
  intros fxc m Hm f body tm wp n l md en its s Hb Ht stk nodes cnl cur modes ifs pvs store o F R benv wpb HG HF HR Hfl.
  assert (Hs : Sem2 false m (S f) tm wp (cxof n l md) (JComment body) en = Some (en, [GComment (fix_comment s)])).
  { unfold Sem2. cbn [sem2]. unfold Sem2 in Hb. rewrite Hb. rewrite Ht. reflexivity. }
  destruct (instr2_pkg fxc m Hm (S f) _ _ _ _ _ _ _ _ _ Hs stk nodes cnl cur modes ifs pvs store o F R benv wpb HG HF HR Hfl)
    as [k [store' [V [newb [Hrun [_ [_ [_ [Hext Hnil]]]]]]]]].
  rewrite (Hnil eq_refl) in Hrun. exists k, store'. split; [exact Hrun|exact Hext].
Qed.

(* xsl:element: the start tag carries the computed name, the end tag the SAME name (it travels on the cached-string stack
   across the body, whatever the body pushes and pops) *)
Lemma element_pkg : forall fxc m, mech2_ok m -> forall f nm body tm wp n l md en name its,
  ev_avt (m2c_string m) (slk en) (cxof n l md) nm = Some name -> m2c_name_ok m name = true ->
  sem_seq2 (Sem2 false m f tm wp (cxof n l md)) body en = Some its ->
  forall stk nodes cnl cur modes ifs pvs store o F R benv wpb,
    GoodR F R -> Fr true F benv wpb -> Res store benv en -> tflag o = mflag true tm ->
  exists k store',
    Run2_ true fxc m k (KStart (JElement nm body)) (mkM2 stk nodes (l :: cnl) (n :: cur) (md :: modes) ifs pvs (VS F R) store o)
    = Run2 KNext (mkM2 stk nodes (l :: cnl) (n :: cur) (md :: modes) ifs pvs (VS F R) store'
                       (emit2 (IStart name :: ops_of its ++ [IEnd name]) o))
    /\ (exists ext, store' = store ++ ext).
Proof.
  intros fxc m Hm f nm body tm wp n l md en name its Ha Hn Hb stk nodes cnl cur modes ifs pvs store o F R benv wpb HG HF HR Hfl.
  assert (Hs : Sem2 false m (S f) tm wp (cxof n l md) (JElement nm body) en = Some (en, [GElem name [] its])).
  { unfold Sem2. cbn [sem2]. rewrite Ha. rewrite Hn. unfold Sem2 in Hb. rewrite Hb. reflexivity. }
  destruct (instr2_pkg fxc m Hm (S f) _ _ _ _ _ _ _ _ _ Hs stk nodes cnl cur modes ifs pvs store o F R benv wpb HG HF HR Hfl)
    as [k [store' [V [newb [Hrun [_ [_ [_ [Hext Hnil]]]]]]]]].
  rewrite (Hnil eq_refl) in Hrun. exists k, store'. split; [|exact Hext].
  rewrite Hrun. unfold ops_of. simpl. rewrite app_nil_r. reflexivity.
Qed.
