"""C09 part "compile": the match-pattern compiler, name tests with namespaces and match-score classes inside the model.
run_part(ctx) is called from props/C09.py.

proof           coq/Properties_C09c.v over coq/PatcDefs.v / PatcScoreDefs.v (GenPatc regenerated from /repo: whole-body anchors
                of Pattern ... AbbreviatedNodeTestStep, NodeTester dispatch and scores, getTargetData)
correspondence  harness/patc.cpp (initMatchPattern + strict op-map decoder; getTargetData; getMatchScore per node) against the
                extracted model (ocaml/patc_driver.ml) on: generated patterns (two spellings each), the malformed stream,
                single-step patterns x nodes of generated namespaced documents
oracle          (independent of the Coq model) vlib/patcgen.py: the Pattern-grammar recogniser on accept / reject; the expected
                compiled tree written from the meaning of the op codes, predicates taken from the library's own expression
                compiler; default-priority classes of XSLT 5.5; name tests by expanded-name equality
case lines: <id> <mode> <ns> <hex UTF-16 text> [<doc | nodes>]   (harness/patc.cpp head comment)"""
import os
import subprocess
import time
from concurrent.futures import ThreadPoolExecutor
from vlib import core, patcgen

FINDING_KEYS = {"empty": "K-patc-empty-alt", "idkey": "K-patc-idkey-args", "triple": "K-patc-triple-slash", "noslash": "K-patc-idkey-no-slash"}


def _run(exe, lines, timeout=600):
    def chunk(ls):
        try:
            p = subprocess.run([exe], input="\n".join(ls) + "\n", stdout=subprocess.PIPE, stderr=subprocess.DEVNULL,
                               timeout=timeout, universal_newlines=True, errors="replace")
            out = p.stdout
        except subprocess.TimeoutExpired as ex:
            out = ex.stdout or ""
            if isinstance(out, bytes):
                out = out.decode("utf-8", "replace")
        r = {}
        for l in out.split("\n"):
            if l and l[0] not in "#!":
                k, _, rest = l.partition(" ")
                r[k] = rest
        return r
    res = {}
    jobs = core.NPROC
    if len(lines) < 4 * jobs:
        res = chunk(lines)
    else:
        per = (len(lines) + jobs - 1) // jobs
        with ThreadPoolExecutor(jobs) as ex:
            for r in ex.map(chunk, [lines[i:i + per] for i in range(0, len(lines), per)]):
                res.update(r)
    ids = [l.split(" ", 1)[0] for l in lines]
    missing = [i for i, k in enumerate(ids) if k not in res]
    rounds = 0
    while missing and rounds < 40:          # a crash loses the rest of its chunk: the first missing case of a re-run killed it
        rounds += 1
        res.update(chunk([lines[i] for i in missing]))
        still = [i for i in missing if ids[i] not in res]
        if still:
            res[ids[still[0]]] = "crash"
            still = still[1:]
        missing = still
    for i in missing:
        res[ids[i]] = "lost"
    return res


def line(cid, mode, text, extra=None):
    return "%s %s %s %s%s" % (cid, mode, patcgen.NSFIELD, patcgen.hx(text), (" " + extra) if extra else "")


def verdict(r):
    return (r or "lost").split(" ", 1)[0]


def canon(r):
    from props import C02_compiler
    return C02_compiler.canon_sx(r) if r and r.startswith("ok ") else verdict(r)


def run_part(ctx):
    t0 = time.time()
    ctx.assumptions += [
        "C09 compile part: patterns are compiled against two fixed prefix bindings (p, q2) plus undeclared prefixes in the malformed stream; the PrefixResolver is the harness's map",
        "C09 compile part: match scores are modelled for patterns whose alternatives are one step without predicates (and '/'); longer patterns and predicates are eMatchScoreOther by getTargetData and are covered by the matcher model of the main part",
        "C09 compile part: the composition theorem is stated for the token lists the pattern printer produces (child:: / attribute:: spelling, every canonical prefix-free pattern tree); abbreviated spellings are tied to it by the correspondence run (both spellings must compile to the same tree)",
    ]
    proved = ctx.prove(["Properties_C09c.v"], ["GenPatc", "GenXpc"])
    ctx.notes["patc_proved"] = bool(proved)
    model, ok_m, mlog = core.build_model("patc")
    if not ok_m:
        ctx.broken.append("patc: model extraction/build failed: " + mlog[-400:])
        model = None
    impl, ok_h, hlog = core.build_harness("patc", "plain")
    if not ok_h:
        ctx.broken.append("patc: harness/patc.cpp does not compile against the working tree: " + hlog[-400:])
        return
    known = {k["key"]: k for k in ctx.known.for_property("C09")}
    rng = ctx.rng
    viol = {}
    corr = []
    dev = {}
    n_gen, n_mal, n_docs = (1500, 2500, 60) if not ctx.thorough else (12000, 20000, 500)
    if not proved or not model:
        ctx.escalated = True
        n_gen, n_mal, n_docs = n_gen * 3, n_mal * 3, n_docs * 3

    def add(tag, text):
        viol.setdefault(tag, []).append(text)

    # ---- predicates: the library's own expression compiler gives their trees (and must accept them)
    plines = [line("q%d" % i, "E", p) for i, (p, _) in enumerate(patcgen.PREDS)]
    pres = _run(impl, plines)
    pred_sx = {}
    for i, (p, _) in enumerate(patcgen.PREDS):
        r = pres.get("q%d" % i, "lost")
        if not r.startswith("ok "):
            add("patc-rejects-pattern", "# predicate expression %r refused by initXPath: %s\n%s" % (p, r, plines[i]))
            pred_sx[p] = "?"
        else:
            pred_sx[p] = canon(r)

    # ---- (i) generated patterns, compact and white-space spelling
    items = []
    corpus_dir = os.path.join(core.VERIF, "corpus", "C09c")
    for i in range(n_gen):
        P = patcgen.gen_pattern(rng)
        items.append((P, patcgen.pattern_text(P), patcgen.pattern_text(P, rng)))
    glines = []
    for i, (P, a, b) in enumerate(items):
        glines += [line("g%da" % i, "P", a), line("g%db" % i, "P", b), line("g%dt" % i, "T", a)]
    hres = _run(impl, glines)
    mres = _run(model, glines) if model else {}
    distinct = set()
    for i, (P, a, b) in enumerate(items):
        want = "(pattern" + patcgen.expected_sx(P, pred_sx)[len("(pattern"):]
        for suffix, text in (("a", a), ("b", b)):
            cid = "g%d%s" % (i, suffix)
            h = hres.get(cid, "lost")
            ctx.count("generated:" + P[0]["head"][0])
            if not patcgen.recognise_pattern(text):
                ctx.broken.append("patc: the generator wrote a string its own grammar recogniser refuses: %r" % text)
                continue
            if verdict(h) != "ok":
                add("patc-rejects-pattern", "# a pattern of the XSLT 1.0 Pattern grammar is refused: %s\n#   library: %s\n%s" % (text, h[:200], line(cid, "P", text)))
            elif canon(h) != want:
                add("patc-structure", "# compiled pattern is not the pattern's structure: %s\n#   expected: %s\n#   library : %s\n%s" % (text, want[:600], canon(h)[:600], line(cid, "P", text)))
            else:
                distinct.add(want)
            if model and canon(mres.get(cid)) != canon(h):
                corr.append((text, "P", mres.get(cid), h))
        cid = "g%dt" % i
        h = hres.get(cid, "lost")
        wantc = " ".join(patcgen.alt_class(x) for x in P)
        gotc = " ".join(x.split(":")[0] for x in h.split()[1:]) if h.startswith("ok") else h
        if gotc != wantc:
            add("patc-target-class", "# default-priority class (getTargetData) differs from XSLT 5.5: %s\n#   expected %s library %s\n%s" % (a, wantc, gotc, line(cid, "T", a)))
        if model:
            m = mres.get(cid, "lost")
            if (m.split()[1:] if m.startswith("ok") else m) != (gotc.split() if h.startswith("ok") else h):
                corr.append((a, "T", m, h))

    # ---- (ii) malformed stream and the frozen corpus
    mal = patcgen.malformed(rng, n_mal)
    for fn in sorted(os.listdir(corpus_dir)) if os.path.isdir(corpus_dir) else []:
        if fn.endswith(".lst"):
            mal += [l.rstrip("\n") for l in open(os.path.join(corpus_dir, fn), encoding="utf-8") if l.strip() and not l.startswith("#")]
    mlines = [line("m%d" % i, "P", s) for i, s in enumerate(mal)]
    hres = _run(impl, mlines)
    mres = _run(model, mlines) if model else {}
    refused_good = []
    for i, s in enumerate(mal):
        cid = "m%d" % i
        h = hres.get(cid, "lost")
        vh = verdict(h)
        if vh not in ("ok", "err"):
            add("patc-crash", "# the pattern compiler does not answer (%s): %r\n%s" % (vh, s, mlines[i]))
            continue
        if model and canon(mres.get(cid)) != canon(h):
            corr.append((s, "P", mres.get(cid), h))
        good = patcgen.recognise_pattern(s)
        ctx.count("malformed:" + ("pattern" if good else "non-pattern"))
        if vh == "ok" and not good:
            classes, repaired = patcgen.leniency_classes(s)
            if classes and repaired:
                for c in classes:
                    dev.setdefault(c, []).append(s)
                continue
            add("patc-accepts-non-pattern", "# not a Pattern (XSLT 1.0 section 5.2) but compiled: %r\n#   library: %s\n%s" % (s, h[:300], mlines[i]))
        elif vh == "err" and good:
            refused_good.append((cid, s, h))
    # a grammatical pattern that is refused: the recogniser knows no prefix bindings, function table or arities, so the same
    # string goes to the EXPRESSION compiler (every pattern is an expression); refused there too = not a matter of patterns
    if refused_good:
        elines = [line("e" + cid, "E", s) for cid, s, _ in refused_good]
        eres = _run(impl, elines)
        for cid, s, h in refused_good:
            if verdict(eres.get("e" + cid)) == "ok":
                add("patc-rejects-pattern", "# a pattern of the XSLT 1.0 Pattern grammar (and an expression the compiler accepts) is refused as a pattern: %r\n#   library: %s\n%s"
                    % (s, h[:200], line(cid, "P", s)))
            else:
                ctx.count("malformed:grammar-ok-refused-as-expression-too")

    # ---- (iii) scores on namespaced documents
    slines, smeta = [], []
    for d in range(n_docs):
        doc = patcgen.gen_doc(rng)
        for k in range(6):
            P = patcgen.gen_pattern(rng, simple=True)
            text = patcgen.pattern_text(P)
            cid = "s%d_%d" % (d, k)
            slines.append(line(cid, "S", text, patcgen.hx(doc)))
            smeta.append((cid, P, text, doc))
    hres = _run(impl, slines)
    mlines2 = []
    nodes_of = {}
    for cid, P, text, doc in smeta:
        h = hres.get(cid, "lost")
        if not h.startswith("ok"):
            add("patc-score", "# getMatchScore did not answer (%s) for %s on %s\n%s" % (h[:80], text, doc, [l for l in slines if l.startswith(cid + " ")][0]))
            continue
        nodes = []
        for f in h.split()[1:]:
            kd, u, l, sc = f.split(":")
            un = "" if u == "-" else bytes.fromhex(u).decode("utf-16-be")
            ln = "" if l == "-" else bytes.fromhex(l).decode("utf-16-be")
            nodes.append((kd, un, ln, sc, "%s:%s:%s" % (kd, u, l)))
        nodes_of[cid] = nodes
        mlines2.append(line(cid, "S", text, ",".join(n[4] for n in nodes)))
    mres = _run(model, mlines2) if (model and mlines2) else {}
    n_scores = 0
    for cid, P, text, doc in smeta:
        nodes = nodes_of.get(cid)
        if nodes is None:
            continue
        got = [n[3] for n in nodes]
        want = [patcgen.simple_pattern_score(P, (n[0], n[1], n[2])) if n[0] != "n" else "-" for n in nodes]
        n_scores += len(nodes)
        if any(sc != "-" for sc in got):
            distinct.add(("score", text, tuple(got)))
        if got != want:
            k = [i for i in range(len(got)) if got[i] != want[i]][0]
            add("patc-score", "# match score class differs from 'name tests compare expanded names' / XSLT 5.5: pattern %s, node %d (%s {%s}%s): library %s expected %s\n#   document: %s\n%s"
                % (text, k, nodes[k][0], nodes[k][1], nodes[k][2], got[k], want[k], doc, [l for l in slines if l.startswith(cid + " ")][0]))
        if model:
            m = mres.get(cid, "lost")
            if (m.split()[1:] if m.startswith("ok") else [m]) != got:
                corr.append((text + " on " + doc, "S", m, "ok " + " ".join(got)))
        for a in P:
            ctx.count("score:" + patcgen.test_class(a["steps"][0]["test"]))

    # ---- verdicts
    d = os.path.join(core.OUT, ctx.pid)
    os.makedirs(d, exist_ok=True)
    if corr:
        corr.sort(key=lambda c: len(c[0]))
        p = os.path.join(d, "patc_correspondence.txt")
        with open(p, "w", encoding="utf-8") as f:
            f.write("# C09 compile part: extracted model and library differ on %d case lines\n" % len(corr))
            for i, (s, mode, m, h) in enumerate(corr[:200]):
                f.write("# %s [%s]\n#   model  : %s\n#   library: %s\n" % (s, mode, (m or "no answer")[:800], (h or "no answer")[:800]))
        for s, mode, m, h in corr[:3]:
            ctx.broken.append("patc correspondence [%s]: %s model=%s library=%s" % (mode, s[:160], (m or "no answer")[:240], (h or "no answer")[:240]))
        ctx.broken.append("patc correspondence: %d case lines differ between the pattern-compiler / score model and the library [%s]" % (len(corr), p))
    for cls in sorted(dev):
        key = FINDING_KEYS[cls]
        ss = sorted(set(dev[cls]), key=len)
        if key in known:
            ctx.known_finding("%s %s" % (key, known[key]["what"]))
        else:
            add("patc-accepts-non-pattern", "# deviation class %s is not a recorded finding: %d strings, e.g.\n%s" % (
                key, len(ss), "\n".join(line("u%d" % i, "P", s) + "   # " + s for i, s in enumerate(ss[:20]))))
    heads = {"patc-accepts-non-pattern": "strings that are not XSLT 1.0 patterns must be refused",
             "patc-rejects-pattern": "a pattern of the XSLT 1.0 Pattern grammar is refused by the compiler",
             "patc-structure": "the compiled pattern (MATCH_* op codes, node tests, predicate flags) is not the pattern's structure",
             "patc-target-class": "the default-priority class of an alternative is not the one of XSLT 1.0 section 5.5",
             "patc-score": "the match score of a one-step pattern on a node is not what expanded-name equality / XSLT 5.5 say",
             "patc-crash": "the pattern compiler does not answer (crash or hang)"}
    for tag in sorted(viol):
        texts = sorted(viol[tag], key=len)
        ctx.violation(tag, "# C09 (compile part): %s\n# %d cases; replay: .build/patc_plain < this file (case lines: <id> <mode> <ns> <hex UTF-16 text> [<hex document>])\n%s"
                      % (heads.get(tag, tag), len(texts), "\n".join(texts[:40])))
    ctx.cov["evaluations"] = ctx.cov.get("evaluations", 0) + len(glines) + len(mlines) + n_scores
    ctx.cov["distinct_nontrivial"] = ctx.cov.get("distinct_nontrivial", 0) + len(distinct)
    ctx.cov["traces_validated_against_impl"] = ctx.cov.get("traces_validated_against_impl", 0) + (len(glines) + len(mlines) + len(mlines2) if model else 0)
    ctx.notes["patc_counts"] = {"generated_patterns": len(items), "generated_case_lines": len(glines), "malformed": len(mal),
                                "score_cases": len(slines), "scores_compared": n_scores, "correspondence_differences": len(corr),
                                "oracle_failures": sum(len(v) for v in viol.values()),
                                "deviation_class_hits": {FINDING_KEYS[k]: len(v) for k, v in dev.items()}}
    ctx.notes["patc_seconds"] = round(time.time() - t0, 1)
