(* XpCpCountModel.v -- string-length(): the counter of FormatterStringLengthCounter, fed the
   string-value in any number of characters() events, counts the characters of the whole string
   (a pair split between two events is one character). *)
From Coq Require Import ZArith NArith Lia List Bool Arith SpecFloat ZifyBool ZifyNat ZifyN.
Require Import XV.GenNum XV.NumDefs XV.XpAst XV.DomDefs XV.XpDefs XV.XpCpDefs XV.XpCpModel.
Import ListNotations.

(* the last character is an unpaired high surrogate *)
Fixpoint ends_high (s : list N) : bool :=
  match s with
  | [] => false
  | h :: r =>
      match r with
      | l :: r' => if is_pair h l then ends_high r' else ends_high r
      | [] => is_high h
      end
  end.

Lemma ends_high_pair : forall h l r, is_pair h l = true -> ends_high (h :: l :: r) = ends_high r.
Proof. intros h l r E. cbn [ends_high]. rewrite E. reflexivity. Qed.
Lemma ends_high_cons : forall h l r, is_pair h l = false -> ends_high (h :: l :: r) = ends_high (l :: r).
Proof. intros h l r E. cbn [ends_high]. rewrite E. reflexivity. Qed.
Lemma count_pairs_cons : forall h l r, is_pair h l = false -> count_pairs (h :: l :: r) = count_pairs (l :: r).
Proof. intros h l r E. cbn [count_pairs]. rewrite E. reflexivity. Qed.

Lemma counter_scan_spec : forall s, counter_scan s = (count_pairs s, ends_high s).
Proof.
  induction s as [|h l r E IHs|h r E IHs] using cp_ind.
  - reflexivity.
  - rewrite count_pairs_pair, ends_high_pair by assumption. cbn [counter_scan].
    unfold is_pair in E. apply andb_true_iff in E. destruct E as [E1 E2]. rewrite E1, E2, IHs. reflexivity.
  - destruct r as [|l r']; [reflexivity|]. cbn [starts_pair] in E.
    rewrite count_pairs_cons, ends_high_cons by assumption. cbn [counter_scan].
    unfold is_pair in E. destruct (is_high h); [|exact IHs]. cbn [andb] in E. rewrite E. exact IHs.
Qed.

(* appending a chunk *)
Lemma app_chunk : forall a u0 rest,
  count_pairs (a ++ u0 :: rest) =
    (if ends_high a && is_low u0 then S (count_pairs a) + count_pairs rest else count_pairs a + count_pairs (u0 :: rest)) /\
  ends_high (a ++ u0 :: rest) =
    (if ends_high a && is_low u0 then ends_high rest else ends_high (u0 :: rest)).
Proof.
  intros a u0 rest. induction a as [|h l r E IHs|h r E IHs] using cp_ind.
  - split; reflexivity.
  - change ((h :: l :: r) ++ u0 :: rest) with (h :: l :: (r ++ u0 :: rest)).
    rewrite !count_pairs_pair, !ends_high_pair by assumption. destruct IHs as [I1 I2]. rewrite I1, I2.
    split; [destruct (ends_high r && is_low u0); lia | reflexivity].
  - destruct r as [|l r'].
    + cbn [app]. cbn [ends_high count_pairs plus]. unfold is_pair.
      destruct (is_high h && is_low u0); split; reflexivity.
    + cbn [starts_pair] in E. change ((h :: l :: r') ++ u0 :: rest) with (h :: l :: (r' ++ u0 :: rest)).
      rewrite !count_pairs_cons, !ends_high_cons by assumption. exact IHs.
Qed.

Definition counter_of (s : list N) : counter := mkCounter (length s) (count_pairs s) (ends_high s).

Lemma counter_characters_app : forall s chunk,
  counter_characters (counter_of s) chunk = counter_of (s ++ chunk).
Proof.
  intros s [|u0 rest].
  - rewrite app_nil_r. reflexivity.
  - unfold counter_characters, counter_of. cbn [c_units c_pairs c_pending].
    destruct (app_chunk s u0 rest) as [A1 A2]. rewrite A1, A2, app_length.
    destruct (ends_high s && is_low u0); rewrite counter_scan_spec; f_equal; lia.
Qed.

Lemma counter_run_from : forall chunks s,
  fold_left counter_characters chunks (counter_of s) = counter_of (s ++ concat chunks).
Proof.
  induction chunks as [|ch chunks IH]; intros s; cbn [fold_left concat].
  - rewrite app_nil_r. reflexivity.
  - rewrite counter_characters_app, IH, app_assoc. reflexivity.
Qed.

Theorem counter_counts_characters : forall chunks,
  counter_count (counter_run chunks) = length (decode (concat chunks)).
Proof.
  intros chunks. unfold counter_run. change counter_init with (counter_of []).
  rewrite counter_run_from. cbn [app]. unfold counter_count, counter_of. cbn [c_units c_pairs].
  rewrite <- cp_length_decode. reflexivity.
Qed.

Corollary counter_one_event : forall s, counter_count (counter_run [s]) = cp_length s.
Proof. intros s. rewrite counter_counts_characters, cp_length_decode. cbn [concat]. rewrite app_nil_r. reflexivity. Qed.
