(* Extraction of the C15 model for the correspondence driver. ExtrOcamlBasic only. *)
Require Import ExtrOcamlBasic.
From Coq Require Import ZArith.
Require Import XV.KeyDefs.
(* ocaml/conv.ml (prepended to every driver) mentions the constructors of positive, N and Z *)
Definition conv_types_witness : N * Z := (Npos xH, Zpos xH).
Extraction "extracted/key_model.ml" run_case decl_of_table doc_nodes size conv_types_witness.
