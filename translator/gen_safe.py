"""gen_safe — regenerates coq/GenSafe.v (property C03) from /repo's current sources:

  (a) the fixed-size buffers written by sprintf / index loops, with their evaluated sizes and the
      guards in front of the writes (double and integer conversions, the atof stack buffer,
      int2alphaCount, the conflicts array of Stylesheet::findTemplate, the writers' buffers);
  (b) a CENSUS of every `T x[N]` array declaration, every sprintf/strcpy/strcat/memcpy-like call
      and every double -> integer cast candidate in the library directories of src/xalanc.  The
      census is compared in Coq with the audited allow-list of coq/SafeDefs.v: a site that is
      not in the list breaks theorem census_complete;
  (c) the catch clauses of XalanTransformer::doTransform / compileStylesheet / parseSource and
      of the C-API wrappers: exception type -> status, message sources.

Fail-closed: AnchorError when a shape is not recognised."""
import os, re
import srcfacts
from srcfacts import AnchorError, need, read, strip_comments, const_eval, function_body, HEADER

LIBDIRS = ["DOMSupport", "ICUBridge", "Include", "PlatformSupport", "XMLSupport", "XPath", "XPathCAPI", "XSLT",
           "XalanDOM", "XalanEXSLT", "XalanExtensions", "XalanSourceTree", "XalanTransformer", "XercesParserLiaison"]
CASTDIRS = ["Include", "PlatformSupport", "XPath", "XSLT", "XMLSupport", "XalanEXSLT", "XalanExtensions", "XalanTransformer",
            "XPathCAPI", "DOMSupport", "XalanSourceTree"]

ARRAY_RX = re.compile(
    r"^[ \t]*(?!return\b|delete\b|typedef\b|case\b|goto\b|throw\b|else\b)(?:static\s+)?(?:const\s+)?(?:unsigned\s+|signed\s+)?"
    r"[A-Za-z_][\w:<>]*(?:\s*\*+)?(?:\s+const)?\s+\**\s*([A-Za-z_]\w*)\s*\[([^\]=;]+)\]\s*;", re.M)
CALL_RX = re.compile(r"\b(sprintf|vsprintf|snprintf|strcpy|strncpy|strcat|strncat|memcpy|memmove|wcscpy|wcscat|gets|alloca|sscanf)\s*\(")
INT_T = (r"(?:(?:[A-Za-z_]\w*(?:<[^<>()]*>)?::)*(?:size_type|CountType|XMLInt64|XMLUInt64|XMLSize_t|XalanSize_t|size_t|"
         r"XalanDOMChar|XalanUnicodeChar|XMLCh|streamsize|ptrdiff_t|difference_type|int_type)"
         r"|(?:unsigned\s+|signed\s+)?(?:long\s+long|long\s+int|long|int|short|char)|unsigned)")
CAST_RX = re.compile(r"(?:\bstatic_cast\s*<\s*(" + INT_T + r")\s*>|(?<![\w:>.])(" + INT_T + r"))\s*\(")
CCAST_RX = re.compile(r"\(\s*(" + INT_T + r")\s*\)\s*([A-Za-z_(][\w.>\-:]*)")
FLOAT_DECL_RX = re.compile(r"\b(?:double|float)\s*(?:const\s*)?&?\s*([A-Za-z_]\w*)\b(?!\s*\()")
FLOAT_HINT_RX = re.compile(r"(?<![\w.])\d+\.\d*(?![\w.])|(?<![\w.])\.\d+|DoubleSupport\s*::\s*(?:round|floor|ceiling|add|subtract|multiply|divide|modulus|negative|abs|toDouble|getNaN)"
                           r"|(?:->|\.)\s*num\s*\(|\b(?:floor|ceil|fmod|sqrt|pow|fabs|atof|strtod|modf)\s*\(|\bdouble\s*\(|static_cast\s*<\s*double\s*>")


def lib_files(dirs):
    out = []
    for d in dirs:
        root = os.path.join(srcfacts.SRC, d)
        if not os.path.isdir(root):
            raise AnchorError("library directory missing: " + d)
        for r, _, fs in os.walk(root):
            for f in fs:
                if f.endswith((".cpp", ".hpp", ".h")):
                    out.append(os.path.relpath(os.path.join(r, f), srcfacts.SRC))
    return sorted(out)


def norm(s):
    return re.sub(r"\s+", " ", s).strip().replace('"', "'").replace("\\", "/")


def balanced(text, i):
    """text[i] == '(' -> index just after the matching ')'"""
    depth = 0
    for j in range(i, min(len(text), i + 2000)):
        if text[j] == "(":
            depth += 1
        elif text[j] == ")":
            depth -= 1
            if depth == 0:
                return j + 1
    return -1


def context(t, a, b):
    """normalised text of the statement (or condition) around t[a:b]"""
    i = max(t.rfind(";", 0, a), t.rfind("{", 0, a), t.rfind("}", 0, a)) + 1
    js = [x for x in (t.find(";", b), t.find("{", b)) if x >= 0]
    j = min(js) if js else b
    return norm(t[i:j])[:400]


def counted(lst):
    out = {}
    for x in lst:
        out[x] = out.get(x, 0) + 1
    return sorted("%s|x%d" % (k, n) for k, n in out.items())


def census():
    arrays, calls, casts = [], [], []
    for rel in lib_files(LIBDIRS):
        t = strip_comments(read(rel))
        for m in ARRAY_RX.finditer(t):
            arrays.append("arr|%s|%s|%s" % (rel, m.group(1), norm(m.group(2))))
        for m in CALL_RX.finditer(t):
            e = balanced(t, m.end() - 1)
            arg = t[m.end():e - 1] if e > 0 else "?"
            first = norm(arg.split(",")[0])
            calls.append("call|%s|%s|%s" % (rel, m.group(1), first))
    for rel in lib_files(CASTDIRS):
        t = strip_comments(read(rel))
        fl = set(FLOAT_DECL_RX.findall(t))
        fl -= {"const", "operator"}
        flrx = re.compile(r"(?<![\w.>])(?:%s)\b(?!\s*\()" % "|".join(sorted(map(re.escape, fl)))) if fl else None

        def floaty(arg):
            return bool(FLOAT_HINT_RX.search(arg)) or bool(flrx and flrx.search(arg))
        for m in CAST_RX.finditer(t):
            ty = m.group(1) or m.group(2)
            # a declaration 'size_type(x)' cannot start a statement in this code base; a preceding
            # identifier character was excluded by the look-behind
            e = balanced(t, m.end() - 1)
            if e < 0:
                continue
            arg = t[m.end():e - 1]
            if not arg.strip() or not floaty(arg):
                continue
            casts.append("cast|%s|%s|%s|%s" % (rel, norm(ty), norm(arg), context(t, m.start(), e)))
        for m in CCAST_RX.finditer(t):
            if floaty(m.group(2)):
                casts.append("cast|%s|%s|%s|%s" % (rel, norm(m.group(1)), norm(m.group(2)), context(t, m.start(), m.end())))
    return counted(arrays), counted(calls), counted(casts), (arrays, calls, casts)


# ----------------------------------------------------------------------------------------------
def cmp_op(op):
    return {"<": "N.ltb", "<=": "N.leb", ">": "(fun a b => N.ltb b a)", ">=": "(fun a b => N.leb b a)"}[op]


def coq_str(s):
    if '"' in s:
        raise AnchorError("cannot quote: " + s)
    return '"' + s + '"'


def buffers():
    d = {}
    t = strip_comments(read("PlatformSupport/DOMStringHelper.cpp"))
    env = {}
    for name, ty in (("MAX_PRINTF_DIGITS", "size_t"), ("MAX_FRACTION_DIGITS", "int"), ("MAX_FLOAT_CHARACTERS", "size_t")):
        mm = need(r"const\s+%s\s+%s\s*=\s*([^;]+);" % (ty, name), t, name)
        env[name] = const_eval(mm.group(1), env)
    d["env"] = env
    m = need(r"thePrintfStrings\s*\[\s*\]\s*=\s*\{(.*?)\}\s*;", t, "thePrintfStrings table")
    precs = []
    for e in [x.strip() for x in m.group(1).split(",") if x.strip()][:-1]:
        mm = re.fullmatch(r'"%\.(\d+)f"', e)
        if not mm:
            raise AnchorError("unexpected printf format " + e)
        precs.append(int(mm.group(1)))
    d["precs"] = precs
    # every array of DOMStringHelper.cpp, by enclosing function, with its role
    dbl = []
    for fn, rx in (("NumberToCharacters", r"DOMStringHelper::NumberToCharacters\s*\(\s*double[^)]*\)\s*\{"),
                   ("NumberToDOMString", r"\bNumberToDOMString\s*\(\s*double[^)]*\)\s*\{")):
        body = function_body(t, rx, fn + "(double)")
        bm = need(r"char\s+theBuffer\s*\[([^\]]+)\]", body, fn + " sprintf buffer")
        # the sprintf loops live in the shared DoubleToCharacters(theValue, theBuffer), whose parameter is a
        # reference to an array of the same size (C18's GenNum pins its body token for token)
        if not re.search(r"int\s+theCharsWritten\s*=\s*DoubleToCharacters\s*\(\s*theValue\s*,\s*theBuffer\s*\)\s*;", body):
            raise AnchorError(fn + ": call of DoubleToCharacters not recognised")
        dbl.append((fn + ".theBuffer", const_eval(bm.group(1), env)))
        rm = re.search(r"XalanDOMChar\s+theResult\s*\[([^\]]+)\]", body)
        if rm:
            dbl.append((fn + ".theResult", const_eval(rm.group(1), env)))
    hm = need(r"static\s+int\s+DoubleToCharacters\s*\(\s*double\s+theValue\s*,\s*char\s*\(\s*&\s*theBuffer\s*\)\s*\[([^\]]+)\]\s*\)\s*\{",
              t, "DoubleToCharacters(double, char (&)[N])")
    hbody = function_body(t, r"static\s+int\s+DoubleToCharacters\s*\([^{]*\)\s*\{", "DoubleToCharacters body")
    if len(re.findall(r"sprintf\s*\(\s*theBuffer\s*,\s*\*thePrintfString\s*,\s*theValue\s*\)", hbody)) != 1 or \
            len(re.findall(r"sprintf\s*\(\s*theBuffer\s*,\s*\"%\.\*f\"\s*,\s*thePrecision\s*,\s*theValue\s*\)", hbody)) != 1:
        raise AnchorError("DoubleToCharacters: the two sprintf calls (table format, \"%.*f\") not recognised")
    dbl.append(("DoubleToCharacters.theBuffer", const_eval(hm.group(1), env)))
    d["dbl"] = dbl
    # integer conversions: buffer[SIZE], end pointer &theBuffer[END]; ScalarToDecimalString writes
    # the terminator at END and then moves down
    ints = []
    for m in re.finditer(r"XalanDOMChar\s+theBuffer\s*\[([^\]]+)\]\s*;(.{0,400}?)&theBuffer\s*\[([^\]]+)\]", t, re.S):
        between = m.group(2)
        kind = "hex" if "Hexadecimal" in t[m.end():m.end() + 200] + between else "dec"
        ints.append((kind, const_eval(m.group(1), env), const_eval(m.group(3), env)))
    if len([k for k in ints if k[0] == "dec"]) < 3 or not any(k[0] == "hex" for k in ints):
        raise AnchorError("integer conversion buffers of DOMStringHelper.cpp not recognised (%r)" % (ints,))
    d["ints"] = ints
    body = function_body(t, r"template\s*<\s*class\s+ScalarType\s*>\s*XalanDOMChar\s*\*\s*ScalarToDecimalString\s*\([^)]*\)\s*\{", "ScalarToDecimalString")
    if len(re.findall(r"\*--theOutput\s*=", body)) != 3 or len(re.findall(r"theValue\s*/=\s*10\s*;", body)) != 2 \
            or not re.search(r"\*theOutput\s*=\s*0\s*;", body) or len(re.findall(r"while\s*\(\s*theValue\s*!=\s*0\s*\)", body)) != 2:
        raise AnchorError("ScalarToDecimalString: digit loop not recognised")
    body = function_body(t, r"template\s*<\s*class\s+ScalarType\s*>\s*XalanDOMChar\s*\*\s*UnsignedScalarToHexadecimalString\s*\([^)]*\)\s*\{", "UnsignedScalarToHexadecimalString")
    if not re.search(r"theValue\s*/=\s*16\s*;", body) or len(re.findall(r"--theOutput\s*;", body)) != 1:
        raise AnchorError("UnsignedScalarToHexadecimalString: digit loop not recognised")
    pm = need(r"char\s+theBuffer\s*\[([^\]]+)\]\s*;\s*using\s+std::sprintf\s*;+\s*const\s+int\s+theCharsWritten\s*=\s*sprintf\s*\(\s*theBuffer\s*,\s*\"%p\"", t, "PointerToDOMString buffer")
    d["ptr"] = const_eval(pm.group(1), env)
    # atof stack buffer
    ds = strip_comments(read("PlatformSupport/DoubleSupport.cpp"))
    body = function_body(ds, r"\bconvertHelper\s*\([^)]*\)\s*\{", "convertHelper")
    bs = need(r"theBufferSize\s*=\s*(\d+)u?\s*;", body, "theBufferSize")
    g = need(r"if\s*\(\s*theLength\s*(<=|<|>=|>)\s*theBufferSize\s*\)\s*\{\s*char\s+theBuffer\s*\[\s*theBufferSize\s*\]\s*;", body,
             "length test directly in front of the atof stack buffer")
    lp = need(r"for\s*\(\s*XalanDOMString::size_type\s+i\s*=\s*(\d+)\s*;\s*i\s*(<=|<)\s*theLength\s*;\s*\+\+i\s*\)", body, "atof copy loop")
    need(r"theBuffer\s*\[\s*i\s*\]\s*=\s*theDecimalPointChar\s*;", body, "atof copy loop body (decimal point)")
    need(r"theBuffer\s*\[\s*i\s*\]\s*=\s*char\s*\(\s*theString\s*\[\s*i\s*\]\s*\)\s*;", body, "atof copy loop body")
    tm = need(r"theBuffer\s*\[\s*theLength\s*([+-]\s*\d+)?\s*\]\s*=\s*'\\0'\s*;", body, "atof terminator write")
    if lp.group(1) != "0" or tm.group(1):
        raise AnchorError("atof copy loop: unexpected bounds")
    d["atof"] = (int(bs.group(1)), g.group(1), lp.group(2))
    # int2alphaCount
    en = strip_comments(read("XSLT/ElemNumber.cpp"))
    body = function_body(en, r"ElemNumber::int2alphaCount\s*\([^)]*\)\s*\{", "int2alphaCount")
    bl = int(need(r"const\s+size_t\s+buflen\s*=\s*(\d+)\s*;", body, "buflen").group(1))
    bsz = const_eval(need(r"XalanDOMChar\s+buf\s*\[([^\]]+)\]\s*;", body, "int2alphaCount buf").group(1), {"buflen": bl})
    st = const_eval(need(r"charPos\s*=\s*([^;]+);", body, "charPos start").group(1), {"buflen": bl})
    need(r"buf\s*\[\s*charPos--\s*\]\s*=\s*table\s*\[\s*lookupIndex\s*\]\s*;", body, "int2alphaCount buffer write")
    need(r"val\s*=\s*\(?\s*val\s*/\s*radix\s*\)?\s*;", body, "int2alphaCount division")
    need(r"while\s*\(\s*val\s*>\s*0\s*\)\s*;", body, "int2alphaCount loop condition")
    radixes = []
    for tbl in sorted(set(re.findall(r"int2alphaCount\s*\(\s*\w+\s*,\s*(s_\w+)\s*,", en))):
        am = need(r"ElemNumber::%s\s*\[\s*\]\s*=\s*\{(.*?)\}\s*;" % tbl, en, tbl)
        n = len([x for x in am.group(1).split(",") if x.strip()])
        need(r"ElemNumber::%sSize\s*=\s*ELEMNUMBER_SIZE\s*\(\s*%s\s*\)\s*;" % (tbl, tbl), en, tbl + "Size")
        need(r"#define\s+ELEMNUMBER_SIZE\(str\)\s+\(\(sizeof\(str\)\s*/\s*sizeof\(str\[0\]\)\s*-\s*1\)\)", en, "ELEMNUMBER_SIZE macro")
        radixes.append((tbl, n - 1))
    if not radixes:
        raise AnchorError("no int2alphaCount call found")
    need(r"typedef\s+CountersTable::CountType\s+CountType\s*;", strip_comments(read("XSLT/ElemNumber.hpp")), "ElemNumber::CountType")
    ct = need(r"typedef\s+([\w ]+?)\s+CountType\s*;", strip_comments(read("XSLT/CountersTable.hpp")), "Counter::CountType")
    bits = {"unsigned long": 64, "XalanSize_t": 64, "size_t": 64, "unsigned int": 32, "XMLUInt64": 64}.get(ct.group(1).strip())
    if bits is None:
        raise AnchorError("unknown CountType " + ct.group(1))
    d["alpha"] = (bl, bsz, st, radixes, bits)
    # conflicts array
    ss = strip_comments(read("XSLT/Stylesheet.cpp"))
    body = function_body(ss, r"Stylesheet::findTemplate\s*\([^)]*\)\s*const\s*\{", "findTemplate")
    ca = int(need(r"conflictsArray\s*\[\s*(\d+)\s*\]\s*;", body, "conflictsArray").group(1))
    g = need(r"if\s*\(\s*m_patternCount\s*(<=|<|>=|>)\s*sizeof\s*\(\s*conflictsArray\s*\)\s*/\s*sizeof\s*\(\s*conflictsArray\s*\[\s*0\s*\]\s*\)\s*\)"
             r"\s*\{\s*conflictsVector\.resize\s*\(\s*m_patternCount\s*\)\s*;\s*conflicts\s*=\s*conflictsVector\.begin\s*\(\s*\)\s*;\s*\}"
             r"\s*else\s*\{\s*conflicts\s*=\s*conflictsArray\s*;\s*\}", body, "choice between conflictsArray and conflictsVector")
    need(r"addObjectIfNotFound\s*\(\s*bestMatchedPattern\s*,\s*conflicts\s*,\s*nConflicts\s*\)\s*;\s*conflicts\s*\[\s*nConflicts\+\+\s*\]\s*=\s*matchPat\s*;", body,
         "conflict recording statements")
    if len(re.findall(r"conflicts\s*\[[^\]]*\]\s*=", body)) != 1 or len(re.findall(r"conflictsArray", body)) != 4:
        raise AnchorError("findTemplate: unexpected additional use of the conflicts array")
    need(r"if\s*\(\s*priorityOfRule\s*>\s*priorityOfBestMatched\s*\)\s*\{\s*nConflicts\s*=\s*0\s*;", body, "conflict reset on a better rule")
    d["conf"] = (ca, g.group(1))
    # writers
    wr = []
    for cls in ("XalanUTF8Writer", "XalanUTF16Writer", "XalanOtherEncodingWriter"):
        h = strip_comments(read("XMLSupport/%s.hpp" % cls))
        k = int(need(r"kBufferSize\s*=\s*(\d+)u?", h, cls + "::kBufferSize").group(1))
        need(r"m_buffer\s*\[\s*kBufferSize\s*\]\s*;", h, cls + "::m_buffer")
        wr.append((cls, k))
    os_ = strip_comments(read("PlatformSupport/XalanOutputStream.hpp"))
    wr.append(("XalanOutputStream", int(need(r"eDefaultBufferSize\s*=\s*(\d+)u?", os_, "eDefaultBufferSize").group(1))))
    d["writers"] = wr
    # guarded store runs of the three writers: 'if (m_bufferRemaining < K | == 0 | < theLength) flushBuffer();' followed by
    # the stores through m_bufferPosition up to the decrement of m_bufferRemaining
    runs, len_runs = [], []
    for cls in ("XalanUTF8Writer", "XalanUTF16Writer", "XalanOtherEncodingWriter"):
        h = strip_comments(read("XMLSupport/%s.hpp" % cls))
        fb = function_body(h, r"\bflushBuffer\s*\(\s*\)\s*\{", cls + "::flushBuffer")
        need(r"m_bufferPosition\s*=\s*m_buffer\s*;", fb, cls + "::flushBuffer resets m_bufferPosition")
        need(r"m_bufferRemaining\s*=\s*kBufferSize\s*;", fb, cls + "::flushBuffer resets m_bufferRemaining")
        guard_rx = re.compile(r"if\s*\(\s*m_bufferRemaining\s*(<|==)\s*(\w+)\s*\)\s*\{\s*flushBuffer\s*\(\s*\)\s*;\s*\}")
        dec_rx = re.compile(r"m_bufferRemaining\s*-=\s*(\w+)\s*;|m_bufferRemaining\s*=\s*m_bufferRemaining\s*-\s*size_type\s*\(\s*(\w+)\s*\)\s*;|--\s*m_bufferRemaining\s*;")
        accounted = 0
        for g in guard_rx.finditer(h):
            dm = dec_rx.search(h, g.end())
            if not dm:
                raise AnchorError("%s: guard at offset %d has no decrement of m_bufferRemaining" % (cls, g.start()))
            seg = h[g.end():dm.start()]
            if guard_rx.search(seg):
                raise AnchorError("%s: two guards before one decrement" % cls)
            stores = len(re.findall(r"\*\s*m_bufferPosition\s*=[^=]", seg))
            dec = dm.group(1) or dm.group(2) or "1"
            op, k = g.group(1), g.group(2)
            if op == "==":
                if k != "0":
                    raise AnchorError("%s: unexpected guard '== %s'" % (cls, k))
                k = "1"          # remaining == 0  <=>  remaining < 1
            if k.isdigit():
                if not dec.isdigit() or "for" in re.findall(r"\b\w+\b", seg) or "copy" in re.findall(r"\b\w+\b", seg):
                    raise AnchorError("%s: constant guard %s with a variable store run" % (cls, k))
                runs.append((cls, int(k), stores, int(dec)))
                accounted += stores
            else:
                # length-guarded run: one store per loop iteration (or std::copy of theLength units), decrement by the same length
                loop = re.search(r"for\s*\(\s*size_type\s+i\s*=\s*0\s*;\s*i\s*<\s*%s\s*;\s*\+\+i\s*\)" % re.escape(k), seg)
                cp = re.search(r"copy\s*\(\s*theString\.begin\s*\(\s*\)\s*,\s*theString\.end\s*\(\s*\)\s*,\s*m_bufferPosition\s*\)", seg)
                if dec != k or not ((loop and stores == 1) or (cp and stores == 0)):
                    raise AnchorError("%s: length-guarded run on %s not recognised" % (cls, k))
                # the length must be bounded by the buffer: 'if (theLength > kBufferSize | sizeof(m_buffer))' writes directly
                pre = h[max(0, g.start() - 400):g.start()]
                if loop and not re.search(r"if\s*\(\s*%s\s*>\s*(?:kBufferSize|sizeof\s*\(\s*m_buffer\s*\))\s*\)" % re.escape(k), pre):
                    raise AnchorError("%s: length-guarded copy loop without the 'longer than the buffer' test" % cls)
                len_runs.append((cls, "loop" if loop else "numeric-character-reference"))
                accounted += stores
        total = len(re.findall(r"\*\s*m_bufferPosition\s*=[^=]", h))
        if total != accounted:
            raise AnchorError("%s: %d stores through m_bufferPosition, only %d inside recognised guarded runs" % (cls, total, accounted))
    if len(runs) < 8:
        raise AnchorError("writers: only %d constant-guarded store runs recognised" % len(runs))
    d["runs"], d["len_runs"] = runs, len_runs
    ml = strip_comments(read("PlatformSupport/XalanMessageLoader.cpp"))
    d["msg"] = int(need(r"kMaxMessageLength\s*=\s*(\d+)\s*;", ml, "kMaxMessageLength").group(1))
    n_sb = len(re.findall(r"XalanDOMChar\s+sBuffer\s*\[\s*kMaxMessageLength\s*\+\s*1\s*\]\s*;", ml))
    n_ld = len(re.findall(r"sBuffer\s*,\s*kMaxMessageLength\s*[,)]", ml))
    if n_sb == 0 or n_sb != n_ld:
        raise AnchorError("XalanMessageLoader: %d buffers but %d bounded loads" % (n_sb, n_ld))
    # XPathProcessorImpl::tokenize: the scans for the closing quote of a string literal
    xp = strip_comments(read("XPath/XPathProcessorImpl.cpp"))
    body = function_body(xp, r"XPathProcessorImpl::tokenize\s*\([^)]*\)\s*\{", "tokenize")
    need(r"const\s+t_size_type\s+nChars\s*=\s*pat\.length\s*\(\s*\)\s*;", body, "tokenize: nChars = pat.length()")
    scans = re.findall(r"for\s*\(\s*\+\+i\s*;\s*i\s*(<=|<)\s*nChars\s*&&\s*\(\s*c\s*=\s*pat\s*\[\s*i\s*\]\s*\)\s*!=\s*XalanUnicode::char(QuoteMark|Apostrophe)\s*;\s*\+\+i\s*\)\s*;", body)
    if sorted(q for _, q in scans) != ["Apostrophe", "QuoteMark"] or len(re.findall(r"!=\s*XalanUnicode::char(?:QuoteMark|Apostrophe)\s*;\s*\+\+i", body)) != 2:
        raise AnchorError("tokenize: the two bounded quote scans 'for(++i; i < nChars && (c = pat[i]) != quote; ++i);' not recognised")
    d["scans"] = scans
    # range guards in front of the double -> integer casts (fail closed when one disappears)
    dsh = strip_comments(read("PlatformSupport/DOMStringHelper.cpp"))
    if len(re.findall(r"else\s+if\s*\(\s*theValue\s*>=\s*-9223372036854775808\.0\s*&&\s*theValue\s*<\s*9223372036854775808\.0\s*&&\s*static_cast<XMLInt64>\(theValue\)\s*==\s*theValue\s*\)", dsh)) != 2:
        raise AnchorError("NumberToDOMString/NumberToCharacters(double): XMLInt64 range test in front of the cast not recognised")
    need(r"if\s*\(\s*theIndex\s*<=\s*0\.0\s*\|\|\s*theIndex\s*>\s*double\s*\(\s*theLength\s*\)\s*\|\|\s*double\s*\(\s*NodeRefListBase::size_type\s*\(\s*theIndex\s*\)\s*\)\s*!=\s*theIndex\s*\)",
         strip_comments(read("XPath/XPath.cpp")), "XPath::predicates: comparison as doubles in front of the size_type cast")
    need(r"DoubleSupport::lessThan\s*\(\s*theValue\s*,\s*0\.5\s*\)\s*==\s*true\s*\|\|\s*theValue\s*>=\s*double\s*\(\s*std::numeric_limits<CountType>::max\s*\(\s*\)\s*\)\s*\)\s*\{\s*NumberToDOMString\s*\(\s*theValue\s*,\s*theResult\s*\)\s*;\s*\}\s*else\s*\{\s*const\s+CountType\s+theNumber\s*=\s*CountType\s*\(\s*DoubleSupport::round\s*\(\s*theValue\s*\)\s*\)",
         en, "ElemNumber::getCountString: CountType range test in front of the cast")
    need(r"if\s*\(\s*!\s*\(\s*theLength\s*>=\s*1\.0\s*\)\s*\|\|\s*theLength\s*>=\s*double\s*\(\s*XalanDOMString::npos\s*\)\s*\|\|\s*thePaddingStringLength\s*==\s*0\s*\)\s*\{\s*return",
         strip_comments(read("XalanEXSLT/XalanEXSLTString.cpp")), "str:padding: length range test in front of the size_type casts")
    mth = strip_comments(read("XalanEXSLT/XalanEXSLTMath.cpp"))
    need(r"theValues\s*\[\s*thePrecision\s*<\s*theSize\s*\?\s*XalanDOMString::size_type\s*\(\s*thePrecision\s*\)\s*:\s*theSize\s*-\s*1\s*\]", mth, "math:constant: table index guard")
    need(r"if\s*\(\s*thePrecision\s*<=\s*0\.0L?\s*\)\s*\{\s*return", mth, "math:constant: non-positive precision test")
    return d


# ----------------------------------------------------------------------------------------------
MSG_SOURCES = [
    ("theErrorMessage", r"TranscodeToLocalCodePage\s*\(\s*theErrorMessage\s*,\s*m_errorMessage"),
    ("defaultFormat", r"\.defaultFormat\s*\("),
    ("getMessage", r"TranscodeToLocalCodePage\s*\(\s*e\.getMessage\s*\(\s*\)\s*,\s*m_errorMessage"),
    ("FormatSAXParseException", r"FormatSAXParseException\s*\("),
    ("FormatXalanDOMException", r"FormatXalanDOMException\s*\("),
]


def catch_clauses(body, what):
    """[(exception type, clause body)] of the try block(s) in body"""
    out = []
    for m in re.finditer(r"catch\s*\(\s*(?:const\s+)?([\w:.]+)\s*&?\s*\w*\s*\)\s*\{", body):
        i = m.end() - 1
        depth = 0
        for j in range(i, len(body)):
            if body[j] == "{":
                depth += 1
            elif body[j] == "}":
                depth -= 1
                if depth == 0:
                    out.append((m.group(1), body[i:j + 1]))
                    break
    return out


def catch_table():
    rows = []
    t = strip_comments(read("XalanTransformer/XalanTransformer.cpp"))
    for fn, rx in (("doTransform", r"XalanTransformer::doTransform\s*\([^)]*\)\s*\{"),
                   ("compileStylesheet", r"XalanTransformer::compileStylesheet\s*\([^)]*\)\s*\{"),
                   ("parseSource", r"XalanTransformer::parseSource\s*\([^)]*\)\s*\{")):
        body = function_body(t, rx, fn)
        need(r"int\s+theResult\s*=\s*0\s*;", body, fn + ": initial status 0")
        need(r"return\s+theResult\s*;\s*\}\s*$", body, fn + ": returns theResult")
        cl = catch_clauses(body, fn)
        if not cl:
            raise AnchorError(fn + ": no catch clause found")
        for exc, cb in cl:
            st = re.findall(r"theResult\s*=\s*(-?\d+)\s*;", cb)
            if len(st) != 1:
                raise AnchorError("%s: catch(%s) does not set exactly one status" % (fn, exc))
            srcs = [name for name, rx2 in MSG_SOURCES if re.search(rx2, cb)]
            rows.append((fn, exc, int(st[0]), srcs))
    c = strip_comments(read("XalanTransformer/XalanCAPI.cpp"))
    body = function_body(c, r"\bXalanInitialize\s*\(\s*\)\s*\{", "XalanInitialize")
    cl = catch_clauses(body, "XalanInitialize")
    rm = need(r"return\s+fInitialized\s*==\s*true\s*\?\s*0\s*:\s*(-?\d+)\s*;", body, "XalanInitialize status")
    if [e for e, _ in cl] != ["..."] or "fInitialized" in cl[0][1]:
        raise AnchorError("XalanInitialize: catch(...) not recognised")
    rows.append(("XalanInitialize", "...", int(rm.group(1)), []))
    # C wrappers that only forward to the C++ entry points (no try block of their own)
    fwd = []
    for m in re.finditer(r"XALAN_TRANSFORMER_EXPORT_FUNCTION\s*\(\s*int\s*\)\s*(\w+)\s*\(", c):
        b = function_body(c[m.end():], r"\)\s*\{", m.group(1))
        if "try" not in re.findall(r"\b\w+\b", b):
            fwd.append(m.group(1))
    x = strip_comments(read("XPathCAPI/XPathCAPI.cpp"))
    xrows = []
    for m in re.finditer(r"\n(Xalan\w+)\s*\(", x):
        try:
            b = function_body(x[m.end():], r"\)\s*\{", m.group(1))
        except (AnchorError, ValueError):
            continue
        for exc, cb in catch_clauses(b, m.group(1)):
            if re.search(r"\bthrow\s*;", cb):
                continue      # clean-up and rethrow: the outer clause decides the status
            cm = re.search(r"\w+\s*=\s*(XALAN_XPATH_API_ERROR_\w+)\s*;", cb)
            if not cm:
                raise AnchorError("%s: catch(%s) sets no XPath C-API error code" % (m.group(1), exc))
            xrows.append((m.group(1), exc, cm.group(1)))
    h = strip_comments(read("XPathCAPI/XPathCAPI.h"))
    codes = dict((k, int(v)) for k, v in re.findall(r"#define\s+(XALAN_XPATH_API_\w+)\s+(\d+)", h))
    for fn, exc, code in xrows:
        if code not in codes:
            raise AnchorError("unknown XPath C-API code " + code)
        rows.append((fn, exc if exc != "..." else "...", codes[code], []))
    return rows, fwd


# ----------------------------------------------------------------------------------------------
def gen_safe():
    arrays, calls, casts, raw = census()
    b = buffers()
    rows, fwd = catch_table()
    o = HEADER
    o += "From Coq Require Import List NArith ZArith String.\nImport ListNotations.\nLocal Open Scope string_scope.\n\n"
    o += "(* --- (a) fixed buffers: evaluated sizes and guards ------------------------------------ *)\n"
    o += "Definition max_printf_digits : N := %d%%N.\nDefinition max_float_characters : N := %d%%N.\n" % (b["env"]["MAX_PRINTF_DIGITS"], b["env"]["MAX_FLOAT_CHARACTERS"])
    o += "Definition safe_printf_precisions : list nat := [%s].\n" % "; ".join(map(str, b["precs"]))
    o += "(* stack buffers of the double conversions (sprintf target, and the XalanDOMChar copy) *)\n"
    o += "Definition dbl_buffers : list (string * nat) := [%s].\n" % "; ".join("(%s, %d%%nat)" % (coq_str(n), s) for n, s in b["dbl"])
    o += "(* integer conversions: (array size, index of the end pointer where the terminator goes) *)\n"
    o += "Definition int_dec_buffers : list (N * N) := [%s]%%N.\n" % "; ".join("(%d, %d)" % (s, e) for k, s, e in b["ints"] if k == "dec")
    o += "Definition int_hex_buffers : list (N * N) := [%s]%%N.\n" % "; ".join("(%d, %d)" % (s, e) for k, s, e in b["ints"] if k == "hex")
    o += "Definition pointer_buffer : N := %d%%N.\n\n" % b["ptr"]
    size, gop, lop = b["atof"]
    o += "(* DoubleSupport.cpp convertHelper: char theBuffer[theBufferSize] under 'if (theLength %s theBufferSize)';\n" % gop
    o += "   copy loop 'for (i = 0; i %s theLength; ++i) theBuffer[i] = ...' and terminator theBuffer[theLength] *)\n" % lop
    o += "Definition atof_buffer : N := %d%%N.\n" % size
    o += "Definition atof_guard (len size : N) : bool := %s len size.\n" % cmp_op(gop)
    o += "Definition atof_loop_test (i len : N) : bool := %s i len.\n\n" % cmp_op(lop)
    bl, bsz, st, radixes, bits = b["alpha"]
    o += "(* ElemNumber::int2alphaCount: buf[%d], first write at index charPos = %d, moving down *)\n" % (bsz, st)
    o += "Definition alpha_buf_size : N := %d%%N.\nDefinition alpha_first_index : N := %d%%N.\n" % (bsz, st)
    o += "Definition alpha_radixes : list (string * N) := [%s].\n" % "; ".join("(%s, %d%%N)" % (coq_str(n), r) for n, r in radixes)
    o += "Definition count_type_bits : N := %d%%N.\n\n" % bits
    ca, cop = b["conf"]
    o += "(* Stylesheet::findTemplate: conflictsArray[%d]; the heap vector (resized to m_patternCount) is used when\n   'm_patternCount %s sizeof(conflictsArray)/sizeof(conflictsArray[0])' *)\n" % (ca, cop)
    o += "Definition conflicts_array : N := %d%%N.\n" % ca
    o += "Definition conflicts_use_vector (pattern_count size : N) : bool := %s pattern_count size.\n\n" % cmp_op(cop)
    o += "Definition writer_buffers : list (string * N) := [%s].\n" % "; ".join("(%s, %d%%N)" % (coq_str(n), k) for n, k in b["writers"])
    o += "(* guarded store runs of the writers: (class, K of 'if (m_bufferRemaining < K) flushBuffer();' ['== 0' is K = 1],\n"
    o += "   number of stores through m_bufferPosition that follow, decrement of m_bufferRemaining) *)\n"
    o += "Definition writer_runs : list (string * N * N * N) := [%s].\n" % "; ".join("(%s, %d%%N, %d%%N, %d%%N)" % (coq_str(c), k, n, dd) for c, k, n, dd in b["runs"])
    o += "(* runs guarded by their own length ('if (m_bufferRemaining < theLength) flushBuffer();' + theLength stores + '-= theLength') *)\n"
    o += "Definition writer_length_runs : list (string * string) := [%s].\n" % "; ".join("(%s, %s)" % (coq_str(c), coq_str(w)) for c, w in b["len_runs"])
    o += "Definition max_message_length : N := %d%%N.\n\n" % b["msg"]
    o += "(* XPathProcessorImpl::tokenize, closing-quote scans: 'for(++i; i OP nChars && (c = pat[i]) != quote; ++i);'\n   the test in front of the read of pat[i], per quote character *)\n"
    o += "Definition quote_scan_tests : list (string * (N -> N -> bool)) := [%s].\n\n" % "; ".join("(%s, %s)" % (coq_str(q), cmp_op(op)) for op, q in b["scans"])
    o += "(* --- (b) census ----------------------------------------------------------------------- *)\n"
    for name, lst in (("census_arrays", arrays), ("census_calls", calls), ("census_casts", casts)):
        o += "Definition %s : list string :=\n  [%s].\n\n" % (name, ";\n   ".join(coq_str(x) for x in lst))
    o += "(* --- (c) catch tables -------------------------------------------------------------------- *)\n"
    o += "(* (function, exception type, status, message sources found in the clause) *)\n"
    o += "Definition catch_table : list (string * string * Z * list string) :=\n  [%s].\n\n" % ";\n   ".join(
        "(%s, %s, (%d)%%Z, [%s])" % (coq_str(f), coq_str(e), s, "; ".join(coq_str(x) for x in src)) for f, e, s, src in rows)
    o += "(* C wrappers without a try block: they forward to the C++ entry points above *)\n"
    o += "Definition capi_forwarders : list string := [%s].\n" % "; ".join(coq_str(x) for x in fwd)
    facts = {"arrays": len(arrays), "calls": len(calls), "casts": len(casts), "catch_rows": len(rows),
             "atof": b["atof"], "alpha": b["alpha"], "conflicts": b["conf"], "dbl": b["dbl"], "ints": b["ints"],
             "sizes": sorted(set([s for _, s in b["dbl"]] + [s for _, s, _ in b["ints"]] + [size, bsz, ca, b["msg"]] + [k for _, k in b["writers"]])),
             "writer_sizes": sorted(set(k for _, k in b["writers"])),
             "cast_list": casts}
    return o, facts


GENERATORS = {"GenSafe": gen_safe}
