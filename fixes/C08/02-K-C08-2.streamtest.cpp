#include <xercesc/util/PlatformUtils.hpp>
#include <xalanc/XalanTransformer/XalanTransformer.hpp>
#include <xalanc/PlatformSupport/XalanOutputStream.hpp>
#include <xalanc/PlatformSupport/XSLException.hpp>
#include <string>
#include <vector>
#include <iostream>
#include <cstdlib>
using namespace xalanc;
struct Sink : public XalanOutputStream {
    std::string out;
    Sink(size_type buf) : XalanOutputStream(XalanMemMgrs::getDefaultXercesMemMgr(), buf, 1024, true) {}
    virtual void writeData(const char* b, size_type n) { out.append(b, n); }
    virtual void doFlush() {}
};
static void utf8(std::string& s, unsigned cp) {
    if (cp < 0x80) s += char(cp);
    else if (cp < 0x800) { s += char(0xC0 | cp >> 6); s += char(0x80 | (cp & 63)); }
    else if (cp < 0x10000) { s += char(0xE0 | cp >> 12); s += char(0x80 | ((cp >> 6) & 63)); s += char(0x80 | (cp & 63)); }
    else { s += char(0xF0 | cp >> 18); s += char(0x80 | ((cp >> 12) & 63)); s += char(0x80 | ((cp >> 6) & 63)); s += char(0x80 | (cp & 63)); }
}
int main() {
    xercesc::XMLPlatformUtils::Initialize(); XalanTransformer::initialize();
    int bad = 0, n = 0, errs = 0;
    srand(7);
    for (int iter = 0; iter < 20000; ++iter) {
        size_t buf = 1 + rand() % 9; if (iter % 5 == 0) buf = 512;
        std::vector<XalanDOMChar> u; std::string exp;
        int len = rand() % 40; if (buf == 512) len = 500 + rand() % 1100;
        for (int i = 0; i < len; ++i) {
            int k = rand() % 4;
            if (k == 0) { unsigned cp = 0x10000 + rand() % 0x100000; u.push_back(0xD800 + ((cp - 0x10000) >> 10)); u.push_back(0xDC00 + ((cp - 0x10000) & 0x3FF)); utf8(exp, cp); }
            else if (k == 1) { unsigned cp = 0x20AC; u.push_back(cp); utf8(exp, cp); }
            else { unsigned cp = 'a' + rand() % 26; u.push_back(cp); utf8(exp, cp); }
        }
        int tail = iter % 50 == 7 ? 1 : (iter % 50 == 9 ? 2 : 0);   // 1: dangling high at the very end; 2: lone high in the middle
        if (tail == 1) u.push_back(0xD83D);
        if (tail == 2) {
            size_t pos = u.size() / 2;
            if (pos > 0 && u[pos - 1] >= 0xD800 && u[pos - 1] <= 0xDBFF) ++pos;      // do not split a pair
            u.insert(u.begin() + pos, 0xD83D);
            u.insert(u.begin() + pos + 1, 'x');                                      // followed by a non-surrogate: really lone
        }
        Sink s(buf);
        bool threw = false;
        try {
            s.setOutputEncoding(XalanDOMString("UTF-8"));
            size_t i = 0;
            while (i < u.size()) {
                int mode = rand() % 3;
                if (mode == 0) { s.write(u[i]); ++i; }
                else { size_t c = 1 + rand() % (mode == 1 ? 4 : 3 * buf + 2); if (c > u.size() - i) c = u.size() - i; s.write(&u[i], (XalanOutputStream::size_type) c); i += c; }
            }
            s.flush();
        } catch (const XSLException&) { threw = true; }
        catch (...) { threw = true; std::cout << "unexpected exception type\n"; ++bad; }
        ++n;
        if (tail == 1) { if (!threw) { ++bad; std::cout << "dangling high surrogate at the end: no error, buf=" << buf << "\n"; } else ++errs; }
        else if (tail == 2) { if (threw) ++errs; /* a lone high surrogate in the middle: an error is right; silently accepted is the transcoder's business */ }
        else if (threw || s.out != exp) { ++bad; if (bad < 6) std::cout << "MISMATCH buf=" << buf << " len=" << u.size() << " threw=" << threw << " got " << s.out.size() << " exp " << exp.size() << "\n"; }
    }
    std::cout << n << " cases, " << bad << " bad, " << errs << " expected errors raised\n";
    return bad != 0;
}
