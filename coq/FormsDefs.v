(* FormsDefs.v - C05: the three mechanisms by which the "forms" of supplying source and collecting
   output differ, as executable models of the code as it is.

   1. build_sax: XalanSourceTreeContentHandler + XalanSourceTreeDocument::create*Node - the native
      tree built from SAX2 events: characters() appends to m_textBuffer, every other content
      callback calls processAccumulatedText() first (the GenForms.flush_at_xxx flags), indexes are taken from
      m_nextIndexValue (first value GenForms.first_index) in arrival order: element, then (document
      element only) the implicit xmlns:xml attribute, then the xmlns declarations, then the other
      attributes, then the children.
   2. wrap: XercesDocumentWrapper::BuildWrapperTreeWalker - numbering of a Xerces DOM by a tree
      walk: every DOM node (text, CDATA section, entity reference, document type + its entities
      included) takes the next index in startNode, an element's attributes directly after it in
      NamedNodeMap order.
   3. chunks: XalanOutputStream::write / flushBuffer / flush with XalanTransformerOutputStream::
      writeData = one callback invocation per doWrite.

   Definitions only.  Strings are lists of UTF-16 code units (N). *)
From Coq Require Import NArith List Bool.
Import ListNotations.
Require Import XV.GenForms.

Definition str := list N.

Fixpoint str_eqb (a b : str) : bool :=
  match a, b with
  | [], [] => true
  | x :: a', y :: b' => N.eqb x y && str_eqb a' b'
  | _, _ => false
  end.

Fixpoint starts_with (s p : str) : bool :=
  match p, s with
  | [], _ => true
  | y :: p', x :: s' => N.eqb x y && starts_with s' p'
  | _ :: _, [] => false
  end.

Definition is_nil {A} (l : list A) : bool := match l with [] => true | _ => false end.

Definition s_xmlns : str := [120; 109; 108; 110; 115]%N.                   (* "xmlns" *)
Definition s_xmlns_colon : str := [120; 109; 108; 110; 115; 58]%N.         (* "xmlns:" *)
Definition s_xmlns_xml : str := [120; 109; 108; 110; 115; 58; 120; 109; 108]%N.   (* "xmlns:xml" *)
Definition s_xml_uri : str :=                                              (* http://www.w3.org/XML/1998/namespace *)
  [104;116;116;112;58;47;47;119;119;119;46;119;51;46;111;114;103;47;88;77;76;47;49;57;57;56;47;110;97;109;101;115;112;97;99;101]%N.

Definition is_ws_char (c : N) : bool := N.eqb c 32 || N.eqb c 9 || N.eqb c 10 || N.eqb c 13.
Definition all_ws (s : str) : bool := forallb is_ws_char s.

(* startsWith(qname, "xmlns:") || qname == "xmlns"  (XalanSourceTreeDocument::createAttributes) *)
Definition is_nsdecl (q : str) : bool := starts_with q s_xmlns_colon || str_eqb q s_xmlns.

Definition attr := (str * str)%type.     (* qualified name, value *)

(** * 1. SAX events -> native tree *)
Inductive sax_event :=
  | EStart (q : str) (attrs : list attr)
  | EEnd
  | EChars (s : str)
  | EIgnWs (s : str)
  | EComment (s : str)
  | EPi (target data : str).

Inductive inode :=
  | IElem (idx : N) (q : str) (attrs : list (N * attr)) (kids : list inode)
  | IText (idx : N) (s : str)
  | IComment (idx : N) (s : str)
  | IPi (idx : N) (target data : str).

Definition is_ielem (n : inode) : bool := match n with IElem _ _ _ _ => true | _ => false end.

Record frame := mkFrame { f_idx : N; f_q : str; f_attrs : list (N * attr); f_kids : list inode (* newest first *) }.

Record hstate := mkH {
  h_stack : list frame;        (* m_elementStack without the dummy; innermost first *)
  h_top : list inode;          (* children of the document node, newest first *)
  h_buf : str;                 (* m_textBuffer *)
  h_next : N                   (* m_nextIndexValue *)
}.

Definition h_init : hstate := mkH [] [] [] first_index.

(* doAppendChildNode(m_document, m_currentElement, m_lastChild, node) *)
Definition append_node (st : hstate) (n : inode) : hstate :=
  match h_stack st with
  | [] => mkH [] (n :: h_top st) (h_buf st) (h_next st)
  | f :: r => mkH (mkFrame (f_idx f) (f_q f) (f_attrs f) (n :: f_kids f) :: r) (h_top st) (h_buf st) (h_next st)
  end.

(* doCharacters: createTextNode takes the next index *)
Definition text_node (st : hstate) (s : str) : hstate :=
  append_node (mkH (h_stack st) (h_top st) (h_buf st) (N.succ (h_next st))) (IText (h_next st) s).

(* processAccumulatedText *)
Definition flush (st : hstate) : hstate :=
  match h_buf st with
  | [] => st
  | b => text_node (mkH (h_stack st) (h_top st) [] (h_next st)) b
  end.

Definition flush_if (b : bool) (st : hstate) : hstate := if b then flush st else st.

(* hasXMLNamespaceAttribute *)
Definition has_xml_ns (a : list attr) : bool := existsb (fun x => str_eqb (fst x) s_xmlns_xml) a.

Definition xml_attr : attr := (s_xmlns_xml, s_xml_uri).

(* createAttributes(attrs, vector, owner, fAddXMLNamespaceAttribute): order in which the
   attribute nodes are created (= order of the element's attribute vector) *)
Definition order_attrs (first : bool) (a : list attr) : list attr :=
  (if first && negb (has_xml_ns a) then [xml_attr] else [])
  ++ (if nsdecls_first then filter (fun x => is_nsdecl (fst x)) a ++ filter (fun x => negb (is_nsdecl (fst x))) a else a).

Fixpoint number_attrs (n : N) (l : list attr) : list (N * attr) * N :=
  match l with
  | [] => ([], n)
  | a :: r => let (r', n') := number_attrs (N.succ n) r in ((n, a) :: r', n')
  end.

(* createElementNode(uri, localname, qname, attrs, ...): (element index, attributes, next) *)
Definition number_element (first : bool) (n : N) (a : list attr) : N * list (N * attr) * N :=
  if element_before_attrs
  then let (l, n') := number_attrs (N.succ n) (order_attrs first a) in (n, l, n')
  else let (l, n') := number_attrs n (order_attrs first a) in (n', l, N.succ n').

Definition step (st : hstate) (e : sax_event) : option hstate :=
  match e with
  | EChars s =>
      match h_stack st with
      | [] => if all_ws s then Some st else None            (* HIERARCHY_REQUEST_ERR *)
      | _ => if accumulate_text
             then Some (mkH (h_stack st) (h_top st) (h_buf st ++ s) (h_next st))
             else Some (text_node st s)
      end
  | EStart q a =>
      let st1 := flush_if flush_at_start st in
      if is_nil (h_stack st1) && existsb is_ielem (h_top st1)
      then None      (* XalanSourceTreeDocument::appendChildNode(element): a second document element, HIERARCHY_REQUEST_ERR *)
      else
      match number_element (is_nil (h_stack st1)) (h_next st1) a with
      | (idx, l, n') => Some (mkH (mkFrame idx q l [] :: h_stack st1) (h_top st1) (h_buf st1) n')
      end
  | EEnd =>
      let st1 := flush_if flush_at_end st in
      match h_stack st1 with
      | [] => None                                           (* pops the dummy entry: not well nested *)
      | f :: r => Some (append_node (mkH r (h_top st1) (h_buf st1) (h_next st1))
                                    (IElem (f_idx f) (f_q f) (f_attrs f) (rev (f_kids f))))
      end
  | EComment s =>
      let st1 := flush_if flush_at_comment st in
      Some (append_node (mkH (h_stack st1) (h_top st1) (h_buf st1) (N.succ (h_next st1))) (IComment (h_next st1) s))
  | EPi t d =>
      let st1 := flush_if flush_at_pi st in
      Some (append_node (mkH (h_stack st1) (h_top st1) (h_buf st1) (N.succ (h_next st1))) (IPi (h_next st1) t d))
  | EIgnWs s =>
      match h_stack st with
      | [] => None                                           (* m_currentElement == 0: null parent *)
      | _ => Some (text_node (flush_if flush_at_ignws st) s)
      end
  end.

Fixpoint run (st : hstate) (evs : list sax_event) : option hstate :=
  match evs with
  | [] => Some st
  | e :: r => match step st e with Some st' => run st' r | None => None end
  end.

(* startDocument ... endDocument; None = exception / assertion (not well nested) *)
Definition build_sax (evs : list sax_event) : option (list inode) :=
  match run h_init evs with
  | Some st => if is_nil (h_stack st) && is_nil (h_buf st) then Some (rev (h_top st)) else None
  | None => None
  end.

(** ** re-chunking of characters events *)
Inductive rechunk : list sax_event -> list sax_event -> Prop :=
  | rc_refl l : rechunk l l
  | rc_split p a b s : rechunk (p ++ EChars (a ++ b) :: s) (p ++ EChars a :: EChars b :: s)
  | rc_empty p s : rechunk (p ++ s) (p ++ EChars [] :: s)
  | rc_sym l1 l2 : rechunk l1 l2 -> rechunk l2 l1
  | rc_trans l1 l2 l3 : rechunk l1 l2 -> rechunk l2 l3 -> rechunk l1 l3.

(* normal form: adjacent characters events merged, empty ones dropped *)
Fixpoint norm (l : list sax_event) : list sax_event :=
  match l with
  | [] => []
  | EChars a :: r =>
      match norm r with
      | EChars b :: r' => EChars (a ++ b) :: r'
      | r' => if is_nil a then r' else EChars a :: r'
      end
  | e :: r => e :: norm r
  end.

(** ** specification side: abstract trees, their SAX serialisation and pre-order numbering *)
Inductive tree :=
  | TElem (q : str) (attrs : list attr) (kids : list tree)
  | TText (s : str)
  | TComment (s : str)
  | TPi (target data : str).

Definition is_text (t : tree) : bool := match t with TText _ => true | _ => false end.

Fixpoint events_of (t : tree) : list sax_event :=
  match t with
  | TElem q a kids => EStart q a :: flat_map events_of kids ++ [EEnd]
  | TText s => [EChars s]
  | TComment s => [EComment s]
  | TPi t d => [EPi t d]
  end.

Definition events_of_list (ts : list tree) : list sax_event := flat_map events_of ts.

(* no two adjacent text nodes *)
Fixpoint no_adjacent (ts : list tree) : bool :=
  match ts with
  | a :: ((b :: _) as r) => negb (is_text a && is_text b) && no_adjacent r
  | _ => true
  end.

(* XPath-normal: no empty text node, no adjacent text nodes, at any depth *)
Fixpoint tnormal (t : tree) : bool :=
  match t with
  | TElem _ _ kids => no_adjacent kids && forallb tnormal kids
  | TText s => negb (is_nil s)
  | _ => true
  end.

(* at most one element (seen: an element came before) *)
Fixpoint elems_ok (seen : bool) (ts : list tree) : bool :=
  match ts with
  | [] => true
  | TElem _ _ _ :: r => negb seen && elems_ok true r
  | _ :: r => elems_ok seen r
  end.

Definition top_ok (ts : list tree) : bool :=
  forallb (fun t => negb (is_text t)) ts && forallb tnormal ts && elems_ok false ts.

(* pre-order numbering: element, its attributes (in the order of order_attrs), its children *)
Fixpoint number (first : bool) (n : N) (t : tree) : inode * N :=
  match t with
  | TElem q a kids =>
      let (l, n1) := number_attrs (N.succ n) (order_attrs first a) in
      let (ks, n2) := (fix go (n : N) (l : list tree) : list inode * N :=
                         match l with
                         | [] => ([], n)
                         | k :: r => let (k', n') := number false n k in
                                     let (r', n'') := go n' r in (k' :: r', n'')
                         end) n1 kids in
      (IElem n q l ks, n2)
  | TText s => (IText n s, N.succ n)
  | TComment s => (IComment n s, N.succ n)
  | TPi t d => (IPi n t d, N.succ n)
  end.

Fixpoint number_list (first : bool) (n : N) (ts : list tree) : list inode * N :=
  match ts with
  | [] => ([], n)
  | k :: r => let (k', n') := number first n k in
              let (r', n'') := number_list first n' r in (k' :: r', n'')
  end.

(* indexes in document order: element, attributes, children *)
Fixpoint flat1 (n : inode) : list N :=
  match n with
  | IElem i _ a kids => i :: map fst a ++ flat_map flat1 kids
  | IText i _ | IComment i _ | IPi i _ _ => [i]
  end.
Definition flat (l : list inode) : list N := flat_map flat1 l.

(* l = n, n+1, n+2, ... *)
Fixpoint incr_from (n : N) (l : list N) : Prop :=
  match l with
  | [] => True
  | x :: r => x = n /\ incr_from (N.succ n) r
  end.

(* erasure of indexes; drop_xml removes the implicit/explicit xmlns:xml attribute *)
Fixpoint strip (drop_xml : bool) (n : inode) : tree :=
  match n with
  | IElem _ q a kids =>
      TElem q (filter (fun x => negb (drop_xml && str_eqb (fst x) s_xmlns_xml)) (map snd a)) (map (strip drop_xml) kids)
  | IText _ s => TText s
  | IComment _ s => TComment s
  | IPi _ t d => TPi t d
  end.

(** * 2. the wrapper walk over a Xerces DOM *)
Inductive xnode :=
  | XElem (q : str) (attrs : list attr) (kids : list xnode)      (* attrs in NamedNodeMap order *)
  | XText (s : str)
  | XCData (s : str)
  | XEntRef (name : str) (kids : list xnode)
  | XComment (s : str)
  | XPi (target data : str)
  | XDoctype (name : str) (entities : N).

Inductive wnode :=
  | WElem (idx : N) (q : str) (attrs : list (N * attr)) (kids : list wnode)
  | WText (idx : N) (s : str)
  | WCData (idx : N) (s : str)
  | WEntRef (idx : N) (name : str) (kids : list wnode)
  | WComment (idx : N) (s : str)
  | WPi (idx : N) (target data : str).

(* one DOM node -> the wrapper nodes linked into the child chain at its place (none for the document
   type: its wrapper is created and takes its index and those of its entities, but it is not linked) *)
Fixpoint wrap1 (n : N) (x : xnode) : list wnode * N :=
  let go := fix go (n : N) (l : list xnode) : list wnode * N :=
              match l with
              | [] => ([], n)
              | k :: r => let (k', n') := wrap1 n k in
                          let (r', n'') := go n' r in (k' ++ r', n'')
              end in
  match x with
  | XElem q a kids =>
      if wrap_attrs_in_start
      then let (l, n1) := number_attrs (N.succ n) a in
           let (ks, n2) := go n1 kids in ([WElem n q l ks], n2)
      else let (ks, n1) := go (N.succ n) kids in
           let (l, n2) := number_attrs n1 a in ([WElem n q l ks], n2)
  | XText s => ([WText n s], N.succ n)
  | XCData s => ([WCData n s], N.succ n)
  | XEntRef nm kids => let (ks, n1) := go (N.succ n) kids in ([WEntRef n nm ks], n1)
  | XComment s => ([WComment n s], N.succ n)
  | XPi t d => ([WPi n t d], N.succ n)
  | XDoctype nm k => ([], N.succ n + k)%N
  end.

Fixpoint wrap_list (n : N) (l : list xnode) : list wnode * N :=
  match l with
  | [] => ([], n)
  | k :: r => let (k', n') := wrap1 n k in
              let (r', n'') := wrap_list n' r in (k' ++ r', n'')
  end.

Definition wrap (xs : list xnode) : list wnode := fst (wrap_list wrap_first_index xs).

(* the DOM without its document type node(s) *)
Fixpoint drop_doctype1 (x : xnode) : list xnode :=
  match x with
  | XDoctype _ _ => []
  | XElem q a kids => [XElem q a (flat_map drop_doctype1 kids)]
  | XEntRef nm kids => [XEntRef nm (flat_map drop_doctype1 kids)]
  | _ => [x]
  end.
Definition drop_doctype (xs : list xnode) : list xnode := flat_map drop_doctype1 xs.

Fixpoint xnodoctype (x : xnode) : bool :=
  match x with
  | XDoctype _ _ => false
  | XElem _ _ kids | XEntRef _ kids => forallb xnodoctype kids
  | _ => true
  end.

(* XPath view of a DOM in XPath-normal form *)
Fixpoint x2t (x : xnode) : tree :=
  match x with
  | XElem q a kids => TElem q a (map x2t kids)
  | XText s | XCData s => TText s
  | XEntRef nm _ => TPi nm []
  | XComment s => TComment s
  | XPi t d => TPi t d
  | XDoctype nm _ => TComment nm
  end.

(* the SAX serialisation of a DOM (what a parser reports for the same document): a CDATA section is
   character data, an entity reference is its expansion, the document type is not reported *)
Fixpoint sax_of (x : xnode) : list sax_event :=
  match x with
  | XElem q a kids => EStart q a :: flat_map sax_of kids ++ [EEnd]
  | XText s | XCData s => [EChars s]
  | XEntRef _ kids => flat_map sax_of kids
  | XComment s => [EComment s]
  | XPi t d => [EPi t d]
  | XDoctype _ _ => []
  end.
Definition sax_of_list (xs : list xnode) : list sax_event := flat_map sax_of xs.

(* decidable guard: only element / text / comment / PI nodes *)
Fixpoint xplain (x : xnode) : bool :=
  match x with
  | XElem _ _ kids => forallb xplain kids
  | XText _ | XComment _ | XPi _ _ => true
  | _ => false
  end.

Fixpoint attrs_eqb (a b : list attr) : bool :=
  match a, b with
  | [], [] => true
  | x :: a', y :: b' => str_eqb (fst x) (fst y) && str_eqb (snd x) (snd y) && attrs_eqb a' b'
  | _, _ => false
  end.

(* decidable guard: the attribute order is the one the native builder produces (xmlns declarations
   before the other attributes) and there is no explicit xmlns:xml *)
Definition attrs_canonical (a : list attr) : bool := negb (has_xml_ns a) && attrs_eqb (order_attrs false a) a.

Fixpoint tattrs_canonical (t : tree) : bool :=
  match t with
  | TElem _ a kids => attrs_canonical a && forallb tattrs_canonical kids
  | _ => true
  end.

Definition xnormal (xs : list xnode) : bool :=
  forallb xplain xs && forallb tattrs_canonical (map x2t xs) && top_ok (map x2t xs).

Fixpoint wstrip (w : wnode) : tree :=
  match w with
  | WElem _ q a kids => TElem q (map snd a) (map wstrip kids)
  | WText _ s | WCData _ s => TText s
  | WEntRef _ nm _ => TPi nm []
  | WComment _ s => TComment s
  | WPi _ t d => TPi t d
  end.

(* indexes of the linked nodes in document order *)
Fixpoint wflat1 (w : wnode) : list N :=
  match w with
  | WElem i _ a kids => if wrap_attrs_in_start then i :: map fst a ++ flat_map wflat1 kids
                        else i :: flat_map wflat1 kids ++ map fst a
  | WEntRef i _ kids => i :: flat_map wflat1 kids
  | WText i _ | WCData i _ | WComment i _ | WPi i _ _ => [i]
  end.
Definition wflat (l : list wnode) : list N := flat_map wflat1 l.

(* l is strictly increasing and starts at n or later *)
Fixpoint ascending_from (n : N) (l : list N) : Prop :=
  match l with
  | [] => True
  | x :: r => (n <= x)%N /\ ascending_from (N.succ x) r
  end.

(** * 3. XalanOutputStream buffering and the callback chunks *)
Inductive owrite :=
  | OWide (d : list N)      (* write(const XalanDOMChar*, n): buffered, transcoded *)
  | OChar (c : N)           (* write(XalanDOMChar) *)
  | ONarrow (d : list N)    (* write(const char*, n): straight to writeData, buffer NOT flushed *)
  | OFlush.                 (* flush(): flushBuffer + doFlush *)

Inductive ochunk :=
  | CWide (d : list N)      (* doWrite(buffer): one transcode + one writeData call *)
  | CNarrow (d : list N).

Record ostate := mkO { o_buf : list N; o_out : list ochunk (* newest first *) }.

Definition chunk_data (c : ochunk) : list N := match c with CWide d | CNarrow d => d end.

Definition eff_size (bs : N) : N := if N.eqb bs 0 then 1%N else bs.

Definition len (l : list N) : N := N.of_nat (length l).

Definition flush_buffer (st : ostate) : ostate :=
  match o_buf st with
  | [] => st
  | b => mkO [] (CWide b :: o_out st)
  end.

(* The stream exists in two variants, told apart by GenForms.stream_keeps_high_surrogate (regenerated from
   /repo): the original one, and the one repaired for K05e / C08 K-C08-2, where a flush that happens because
   more data is coming (flushBufferForMore) keeps a trailing high surrogate in the buffer.  The functions take
   the variant as their first argument k; the lemmas hold for both. *)
Definition is_high_surrogate (c : N) : bool := N.leb 55296 c && N.leb c 56319.

(* flushBufferForMore (k = true) / flushBuffer (k = false) *)
Definition flush_for_more (k : bool) (st : ostate) : ostate :=
  if k then
    match rev (o_buf st) with
    | last :: r => if is_high_surrogate last
                   then mkO [last] (o_out (flush_buffer (mkO (rev r) (o_out st))))
                   else flush_buffer st
    | [] => flush_buffer st
    end
  else flush_buffer st.

(* repaired write(block) of a block larger than the buffer: a waiting high surrogate goes out together with
   the block's first unit; the block's own trailing high surrogate waits for the next write *)
Definition big_block (st1 : ostate) (d : list N) : ostate :=
  match d with
  | [] => st1
  | x :: d' =>
      let (out2, d2) := match o_buf st1 with
                        | [] => (o_out st1, d)
                        | b => (CWide (b ++ [x]) :: o_out st1, d')
                        end in
      match rev d2 with
      | [] => mkO [] out2
      | last :: r => if is_high_surrogate last
                     then mkO [last] (match r with [] => out2 | _ => CWide (rev r) :: out2 end)
                     else mkO [] (CWide d2 :: out2)
      end
  end.

Definition ostep_k (k : bool) (bs : N) (st : ostate) (w : owrite) : ostate :=
  match w with
  | OWide d =>
      let st1 := if N.ltb bs (len d + len (o_buf st)) then flush_for_more k st else st in
      if N.ltb bs (len d)
      then (if k then big_block st1 d else mkO (o_buf st1) (CWide d :: o_out st1))
      else mkO (o_buf st1 ++ d) (o_out st1)
  | OChar c =>
      let full := if k then N.leb bs (len (o_buf st)) else N.eqb (len (o_buf st)) bs in
      let st1 := if full then flush_for_more k st else st in
      mkO (o_buf st1 ++ [c]) (o_out st1)
  | ONarrow d => mkO (o_buf st) (CNarrow d :: o_out st)
  | OFlush => flush_buffer st
  end.

Definition orun_k (k : bool) (bs : N) (ws : list owrite) : ostate := fold_left (ostep_k k (eff_size bs)) ws (mkO [] []).
Definition chunks_k (k : bool) (bs : N) (ws : list owrite) : list ochunk := rev (o_out (orun_k k bs ws)).

(* the stream of the current /repo *)
Definition ostep := ostep_k stream_keeps_high_surrogate.
Definition orun := orun_k stream_keeps_high_surrogate.

(* the sequence of callback invocations *)
Definition chunks := chunks_k stream_keeps_high_surrogate.

Definition delivered (cs : list ochunk) : list N := flat_map chunk_data cs.

Definition write_data (w : owrite) : list N :=
  match w with OWide d | ONarrow d => d | OChar c => [c] | OFlush => [] end.

Definition written (ws : list owrite) : list N := flat_map write_data ws.

(* decidable guard: every narrow write finds the buffer empty (the documented obligation of the
   caller of write(const char*, n)) *)
Fixpoint narrow_ok_from (k : bool) (bs : N) (st : ostate) (ws : list owrite) : bool :=
  match ws with
  | [] => true
  | w :: r => (match w with ONarrow _ => is_nil (o_buf st) | _ => true end) && narrow_ok_from k bs (ostep_k k bs st w) r
  end.
Definition narrow_ok_k (k : bool) (bs : N) (ws : list owrite) : bool := narrow_ok_from k (eff_size bs) (mkO [] []) ws.
Definition narrow_ok := narrow_ok_k stream_keeps_high_surrogate.
