(* PatcExprModel.v — C09 part "compile": the SAME token list, compiled by the expression compiler (XpcParseDefs.parse),
   gives the expression the pattern abbreviates (PatcPrintDefs.expr_of): '/' the root step, '//' the
   descendant-or-self::node() step, child / attribute steps, the id()/key() head as filter expression, '|' as eOP_UNION. *)
From Coq Require Import List NArith Bool Arith Lia.
Import ListNotations.
Require Import XV.XpAst XV.GenXpc XV.GenPatc XV.XpcLexDefs XV.XpcParseDefs XV.XpcPrintDefs XV.XpcPrintFacts XV.XpcPrintModel.
Require Import XV.PatcDefs XV.PatcPrintDefs XV.PatcPrintModel.

Definition ax_of (k : pstep_kind) : axis := if is_attr_kind k then AxAttribute else AxChild.
Lemma pr_pstep_is_step1 : forall k t ps, pr_pstep (k, t, ps) = pr_step1 (ax_of k, t, ps).
Proof. intros k t ps. unfold pr_pstep, pr_step1, ax_of, axis_kw. destruct (is_attr_kind k); reflexivity. Qed.
Lemma ax_ok : forall k, axis_ok (ax_of k) = true.
Proof. intros k. unfold ax_of. destruct (is_attr_kind k); reflexivity. Qed.

Lemma match_op_nil : forall l, match_op l [] = None.
Proof. intros l. do 7 (destruct l as [|l]; [reflexivity|]). reflexivity. Qed.

Section ERT.
Variable fl : flags.
Variable ns : str -> option str.
Variable n : nat.
Let pe := p_expr fl ns n.
Let lf := S n.

Lemma HpeE : forall K e, expr_size e < K -> canon e = true -> forall d rest,
  length (pr e ++ rest) < n -> S d + idepth e <= gen_xpc_max_nesting -> follow rest = true ->
  pe d (pr e ++ rest) = Ok (e, rest).
Proof. intros K e _ Hc d rest Hl Hd Hf. unfold pe. apply (p_expr_rt fl ns (S (expr_size e)) e); auto. Qed.

(* the '//' pseudo step: no token is consumed *)
Lemma dos_rt : forall d k X,
  p_step fl ns pe lf d (sl :: axis_kw k :: gen_xpc_kw_axis_sep :: X) = Ok (step_dos, sl :: axis_kw k :: gen_xpc_kw_axis_sep :: X).
Proof.
  intros d k X. unfold p_step, p_basis, axis_kw. destruct (is_attr_kind k); reflexivity.
Qed.

Lemma estep_rt : forall k t ps d rest, ntest_ok t = true -> canon_preds ps = true ->
  length (pr_pstep (k, t, ps) ++ rest) <= n -> d + dep_preds ps <= gen_xpc_max_nesting ->
  N.eqb (tokc rest) ch_lbrack = false -> look_c rest ch_lparen 0 = false -> look_c rest ch_colon 0 = false ->
  p_step fl ns pe lf d (pr_pstep (k, t, ps) ++ rest) = Ok ((ax_of k, t, ps), rest).
Proof.
  intros k t ps d rest Ht Hp Hl Hd R0 R1 R2. rewrite pr_pstep_is_step1 in *.
  apply (step_rt fl ns pe lf n (size_preds ps)); auto; try (unfold lf; lia).
  - intros e He Hc. apply (HpeE (size_preds ps)); auto.
  - apply ax_ok.
Qed.

Definition pre_steps (pre : list tok) : list step := match pre with [] => [] | _ => [step_dos] end.

Lemma esteps_rt : forall l, l <> [] -> canon_psteps l = true ->
  forall m d pre rest, (pre = [] \/ pre = [sl]) ->
  length (pre ++ ppr_steps l ++ rest) <= n -> length (pre ++ ppr_steps l ++ rest) < m ->
  d + dep_psteps l <= gen_xpc_max_nesting -> pstop rest = true ->
  p_steps fl ns pe lf m d (pre ++ ppr_steps l ++ rest) = Ok (pre_steps pre ++ esteps_of l, rest).
Proof.
  induction l as [|[[k t] ps] r IH]; intros NE Hc m d pre rest Hpre Hl Hm Hd Hr; [congruence|].
  (* the case with a leading '/' reduces to the case without *)
  assert (W : forall m, length (ppr_steps ((k, t, ps) :: r) ++ rest) <= n -> length (ppr_steps ((k, t, ps) :: r) ++ rest) < m ->
              p_steps fl ns pe lf m d (ppr_steps ((k, t, ps) :: r) ++ rest) = Ok (esteps_of ((k, t, ps) :: r), rest)).
  { clear m Hl Hm Hpre pre. intros m Hl Hm.
    cbn [canon_psteps] in Hc. andbs Hc. cbn [dep_psteps] in Hd.
    destruct (pstop_facts _ Hr) as (S1 & S2 & S3 & S4 & S5 & S6).
    destruct m; [lia|]. cbn [p_steps]. cbn [ppr_steps] in *.
    destruct r as [|s2 r'].
    - rewrite app_nil_r in *. rewrite estep_rt; auto; try lia. rewrite S1.
      cbn [esteps_of flat_map estep_of]. destruct k; try discriminate; reflexivity.
    - assert (NE2 : s2 :: r' <> []) by discriminate.
      destruct (ppr_steps_first (s2 :: r') rest NE2 Hc0) as (F1 & F2 & F3 & F4 & F5).
      rewrite <- !app_assoc in *.
      unfold sep_after in *. cbn [fst] in *.
      rewrite estep_rt; auto; try lia; try (destruct (is_any k); reflexivity).
      destruct (is_any k) eqn:EA; cbn [app] in *.
      + unfold sl at 1. cbn [tokc]. rewrite N.eqb_refl. cbn [tl].
        change (sl :: ppr_steps (s2 :: r') ++ rest) with ([sl] ++ ppr_steps (s2 :: r') ++ rest).
        rewrite (IH NE2 Hc0 m d [sl] rest); auto; try lia; try len.
        change (esteps_of ((k, t, ps) :: s2 :: r')) with (estep_of (k, t, ps) ++ esteps_of (s2 :: r')).
        unfold estep_of. rewrite EA. reflexivity.
      + unfold sl at 1. cbn [tokc]. rewrite N.eqb_refl. cbn [tl].
        change (ppr_steps (s2 :: r') ++ rest) with ([] ++ ppr_steps (s2 :: r') ++ rest).
        rewrite (IH NE2 Hc0 m d [] rest); auto; try lia; try len.
        change (esteps_of ((k, t, ps) :: s2 :: r')) with (estep_of (k, t, ps) ++ esteps_of (s2 :: r')).
        unfold estep_of. rewrite EA. reflexivity. }
  destruct Hpre as [-> | ->]; cbn [app pre_steps] in *.
  - apply W; auto.
  - destruct m; [lia|]. cbn [p_steps].
    assert (E : exists X, ppr_steps ((k, t, ps) :: r) ++ rest = axis_kw k :: gen_xpc_kw_axis_sep :: X).
    { cbn [ppr_steps pr_pstep]. rewrite <- !app_assoc. cbn [app]. eexists; reflexivity. }
    destruct E as [X E]. unfold tok, str, pstep in *. rewrite E. rewrite dos_rt.
    replace (N.eqb (tokc (sl :: axis_kw k :: gen_xpc_kw_axis_sep :: X)) ch_solidus) with true by reflexivity.
    cbn [tl]. unfold tok, str, pstep in *. rewrite <- E.
    rewrite W; auto; cbn [length] in *; lia.
Qed.

Lemma kw_primary : forall k X, primary_kind fl (axis_kw k :: gen_xpc_kw_axis_sep :: X) = PkPath /\
  root_alone (axis_kw k :: gen_xpc_kw_axis_sep :: X) = false.
Proof.
  intros k X. unfold axis_kw. destruct (is_attr_kind k).
  - destruct (axis_facts2 fl AxAttribute eq_refl (gen_xpc_kw_axis_sep :: X)) as (A & _ & C & _). split; [exact C|exact A].
  - destruct (axis_facts2 fl AxChild eq_refl (gen_xpc_kw_axis_sep :: X)) as (A & _ & C & _). split; [exact C|exact A].
Qed.

Lemma steps_shape : forall l rest, l <> [] -> exists k X, ppr_steps l ++ rest = axis_kw k :: gen_xpc_kw_axis_sep :: X.
Proof.
  intros [|[[k t] ps] r] rest NE; [congruence|]. exists k.
  cbn [ppr_steps pr_pstep]. rewrite <- !app_assoc. cbn [app]. eexists; reflexivity.
Qed.

(* PathExpr() on the tokens of one alternative *)
Lemma epath_rt : forall a d rest, canon_lp a = true -> length (ppr_lp a ++ rest) <= n ->
  d + dep_lp a <= gen_xpc_max_nesting -> pstop rest = true ->
  p_path fl ns pe lf d (ppr_lp a ++ rest) = Ok (expr_of_lp a, rest).
Proof.
  intros a d rest Hc Hl Hd Hr.
  destruct (pstop_facts _ Hr) as (S1 & S2 & S3 & S4 & S5 & S6).
  assert (TS : forall X : list (list N), N.eqb (tokc (sl :: X)) ch_solidus = true) by reflexivity.
  assert (TB : forall X : list (list N), N.eqb (tokc (sl :: X)) ch_lbrack = false) by reflexivity.
  assert (RA : forall X : list (list N), root_alone (sl :: X) = false) by reflexivity.
  unfold canon_lp, ppr_lp, dep_lp, expr_of_lp in *. destruct (split_head a) as [h r] eqn:E. clear E. andbs Hc.
  unfold p_path, p_filter, p_primary.
  destruct h as [| | |f|f].
  - (* relative *)
    apply negb_true_iff in Hc0. assert (NE : r <> []) by (destruct r; [discriminate|discriminate]).
    destruct (steps_first2 r rest NE Hc) as (G1 & G2 & G3 & G4).
    assert (PK : primary_kind fl (ppr_steps r ++ rest) = PkPath).
    { destruct (steps_shape r rest NE) as (k & X & E). destruct (kw_primary k X) as [K1 K2].
      unfold tok, str, pstep in *. rewrite E. exact K1. }
    unfold tok, str, pstep in *. rewrite PK. unfold p_locpath. cbv zeta. unfold tok, str, pstep in *. rewrite G3. cbn [negb orb]. rewrite G1. cbn [negb andb].
    change (ppr_steps r ++ rest) with ([] ++ ppr_steps r ++ rest).
    rewrite (esteps_rt r NE Hc lf d [] rest); auto; try (unfold lf; cbn [app]; unfold tok, str, pstep in *; lia).
    cbn [pre_steps app]. rewrite S2, S1. reflexivity.
  - (* '/' *)
    cbn [app] in *.
    assert (PK : primary_kind fl (sl :: ppr_steps r ++ rest) = PkPath).
    { apply pk_root.
      - destruct r as [|s r']; [exact S3|]. destruct (steps_shape (s :: r') rest ltac:(discriminate)) as (k & X & E).
        unfold tok, str, pstep in *. rewrite E. unfold axis_kw; destruct (is_attr_kind k); reflexivity.
      - destruct r as [|s r']; [exact S4|]. destruct (steps_shape (s :: r') rest ltac:(discriminate)) as (k & X & E).
        unfold tok, str, pstep in *. rewrite E. unfold axis_kw; destruct (is_attr_kind k); reflexivity. }
    unfold tok, str, pstep in *. rewrite PK. unfold p_locpath. cbv zeta. unfold tok, str, pstep in *.
    rewrite !TS. cbn [tl negb orb].
    destruct r as [|s r'].
    + cbn [ppr_steps app esteps_of flat_map].
      assert (Q : (negb (isnil rest) && negb (root_alone rest))%bool = false).
      { destruct rest as [|t q]; [reflexivity|]. cbn [pstop] in Hr. apply str_eqb_eq in Hr. subst t. reflexivity. }
      rewrite Q. rewrite S2, S1. reflexivity.
    + assert (NE : s :: r' <> []) by discriminate.
      destruct (steps_shape (s :: r') rest NE) as (k & X & E).
      destruct (kw_primary k X) as [K1 K2].
      unfold tok, str, pstep in *. rewrite E. rewrite K2. cbn [isnil negb andb]. rewrite <- E.
      change (ppr_steps (s :: r') ++ rest) with ([] ++ ppr_steps (s :: r') ++ rest).
      rewrite (esteps_rt (s :: r') NE Hc lf d [] rest); auto; try (unfold lf; cbn [app length] in *; unfold tok, str, pstep in *; lia).
      cbn [pre_steps app]. rewrite S2, S1. reflexivity.
  - (* '//' *)
    apply negb_true_iff in Hc0. assert (NE : r <> []) by (destruct r; [discriminate|discriminate]).
    cbn [app] in *.
    assert (PK : primary_kind fl (sl :: sl :: ppr_steps r ++ rest) = PkPath) by (apply pk_root; reflexivity).
    unfold tok, str, pstep in *. rewrite PK. unfold p_locpath. cbv zeta. unfold tok, str, pstep in *.
    rewrite !TS. cbn [tl negb orb].
    rewrite !RA. cbn [isnil negb andb].
    change (sl :: ppr_steps r ++ rest) with ([sl] ++ ppr_steps r ++ rest).
    rewrite (esteps_rt r NE Hc lf d [sl] rest); auto; try (unfold lf; cbn [app length] in *; unfold tok, str, pstep in *; lia).
    cbn [pre_steps app]. rewrite S2, S1. reflexivity.
  - (* id() / key(), alone or followed by '/' *)
    destruct f as [| | | | | | | | | | | | | | | | | | |name args| |]; try discriminate Hc0.
    destruct (idkey_name _ _ Hc0) as (Hn & Hcf & Hlit & _).
    set (tailtoks := match r with [] => [] | _ => sl :: ppr_steps r end) in *.
    assert (R : look_c (tailtoks ++ rest) ch_lparen 0 = false /\ look_c (tailtoks ++ rest) ch_colon 0 = false /\
                N.eqb (tokc (tailtoks ++ rest)) ch_lbrack = false).
    { unfold tailtoks. destruct r as [|s r']; [cbn [app]; auto|]. repeat split; reflexivity. }
    destruct R as (R1 & R2 & R3).
    rewrite <- app_assoc in *.
    pose proof (prim_rt fl ns pe lf n (expr_size (EFunc name args)) ltac:(unfold lf; lia)
                  (fun e He Hce => HpeE _ e He Hce) (EFunc name args) eq_refl Hcf ltac:(lia) d (tailtoks ++ rest) Hl ltac:(lia) R1 R2) as P.
    unfold p_primary in P. unfold tok, str, pstep in *. rewrite P. rewrite R3.
    unfold tailtoks in *. destruct r as [|s r'].
    + cbn [app]. rewrite S1. reflexivity.
    + assert (NE : s :: r' <> []) by discriminate. cbn [app].
      rewrite !TS. cbn [tl].
      change (ppr_steps (s :: r') ++ rest) with ([] ++ ppr_steps (s :: r') ++ rest).
      rewrite (esteps_rt (s :: r') NE Hc lf d [] rest); auto; try (unfold lf); try len.
  - (* id() / key() followed by '//' *)
    destruct f as [| | | | | | | | | | | | | | | | | | |name args| |]; try discriminate Hc0.
    apply andb_prop in Hc0. destruct Hc0 as [Hf Hne].
    destruct (idkey_name _ _ Hf) as (Hn & Hcf & Hlit & _).
    apply negb_true_iff in Hne. assert (NE : r <> []) by (destruct r; [discriminate|discriminate]).
    rewrite <- app_assoc in *. cbn [app] in *.
    pose proof (prim_rt fl ns pe lf n (expr_size (EFunc name args)) ltac:(unfold lf; lia)
                  (fun e He Hce => HpeE _ e He Hce) (EFunc name args) eq_refl Hcf ltac:(lia) d (sl :: sl :: ppr_steps r ++ rest) Hl ltac:(lia) eq_refl eq_refl) as P.
    unfold p_primary in P. unfold tok, str, pstep in *. rewrite P.
    rewrite !TB.
    rewrite !TS. cbn [tl].
    change (sl :: ppr_steps r ++ rest) with ([sl] ++ ppr_steps r ++ rest).
    rewrite (esteps_rt r NE Hc lf d [sl] rest); auto; try (unfold lf); try len.
Qed.

Fixpoint ppr_tail (P : pattern) : list tok :=
  match P with [] => [] | a :: r => [ch_bar] :: ppr_lp a ++ ppr_tail r end.
Lemma ppr_split : forall a r, ppr (a :: r) = ppr_lp a ++ ppr_tail r.
Proof.
  intros a r. revert a. induction r as [|b r IH]; intros a.
  - cbn [ppr ppr_tail]. rewrite app_nil_r. reflexivity.
  - change (ppr (a :: b :: r)) with (ppr_lp a ++ [ch_bar] :: ppr (b :: r)). rewrite IH. reflexivity.
Qed.
Lemma pstop_tail : forall r, pstop (ppr_tail r) = true.
Proof. intros [|a r]; reflexivity. Qed.

Lemma lp_nonempty : forall a rest, canon_lp a = true -> ppr_lp a ++ rest <> [].
Proof.
  intros a rest Hc. unfold canon_lp, ppr_lp in *. destruct (split_head a) as [h r]. andbs Hc.
  destruct h as [| | |f|f]; try discriminate.
  - apply negb_true_iff in Hc0. assert (NE : r <> []) by (destruct r; [discriminate|discriminate]).
    destruct (steps_shape r rest NE) as (k & X & E). unfold tok, str, pstep in *. rewrite E. discriminate.
  - destruct f; try discriminate Hc0. rewrite pr_func. discriminate.
  - destruct f; try discriminate Hc0. rewrite pr_func. discriminate.
Qed.

Lemma eunion_rest_rt : forall r, forallb canon_lp r = true -> forall m d,
  length (ppr_tail r) <= n -> length (ppr_tail r) < m -> d + dep_pattern r <= gen_xpc_max_nesting ->
  p_union_rest fl ns pe lf m d (ppr_tail r) = Ok (map expr_of_lp r, []).
Proof.
  induction r as [|a r IH]; intros Hc m d Hl Hm Hd.
  - destruct m; [cbn in Hm; lia|]. reflexivity.
  - cbn [forallb] in Hc. apply andb_prop in Hc. destruct Hc as [Ha Hr]. cbn [dep_pattern] in Hd.
    destruct m; [lia|]. cbn [p_union_rest ppr_tail].
    change (N.eqb (tokc ([ch_bar] :: ppr_lp a ++ ppr_tail r)) ch_bar) with true. cbv iota. cbn [tl].
    pose proof (lp_nonempty a (ppr_tail r) Ha) as NE.
    destruct (ppr_lp a ++ ppr_tail r) as [|t0 q0] eqn:E; [congruence|]. rewrite <- E in *.
    cbn [ppr_tail length] in Hl, Hm.
    rewrite epath_rt; auto; try lia; try apply pstop_tail.
    rewrite app_length in *.
    rewrite IH; auto; try lia.
Qed.

End ERT.

Lemma level_from_union : forall fl ns pe lf d ts e, 1 <= lf ->
  p_union fl ns pe lf d ts = Ok (e, []) -> N.eqb (tokc ts) ch_hyphen = false ->
  forall L, p_level fl ns pe lf L d ts = Ok (e, []).
Proof.
  intros fl ns pe lf d ts e Hlf H Hh. induction L as [|L IH].
  - cbn [p_level]. destruct lf; [lia|]. cbn [p_unary]. rewrite Hh. exact H.
  - cbn [p_level]. destruct (right_nested (S L)).
    + destruct lf; [lia|]. cbn [p_rlevel]. rewrite IH. rewrite match_op_nil. reflexivity.
    + rewrite IH. destruct lf; [lia|]. cbn [p_lrest]. rewrite match_op_nil. reflexivity.
Qed.

Theorem pattern_as_expression_m : forall fl ns P, pcanon P = true -> S (dep_pattern P) <= gen_xpc_max_nesting ->
  parse fl ns (ppr P) = Ok (expr_of P).
Proof.
  intros fl ns P Hc Hd. unfold pcanon in Hc. apply andb_prop in Hc. destruct Hc as [H1 H2].
  destruct P as [|a r]; [discriminate|]. clear H1.
  cbn [forallb] in H2. apply andb_prop in H2. destruct H2 as [Ha Hr]. cbn [dep_pattern] in Hd.
  unfold parse. set (n := length (ppr (a :: r))). cbn [p_expr].
  assert (D : Nat.ltb gen_xpc_max_nesting 1 = false) by (apply Nat.ltb_ge; lia). rewrite D.
  assert (U : p_union fl ns (p_expr fl ns n) (S n) 1 (ppr (a :: r)) = Ok (expr_of (a :: r), [])).
  { unfold p_union. subst n. rewrite ppr_split in *.
    rewrite (epath_rt fl ns _ a 1 (ppr_tail r)); auto; try lia; try apply pstop_tail.
    rewrite app_length.
    rewrite (eunion_rest_rt fl ns _ r Hr (S (length (ppr_lp a) + length (ppr_tail r))) 1); try lia.
    destruct r; reflexivity. }
  assert (F : N.eqb (tokc (ppr (a :: r))) ch_hyphen = false).
  { rewrite ppr_split. unfold canon_lp, ppr_lp in *. destruct (split_head a) as [h q]. andbs Ha.
    destruct h as [| | |f|f]; try reflexivity.
    - apply negb_true_iff in Ha0. assert (NE : q <> []) by (destruct q; [discriminate|discriminate]).
      destruct (steps_shape q (ppr_tail r) NE) as (k & X & E). unfold tok, str, pstep in *. rewrite E.
      unfold axis_kw. destruct (is_attr_kind k); reflexivity.
    - destruct f; try discriminate Ha0. destruct (idkey_name _ _ Ha0) as ([-> | ->] & _ & _ & _); rewrite pr_func; reflexivity.
    - destruct f; try discriminate Ha0. apply andb_prop in Ha0. destruct Ha0 as [Ha0 _].
      destruct (idkey_name _ _ Ha0) as ([-> | ->] & _ & _ & _); rewrite pr_func; reflexivity. }
  rewrite (level_from_union fl ns _ (S n) 1 _ _ ltac:(lia) U F 6). reflexivity.
Qed.
