(* C06 — lemmas and proofs about the transformer state machine of ApiDefs.v *)
From Coq Require Import List ZArith Bool Arith Lia.
Require Import XV.ApiName XV.GenApi XV.ApiDefs.
Import ListNotations.
Close Scope name_scope.
Open Scope list_scope.

(* the generated switches are atoms for simpl/rewrite: proofs below hold for either value
   (vm_compute, used only for the finite sweeps, still sees through them) *)
Opaque set_value_drops_expr set_expr_drops_value clear_params_clears_map objstack_reset_rewinds
       errclear_dotransform errclear_compile errclear_parse.

(* ------------------------------------------------------------------------------------------ *)
(* identifiers                                                                                 *)

Lemma mclass_eqb_eq : forall a b, mclass_eqb a b = true -> a = b.
Proof. destruct a, b; simpl; congruence. Qed.

Lemma mid_eqb_eq : forall a b, mid_eqb a b = true -> a = b.
Proof.
  intros [c1 n1] [c2 n2]; unfold mid_eqb; simpl; intro H.
  apply andb_true_iff in H; destruct H as [H1 H2].
  apply mclass_eqb_eq in H1; apply name_eqb_eq in H2; subst; reflexivity.
Qed.

Lemma mid_eqb_refl : forall a, mid_eqb a a = true.
Proof. intros [c n]; unfold mid_eqb; simpl. rewrite name_eqb_refl. destruct c; reflexivity. Qed.

(* ------------------------------------------------------------------------------------------ *)
(* reset_complete: finite sweep over the generated member list, lifted by forallb_forall       *)

Lemma all_classified_ok : all_classified = true.
Proof. vm_compute. reflexivity. Qed.

Lemma audit_names_exist_ok : audit_names_exist = true.
Proof. vm_compute. reflexivity. Qed.

Lemma per_transformation_all_cleared_ok : per_transformation_all_cleared = true.
Proof. vm_compute. reflexivity. Qed.

Lemma every_member_classified : forall m, In m member_ids -> classify m <> None.
Proof.
  intros m Hin. pose proof all_classified_ok as H. unfold all_classified in H.
  rewrite forallb_forall in H. specialize (H m Hin). destruct (classify m); congruence.
Qed.

Lemma per_transformation_is_member : forall m, is_per_transformation m = true -> In m member_ids.
Proof.
  intros m H. unfold is_per_transformation, classify in H.
  destruct (fst m) eqn:Hc; try discriminate;
  (destruct (find (fun e => mid_eqb (fst e) m) audit) as [e|] eqn:Hf; [|discriminate];
   apply find_some in Hf; destruct Hf as [Hin He];
   pose proof audit_names_exist_ok as HA; unfold audit_names_exist in HA;
   rewrite forallb_forall in HA; specialize (HA e Hin);
   apply existsb_exists in HA; destruct HA as [m' [Hm' Heq]];
   apply mid_eqb_eq in He; apply mid_eqb_eq in Heq; subst; assumption).
Qed.

Lemma reset_complete_members :
  forall m, In m member_ids -> is_per_transformation m = true -> cleared m = true.
Proof.
  intros m Hin Hp. pose proof per_transformation_all_cleared_ok as H.
  unfold per_transformation_all_cleared in H. rewrite forallb_forall in H.
  specialize (H m Hin). rewrite Hp in H. exact H.
Qed.

Lemma per_transformation_cleared : forall m, is_per_transformation m = true -> cleared m = true.
Proof. intros m H. apply reset_complete_members; auto. apply per_transformation_is_member; auto. Qed.

(* ------------------------------------------------------------------------------------------ *)
(* the guard object                                                                            *)

Lemma guard_before_touch_prefix :
  forall l seen, guard_before_touch seen l = true ->
  forall k, existsb is_touch (firstn (S k) l) = true ->
            seen = true \/ existsb is_guard (firstn k l) = true.
Proof.
  induction l as [|a l IH]; intros seen H k Hk.
  - simpl in Hk. discriminate.
  - destruct a; simpl in H.
    + (* SGuard *) destruct k as [|k].
      * simpl in Hk. discriminate.
      * right. simpl. reflexivity.
    + (* STouchCtx *) apply andb_true_iff in H. destruct H as [Hs _]. left; exact Hs.
    + (* SPassRef *) destruct k as [|k].
      * simpl in Hk. discriminate.
      * change (firstn (S (S k)) (SPassRef :: l)) with (SPassRef :: firstn (S k) l) in Hk.
        simpl existsb in Hk. destruct (IH seen H k Hk) as [Hs|Hg]; [left; exact Hs|right; simpl; exact Hg].
    + (* SOther *) destruct k as [|k].
      * simpl in Hk. discriminate.
      * change (firstn (S (S k)) (SOther :: l)) with (SOther :: firstn (S k) l) in Hk.
        simpl existsb in Hk. destruct (IH seen H k Hk) as [Hs|Hg]; [left; exact Hs|right; simpl; exact Hg].
Qed.

Lemma guard_before_touch_all :
  forall l seen, guard_before_touch seen l = true ->
  existsb is_touch l = true -> seen = true \/ existsb is_guard l = true.
Proof.
  induction l as [|a l IH]; intros seen H Hk.
  - discriminate.
  - destruct a; simpl in H.
    + right; reflexivity.
    + apply andb_true_iff in H. destruct H as [Hs _]. left; exact Hs.
    + simpl in Hk. destruct (IH seen H Hk) as [Hs|Hg]; [left; exact Hs|right; simpl; exact Hg].
    + simpl in Hk. destruct (IH seen H Hk) as [Hs|Hg]; [left; exact Hs|right; simpl; exact Hg].
Qed.

Lemma guard_fact : guard_before_touch false dotransform_try_stmts = true.
Proof. vm_compute. reflexivity. Qed.

Lemma pre_fact : pre_touches = false.
Proof. vm_compute. reflexivity. Qed.

Lemma ensure_reset_all_paths : forall abort, ctx_touched abort = true -> guard_alive abort = true.
Proof.
  intros abort H. unfold ctx_touched in H. rewrite pre_fact in H.
  rewrite orb_false_l in H. unfold guard_alive. destruct abort as [k|].
  - unfold executed in H. unfold constructed.
    destruct (guard_before_touch_prefix _ _ guard_fact k H) as [Hs|Hg]; [discriminate|exact Hg].
  - unfold executed in H. unfold constructed. rewrite firstn_all in H. rewrite firstn_all.
    destruct (guard_before_touch_all _ _ guard_fact H) as [Hs|Hg]; [discriminate|exact Hg].
Qed.

(* ------------------------------------------------------------------------------------------ *)
(* residue                                                                                     *)

Definition confined (m : mid) : Prop := is_objstack m = true /\ objstack_reset_rewinds = false.

Lemma transform_residue_confined :
  forall abort dirt m, In m (transform_residue abort dirt) -> confined m.
Proof.
  intros abort dirt m Hin. unfold transform_residue in Hin.
  destruct (ctx_touched abort) eqn:Ht; [|contradiction].
  rewrite (ensure_reset_all_paths _ Ht) in Hin.
  apply filter_In in Hin. destruct Hin as [Hd Hn].
  unfold dirtied in Hd. apply filter_In in Hd. destruct Hd as [_ Hp].
  apply per_transformation_cleared in Hp.
  unfold fully_cleared in Hn. rewrite Hp in Hn. simpl in Hn.
  unfold confined. destruct (is_objstack m); [|discriminate].
  destruct objstack_reset_rewinds; [discriminate|auto].
Qed.

Lemma finish_call_fields :
  forall i tab s o, let s1 := fst (finish_call i tab s o) in
    st_params s1 = st_params s /\ st_funcs s1 = st_funcs s /\ st_cs s1 = st_cs s /\
    st_ps s1 = st_ps s /\ st_residue s1 = st_residue s /\ st_indent s1 = st_indent s.
Proof.
  intros i tab s o. unfold finish_call. destruct o as [|e m]; simpl.
  - repeat split.
  - destruct (status_of tab e); simpl; repeat split.
Qed.

Lemma do_transform_fields :
  forall s sh d x o ab dirt, let s1 := fst (do_transform s sh d x o ab dirt) in
    st_params s1 = st_params s /\ st_funcs s1 = st_funcs s /\ st_cs s1 = st_cs s /\
    st_ps s1 = st_ps s /\ st_indent s1 = st_indent s /\
    exists r, st_residue s1 = r ++ st_residue s /\ forall m, In m r -> confined m.
Proof.
  intros s sh d x o ab dirt. unfold do_transform.
  pose proof (finish_call_fields errclear_dotransform dotransform_catches s o) as F.
  destruct (finish_call errclear_dotransform dotransform_catches s o) as [s1 z] eqn:E.
  simpl in F. destruct F as (F1 & F2 & F3 & F4 & F5 & F6). simpl.
  repeat split; try assumption.
  eexists. split. rewrite F5. reflexivity.
  intros m Hm. eapply transform_residue_confined; eauto.
Qed.

Lemma parse_then_fields :
  forall s po (k : state -> state * out) (P : state -> state -> Prop),
    (forall a, P a a) ->
    (forall a b, st_params a = st_params b -> st_funcs a = st_funcs b -> st_cs a = st_cs b ->
                 st_ps a = st_ps b -> st_residue a = st_residue b -> st_indent a = st_indent b ->
                 forall c, P b c -> P a c) ->
    (forall s1, P s1 (fst (k s1))) ->
    (forall a b, st_params a = st_params b -> st_funcs a = st_funcs b -> st_cs a = st_cs b ->
                 st_ps a = st_ps b -> st_residue a = st_residue b -> st_indent a = st_indent b -> P a b) ->
    P s (fst (parse_then s po k)).
Proof.
  intros s po k P Hrefl Htrans Hk Heq. unfold parse_then.
  pose proof (finish_call_fields errclear_parse parse_catches s po) as F.
  destruct (finish_call errclear_parse parse_catches s po) as [s1 z] eqn:E.
  simpl in F. destruct F as (F1 & F2 & F3 & F4 & F5 & F6).
  destruct po.
  - eapply Htrans; try (symmetry; eassumption). apply Hk.
  - simpl. apply Heq; symmetry; assumption.
Qed.

(* frame relation between the state before and after one operation, for the residue *)
Definition res_step (a b : state) : Prop :=
  exists r, st_residue b = r ++ st_residue a /\ forall m, In m r -> confined m.

Lemma res_step_refl : forall a, res_step a a.
Proof. intro a. exists []. split; [reflexivity|intros m []]. Qed.

Lemma step_residue : forall s o, res_step s (fst (step s o)).
Proof.
  intros s o.
  assert (Hdt : forall s sh d x oc ab dirt, res_step s (fst (do_transform s sh d x oc ab dirt))).
  { intros. pose proof (do_transform_fields s0 sh d x oc ab dirt) as F. simpl in F.
    destruct F as (_ & _ & _ & _ & _ & r & Hr & Hc). exists r. auto. }
  assert (Hpt : forall s po k, (forall s1, res_step s1 (fst (k s1))) -> res_step s (fst (parse_then s po k))).
  { intros s0 po k Hk. apply parse_then_fields with (P := res_step).
    - apply res_step_refl.
    - intros a b _ _ _ _ Hr _ c [r [Hc Hconf]]. exists r. rewrite Hr. auto.
    - exact Hk.
    - intros a b _ _ _ _ Hr _. exists []. simpl. split; [symmetry; exact Hr|intros m []]. }
  destruct o; simpl.
  - pose proof (finish_call_fields errclear_compile compile_catches s o) as F.
    destruct (finish_call errclear_compile compile_catches s o) as [s1 z]. simpl in *.
    destruct F as (_ & _ & _ & _ & F5 & _). exists []. simpl. split; [exact F5|intros m []].
  - pose proof (finish_call_fields errclear_parse parse_catches s o) as F.
    destruct (finish_call errclear_parse parse_catches s o) as [s1 z]. simpl in *.
    destruct F as (_ & _ & _ & _ & F5 & _). exists []. simpl. split; [exact F5|intros m []].
  - destruct (live (st_cs s) i); [|apply res_step_refl].
    destruct (live (st_ps s) j) as [[d x]|]; [|apply res_step_refl]. apply Hdt.
  - apply Hpt. intros. apply Hdt.
  - destruct (live (st_cs s) i); [|apply res_step_refl]. apply Hpt. intros. apply Hdt.
  - destruct (live (st_ps s) j) as [[d x]|]; [|apply res_step_refl]. apply Hdt.
  - exists []; simpl; split; [reflexivity|intros m []].
  - exists []; simpl; split; [reflexivity|intros m []].
  - exists []; simpl; split; [reflexivity|intros m []].
  - exists []; simpl; split; [reflexivity|intros m []].
  - exists []; simpl; split; [reflexivity|intros m []].
  - destruct (live (st_cs s) i); exists []; simpl; (split; [reflexivity|intros m []]).
  - destruct (live (st_ps s) j); exists []; simpl; (split; [reflexivity|intros m []]).
  - exists []; simpl; split; [reflexivity|intros m []].
Qed.

Lemma run_from_residue :
  forall h s, (forall m, In m (st_residue s) -> confined m) ->
              forall m, In m (st_residue (fst (run_from s h))) -> confined m.
Proof.
  induction h as [|o h IH]; intros s Hs m Hm.
  - simpl in Hm. auto.
  - simpl in Hm. pose proof (step_residue s o) as [r [Hr Hc]].
    destruct (step s o) as [s1 r1] eqn:E. simpl in *.
    destruct (run_from s1 h) as [s2 rs] eqn:E2. simpl in Hm.
    assert (Hs1 : forall m, In m (st_residue s1) -> confined m).
    { intros m' Hm'. rewrite Hr in Hm'. apply in_app_or in Hm'. destruct Hm'; auto. }
    specialize (IH s1 Hs1 m). rewrite E2 in IH. simpl in IH. auto.
Qed.

Lemma residue_confined_run : forall h m, In m (st_residue (run h)) -> confined m.
Proof. intros h m. unfold run. apply run_from_residue. intros m' []. Qed.

Lemma residue_clean_when_rewinds :
  objstack_reset_rewinds = true -> forall h, st_residue (run h) = [].
Proof.
  intros Hr h. destruct (st_residue (run h)) as [|m l] eqn:E; [reflexivity|].
  assert (Hin : In m (st_residue (run h))) by (rewrite E; left; reflexivity).
  apply residue_confined_run in Hin. destruct Hin as [_ Hf]. congruence.
Qed.

(* ------------------------------------------------------------------------------------------ *)
(* run over snoc                                                                               *)

Lemma run_from_app : forall h1 h2 s,
  run_from s (h1 ++ h2) =
  let '(s1, r1) := run_from s h1 in let '(s2, r2) := run_from s1 h2 in (s2, r1 ++ r2).
Proof.
  induction h1 as [|o h1 IH]; intros h2 s; simpl.
  - destruct (run_from s h2); reflexivity.
  - destruct (step s o) as [s1 r]. rewrite IH.
    destruct (run_from s1 h1) as [s2 r2]. destruct (run_from s2 h2) as [s3 r3]. reflexivity.
Qed.

Lemma run_snoc : forall h o, run (h ++ [o]) = fst (step (run h) o).
Proof.
  intros h o. unfold run. rewrite run_from_app.
  destruct (run_from init h) as [s1 r1]. simpl.
  destruct (step s1 o) as [s2 r2]. reflexivity.
Qed.

Lemma run_app : forall h1 h2, run (h1 ++ h2) = fst (run_from (run h1) h2).
Proof.
  intros. unfold run. rewrite run_from_app.
  destruct (run_from init h1) as [s1 r1]. simpl. destruct (run_from s1 h2). reflexivity.
Qed.

(* fields untouched by an operation *)
Definition same_all (a b : state) : Prop :=
  st_params a = st_params b /\ st_funcs a = st_funcs b /\ st_cs a = st_cs b /\
  st_ps a = st_ps b /\ st_indent a = st_indent b.

Lemma same_all_refl : forall a, same_all a a.
Proof. intro a. unfold same_all. auto. Qed.

Lemma step_frame_transform : forall s o, is_transform o = true -> same_all s (fst (step s o)).
Proof.
  intros s o Ht.
  assert (Hdt : forall s sh d x oc ab dirt, same_all s (fst (do_transform s sh d x oc ab dirt))).
  { intros. pose proof (do_transform_fields s0 sh d x oc ab dirt) as F. simpl in F.
    destruct F as (F1 & F2 & F3 & F4 & F5 & _). unfold same_all. auto. }
  assert (Hpt : forall s po k, (forall s1, same_all s1 (fst (k s1))) -> same_all s (fst (parse_then s po k))).
  { intros s0 po k Hk. apply parse_then_fields with (P := same_all).
    - apply same_all_refl.
    - intros a b H1 H2 H3 H4 _ H6 c (C1 & C2 & C3 & C4 & C5). unfold same_all.
      rewrite H1, H2, H3, H4, H6. auto.
    - exact Hk.
    - intros a b H1 H2 H3 H4 _ H6. unfold same_all. auto. }
  destruct o; simpl in Ht; try discriminate; simpl.
  - destruct (live (st_cs s) i); [|apply same_all_refl].
    destruct (live (st_ps s) j) as [[d x]|]; [|apply same_all_refl]. apply Hdt.
  - apply Hpt. intros. apply Hdt.
  - destruct (live (st_cs s) i); [|apply same_all_refl]. apply Hpt. intros. apply Hdt.
  - destruct (live (st_ps s) j) as [[d x]|]; [|apply same_all_refl]. apply Hdt.
Qed.

Lemma step_params : forall s o,
  st_params (fst (step s o)) =
  match o with
  | OSetParamE n v => set_expr n v (st_params s)
  | OSetParamV n v => set_val n v (st_params s)
  | OClearParams => if clear_params_clears_map then [] else st_params s
  | _ => st_params s
  end.
Proof.
  intros s o. pose proof (step_frame_transform s o) as H.
  destruct o; simpl in H; try (destruct (H eq_refl) as (H1 & _); symmetry; exact H1); clear H; simpl; try reflexivity.
  - pose proof (finish_call_fields errclear_compile compile_catches s o) as F.
    destruct (finish_call errclear_compile compile_catches s o). simpl in *. tauto.
  - pose proof (finish_call_fields errclear_parse parse_catches s o) as F.
    destruct (finish_call errclear_parse parse_catches s o). simpl in *. tauto.
  - destruct (live (st_cs s) i); reflexivity.
  - destruct (live (st_ps s) j); reflexivity.
Qed.

Lemma step_funcs : forall s o,
  st_funcs (fst (step s o)) =
  match o with
  | OInstall k => if existsb (Nat.eqb k) (st_funcs s) then st_funcs s else st_funcs s ++ [k]
  | OUninstall k => filter (fun f => negb (Nat.eqb k f)) (st_funcs s)
  | _ => st_funcs s
  end.
Proof.
  intros s o. pose proof (step_frame_transform s o) as H.
  destruct o; simpl in H; try (destruct (H eq_refl) as (_ & H1 & _); symmetry; exact H1); clear H; simpl; try reflexivity.
  - pose proof (finish_call_fields errclear_compile compile_catches s o) as F.
    destruct (finish_call errclear_compile compile_catches s o). simpl in *. tauto.
  - pose proof (finish_call_fields errclear_parse parse_catches s o) as F.
    destruct (finish_call errclear_parse parse_catches s o). simpl in *. tauto.
  - destruct (live (st_cs s) i); reflexivity.
  - destruct (live (st_ps s) j); reflexivity.
Qed.

Lemma step_indent : forall s o,
  st_indent (fst (step s o)) = match o with OSetIndent z => z | _ => st_indent s end.
Proof.
  intros s o. pose proof (step_frame_transform s o) as H.
  destruct o; simpl in H; try (destruct (H eq_refl) as (_ & _ & _ & _ & H1); symmetry; exact H1); clear H; simpl; try reflexivity.
  - pose proof (finish_call_fields errclear_compile compile_catches s o) as F.
    destruct (finish_call errclear_compile compile_catches s o). simpl in *. tauto.
  - pose proof (finish_call_fields errclear_parse parse_catches s o) as F.
    destruct (finish_call errclear_parse parse_catches s o). simpl in *. tauto.
  - destruct (live (st_cs s) i); reflexivity.
  - destruct (live (st_ps s) j); reflexivity.
Qed.

Lemma step_cs : forall s o,
  st_cs (fst (step s o)) =
  match o with
  | OCompile sh oc => st_cs s ++ [match oc with Ok => Some sh | Fail _ _ => None end]
  | ODestroyCS i => match live (st_cs s) i with Some _ => set_nth i None (st_cs s) | None => st_cs s end
  | _ => st_cs s
  end.
Proof.
  intros s o. pose proof (step_frame_transform s o) as H.
  destruct o; simpl in H; try (destruct (H eq_refl) as (_ & _ & H1 & _); symmetry; exact H1); clear H; simpl; try reflexivity.
  - pose proof (finish_call_fields errclear_compile compile_catches s o) as F.
    destruct (finish_call errclear_compile compile_catches s o). simpl in *.
    destruct F as (_ & _ & F3 & _). rewrite F3. reflexivity.
  - pose proof (finish_call_fields errclear_parse parse_catches s o) as F.
    destruct (finish_call errclear_parse parse_catches s o). simpl in *. tauto.
  - destruct (live (st_cs s) i); reflexivity.
  - destruct (live (st_ps s) j); reflexivity.
Qed.

Lemma step_ps : forall s o,
  st_ps (fst (step s o)) =
  match o with
  | OParse d x oc => st_ps s ++ [match oc with Ok => Some (d, x) | Fail _ _ => None end]
  | ODestroyPS j => match live (st_ps s) j with Some _ => set_nth j None (st_ps s) | None => st_ps s end
  | _ => st_ps s
  end.
Proof.
  intros s o. pose proof (step_frame_transform s o) as H.
  destruct o; simpl in H; try (destruct (H eq_refl) as (_ & _ & _ & H1 & _); symmetry; exact H1); clear H; simpl; try reflexivity.
  - pose proof (finish_call_fields errclear_compile compile_catches s o) as F.
    destruct (finish_call errclear_compile compile_catches s o). simpl in *. tauto.
  - pose proof (finish_call_fields errclear_parse parse_catches s o) as F.
    destruct (finish_call errclear_parse parse_catches s o). simpl in *.
    destruct F as (_ & _ & _ & F4 & _). rewrite F4. reflexivity.
  - destruct (live (st_cs s) i); reflexivity.
  - destruct (live (st_ps s) j); reflexivity.
Qed.

(* ------------------------------------------------------------------------------------------ *)
(* parameters                                                                                  *)

Definition empty_holder : holder := {| h_expr := None; h_val := None |}.

Lemma lookup_upsert_same : forall n f ps,
  lookup n (upsert n f ps) = Some (f (match lookup n ps with Some h => h | None => empty_holder end)).
Proof.
  induction ps as [|[m h] t IH]; simpl.
  - rewrite Nat.eqb_refl. reflexivity.
  - destruct (Nat.eqb n m) eqn:E; simpl; rewrite E; auto.
Qed.

Lemma lookup_upsert_other : forall n m f ps, n <> m -> lookup m (upsert n f ps) = lookup m ps.
Proof.
  induction ps as [|[k h] t IH]; intro Hne; simpl.
  - destruct (Nat.eqb m n) eqn:E; [apply Nat.eqb_eq in E; congruence|reflexivity].
  - destruct (Nat.eqb n k) eqn:E; simpl.
    + apply Nat.eqb_eq in E. subst k.
      destruct (Nat.eqb m n) eqn:E2; [apply Nat.eqb_eq in E2; congruence|reflexivity].
    + destruct (Nat.eqb m k); auto.
Qed.

Lemma upsert_keys_in : forall n f ps k, In k (map fst (upsert n f ps)) -> k = n \/ In k (map fst ps).
Proof.
  induction ps as [|[m h] t IH]; simpl; intros k H.
  - destruct H as [H|[]]; auto.
  - destruct (Nat.eqb n m) eqn:E; simpl in H.
    + destruct H; auto.
    + destruct H as [H|H]; auto. destruct (IH k H); auto.
Qed.

Lemma upsert_nodup : forall n f ps, NoDup (map fst ps) -> NoDup (map fst (upsert n f ps)).
Proof.
  induction ps as [|[m h] t IH]; simpl; intro H.
  - constructor; [intros []|constructor].
  - inversion H as [|a l Hnin Hnd]; subst.
    destruct (Nat.eqb n m) eqn:E; simpl.
    + constructor; assumption.
    + constructor; auto. intro Hin. apply upsert_keys_in in Hin. destruct Hin as [Hin|Hin]; auto.
      subst. rewrite Nat.eqb_refl in E. discriminate.
Qed.

Lemma run_params_nodup : forall h, NoDup (map fst (st_params (run h))).
Proof.
  induction h as [|o h IH] using rev_ind.
  - simpl. constructor.
  - rewrite run_snoc, step_params.
    destruct o; auto; try (apply upsert_nodup; auto; fail).
    destruct clear_params_clears_map; auto. constructor.
Qed.

Definition hexpr (ps : list (nat * holder)) (n : nat) : option nat :=
  match lookup n ps with Some h => h_expr h | None => None end.
Definition hval (ps : list (nat * holder)) (n : nat) : option nat :=
  match lookup n ps with Some h => h_val h | None => None end.

(* the code as it is (neither form drops the other): both forms are remembered separately *)
Lemma params_faithful :
  clear_params_clears_map = true -> set_expr_drops_value = false -> set_value_drops_expr = false ->
  forall h n, hexpr (st_params (run h)) n = last_expr (rev h) n /\
              hval (st_params (run h)) n = last_val (rev h) n.
Proof.
  intros Hc He Hv. induction h as [|o h IH] using rev_ind; intro n.
  - simpl. auto.
  - rewrite run_snoc, step_params, rev_unit. specialize (IH n). destruct IH as [IH1 IH2].
    destruct o; simpl; auto; try (rewrite Hc; unfold hexpr, hval; simpl; auto; fail).
    + (* SetE *) unfold hexpr, hval, set_expr. rewrite He.
      destruct (Nat.eqb n n0) eqn:E.
      * apply Nat.eqb_eq in E. subst n0. rewrite lookup_upsert_same. simpl.
        split; [reflexivity|]. unfold hval in IH2. destruct (lookup n (st_params (run h))); auto.
      * assert (n0 <> n) by (intro; subst; rewrite Nat.eqb_refl in E; discriminate).
        rewrite lookup_upsert_other by assumption. auto.
    + (* SetV *) unfold hexpr, hval, set_val. rewrite Hv.
      destruct (Nat.eqb n n0) eqn:E.
      * apply Nat.eqb_eq in E. subst n0. rewrite lookup_upsert_same. simpl.
        split; [|reflexivity]. unfold hexpr in IH1. destruct (lookup n (st_params (run h))); auto.
      * assert (n0 <> n) by (intro; subst; rewrite Nat.eqb_refl in E; discriminate).
        rewrite lookup_upsert_other by assumption. auto.
Qed.

Definition code_visible (rh : list op) (n : nat) : option (bool * nat) :=
  match last_expr rh n with
  | Some e => Some (true, e)
  | None => match last_val rh n with Some v => Some (false, v) | None => None end
  end.

Lemma visible_param_faithful :
  clear_params_clears_map = true -> set_expr_drops_value = false -> set_value_drops_expr = false ->
  forall h n, visible_param (st_params (run h)) n = code_visible (rev h) n.
Proof.
  intros Hc He Hv h n. destruct (params_faithful Hc He Hv h n) as [H1 H2].
  unfold visible_param, code_visible, hexpr, hval, effective in *.
  rewrite <- H1, <- H2. destruct (lookup n (st_params (run h))); reflexivity.
Qed.

Lemma code_visible_is_last_set :
  forall rh n, no_form_switch rh n = true -> code_visible rh n = last_set rh n.
Proof.
  unfold code_visible. induction rh as [|o t IH]; intros n H; simpl in *; auto.
  destruct o; simpl in *; auto.
  - destruct (Nat.eqb n n0); auto.
  - destruct (Nat.eqb n n0); auto. destruct (last_expr t n); [discriminate|reflexivity].
Qed.

(* the repaired code (setting the value form drops the expression form): last set wins *)
Lemma params_last_set_when_value_drops_expr :
  clear_params_clears_map = true -> set_value_drops_expr = true ->
  forall h n, visible_param (st_params (run h)) n = last_set (rev h) n.
Proof.
  intros Hc Hv. induction h as [|o h IH] using rev_ind; intro n.
  - reflexivity.
  - rewrite run_snoc, step_params, rev_unit. specialize (IH n).
    destruct o; simpl; auto; try (rewrite Hc; reflexivity).
    + unfold visible_param, set_expr. destruct (Nat.eqb n n0) eqn:E.
      * apply Nat.eqb_eq in E. subst n0. rewrite lookup_upsert_same. reflexivity.
      * assert (n0 <> n) by (intro; subst; rewrite Nat.eqb_refl in E; discriminate).
        rewrite lookup_upsert_other by assumption. exact IH.
    + unfold visible_param, set_val. rewrite Hv. destruct (Nat.eqb n n0) eqn:E.
      * apply Nat.eqb_eq in E. subst n0. rewrite lookup_upsert_same. reflexivity.
      * assert (n0 <> n) by (intro; subst; rewrite Nat.eqb_refl in E; discriminate).
        rewrite lookup_upsert_other by assumption. exact IH.
Qed.

(* the key handed to the transformation lists exactly the visible parameters *)
Lemma find_params_key_none : forall ps n, ~ In n (map fst ps) ->
  find (fun p : nat * (bool * nat) => Nat.eqb n (fst p)) (params_key ps) = None.
Proof.
  induction ps as [|[m h] t IH]; simpl; intros n H; auto.
  unfold params_key in *. simpl.
  assert (Hm : Nat.eqb n m = false) by (apply Nat.eqb_neq; intro; subst; apply H; left; reflexivity).
  destruct (effective h); simpl; [rewrite Hm|]; apply IH; intro; apply H; right; assumption.
Qed.

Lemma key_params_lookup_visible : forall s sh d x n,
  NoDup (map fst (st_params s)) ->
  key_params_lookup (key_of s sh d x) n = visible_param (st_params s) n.
Proof.
  intros s sh d x n. unfold key_params_lookup, key_of, visible_param. simpl.
  generalize (st_params s). induction l as [|[m h] t IH]; intro Hnd; simpl; auto.
  inversion Hnd as [|a l Hnin Hnd']; subst. unfold params_key in *. simpl.
  destruct (Nat.eqb n m) eqn:E.
  - apply Nat.eqb_eq in E. subst m. destruct (effective h) eqn:Ef; simpl.
    + rewrite Nat.eqb_refl. reflexivity.
    + pose proof (find_params_key_none t n Hnin) as Hf. unfold params_key in Hf. rewrite Hf. reflexivity.
  - destruct (effective h); simpl; [rewrite E|]; apply IH; assumption.
Qed.

(* ------------------------------------------------------------------------------------------ *)
(* installed functions, indent                                                                 *)

Lemma existsb_filter_neq : forall k k' fs,
  existsb (Nat.eqb k) (filter (fun f => negb (Nat.eqb k' f)) fs) =
  if Nat.eqb k k' then false else existsb (Nat.eqb k) fs.
Proof.
  induction fs as [|a t IH]; simpl.
  - destruct (Nat.eqb k k'); reflexivity.
  - destruct (Nat.eqb k' a) eqn:E1; simpl.
    + rewrite IH. apply Nat.eqb_eq in E1. subst a.
      destruct (Nat.eqb k k') eqn:E2; reflexivity.
    + rewrite IH. destruct (Nat.eqb k k') eqn:E2; [|reflexivity].
      apply Nat.eqb_eq in E2. subst k'. rewrite E1. reflexivity.
Qed.

Lemma funcs_spec_ok : forall h k, existsb (Nat.eqb k) (st_funcs (run h)) = installed_spec (rev h) k.
Proof.
  induction h as [|o h IH] using rev_ind; intro k.
  - reflexivity.
  - rewrite run_snoc, step_funcs, rev_unit. specialize (IH k). destruct o; simpl; auto.
    + destruct (existsb (Nat.eqb k0) (st_funcs (run h))) eqn:E.
      * destruct (Nat.eqb k k0) eqn:E2; auto. apply Nat.eqb_eq in E2. subst. exact E.
      * rewrite existsb_app. simpl. rewrite orb_false_r. rewrite IH.
        destruct (Nat.eqb k k0); [apply orb_true_r|apply orb_false_r].
    + rewrite existsb_filter_neq. rewrite IH. reflexivity.
Qed.

Lemma indent_spec_ok : forall h, st_indent (run h) = indent_spec (rev h).
Proof.
  induction h as [|o h IH] using rev_ind.
  - reflexivity.
  - rewrite run_snoc, step_indent, rev_unit. destruct o; simpl; auto.
Qed.

(* ------------------------------------------------------------------------------------------ *)
(* backward scans in a composable form                                                         *)

Fixpoint scan {A} (f : op -> option (option A)) (rh : list op) : option (option A) :=
  match rh with
  | [] => None
  | o :: t => match f o with Some r => Some r | None => scan f t end
  end.

Definition dflt {A} (x : option (option A)) : option A := match x with Some r => r | None => None end.

Lemma scan_app : forall A (f : op -> option (option A)) l1 l2,
  scan f (l1 ++ l2) = match scan f l1 with Some r => Some r | None => scan f l2 end.
Proof. induction l1 as [|o t IH]; intro l2; simpl; auto. destruct (f o); auto. Qed.

Lemma scan_undecided : forall A (f : op -> option (option A)) l,
  (forall o, In o l -> f o = None) -> scan f l = None.
Proof.
  induction l as [|o t IH]; intro H; simpl; auto.
  rewrite (H o (or_introl eq_refl)). apply IH. intros. apply H. right; assumption.
Qed.

Definition f_set (n : nat) (o : op) : option (option (bool * nat)) :=
  match o with
  | OClearParams => Some None
  | OSetParamE m v => if Nat.eqb n m then Some (Some (true, v)) else None
  | OSetParamV m v => if Nat.eqb n m then Some (Some (false, v)) else None
  | _ => None
  end.
Definition f_expr (n : nat) (o : op) : option (option nat) :=
  match o with
  | OClearParams => Some None
  | OSetParamE m v => if Nat.eqb n m then Some (Some v) else None
  | _ => None
  end.
Definition f_val (n : nat) (o : op) : option (option nat) :=
  match o with
  | OClearParams => Some None
  | OSetParamV m v => if Nat.eqb n m then Some (Some v) else None
  | _ => None
  end.
Definition f_fun (k : nat) (o : op) : option (option unit) :=
  match o with
  | OInstall m => if Nat.eqb k m then Some (Some tt) else None
  | OUninstall m => if Nat.eqb k m then Some None else None
  | _ => None
  end.
Definition f_ind (o : op) : option (option Z) :=
  match o with OSetIndent z => Some (Some z) | _ => None end.

Lemma last_set_scan : forall rh n, last_set rh n = dflt (scan (f_set n) rh).
Proof. induction rh as [|o t IH]; intro n; simpl; auto. destruct o; simpl; auto; destruct (Nat.eqb n n0); simpl; auto. Qed.
Lemma last_expr_scan : forall rh n, last_expr rh n = dflt (scan (f_expr n) rh).
Proof. induction rh as [|o t IH]; intro n; simpl; auto. destruct o; simpl; auto; destruct (Nat.eqb n n0); simpl; auto. Qed.
Lemma last_val_scan : forall rh n, last_val rh n = dflt (scan (f_val n) rh).
Proof. induction rh as [|o t IH]; intro n; simpl; auto. destruct o; simpl; auto; destruct (Nat.eqb n n0); simpl; auto. Qed.
Lemma installed_scan : forall rh k,
  installed_spec rh k = match dflt (scan (f_fun k) rh) with Some _ => true | None => false end.
Proof. induction rh as [|o t IH]; intro k; simpl; auto. destruct o; simpl; auto; destruct (Nat.eqb k k0); simpl; auto. Qed.
Lemma indent_scan : forall rh, indent_spec rh = match dflt (scan f_ind rh) with Some z => z | None => (-1)%Z end.
Proof. induction rh as [|o t IH]; simpl; auto. destruct o; simpl; auto. Qed.

(* a set-up list built from distinct names: scanning it for name n only sees n's own entry *)
Lemma scan_rev_flat_map :
  forall A (f : nat -> op -> option (option A)) (g : nat -> list op) n,
    (forall a o, n <> a -> In o (g a) -> f n o = None) ->
    forall l, NoDup l ->
      scan (f n) (rev (flat_map g l)) = if in_dec Nat.eq_dec n l then scan (f n) (rev (g n)) else None.
Proof.
  intros A f g n Hsep. induction l as [|a l IH]; intros Hnd.
  - reflexivity.
  - inversion Hnd as [|a' l' Hnin Hnd']; subst. simpl flat_map. rewrite rev_app_distr, scan_app.
    rewrite (IH Hnd').
    destruct (in_dec Nat.eq_dec n l) as [Hin|Hnin'].
    + destruct (in_dec Nat.eq_dec n (a :: l)) as [_|Hc]; [|exfalso; apply Hc; right; assumption].
      assert (n <> a) by (intro; subst; contradiction).
      destruct (scan (f n) (rev (g n))); auto.
      apply scan_undecided. intros o Ho. apply in_rev in Ho. eapply Hsep; eauto.
    + destruct (Nat.eq_dec n a) as [->|Hne].
      * destruct (in_dec Nat.eq_dec a (a :: l)) as [_|Hc]; [reflexivity|exfalso; apply Hc; left; reflexivity].
      * destruct (in_dec Nat.eq_dec n (a :: l)) as [[Hc|Hc]|_]; [congruence|contradiction|].
        apply scan_undecided. intros o Ho. apply in_rev in Ho. eapply Hsep; eauto.
Qed.

(* names and functions mentioned *)
Lemma names_of_app : forall l1 l2, names_of (l1 ++ l2) = names_of l1 ++ names_of l2.
Proof. induction l1 as [|o t IH]; intro l2; simpl; auto. destruct o; simpl; rewrite ?IH; auto. Qed.
Lemma funcs_of_app : forall l1 l2, funcs_of (l1 ++ l2) = funcs_of l1 ++ funcs_of l2.
Proof. induction l1 as [|o t IH]; intro l2; simpl; auto. destruct o; simpl; rewrite ?IH; auto. Qed.

Lemma names_of_rev_in : forall h n, In n (names_of (rev h)) -> In n (names_of h).
Proof.
  induction h as [|o t IH]; intros n H; simpl in *; auto.
  rewrite names_of_app in H. apply in_app_or in H. destruct H as [H|H].
  - apply IH in H. destruct o; simpl; auto.
  - destruct o; simpl in *; tauto.
Qed.
Lemma funcs_of_rev_in : forall h n, In n (funcs_of (rev h)) -> In n (funcs_of h).
Proof.
  induction h as [|o t IH]; intros n H; simpl in *; auto.
  rewrite funcs_of_app in H. apply in_app_or in H. destruct H as [H|H].
  - apply IH in H. destruct o; simpl; auto.
  - destruct o; simpl in *; tauto.
Qed.

Lemma scan_set_decided_named : forall A (f : nat -> op -> option (option A)) rh n r,
  (forall o, f n o <> None -> o = OClearParams \/ exists v, o = OSetParamE n v \/ o = OSetParamV n v) ->
  scan (f n) rh = Some (Some r) -> (forall o, o = OClearParams -> f n o = Some None) -> In n (names_of rh).
Proof.
  intros A f rh n r Hf. induction rh as [|o t IH]; simpl; intros H Hc; [discriminate|].
  destruct (f n o) eqn:E.
  - assert (E' : f n o <> None) by congruence. destruct (Hf o E') as [->|[v [->| ->]]].
    + rewrite (Hc _ eq_refl) in E. congruence.
    + simpl. auto.
    + simpl. auto.
  - specialize (IH H Hc). destruct o; simpl; auto.
Qed.

Lemma last_set_named : forall rh n r, last_set rh n = Some r -> In n (names_of rh).
Proof.
  induction rh as [|o t IH]; simpl; intros n r H; [discriminate|].
  destruct o; simpl; eauto; try discriminate; destruct (Nat.eqb n n0) eqn:E; eauto;
    apply Nat.eqb_eq in E; subst; auto.
Qed.
Lemma last_expr_named : forall rh n r, last_expr rh n = Some r -> In n (names_of rh).
Proof.
  induction rh as [|o t IH]; simpl; intros n r H; [discriminate|].
  destruct o; simpl; eauto; try discriminate. destruct (Nat.eqb n n0) eqn:E; eauto.
  apply Nat.eqb_eq in E; subst; auto.
Qed.
Lemma last_val_named : forall rh n r, last_val rh n = Some r -> In n (names_of rh).
Proof.
  induction rh as [|o t IH]; simpl; intros n r H; [discriminate|].
  destruct o; simpl; eauto; try discriminate. destruct (Nat.eqb n n0) eqn:E; eauto.
  apply Nat.eqb_eq in E; subst; auto.
Qed.
Lemma installed_named : forall rh k, installed_spec rh k = true -> In k (funcs_of rh).
Proof.
  induction rh as [|o t IH]; simpl; intros k H; [discriminate|].
  destruct o; simpl; eauto; destruct (Nat.eqb k k0) eqn:E; eauto; try discriminate;
    apply Nat.eqb_eq in E; subst; auto.
Qed.

(* ------------------------------------------------------------------------------------------ *)
(* the set-up given to a NEW transformer carries exactly the documented current settings       *)

Definition gp (rh : list op) (n : nat) : list op :=
  match last_set rh n with
  | Some (true, v) => [OSetParamE n v]
  | Some (false, v) => [OSetParamV n v]
  | None => []
  end.
Definition gf (rh : list op) (k : nat) : list op := if installed_spec rh k then [OInstall k] else [].

Lemma fresh_setup_shape : forall h,
  rev (fresh_setup h) =
  (OSetIndent (indent_spec (rev h)) :: rev (flat_map (gf (rev h)) (nodup Nat.eq_dec (funcs_of h))))
  ++ rev (flat_map (gp (rev h)) (nodup Nat.eq_dec (names_of h))).
Proof.
  intro h. unfold fresh_setup. rewrite rev_app_distr. rewrite rev_app_distr. simpl. reflexivity.
Qed.

Lemma gp_ops : forall rh a o, In o (gp rh a) -> exists v, o = OSetParamE a v \/ o = OSetParamV a v.
Proof.
  intros rh a o H. unfold gp in H. destruct (last_set rh a) as [[[|] v]|]; simpl in H;
    try (destruct H as [H|[]]; subst; eauto); contradiction.
Qed.
Lemma gf_ops : forall rh a o, In o (gf rh a) -> o = OInstall a.
Proof. intros rh a o H. unfold gf in H. destruct (installed_spec rh a); simpl in H; [destruct H as [H|[]]; auto|contradiction]. Qed.

Lemma scan_param_fresh : forall A (f : nat -> op -> option (option A)) h n,
  (forall o, (forall m v, o <> OSetParamE m v) -> (forall m v, o <> OSetParamV m v) -> o <> OClearParams -> f n o = None) ->
  (forall a v, n <> a -> f n (OSetParamE a v) = None /\ f n (OSetParamV a v) = None) ->
  scan (f n) (rev (fresh_setup h)) =
  if in_dec Nat.eq_dec n (nodup Nat.eq_dec (names_of h)) then scan (f n) (rev (gp (rev h) n)) else None.
Proof.
  intros A f h n Hother Hsep. rewrite fresh_setup_shape, scan_app.
  assert (H1 : scan (f n) (OSetIndent (indent_spec (rev h)) :: rev (flat_map (gf (rev h)) (nodup Nat.eq_dec (funcs_of h)))) = None).
  { apply scan_undecided. intros o [Ho|Ho].
    - subst. apply Hother; congruence.
    - apply in_rev in Ho. apply in_flat_map in Ho. destruct Ho as [a [_ Ho]]. apply gf_ops in Ho. subst.
      apply Hother; congruence. }
  rewrite H1. apply scan_rev_flat_map with (f := f) (g := gp (rev h)).
  - intros a o Hne Ho. apply gp_ops in Ho. destruct Ho as [v [->| ->]]; apply Hsep; auto.
  - apply NoDup_nodup.
Qed.

Lemma not_named_none : forall h n, ~ In n (nodup Nat.eq_dec (names_of h)) -> last_set (rev h) n = None.
Proof.
  intros h n H. destruct (last_set (rev h) n) eqn:E; auto. exfalso. apply H. apply nodup_In.
  apply names_of_rev_in. eapply last_set_named; eauto.
Qed.

Lemma fresh_last_set : forall h n, last_set (rev (fresh_setup h)) n = last_set (rev h) n.
Proof.
  intros h n. rewrite last_set_scan. rewrite (scan_param_fresh _ f_set).
  - destruct (in_dec Nat.eq_dec n (nodup Nat.eq_dec (names_of h))) as [Hin|Hnin].
    + unfold gp. destruct (last_set (rev h) n) as [[[|] v]|]; simpl; rewrite ?Nat.eqb_refl; reflexivity.
    + simpl. symmetry. apply not_named_none; assumption.
  - intros o H1 H2 H3. destruct o; simpl; auto; [exfalso; eapply H1|exfalso; eapply H2|congruence]; reflexivity.
  - intros a v Hne. simpl. assert (E : Nat.eqb n a = false) by (apply Nat.eqb_neq; assumption). rewrite E. auto.
Qed.

Lemma fresh_last_expr : forall h n,
  last_expr (rev (fresh_setup h)) n = match last_set (rev h) n with Some (true, v) => Some v | _ => None end.
Proof.
  intros h n. rewrite last_expr_scan. rewrite (scan_param_fresh _ f_expr).
  - destruct (in_dec Nat.eq_dec n (nodup Nat.eq_dec (names_of h))) as [Hin|Hnin].
    + unfold gp. destruct (last_set (rev h) n) as [[[|] v]|]; simpl; rewrite ?Nat.eqb_refl; reflexivity.
    + simpl. rewrite (not_named_none _ _ Hnin). reflexivity.
  - intros o H1 H2 H3. destruct o; simpl; auto; [exfalso; eapply H1|congruence]; reflexivity.
  - intros a v Hne. simpl. assert (E : Nat.eqb n a = false) by (apply Nat.eqb_neq; assumption). rewrite E. auto.
Qed.

Lemma fresh_last_val : forall h n,
  last_val (rev (fresh_setup h)) n = match last_set (rev h) n with Some (false, v) => Some v | _ => None end.
Proof.
  intros h n. rewrite last_val_scan. rewrite (scan_param_fresh _ f_val).
  - destruct (in_dec Nat.eq_dec n (nodup Nat.eq_dec (names_of h))) as [Hin|Hnin].
    + unfold gp. destruct (last_set (rev h) n) as [[[|] v]|]; simpl; rewrite ?Nat.eqb_refl; reflexivity.
    + simpl. rewrite (not_named_none _ _ Hnin). reflexivity.
  - intros o H1 H2 H3. destruct o; simpl; auto; [exfalso; eapply H2|congruence]; reflexivity.
  - intros a v Hne. simpl. assert (E : Nat.eqb n a = false) by (apply Nat.eqb_neq; assumption). rewrite E. auto.
Qed.

Lemma fresh_installed : forall h k, installed_spec (rev (fresh_setup h)) k = installed_spec (rev h) k.
Proof.
  intros h k. rewrite installed_scan, fresh_setup_shape.
  change (OSetIndent (indent_spec (rev h)) :: rev (flat_map (gf (rev h)) (nodup Nat.eq_dec (funcs_of h))))
    with ([OSetIndent (indent_spec (rev h))] ++ rev (flat_map (gf (rev h)) (nodup Nat.eq_dec (funcs_of h)))).
  rewrite <- app_assoc. rewrite scan_app. simpl scan at 1. rewrite scan_app.
  rewrite (scan_rev_flat_map _ f_fun (gf (rev h))).
  - destruct (in_dec Nat.eq_dec k (nodup Nat.eq_dec (funcs_of h))) as [Hin|Hnin].
    + unfold gf. destruct (installed_spec (rev h) k) eqn:E; simpl.
      * rewrite Nat.eqb_refl. reflexivity.
      * rewrite scan_undecided; [reflexivity|].
        intros o Ho. apply in_rev in Ho. apply in_flat_map in Ho. destruct Ho as [a [_ Ho]].
        apply gp_ops in Ho. destruct Ho as [v [->| ->]]; reflexivity.
    + rewrite scan_undecided.
      * simpl. destruct (installed_spec (rev h) k) eqn:E; auto. exfalso. apply Hnin. apply nodup_In.
        apply funcs_of_rev_in. apply installed_named. assumption.
      * intros o Ho. apply in_rev in Ho. apply in_flat_map in Ho. destruct Ho as [a [_ Ho]].
        apply gp_ops in Ho. destruct Ho as [v [->| ->]]; reflexivity.
  - intros a o Hne Ho. apply gf_ops in Ho. subst. simpl.
    assert (E : Nat.eqb k a = false) by (apply Nat.eqb_neq; assumption). rewrite E. reflexivity.
  - apply NoDup_nodup.
Qed.

Lemma fresh_indent : forall h, indent_spec (rev (fresh_setup h)) = indent_spec (rev h).
Proof. intro h. rewrite fresh_setup_shape. reflexivity. Qed.

Definition params_code_ok : Prop :=
  clear_params_clears_map = true /\
  (set_value_drops_expr = true \/ (set_expr_drops_value = false /\ set_value_drops_expr = false)).

Definition params_hyp (h : list op) : Prop :=
  clear_params_clears_map = true /\
  (set_value_drops_expr = true \/
   (set_expr_drops_value = false /\ set_value_drops_expr = false /\ forall n, no_form_switch (rev h) n = true)).

Lemma visible_is_last_set : forall h, params_hyp h ->
  forall n, visible_param (st_params (run h)) n = last_set (rev h) n.
Proof.
  intros h [Hc [Hv|(He & Hv & Hg)]] n.
  - apply params_last_set_when_value_drops_expr; assumption.
  - rewrite visible_param_faithful by assumption. apply code_visible_is_last_set. apply Hg.
Qed.

Lemma fresh_visible : params_code_ok ->
  forall h n, visible_param (st_params (run (fresh_setup h))) n = last_set (rev h) n.
Proof.
  intros [Hc [Hv|(He & Hv)]] h n.
  - rewrite params_last_set_when_value_drops_expr by assumption. apply fresh_last_set.
  - rewrite visible_param_faithful by assumption. unfold code_visible.
    rewrite fresh_last_expr, fresh_last_val.
    destruct (last_set (rev h) n) as [[[|] v]|]; reflexivity.
Qed.

Lemma history_independence_keys : forall h, params_hyp h ->
  forall sh d x,
    let k1 := key_of (run h) sh d x in
    let k2 := key_of (run (fresh_setup h)) sh d x in
    k_sheet k1 = k_sheet k2 /\ k_src k1 = k_src k2 /\ k_xerces k1 = k_xerces k2 /\
    (forall n, key_params_lookup k1 n = key_params_lookup k2 n) /\
    (forall f, existsb (Nat.eqb f) (k_funcs k1) = existsb (Nat.eqb f) (k_funcs k2)) /\
    k_indent k1 = k_indent k2.
Proof.
  intros h Hp sh d x. simpl. repeat split.
  - intro n. rewrite !key_params_lookup_visible by apply run_params_nodup.
    rewrite (visible_is_last_set h Hp). symmetry. apply fresh_visible.
    destruct Hp as [Hc [Hv|(He & Hv & _)]]; split; auto.
  - intro f. rewrite !funcs_spec_ok. symmetry. apply fresh_installed.
  - rewrite !indent_spec_ok. symmetry. apply fresh_indent.
Qed.

(* the key of the library call made by a transformation operation *)
Lemma key_of_same : forall a b sh d x,
  st_params a = st_params b -> st_funcs a = st_funcs b -> st_indent a = st_indent b ->
  key_of a sh d x = key_of b sh d x.
Proof. intros a b sh d x H1 H2 H3. unfold key_of. rewrite H1, H2, H3. reflexivity. Qed.

Lemma do_transform_out : forall s sh d x o ab dirt,
  exists z e, snd (do_transform s sh d x o ab dirt) = OutTrans (Some (key_of s sh d x)) z e.
Proof.
  intros. unfold do_transform.
  destruct (finish_call errclear_dotransform dotransform_catches s o) as [s1 z]. simpl. eauto.
Qed.

Lemma trans_out_key : forall s o k z e,
  is_transform o = true -> snd (step s o) = OutTrans (Some k) z e -> key_in s o = Some k.
Proof.
  intros s o k z e Ht H.
  assert (Hpt : forall po sh d, snd (parse_then s po (fun s1 => do_transform s1 sh d false
                                   match o with OTransSS _ _ _ oc _ _ | OTransHS _ _ _ oc _ _ => oc | _ => Ok end
                                   match o with OTransSS _ _ _ _ ab _ | OTransHS _ _ _ _ ab _ => ab | _ => 0 end
                                   match o with OTransSS _ _ _ _ _ dd | OTransHS _ _ _ _ _ dd => dd | _ => [] end))
                          = OutTrans (Some k) z e -> po = Ok /\ k = key_of s sh d false).
  { intros po sh d. unfold parse_then.
    pose proof (finish_call_fields errclear_parse parse_catches s po) as F.
    destruct (finish_call errclear_parse parse_catches s po) as [s1 z1]. simpl in F.
    destruct F as (F1 & F2 & _ & _ & _ & F6).
    destruct po; simpl; intro Hk; [|discriminate].
    match type of Hk with snd (do_transform ?a ?b ?c ?dd ?ee ?ff ?gg) = _ =>
      destruct (do_transform_out a b c dd ee ff gg) as [z' [e' Ho]] end.
    rewrite Ho in Hk. inversion Hk. split; [reflexivity|]. apply key_of_same; auto. }
  destruct o; simpl in Ht; try discriminate; simpl in *.
  - destruct (live (st_cs s) i); [|discriminate].
    destruct (live (st_ps s) j) as [[d x]|]; [|discriminate].
    destruct (do_transform_out s n d x o abort dirt) as [z' [e' Ho]]. rewrite Ho in H. inversion H. reflexivity.
  - destruct (Hpt po s0 d H) as [-> ->]. reflexivity.
  - destruct (live (st_cs s) i); [|discriminate].
    destruct (Hpt po n d H) as [-> ->]. reflexivity.
  - destruct (live (st_ps s) j) as [[d x]|]; [|discriminate].
    destruct (do_transform_out s s0 d x o abort dirt) as [z' [e' Ho]]. rewrite Ho in H. inversion H. reflexivity.
Qed.

(* ------------------------------------------------------------------------------------------ *)
(* owned objects                                                                               *)

Lemma nth_error_set_nth_other : forall A (l : list A) i j v, i <> j -> nth_error (set_nth i v l) j = nth_error l j.
Proof.
  induction l as [|a t IH]; intros i j v H.
  - destruct i; reflexivity.
  - destruct i, j; simpl; auto; try congruence.
Qed.

Lemma nth_error_set_nth_same : forall A (l : list A) i v, i < List.length l -> nth_error (set_nth i v l) i = Some v.
Proof.
  induction l as [|a t IH]; intros i v H; simpl in *; [lia|].
  destruct i; simpl; auto. apply IH. lia.
Qed.

Lemma live_some_lt : forall A (l : list (option A)) i a, live l i = Some a -> i < List.length l.
Proof.
  intros A l i a H. unfold live in H. destruct (nth_error l i) eqn:E; [|discriminate].
  apply nth_error_Some. congruence.
Qed.

Lemma live_app : forall A (l : list (option A)) x i a, live l i = Some a -> live (l ++ [x]) i = Some a.
Proof.
  intros A l x i a H. pose proof (live_some_lt _ _ _ _ H). unfold live in *.
  rewrite nth_error_app1 by assumption. exact H.
Qed.

Lemma step_keeps_cs : forall s o i sh,
  live (st_cs s) i = Some sh -> destroys_cs i o = false -> live (st_cs (fst (step s o))) i = Some sh.
Proof.
  intros s o i sh H Hd. rewrite step_cs. destruct o; auto.
  - apply live_app. assumption.
  - simpl in Hd. destruct (live (st_cs s) i0); auto.
    unfold live. rewrite nth_error_set_nth_other; [exact H|].
    intro; subst. rewrite Nat.eqb_refl in Hd. discriminate.
Qed.

Lemma step_keeps_ps : forall s o j v,
  live (st_ps s) j = Some v -> destroys_ps j o = false -> live (st_ps (fst (step s o))) j = Some v.
Proof.
  intros s o j v H Hd. rewrite step_ps. destruct o; auto.
  - apply live_app. assumption.
  - simpl in Hd. destruct (live (st_ps s) j0); auto.
    unfold live. rewrite nth_error_set_nth_other; [exact H|].
    intro; subst. rewrite Nat.eqb_refl in Hd. discriminate.
Qed.

Lemma handle_stable_cs : forall h s i sh,
  live (st_cs s) i = Some sh -> forallb (fun o => negb (destroys_cs i o)) h = true ->
  live (st_cs (fst (run_from s h))) i = Some sh.
Proof.
  induction h as [|o h IH]; intros s i sh H Hall; simpl in *; auto.
  apply andb_true_iff in Hall. destruct Hall as [H1 H2]. apply negb_true_iff in H1.
  pose proof (step_keeps_cs s o i sh H H1) as Hk.
  destruct (step s o) as [s1 r]. simpl in Hk.
  specialize (IH s1 i sh Hk H2). destruct (run_from s1 h). exact IH.
Qed.

Lemma handle_stable_ps : forall h s j v,
  live (st_ps s) j = Some v -> forallb (fun o => negb (destroys_ps j o)) h = true ->
  live (st_ps (fst (run_from s h))) j = Some v.
Proof.
  induction h as [|o h IH]; intros s j v H Hall; simpl in *; auto.
  apply andb_true_iff in Hall. destruct Hall as [H1 H2]. apply negb_true_iff in H1.
  pose proof (step_keeps_ps s o j v H H1) as Hk.
  destruct (step s o) as [s1 r]. simpl in Hk.
  specialize (IH s1 j v Hk H2). destruct (run_from s1 h). exact IH.
Qed.

Lemma destroy_cs_frame : forall s i sh, live (st_cs s) i = Some sh ->
  let s' := fst (step s (ODestroyCS i)) in
  live (st_cs s') i = None /\ (forall j, j <> i -> nth_error (st_cs s') j = nth_error (st_cs s) j) /\
  st_ps s' = st_ps s /\ st_params s' = st_params s /\ st_funcs s' = st_funcs s /\
  st_residue s' = st_residue s /\ st_indent s' = st_indent s.
Proof.
  intros s i sh H. simpl. rewrite H. simpl. repeat split; auto.
  - unfold live. rewrite nth_error_set_nth_same; [reflexivity|]. eapply live_some_lt; eauto.
  - intros j Hj. apply nth_error_set_nth_other. auto.
Qed.

Lemma destroy_ps_frame : forall s j v, live (st_ps s) j = Some v ->
  let s' := fst (step s (ODestroyPS j)) in
  live (st_ps s') j = None /\ (forall i, i <> j -> nth_error (st_ps s') i = nth_error (st_ps s) i) /\
  st_cs s' = st_cs s /\ st_params s' = st_params s /\ st_funcs s' = st_funcs s /\
  st_residue s' = st_residue s /\ st_indent s' = st_indent s.
Proof.
  intros s j v H. simpl. rewrite H. simpl. repeat split; auto.
  - unfold live. rewrite nth_error_set_nth_same; [reflexivity|]. eapply live_some_lt; eauto.
  - intros i Hi. apply nth_error_set_nth_other. auto.
Qed.

(* ------------------------------------------------------------------------------------------ *)
(* the error message buffer                                                                    *)

Definition nonzero (m : list nat) : Prop := Forall (fun c => c <> 0) m.

Definition eb_wf (e : errbuf) : Prop :=
  exists m rest, eb_store e = m ++ 0 :: rest /\ nonzero m /\ (eb_size e = 1 \/ eb_size e = S (List.length m)).

Lemma cstr_app_zero : forall m rest, nonzero m -> cstr (m ++ 0 :: rest) = m.
Proof.
  induction m as [|c t IH]; intros rest H; simpl; auto.
  inversion H; subst. destruct c; [congruence|]. rewrite IH; auto.
Qed.

Lemma eb_init_wf : eb_wf eb_init.
Proof. exists [], []. simpl. repeat split; auto. constructor. Qed.

Lemma eb_set_wf : forall m, nonzero m -> eb_wf (eb_set m) /\ last_error (eb_set m) = m.
Proof.
  intros m H. split.
  - exists m, []. simpl. auto.
  - unfold last_error, eb_set. simpl. apply cstr_app_zero. assumption.
Qed.

Lemma eb_clear_push_ok : forall e, eb_wf (eb_clear_push e) /\ last_error (eb_clear_push e) = [].
Proof.
  intro e. split.
  - exists [], (tl (eb_store e)). simpl. repeat split; auto. constructor.
  - reflexivity.
Qed.

(* resize(1, '\0') on a well-formed buffer never changes what getLastError() reads *)
Lemma eb_resize1_keeps : forall e, eb_wf e -> eb_wf (eb_resize1 e) /\ last_error (eb_resize1 e) = last_error e.
Proof.
  intros e (m & rest & Hs & Hn & Hz). unfold eb_resize1.
  destruct (eb_size e) as [|[|k]] eqn:E.
  - destruct Hz as [Hz|Hz]; discriminate.
  - split; [exists m, rest; rewrite E; auto|reflexivity].
  - split; [exists m, rest; simpl; auto|reflexivity].
Qed.

Lemma eb_apply_wf : forall i e, eb_wf e -> eb_wf (eb_apply i e).
Proof.
  intros i e H. destruct i; simpl; auto.
  - apply eb_clear_push_ok.
  - apply eb_resize1_keeps; assumption.
Qed.

Lemma eb_apply_last : forall i e, eb_wf e ->
  last_error (eb_apply i e) = match i with ErrClearPush => [] | _ => last_error e end.
Proof.
  intros i e H. destruct i; simpl; auto. apply eb_resize1_keeps; assumption.
Qed.

Definition outcome_ok (o : outcome) : Prop := match o with Ok => True | Fail _ m => nonzero m end.

Definition op_msgs_ok (o : op) : Prop :=
  match o with
  | OCompile _ oc | OParse _ _ oc | OTransHH _ _ oc _ _ | OTransSH _ _ oc _ _ => outcome_ok oc
  | OTransSS _ _ po oc _ _ | OTransHS _ _ po oc _ _ => outcome_ok po /\ outcome_ok oc
  | _ => True
  end.

Lemma finish_call_err : forall i tab s o, eb_wf (st_err s) -> outcome_ok o ->
  let s1 := fst (finish_call i tab s o) in
  eb_wf (st_err s1) /\
  (o = Ok -> last_error (st_err s1) = match i with ErrClearPush => [] | _ => last_error (st_err s) end).
Proof.
  intros i tab s o Hw Ho. unfold finish_call. destruct o as [|e m]; simpl.
  - split; [apply eb_apply_wf; assumption|intros _; apply eb_apply_last; assumption].
  - destruct (status_of tab e); simpl.
    + split; [apply eb_set_wf; assumption|discriminate].
    + split; [apply eb_apply_wf; assumption|discriminate].
Qed.

Lemma do_transform_err : forall s sh d x o ab dirt, eb_wf (st_err s) -> outcome_ok o ->
  eb_wf (st_err (fst (do_transform s sh d x o ab dirt))).
Proof.
  intros. unfold do_transform.
  pose proof (finish_call_err errclear_dotransform dotransform_catches s o H H0) as [F _].
  destruct (finish_call errclear_dotransform dotransform_catches s o). simpl in *. assumption.
Qed.

Lemma step_err_wf : forall s o, eb_wf (st_err s) -> op_msgs_ok o -> eb_wf (st_err (fst (step s o))).
Proof.
  intros s o Hw Hm.
  assert (Hpt : forall s po k, eb_wf (st_err s) -> outcome_ok po ->
            (forall s1, eb_wf (st_err s1) -> eb_wf (st_err (fst (k s1)))) -> eb_wf (st_err (fst (parse_then s po k)))).
  { intros s0 po k Hw0 Hpo Hk. unfold parse_then.
    pose proof (finish_call_err errclear_parse parse_catches s0 po Hw0 Hpo) as [F _].
    destruct (finish_call errclear_parse parse_catches s0 po) as [s1 z]. simpl in F.
    destruct po; simpl; auto. }
  destruct o; simpl in *; auto.
  - pose proof (finish_call_err errclear_compile compile_catches s o Hw Hm) as [F _].
    destruct (finish_call errclear_compile compile_catches s o). simpl in *. assumption.
  - pose proof (finish_call_err errclear_parse parse_catches s o Hw Hm) as [F _].
    destruct (finish_call errclear_parse parse_catches s o). simpl in *. assumption.
  - destruct (live (st_cs s) i); auto. destruct (live (st_ps s) j) as [[d x]|]; auto.
    apply do_transform_err; auto.
  - destruct Hm. apply Hpt; auto. intros. apply do_transform_err; auto.
  - destruct Hm. destruct (live (st_cs s) i); auto. apply Hpt; auto. intros. apply do_transform_err; auto.
  - destruct (live (st_ps s) j) as [[d x]|]; auto. apply do_transform_err; auto.
  - destruct (live (st_cs s) i); auto.
  - destruct (live (st_ps s) j); auto.
Qed.

Lemma run_err_wf : forall h, Forall op_msgs_ok h -> eb_wf (st_err (run h)).
Proof.
  induction h as [|o h IH] using rev_ind; intro H.
  - apply eb_init_wf.
  - rewrite run_snoc. apply Forall_app in H. destruct H as [H1 H2]. inversion H2; subst.
    apply step_err_wf; auto.
Qed.

(* what getLastError() returns after a SUCCESSFUL transform(parsed, compiled): decided by the idiom *)
Lemma success_message_transHH : forall s i j sh d x ab dirt,
  eb_wf (st_err s) -> live (st_cs s) i = Some sh -> live (st_ps s) j = Some (d, x) ->
  exists k, snd (step s (OTransHH i j Ok ab dirt)) =
    OutTrans (Some k) (Some 0%Z)
      (match errclear_dotransform with ErrClearPush => [] | _ => last_error (st_err s) end).
Proof.
  intros s i j sh d x ab dirt Hw Hc Hp. simpl. rewrite Hc, Hp. unfold do_transform.
  pose proof (finish_call_err errclear_dotransform dotransform_catches s Ok Hw I) as [_ F].
  unfold finish_call in *. simpl in *. eexists. rewrite (F eq_refl). reflexivity.
Qed.

Lemma success_message_compile : forall s sh, eb_wf (st_err s) ->
  snd (step s (OCompile sh Ok)) =
    OutStatus (Some 0%Z) (match errclear_compile with ErrClearPush => [] | _ => last_error (st_err s) end).
Proof.
  intros s sh Hw. simpl.
  pose proof (finish_call_err errclear_compile compile_catches s Ok Hw I) as [_ F].
  unfold finish_call in *. simpl in *. rewrite (F eq_refl). reflexivity.
Qed.

(* transform(source, stylesheet): parseSource runs first; when it empties the buffer properly the
   later resize(1) is harmless *)
Lemma success_message_transSS : forall s sh d ab dirt, eb_wf (st_err s) -> errclear_parse = ErrClearPush ->
  exists k, snd (step s (OTransSS sh d Ok Ok ab dirt)) = OutTrans (Some k) (Some 0%Z) [].
Proof.
  intros s sh d ab dirt Hw Hp. unfold step, parse_then.
  pose proof (finish_call_err errclear_parse parse_catches s Ok Hw I) as [Fw F].
  destruct (finish_call errclear_parse parse_catches s Ok) as [s1 z1] eqn:E1. simpl fst in Fw, F.
  specialize (F eq_refl). rewrite Hp in F. unfold do_transform.
  pose proof (finish_call_err errclear_dotransform dotransform_catches s1 Ok Fw I) as [_ G].
  destruct (finish_call errclear_dotransform dotransform_catches s1 Ok) as [s2 z2] eqn:E2. simpl fst in G.
  specialize (G eq_refl). unfold finish_call in E2. inversion E2; subst. simpl.
  eexists. f_equal.
  all: simpl in G; rewrite G; rewrite F; destruct errclear_dotransform; reflexivity.
Qed.

(* ------------------------------------------------------------------------------------------ *)
(* XalanObjectStackCache: a count that reset() leaves behind is invisible to the users         *)

Lemma set_nth_length : forall A (l : list A) i v, List.length (set_nth i v l) = List.length l.
Proof. induction l as [|a t IH]; intros i v; destruct i; simpl; auto. Qed.

Definition os_rel (d0 : nat) (a b : ostack) : Prop :=
  os_depth a = d0 + os_depth b /\
  os_depth b <= List.length (os_pool b) /\
  d0 + List.length (os_pool b) <= List.length (os_pool a) /\
  (forall i, i < List.length (os_pool b) -> nth_error (os_pool a) (d0 + i) = nth_error (os_pool b) i) /\
  (forall i, d0 + List.length (os_pool b) <= i -> i < List.length (os_pool a) -> nth_error (os_pool a) i = Some 0).

Lemma os_step_sim : forall d0 a b o,
  os_rel d0 a b -> os_balanced (os_depth b) [o] = true ->
  snd (os_step a o) = snd (os_step b o) /\ os_rel d0 (fst (os_step a o)) (fst (os_step b o)).
Proof.
  intros d0 [pa da] [pb db] o (Hd & Hle & Hlen & Hag & Htl) Hb. simpl in *. subst da.
  destruct o; simpl in *.
  - (* get *)
    destruct (Nat.eqb (List.length pb) db) eqn:Eb.
    + apply Nat.eqb_eq in Eb. subst db.
      destruct (Nat.eqb (List.length pa) (d0 + List.length pb)) eqn:Ea.
      * apply Nat.eqb_eq in Ea. simpl. split; [reflexivity|].
        unfold os_rel; simpl. rewrite !app_length. simpl. repeat split; try lia.
        -- intros i Hi. destruct (Nat.eq_dec i (List.length pb)) as [->|Hne].
           ++ rewrite <- Ea. rewrite !nth_error_app2 by lia. rewrite !Nat.sub_diag. reflexivity.
           ++ rewrite !nth_error_app1 by lia. apply Hag. lia.
      * apply Nat.eqb_neq in Ea. simpl. split.
        -- apply Htl; lia.
        -- unfold os_rel; simpl. rewrite !app_length. simpl. repeat split; try lia.
           ++ intros i Hi. destruct (Nat.eq_dec i (List.length pb)) as [->|Hne].
              ** rewrite nth_error_app2 by lia. rewrite Nat.sub_diag. simpl. apply Htl; lia.
              ** rewrite nth_error_app1 by lia. apply Hag. lia.
           ++ intros i H1 H2. apply Htl; lia.
    + apply Nat.eqb_neq in Eb.
      assert (Ea : Nat.eqb (List.length pa) (d0 + db) = false) by (apply Nat.eqb_neq; lia).
      rewrite Ea. simpl. split; [apply Hag; lia|].
      unfold os_rel; simpl. repeat split; try lia; auto.
  - (* release *)
    destruct db as [|d]; [discriminate|]. rewrite Nat.add_succ_r. simpl. split; [apply Hag; lia|].
    unfold os_rel; simpl. repeat split; try lia; auto.
  - (* write *)
    destruct db as [|d]; [discriminate|]. rewrite Nat.add_succ_r. simpl. split; [reflexivity|].
    unfold os_rel; simpl. rewrite !set_nth_length. repeat split; try lia.
    + intros i Hi. destruct (Nat.eq_dec i d) as [->|Hne].
      * rewrite !nth_error_set_nth_same by lia. reflexivity.
      * rewrite !nth_error_set_nth_other by lia. apply Hag. lia.
    + intros i H1 H2. rewrite nth_error_set_nth_other by lia. apply Htl; lia.
Qed.

Lemma os_step_depth : forall b o, os_balanced (os_depth b) [o] = true ->
  forall l, os_balanced (os_depth b) (o :: l) = os_balanced (os_depth (fst (os_step b o))) l.
Proof.
  intros [pb db] o Hb l. destruct o; simpl in *.
  - destruct (Nat.eqb (List.length pb) db); reflexivity.
  - destruct db; [discriminate|reflexivity].
  - destruct db; [discriminate|reflexivity].
Qed.

Lemma os_balanced_head : forall d o l, os_balanced d (o :: l) = true -> os_balanced d [o] = true.
Proof. intros d o l H. destruct o; simpl in *; auto; destruct d; auto. Qed.

Lemma os_run_sim : forall l d0 a b,
  os_rel d0 a b -> os_balanced (os_depth b) l = true -> snd (os_run a l) = snd (os_run b l).
Proof.
  induction l as [|o l IH]; intros d0 a b Hr Hb; [reflexivity|].
  pose proof (os_balanced_head _ _ _ Hb) as Hh.
  destruct (os_step_sim d0 a b o Hr Hh) as [Hout Hrel].
  rewrite (os_step_depth b o Hh l) in Hb.
  simpl. destruct (os_step a o) as [a1 ra]. destruct (os_step b o) as [b1 rb]. simpl in *.
  specialize (IH d0 a1 b1 Hrel Hb).
  destruct (os_run a1 l) as [a2 rsa]. destruct (os_run b1 l) as [b2 rsb]. simpl in *. congruence.
Qed.

Lemma os_reset_invisible : forall a l,
  os_depth a <= List.length (os_pool a) -> os_balanced 0 l = true ->
  snd (os_run (os_reset a) l) = snd (os_run {| os_pool := []; os_depth := 0 |} l).
Proof.
  intros a l Hle Hb. apply os_run_sim with (d0 := os_depth (os_reset a)); [|exact Hb].
  unfold os_rel, os_reset; simpl. rewrite map_length. repeat split; try lia.
  - destruct objstack_reset_rewinds; lia.
  - intros i H1 H2. rewrite nth_error_map. destruct (nth_error (os_pool a) i) eqn:E; [reflexivity|].
    apply nth_error_None in E. lia.
Qed.

(* ------------------------------------------------------------------------------------------ *)
(* witnesses used by the refutations (independent of the generated switches' values)           *)

Lemma ctx_touched_none : ctx_touched None = true.
Proof. vm_compute. reflexivity. Qed.

Lemma objstack_member_kept : forall m,
  is_per_transformation m = true -> is_objstack m = true -> objstack_reset_rewinds = false ->
  transform_residue None [m] = [m].
Proof.
  intros m Hp Ho Hr. unfold transform_residue. rewrite ctx_touched_none.
  rewrite (ensure_reset_all_paths None ctx_touched_none).
  unfold dirtied. simpl. rewrite Hp. simpl.
  unfold fully_cleared. rewrite Ho, Hr. rewrite andb_false_r. reflexivity.
Qed.

Lemma residue_single_success : forall sh d ab dirt,
  st_residue (run [OTransSS sh d Ok Ok ab dirt]) = transform_residue None dirt ++ [].
Proof. intros. reflexivity. Qed.
