"""C02 (extension part, family xpx) — facts of the EXSLT / xalan: extension functions and of id()'s
tokenizer consumed by coq/XpxDefs.v (GenXpx.v).  Regenerated from /repo on every run; fail closed.

  tables     StringTokenizer::s_defaultTokens (the delimiter set id() splits on), the alignment
             keywords of str:align, the default padding of str:padding
  decisions  FunctionDifference keeps a node when indexOf(...) == npos, FunctionIntersection when != npos;
             set:leading's functor excludes the boundary node and keeps `isNodeAfter == false`,
             set:trailing's keeps `isNodeAfter == true`; FunctionDistinct tests the set of seen
             string-values BEFORE adding and adds the node that is current at that moment (the first of
             its class); math:min/lowest use DoubleSupport::lessThan, math:max/highest greaterThan, and a
             NaN operand ends the loop with NaN / the empty list.
  variants   str:padding / str:align: exactly two forms of each execute() are recognised — lengths = length() and cuts at
             code-unit offsets (as found, K6x), or lengths = length() - XPathCharacters::countPairs() and cuts through
             unitsOfCharacters() / XPathCharacters::unitsOf() (repaired; the helper loops are checked token for token by
             gen_xpcp._helpers).  gen_exslt_padding_align_count_characters selects XpxCpDefs.padding_tree / align_tree."""
import re
import srcfacts
from srcfacts import AnchorError, need, read, strip_comments, function_body, HEADER


def _squeeze(s):
    s = re.sub(r"\s+", " ", s).strip()
    return re.sub(r"(?<![A-Za-z0-9_]) | (?![A-Za-z0-9_])", "", s)


def _norm(s):
    return _squeeze(strip_comments(s))


def _lit(snippet):
    return re.escape(_squeeze(snippet))


def _unicode_table():
    txt = read("PlatformSupport/XalanUnicode.hpp")
    tbl = {}
    for m in re.finditer(r"\b(char\w+)\s*=\s*(0x[0-9A-Fa-f]+|\d+)\s*;", txt):
        tbl[m.group(1)] = int(m.group(2), 0)
    if len(tbl) < 100:
        raise AnchorError("XalanUnicode.hpp: character constants not found")
    return tbl


def _char_array(text, name, tbl, what):
    m = need(r"\b%s\s*\[\s*\]\s*=\s*\{(.*?)\}\s*;" % re.escape(name), strip_comments(text), what)
    out = []
    for item in m.group(1).split(","):
        item = item.strip()
        if not item:
            continue
        mm = re.fullmatch(r"XalanUnicode::(char\w+)", item)
        if mm:
            if mm.group(1) not in tbl:
                raise AnchorError("%s: unknown character constant %s" % (what, item))
            out.append(tbl[mm.group(1)])
        elif re.fullmatch(r"0x[0-9A-Fa-f]+|\d+", item):
            out.append(int(item, 0))
        else:
            raise AnchorError("%s: unrecognised array element %r" % (what, item))
    if not out or out[-1] != 0:
        raise AnchorError("%s: array is not 0-terminated" % what)
    return out[:-1]


def _nlist(xs):
    return "[" + "; ".join("%d%%N" % x for x in xs) + "]"


_AL_HEAD = ("{const XObjectArgVectorType::size_type theSize=args.size();if(theSize!=2&&theSize!=3){generalError(executionContext,context,locator);}"
            "assert(args[0].null()==false&&args[1].null()==false&&(theSize==2||args[2].null()==false));"
            "const XalanDOMString&theTargetString=args[0]->str(executionContext);const XalanDOMString&thePaddingString=args[1]->str(executionContext);")
_AL_EQ = ("if(theTargetStringLength==thePaddingStringLength){return XObjectPtr(args[0]);}else{const GetCachedString theGuard(executionContext);"
          "XalanDOMString&theResult=theGuard.get();if(theTargetStringLength>thePaddingStringLength){")
_AL_TAIL = "}}return executionContext.getXObjectFactory().createString(theResult);}}"
ALIGN_UNITS = (_AL_HEAD +
    "const XalanDOMString::size_type theTargetStringLength=theTargetString.length();"
    "const XalanDOMString::size_type thePaddingStringLength=thePaddingString.length();" + _AL_EQ +
    "theResult.assign(theTargetString,0,thePaddingStringLength);}else{theResult.reserve(thePaddingStringLength);"
    "enum eAlignment{eCenter,eLeft,eRight};eAlignment theAlignment=eLeft;<KW>"
    "if(theAlignment==eLeft){theResult=theTargetString;"
    "theResult.append(thePaddingString,theTargetStringLength,thePaddingStringLength-theTargetStringLength);}"
    "else if(theAlignment==eRight){theResult.assign(thePaddingString,0,thePaddingStringLength-theTargetStringLength);"
    "theResult.append(theTargetString);}"
    "else if(theAlignment==eCenter){const XalanDOMString::size_type theStartIndex=(thePaddingStringLength-theTargetStringLength)/2;"
    "theResult.assign(thePaddingString,0,theStartIndex);theResult.append(theTargetString);"
    "theResult.append(thePaddingString,theTargetStringLength+theStartIndex,thePaddingStringLength-theTargetStringLength-theStartIndex);"
    + _AL_TAIL)
ALIGN_CHARACTERS = (_AL_HEAD +
    "const XalanDOMString::size_type theTargetStringUnits=theTargetString.length();"
    "const XalanDOMString::size_type thePaddingStringUnits=thePaddingString.length();"
    "const XalanDOMString::size_type theTargetStringPairs=XPathCharacters::countPairs(theTargetString.c_str(),theTargetStringUnits);"
    "const XalanDOMString::size_type thePaddingStringPairs=XPathCharacters::countPairs(thePaddingString.c_str(),thePaddingStringUnits);"
    "const XalanDOMString::size_type theTargetStringLength=theTargetStringUnits-theTargetStringPairs;"
    "const XalanDOMString::size_type thePaddingStringLength=thePaddingStringUnits-thePaddingStringPairs;" + _AL_EQ +
    "theResult.assign(theTargetString,0,unitsOfCharacters(theTargetString,theTargetStringPairs,thePaddingStringLength));}"
    "else{theResult.reserve(thePaddingStringUnits+theTargetStringUnits);"
    "enum eAlignment{eCenter,eLeft,eRight};eAlignment theAlignment=eLeft;<KW>"
    "if(theAlignment==eLeft){theResult=theTargetString;"
    "const XalanDOMString::size_type theOffset=unitsOfCharacters(thePaddingString,thePaddingStringPairs,theTargetStringLength);"
    "theResult.append(thePaddingString,theOffset,thePaddingStringUnits-theOffset);}"
    "else if(theAlignment==eRight){theResult.assign(thePaddingString,0,"
    "unitsOfCharacters(thePaddingString,thePaddingStringPairs,thePaddingStringLength-theTargetStringLength));"
    "theResult.append(theTargetString);}"
    "else if(theAlignment==eCenter){const XalanDOMString::size_type theStartIndex=(thePaddingStringLength-theTargetStringLength)/2;"
    "theResult.assign(thePaddingString,0,unitsOfCharacters(thePaddingString,thePaddingStringPairs,theStartIndex));"
    "theResult.append(theTargetString);"
    "const XalanDOMString::size_type theOffset=unitsOfCharacters(thePaddingString,thePaddingStringPairs,theTargetStringLength+theStartIndex);"
    "theResult.append(thePaddingString,theOffset,thePaddingStringUnits-theOffset);"
    + _AL_TAIL)
_PD_HEAD = ("{assert(m_space==s_spaceString);const XObjectArgVectorType::size_type theSize=args.size();if(theSize!=1&&theSize!=2)"
            "{generalError(executionContext,context,locator);}assert(args[0].null()==false&&(theSize==1||args[1].null()==false));"
            "const double theLength=DoubleSupport::round(args[0]->num(executionContext));"
            "const XalanDOMString&thePaddingString=theSize==2?args[1]->str(executionContext):m_space;")
_PD_GUARD = ("if(<GUARD>thePaddingStringLength==0){return executionContext.getXObjectFactory().createStringReference(s_emptyString);}"
             "else{const GetCachedString theGuard(executionContext);XalanDOMString&theResult=theGuard.get();")
_PD_LOOP = ("{theResult.assign(XalanDOMString::size_type(theLength),thePaddingString[0]);}"
            "else{XalanDOMString::size_type theRemainingLength=XalanDOMString::size_type(theLength);"
            "for(;;){if(theRemainingLength>thePaddingStringLength){theResult.append(thePaddingString);"
            "theRemainingLength-=thePaddingStringLength;}else{theResult.append(thePaddingString,0,")
_PD_TAIL = ");break;}}}return executionContext.getXObjectFactory().createString(theResult);}}"
PADDING_UNITS = (_PD_HEAD + "const XalanDOMString::size_type thePaddingStringLength=thePaddingString.length();" + _PD_GUARD +
                 "if(thePaddingStringLength==1)" + _PD_LOOP + "XalanDOMString::size_type(theRemainingLength)" + _PD_TAIL)
PADDING_CHARACTERS = (_PD_HEAD +
    "const XalanDOMString::size_type thePaddingStringUnits=thePaddingString.length();"
    "const XalanDOMString::size_type thePaddingStringPairs=XPathCharacters::countPairs(thePaddingString.c_str(),thePaddingStringUnits);"
    "const XalanDOMString::size_type thePaddingStringLength=thePaddingStringUnits-thePaddingStringPairs;" + _PD_GUARD +
    "if(thePaddingStringUnits==1)" + _PD_LOOP + "unitsOfCharacters(thePaddingString,thePaddingStringPairs,theRemainingLength)" + _PD_TAIL)
UNITS_OF_CHARACTERS = "{return thePairs==0?theCount:XPathCharacters::unitsOf(theString.c_str(),theString.length(),theCount);}"


def gen_xpx():
    tbl = _unicode_table()
    facts = {}
    # ---- tables
    st = read("PlatformSupport/StringTokenizer.cpp")
    delims = _char_array(st, "StringTokenizer::s_defaultTokens", tbl, "StringTokenizer::s_defaultTokens")
    fid = _norm(read("XPath/FunctionID.cpp"))
    need(_lit("StringTokenizer theTokenizer(theResultString);"), fid, "FunctionID::execute: StringTokenizer with the default delimiters", 0)
    hpp = _norm(read("PlatformSupport/StringTokenizer.hpp"))
    need(r"StringTokenizer\(const XalanDOMString&theString,const XalanDOMChar\*theTokens=s_defaultTokens,bool fReturnTokens=false\)",
         hpp, "StringTokenizer(string, tokens = s_defaultTokens, fReturnTokens = false)", 0)
    es = read("XalanEXSLT/XalanEXSLTString.cpp")
    center = _char_array(es, "XalanEXSLTFunctionAlign::s_centerString", tbl, "str:align s_centerString")
    right = _char_array(es, "XalanEXSLTFunctionAlign::s_rightString", tbl, "str:align s_rightString")
    space = _char_array(es, "XalanEXSLTFunctionPadding::s_spaceString", tbl, "str:padding s_spaceString")
    # str:align: how the third argument is compared with a keyword.  Recognised shapes:
    #   prefix : equals(keyword, arg.c_str(), |keyword|)                         (only the first |keyword| units)
    #   exact  : arg.length() == |keyword| && equals(keyword, arg.c_str(), |keyword|)   or   equals(arg, keyword)
    al = _norm(function_body(es, r"XalanEXSLTFunctionAlign::execute\s*\([^)]*\)\s*const\s*\{", "XalanEXSLTFunctionAlign::execute"))

    def kw_shape(kw, what):
        n = "sizeof(%s)/sizeof(%s[0])-1" % (kw, kw)
        pre = "equals(%s,theAlignmentString.c_str(),%s)==true" % (kw, n)
        if ("theAlignmentString.length()==%s&&%s" % (n, pre)) in al:
            return True
        if ("equals(theAlignmentString,%s)" % kw) in al or ("equals(%s,theAlignmentString)" % kw) in al:
            return True
        if ("if(%s)" % pre) in al:
            return False
        raise AnchorError("str:align: unrecognised comparison of the third argument with " + what)
    ex_c, ex_r = kw_shape("s_centerString", "'center'"), kw_shape("s_rightString", "'right'")
    if ex_c != ex_r:
        raise AnchorError("str:align: 'center' and 'right' are compared differently")
    align_exact = ex_c
    need(_lit("if (theAlignment == eLeft)"), al, "str:align: left is the default alignment", 0)
    # str:padding / str:align measure and cut in UTF-16 code units (as found, K6x) or in characters (repaired): exactly
    # these two forms of each function are recognised; the keyword comparison of str:align (above) and the guard on the
    # numeric argument of str:padding (C03's) are left out of the comparison
    pd = _norm(function_body(es, r"XalanEXSLTFunctionPadding::execute\s*\([^)]*\)\s*const\s*\{", "XalanEXSLTFunctionPadding::execute"))

    def form_of(body, forms, what):
        hit = [k for k, tpl in forms.items()
               if re.fullmatch(re.escape(tpl).replace("<KW>", ".*?").replace("<GUARD>", "[^{};]*?"), body)]
        if len(hit) != 1:
            raise AnchorError("%s: neither the code-unit form nor the character form the model was written against" % what)
        return hit[0]
    align_cp = form_of(al, {False: ALIGN_UNITS, True: ALIGN_CHARACTERS}, "str:align (XalanEXSLTFunctionAlign::execute)")
    padding_cp = form_of(pd, {False: PADDING_UNITS, True: PADDING_CHARACTERS}, "str:padding (XalanEXSLTFunctionPadding::execute)")
    if align_cp != padding_cp:
        raise AnchorError("str:padding and str:align do not count the same thing (one code units, the other characters)")
    if align_cp:
        m = need(r"\nunitsOfCharacters\s*\(", es, "static unitsOfCharacters() of XalanEXSLTString.cpp", 0)
        ub = _norm(function_body(es, r"\nunitsOfCharacters\s*\([^)]*\)\s*\{", "unitsOfCharacters"))
        if ub != UNITS_OF_CHARACTERS or not re.search(
                r"static XalanDOMString::size_type unitsOfCharacters\(const XalanDOMString&theString,XalanDOMString::size_type thePairs,"
                r"XalanDOMString::size_type theCount\)\{", _norm(es)):
            raise AnchorError("unitsOfCharacters: not `thePairs == 0 ? theCount : XPathCharacters::unitsOf(c_str(), length(), theCount)`")
        import gen_xpcp
        if gen_xpcp._helpers() != (0xD800, 0xDBFF, 0xDC00, 0xDFFF):      # countPairs / unitsOf token for token = coq/XpCpDefs.v
            raise AnchorError("XPathCharacters: surrogate bounds are not D800..DBFF / DC00..DFFF")
    elif "XPathCharacters" in _norm(es) or "unitsOfCharacters" in _norm(es):
        raise AnchorError("XalanEXSLTString.cpp uses XPathCharacters outside the recognised character form")
    # ---- decisions
    diff = _norm(function_body(read("XalanExtensions/FunctionDifference.cpp"), r"FunctionDifference::execute\s*\([^)]*\)\s*const\s*\{", "FunctionDifference::execute"))
    m = need(_lit("if (nodeset2.indexOf(theNode)") + r"(==|!=)" + _lit("NodeRefListBase::npos) { theResult->addNodeInDocOrder(theNode, executionContext); }"),
             diff, "FunctionDifference: if (nodeset2.indexOf(theNode) ?= npos) addNodeInDocOrder", 0)
    diff_keep_found = m.group(1) == "!="
    need(_lit("XalanNode* const theNode = nodeset1.item(i);"), diff, "FunctionDifference: loop over nodeset1", 0)
    inter = _norm(function_body(read("XalanExtensions/FunctionIntersection.cpp"), r"FunctionIntersection::execute\s*\([^)]*\)\s*const\s*\{", "FunctionIntersection::execute"))
    m = need(_lit("if (nodeset2.indexOf(theNode)") + r"(==|!=)" + _lit("NodeRefListBase::npos) { theResult->addNodeInDocOrder(theNode, executionContext); }"),
             inter, "FunctionIntersection: if (nodeset2.indexOf(theNode) ?= npos) addNodeInDocOrder", 0)
    inter_keep_found = m.group(1) == "!="
    need(_lit("XalanNode* const theNode = nodeset1.item(i);"), inter, "FunctionIntersection: loop over nodeset1", 0)
    dist = _norm(function_body(read("XalanExtensions/FunctionDistinct.cpp"), r"FunctionDistinct::execute\s*\([^)]*\)\s*const\s*\{", "FunctionDistinct::execute"))
    need(_lit("for (NodeRefListBase::size_type i = 0; i < theLength; ++i) { XalanNode* const theNode = nodeset.item(i);"), dist,
         "FunctionDistinct: ascending loop over the argument", 0)
    need(_lit("if (theStrings.find(theCachedString) == theStrings.end()) { theResult->addNodeInDocOrder(theNode, executionContext); theStrings.insert(theCachedString); }"),
         dist, "FunctionDistinct: a node is added when its string-value has not been seen, then the value is recorded", 0)
    need(_lit("if (theLength == 1) { theResult->addNode(nodeset.item(0)); }"), dist, "FunctionDistinct: single-node shortcut", 0)
    sets = _norm(read("XalanEXSLT/XalanEXSLTSet.cpp"))
    m = need(r"struct LeadingCompareFunctor\{.*?return(.*?);\}", sets, "LeadingCompareFunctor::operator()", 0)
    lead = m.group(1).strip()
    if lead == _squeeze("theLHS != theRHS && m_executionContext.isNodeAfter(*theLHS, *theRHS) == false"):
        lead_excl_self = True
    elif lead == _squeeze("m_executionContext.isNodeAfter(*theLHS, *theRHS) == false"):
        lead_excl_self = False
    else:
        raise AnchorError("LeadingCompareFunctor: unrecognised predicate " + lead)
    m = need(r"struct TrailingCompareFunctor\{.*?return(.*?);\}", sets, "TrailingCompareFunctor::operator()", 0)
    if m.group(1).strip() != _squeeze("m_executionContext.isNodeAfter(*theLHS, *theRHS) == true"):
        raise AnchorError("TrailingCompareFunctor: unrecognised predicate " + m.group(1))
    need(_lit("if (theLength1 == 0 || theLength2 == 0) { return args[0]; }"), sets, "set:leading/trailing: an empty argument returns the first argument", 0)
    need(_lit("const XalanNode* const theNode = nodeset2.item(0);"), sets, "set:leading/trailing: boundary = first node of the second argument", 0)
    need(_lit("const NodeRefListBase::size_type theIndex = nodeset1.indexOf(theNode); if (theIndex != NodeRefListBase::npos)"), sets,
         "set:leading/trailing: boundary must be contained in the first argument", 0)
    dom = _norm(function_body(read("DOMSupport/DOMServices.cpp"), r"\nDOMServices::isNodeAfter\s*\([^)]*\)\s*\{", "DOMServices::isNodeAfter"))
    need(_lit("return node1.getIndex() > node2.getIndex() ? true : false;"), dom, "DOMServices::isNodeAfter: index(node1) > index(node2)", 0)
    math = _norm(read("XalanEXSLT/XalanEXSLTMath.cpp"))

    def cmp_of(fn, helper):
        mm = need(r"XalanEXSLTFunction%s::execute\(.*?return %s\(executionContext,args\[0\]->nodeset\(\),DoubleSupport::(\w+)\);" % (fn, helper),
                  math, "math:%s comparator" % fn.lower(), 0)
        if mm.group(1) not in ("lessThan", "greaterThan"):
            raise AnchorError("math:%s uses DoubleSupport::%s" % (fn.lower(), mm.group(1)))
        return mm.group(1) == "greaterThan"
    dirs = {"min": cmp_of("Min", "findValue"), "max": cmp_of("Max", "findValue"),
            "highest": cmp_of("Highest", "findNodes"), "lowest": cmp_of("Lowest", "findNodes")}
    need(_lit("if (DoubleSupport::isNaN(theCurrent) == true) { theResult = theCurrent; break; } else if (theCompareFunction(theCurrent, theResult) == true) { theResult = theCurrent; }"),
         math, "findValue: NaN ends the loop with NaN, a better value replaces the result", 0)
    need(_lit("if (DoubleSupport::isNaN(theCurrent) == true) { theNodes->clear(); break; } else if (DoubleSupport::equal(theCurrent, theNumericValue) == true) { theNodes->addNodeInDocOrder(theCurrentNode, executionContext); }"
              " else if (theCompareFunction(theCurrent, theNumericValue) == true) { theNodes->clear(); theNodes->addNode(theCurrentNode); theNumericValue = theCurrent; }"),
         math, "findNodes: NaN clears, an equal value is added, a better value restarts the list", 0)
    need(_lit("if (theLength == 0) { return executionContext.getXObjectFactory().createNumber(DoubleSupport::getNaN()); }"), math, "findValue: empty node-set gives NaN", 0)
    facts = {"delims": delims, "center": center, "right": right, "space": space, "diff_keep_found": diff_keep_found,
             "inter_keep_found": inter_keep_found, "lead_excl_self": lead_excl_self, "dirs": dirs, "align_exact": align_exact,
             "exslt_padding_align_count_characters": align_cp}
    b = lambda v: "true" if v else "false"
    text = HEADER + "\n".join([
        "From Coq Require Import List NArith Bool.", "Import ListNotations.", "",
        "(* PlatformSupport/StringTokenizer.cpp s_defaultTokens: what id() splits its argument on *)",
        "Definition gen_id_delims : list N := %s." % _nlist(delims),
        "(* XalanEXSLTString.cpp: str:align keywords, str:padding default *)",
        "Definition gen_align_center : list N := %s." % _nlist(center),
        "Definition gen_align_right : list N := %s." % _nlist(right),
        "Definition gen_padding_default : list N := %s." % _nlist(space),
        "(* str:align compares the whole third argument with the keyword (true) or only its first |keyword| units (false) *)",
        "Definition gen_align_exact_keyword : bool := %s." % b(align_exact),
        "(* str:padding and str:align compute their lengths as length() - XPathCharacters::countPairs() and cut with",
        "   unitsOfCharacters() / XPathCharacters::unitsOf() (true), or measure and cut in UTF-16 code units (false: K6x) *)",
        "Definition gen_exslt_padding_align_count_characters : bool := %s." % b(align_cp),
        "(* FunctionDifference / FunctionIntersection: a node of the first list is kept when (it is found in the second) = flag *)",
        "Definition gen_difference_keep_found : bool := %s." % b(diff_keep_found),
        "Definition gen_intersection_keep_found : bool := %s." % b(inter_keep_found),
        "(* LeadingCompareFunctor: theLHS != theRHS && ... *)",
        "Definition gen_leading_excludes_boundary : bool := %s." % b(lead_excl_self),
        "(* comparator handed to findValue / findNodes: true = DoubleSupport::greaterThan, false = lessThan *)",
        "Definition gen_min_greater : bool := %s." % b(dirs["min"]),
        "Definition gen_max_greater : bool := %s." % b(dirs["max"]),
        "Definition gen_lowest_greater : bool := %s." % b(dirs["lowest"]),
        "Definition gen_highest_greater : bool := %s." % b(dirs["highest"]), ""])
    return text, facts


GENERATORS = {"GenXpx": gen_xpx}
