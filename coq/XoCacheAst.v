(* C11 part "cache": the little language in which translator/gen_xocache.py writes down the body of
   XNodeSetBase::clearCachedValues() (src/xalanc/XPath/XNodeSetBase.cpp) as it is in /repo now.
   Definitions only; consumed by GenXoCache.v (generated) and XoCacheDefs.v. *)
From Coq Require Import List.

(* `m_cachedNumberValue = theBogusNumberValue;`  /  `m_cachedStringValue.clear();` *)
Inductive xo_simple : Type := XoResetNum | XoClearStr.

(* a statement of the body: one of the two assignments, or
   `if (m_cachedStringValue.empty() == false) { <assignments> }` *)
Inductive xo_stmt : Type :=
| XoDo (s : xo_simple)
| XoIfStrNonEmpty (body : list xo_simple).
