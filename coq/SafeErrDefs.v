(* C03, part "errors": the guards that turn non-terminating stylesheets into reported errors.

   (1) VariablesStack::findXObject (src/xalanc/XSLT/VariablesStack.cpp): a top-level xsl:variable /
       xsl:param is evaluated lazily, at its first reference.  The ElemVariable is looked for in
       m_guardStack (circular definition => error), pushed, its definition is evaluated (which
       may reference further top-level variables: recursion through the C stack), popped, and the
       value is stored in the stack entry (so it is never evaluated again).
       StylesheetExecutionContextDefault::pushOnElementRecursionStack (xsl:attribute-set) is the same
       discipline without the stored value.
   (2) StylesheetExecutionContextDefault::pushCurrentTemplate: the nesting of template
       instantiations and xsl:for-each bodies is counted by the size of m_currentTemplateStack and
       refused at eMaximumTemplateNestingDepth.

   The stylesheet is abstracted to a dependency graph  deps : nat -> list nat  (variable v's
   definition references, in evaluation order and unconditionally, the variables deps v;
   template t instantiates, unconditionally, the templates calls t).  Executable definitions
   only; the facts read from the source (how the guard stack is searched, the comparison and the
   constant of the depth limit) are parameters here and come from GenSafeErr.v. *)
From Coq Require Import List Arith Bool NArith.
Import ListNotations.

(* ---------------------------------------------------------------------------------------------- *)
(* (1) circular-definition guard *)

(* how the code looks for the variable in m_guardStack *)
Inductive guard_search := SearchWholeStack | SearchTopOnly.

(* the guard stack is a list whose head is the back() of the vector *)
Definition guard_hit (m : guard_search) (guard : list nat) (v : nat) : bool :=
  match m with
  | SearchWholeStack => existsb (Nat.eqb v) guard
  | SearchTopOnly => match guard with [] => false | t :: _ => Nat.eqb v t end
  end.

Record gstate := mk_gstate {
  g_guard : list nat;      (* m_guardStack *)
  g_cache : list nat;      (* variables whose stack entry holds a value *)
  g_hw : nat               (* high-water mark of the guard stack = depth of the native recursion *)
}.

Inductive gres :=
| GOk (s : gstate)                 (* evaluated; the state afterwards *)
| GCirc (s : gstate) (w : nat)     (* "A circular variable definition was detected" for w; the exception
                                      unwinds without popping: s is the state at the throw *)
| GDeep (s : gstate) (w : nat)     (* "Infinite recursion was detected" for w: the guard stack has reached the
                                      nesting limit (only in the variant of the code that has one) *)
| GFuel.

Definition g_init : gstate := mk_gstate [] [] 0.

Definition g_push (v : nat) (s : gstate) : gstate :=
  mk_gstate (v :: g_guard s) (g_cache s) (Nat.max (g_hw s) (S (length (g_guard s)))).

Definition g_pop (s : gstate) : gstate := mk_gstate (tl (g_guard s)) (g_cache s) (g_hw s).

Definition g_store (memo : bool) (v : nat) (s : gstate) : gstate :=
  if memo then mk_gstate (g_guard s) (v :: g_cache s) (g_hw s) else s.

(* VariablesStack::reset(), run by XalanTransformer's EnsureReset after every transformation *)
Definition g_reset (s : gstate) : gstate := mk_gstate [] [] (g_hw s).

Definition mem (v : nat) (l : list nat) : bool := existsb (Nat.eqb v) l.

Section Guard.
  Variable mode : guard_search.
  Variable memo : bool.              (* true: variables (value stored); false: attribute sets *)
  Variable dlimit : option nat.      (* Some L: 'if (m_guardStack.size() >= L) error' in front of the push *)
  Variable deps : nat -> list nat.

  Definition depth_hit (guard : list nat) : bool :=
    match dlimit with Some L => L <=? length guard | None => false end.

  Fixpoint g_eval (fuel : nat) (s : gstate) (v : nat) : gres :=
    match fuel with
    | O => GFuel
    | S f =>
      if memo && mem v (g_cache s) then GOk s
      else if guard_hit mode (g_guard s) v then GCirc s v
      else if depth_hit (g_guard s) then GDeep s v
      else
        match (fix args (ds : list nat) (s : gstate) : gres :=
                 match ds with
                 | [] => GOk s
                 | d :: r => match g_eval f s d with GOk s' => args r s' | e => e end
                 end) (deps v) (g_push v s) with
        | GOk s2 => GOk (g_store memo v (g_pop s2))
        | e => e
        end
    end.

  (* the same inner loop, named (for the lemmas) *)
  Fixpoint g_args (f : nat) (ds : list nat) (s : gstate) : gres :=
    match ds with
    | [] => GOk s
    | d :: r => match g_eval f s d with GOk s' => g_args f r s' | e => e end
    end.
End Guard.

(* one transformation that references variable v first: evaluate, then the reset that always follows *)
Definition g_transform (mode : guard_search) (memo : bool) (dlimit : option nat) (deps : nat -> list nat) (n v : nat) : gres * gstate :=
  let r := g_eval mode memo dlimit deps (S n) g_init v in
  (r, match r with GOk s => g_reset s | GCirc s _ => g_reset s | GDeep s _ => g_reset s | GFuel => g_init end).

(* graphs given as tables (correspondence driver, examples) *)
Definition table_deps (t : list (list nat)) (v : nat) : list nat := nth v t [].

(* ---------------------------------------------------------------------------------------------- *)
(* specification side: reachability in the dependency graph *)

Inductive reach (deps : nat -> list nat) : nat -> nat -> Prop :=
| reach_refl v : reach deps v v
| reach_step v d w : In d (deps v) -> reach deps d w -> reach deps v w.

Definition on_cycle (deps : nat -> list nat) (w : nat) : Prop :=
  exists d, In d (deps w) /\ reach deps d w.

Definition reaches_cycle (deps : nat -> list nat) (v : nat) : Prop :=
  exists w, reach deps v w /\ on_cycle deps w.

(* the well-founded part of the graph: every dependency path from v ends *)
Inductive wf_from (deps : nat -> list nat) : nat -> Prop :=
| wf_intro v : (forall d, In d (deps v) -> wf_from deps d) -> wf_from deps v.

Definition closed (n : nat) (deps : nat -> list nat) : Prop :=
  forall v d, v < n -> In d (deps v) -> d < n.

(* ---------------------------------------------------------------------------------------------- *)
(* (2) template nesting limit *)

Inductive limit_cmp := CmpGe | CmpGt.

(* 'if (m_currentTemplateStack.size() CMP eMaximumTemplateNestingDepth) throw'; sizes are binary
   numbers (the limit is 100000) *)
Definition limit_hit (c : limit_cmp) (size limit : N) : bool :=
  match c with CmpGe => (limit <=? size)%N | CmpGt => (limit <? size)%N end.

Record tstate := mk_tstate { t_size : N; t_hw : N }.

Inductive tres := TOk (s : tstate) | TErr (s : tstate) | TFuel.

Definition t_push (s : tstate) : tstate := mk_tstate (N.succ (t_size s)) (N.max (t_hw s) (N.succ (t_size s))).
Definition t_pop (s : tstate) : tstate := mk_tstate (N.pred (t_size s)) (t_hw s).

Section Templates.
  Variable cmp : limit_cmp.
  Variable limit : N.
  Variable calls : nat -> list nat.

  Fixpoint t_call (fuel : nat) (s : tstate) (t : nat) : tres :=
    match fuel with
    | O => TFuel
    | S f =>
      if limit_hit cmp (t_size s) limit then TErr s
      else
        match (fix body (cs : list nat) (s : tstate) : tres :=
                 match cs with
                 | [] => TOk s
                 | c :: r => match t_call f s c with TOk s' => body r s' | e => e end
                 end) (calls t) (t_push s) with
        | TOk s2 => TOk (t_pop s2)
        | e => e
        end
    end.

  Fixpoint t_body (f : nat) (cs : list nat) (s : tstate) : tres :=
    match cs with
    | [] => TOk s
    | c :: r => match t_call f s c with TOk s' => t_body f r s' | e => e end
    end.
End Templates.

(* a chain of k further nested instantiations below t exists *)
Fixpoint deep (calls : nat -> list nat) (k : nat) (t : nat) : Prop :=
  match k with
  | O => True
  | S k' => exists c, In c (calls t) /\ deep calls k' c
  end.

(* the constructor and reset() leave one (null) entry on m_currentTemplateStack *)
Definition t_init (initial : N) : tstate := mk_tstate initial initial.

(* ---------------------------------------------------------------------------------------------- *)
(* (3) XPath parser nesting counter: 'if (++m_nestingDepth > eMaximumNestingDepth) error' around every
   recursive descent into a parenthesised expression / predicate / function argument *)
Definition nesting_refused (c : limit_cmp) (limit depth : N) : bool :=
  (* depth = value of the counter after the pre-increment *)
  limit_hit c depth limit.
