(* C02, extension part (family xpx): str:padding and str:align (XalanEXSLTString.cpp). *)
From Coq Require Import List NArith ZArith Bool Arith Lia.
From Coq Require Import ZifyBool ZifyNat ZifyN.
Require Import XV.GenXpx XV.XpxDefs XV.XpxModel.
Import ListNotations.
Local Open Scope nat_scope.

(* ---------------------------------------------------------------------------------------------- *)
(* padding *)

Lemma concat_repeat_snoc : forall (pad : list N) k, concat (repeat pad k) ++ pad = concat (repeat pad (S k)).
Proof.
  intros pad. induction k as [|k IH]; cbn [repeat concat].
  - rewrite app_nil_r. reflexivity.
  - rewrite <- app_assoc. rewrite IH. reflexivity.
Qed.

Lemma concat_repeat_length : forall (pad : list N) k, length (concat (repeat pad k)) = k * length pad.
Proof. intros pad. induction k as [|k IH]; cbn [repeat concat]; [reflexivity|]. rewrite app_length, IH. lia. Qed.

Lemma concat_repeat_single : forall (c : N) n, concat (repeat [c] n) = repeat c n.
Proof. intros c. induction n as [|n IH]; cbn; [reflexivity|]. f_equal. exact IH. Qed.

Lemma pad_loop_shape : forall fuel rem pad k, 0 < length pad -> rem <= fuel -> 0 < rem ->
  exists q r, pad_loop fuel rem pad (concat (repeat pad k)) = concat (repeat pad q) ++ firstn r pad
              /\ q * length pad + r = k * length pad + rem /\ 0 < r <= length pad.
Proof.
  induction fuel as [|f IH]; intros rem pad k Hp Hf Hr; [lia|]. cbn [pad_loop].
  destruct (Nat.ltb (length pad) rem) eqn:E.
  - rewrite concat_repeat_snoc. destruct (IH (rem - length pad) pad (S k)) as [q [r [H1 [H2 H3]]]]; try lia.
    exists q, r. split; [exact H1|]. split; [|exact H3]. cbn [Nat.mul] in H2. lia.
  - exists k, rem. unfold substr. cbn [skipn]. split; [reflexivity|]. split; lia.
Qed.

(* the padding string repeated, the last copy truncated *)
Lemma padding_shape : forall n pad, pad <> [] -> 0 < n ->
  exists q r, padding n pad = concat (repeat pad q) ++ firstn r pad /\ q * length pad + r = n /\ r <= length pad.
Proof.
  intros n pad Hne Hn. destruct n as [|n']; [lia|]. destruct pad as [|c [|c2 p]]; [congruence| |].
  - exists (S n'), 0. cbn [padding firstn]. rewrite app_nil_r, concat_repeat_single. split; [reflexivity|]. cbn. lia.
  - cbn [padding]. destruct (pad_loop_shape (S n') (S n') (c :: c2 :: p) 0) as [q [r [H1 [H2 H3]]]]; cbn [length]; try lia.
    exists q, r. cbn [repeat concat] in H1. cbn [length] in *. split; [exact H1|]. split; lia.
Qed.

Lemma padding_length : forall n pad, pad <> [] -> length (padding n pad) = n.
Proof.
  intros n pad Hne. destruct n as [|n']; [reflexivity|].
  destruct (padding_shape (S n') pad Hne) as [q [r [H1 [H2 H3]]]]; [lia|].
  rewrite H1, app_length, concat_repeat_length, firstn_length. lia.
Qed.

Lemma padding_empty_pad : forall n, padding n [] = [].
Proof. intros [|n]; reflexivity. Qed.

Lemma nth_firstn_lt : forall (l : list N) r j dflt, j < r -> nth j (firstn r l) dflt = nth j l dflt.
Proof.
  induction l as [|a l IH]; intros r j dflt H.
  - rewrite firstn_nil. reflexivity.
  - destruct r as [|r]; [lia|]. destruct j as [|j]; [reflexivity|]. cbn. apply IH. lia.
Qed.

Lemma nth_concat_repeat : forall (pad : list N) q i dflt, 0 < length pad -> i < q * length pad ->
  nth i (concat (repeat pad q)) dflt = nth (i mod length pad) pad dflt.
Proof.
  intros pad. induction q as [|q IH]; intros i dflt Hp Hi; [lia|]. cbn [repeat concat].
  destruct (Nat.ltb i (length pad)) eqn:E.
  - rewrite app_nth1 by lia. rewrite Nat.mod_small by lia. reflexivity.
  - rewrite app_nth2 by lia. rewrite IH by (cbn [Nat.mul] in Hi; lia). f_equal.
    replace i with ((i - length pad) + 1 * length pad) at 2 by lia. rewrite Nat.mod_add by lia. reflexivity.
Qed.

(* character i of the result is character (i mod |pad|) of the padding string *)
Lemma padding_nth : forall n pad i dflt, pad <> [] -> i < n ->
  nth i (padding n pad) dflt = nth (i mod length pad) pad dflt.
Proof.
  intros n pad i dflt Hne Hi. destruct (padding_shape n pad Hne) as [q [r [H1 [H2 H3]]]]; [lia|].
  assert (Hp : 0 < length pad) by (destruct pad; [congruence | cbn; lia]).
  rewrite H1. destruct (Nat.ltb i (q * length pad)) eqn:E.
  - rewrite app_nth1 by (rewrite concat_repeat_length; lia). apply nth_concat_repeat; lia.
  - rewrite app_nth2 by (rewrite concat_repeat_length; lia). rewrite concat_repeat_length.
    rewrite nth_firstn_lt by lia. f_equal.
    replace i with ((i - q * length pad) + q * length pad) at 2 by lia. rewrite Nat.mod_add by lia.
    destruct (Nat.eqb (i - q * length pad) (length pad)) eqn:E2; [lia|]. rewrite Nat.mod_small by lia. reflexivity.
Qed.

(* ---------------------------------------------------------------------------------------------- *)
(* align *)

Lemma half_le : forall a, a / 2 <= a.
Proof. intros a. apply Nat.div_le_upper_bound; lia. Qed.

Lemma half_balance : forall a, let l := a / 2 in let r := a - l in r = l \/ r = S l.
Proof.
  intros a. cbv zeta. pose proof (Nat.div_mod a 2 ltac:(lia)) as H. pose proof (Nat.mod_upper_bound a 2 ltac:(lia)). lia.
Qed.

Lemma align_length : forall t p m, length (align t p m) = length p.
Proof.
  intros t p m. unfold align. destruct (Nat.eqb (length t) (length p)) eqn:E1; [lia|].
  destruct (Nat.ltb (length p) (length t)) eqn:E2.
  - unfold substr. cbn [skipn]. rewrite firstn_length. lia.
  - pose proof (half_le (length p - length t)).
    destruct m; unfold substr; rewrite ?app_length, ?firstn_length, ?skipn_length; cbn [skipn]; lia.
Qed.

(* the target string replaces a range of the padding string; the rest of the padding string is unchanged *)
Lemma align_replaces : forall t p m, length t <= length p ->
  align t p m = firstn (align_start (length t) (length p) m) p ++ t
                ++ skipn (align_start (length t) (length p) m + length t) p.
Proof.
  intros t p m Hle. unfold align. destruct (Nat.eqb (length t) (length p)) eqn:E1.
  - assert (Hst : align_start (length t) (length p) m = 0).
    { destruct m; unfold align_start; lia. }
    rewrite Hst. cbn [firstn Nat.add app]. rewrite skipn_all2 by lia. rewrite app_nil_r. reflexivity.
  - destruct (Nat.ltb (length p) (length t)) eqn:E2; [lia|].
    pose proof (half_le (length p - length t)) as Hh. destruct m; unfold align_start, substr.
    + cbn [firstn Nat.add app]. f_equal. apply firstn_all2. rewrite skipn_length. lia.
    + cbn [skipn]. f_equal. rewrite skipn_all2 by lia. rewrite app_nil_r. reflexivity.
    + cbn [skipn]. f_equal. f_equal. rewrite (Nat.add_comm (length t)). apply firstn_all2. rewrite skipn_length. lia.
Qed.

Lemma align_start_fits : forall lt lp m, lt <= lp -> align_start lt lp m + lt <= lp.
Proof. intros lt lp m H. pose proof (half_le (lp - lt)). destruct m; unfold align_start; lia. Qed.

(* center: as many unreplaced characters on the left as on the right, or one fewer *)
Lemma align_center_balance : forall lt lp, lt <= lp ->
  let l := align_start lt lp ACenter in let r := lp - lt - l in r = l \/ r = S l.
Proof. intros lt lp H. apply (half_balance (lp - lt)). Qed.

Lemma align_truncates : forall t p m, length p < length t -> align t p m = firstn (length p) t.
Proof.
  intros t p m H. unfold align. destruct (Nat.eqb (length t) (length p)) eqn:E1; [lia|].
  destruct (Nat.ltb (length p) (length t)) eqn:E2; [reflexivity | lia].
Qed.

(* the keyword test *)
Lemma prefix_eqb_app : forall kw s, prefix_eqb kw s = true <-> exists r, s = kw ++ r.
Proof.
  induction kw as [|k kw IH]; intros s; cbn [prefix_eqb].
  - split; [intros _; exists s; reflexivity | reflexivity].
  - destruct s as [|c s]; [split; [discriminate | intros [r H]; discriminate]|].
    rewrite andb_true_iff, N.eqb_eq, IH. split.
    + intros [H1 [r H2]]. subst. exists r. reflexivity.
    + intros [r H]. cbn in H. inversion H; subst. split; [reflexivity | exists r; reflexivity].
Qed.

Definition spec_mode (a : list N) : align_mode :=
  if str_eqb a gen_align_center then ACenter else if str_eqb a gen_align_right then ARight else ALeft.

(* "if it is not one of these values, it defaults to left alignment" holds exactly when neither keyword is a
   PROPER prefix of the argument *)
Definition align_guard (a : list N) : bool :=
  negb (prefix_eqb gen_align_center a && negb (str_eqb a gen_align_center))
  && negb (prefix_eqb gen_align_right a && negb (str_eqb a gen_align_right)).

Lemma str_eqb_refl : forall a, str_eqb a a = true.
Proof. induction a as [|x a IH]; cbn; [reflexivity|]. rewrite N.eqb_refl. exact IH. Qed.

Lemma str_eqb_true : forall a b, str_eqb a b = true -> a = b.
Proof.
  induction a as [|x a IH]; intros [|y b] H; cbn in H; try discriminate; [reflexivity|].
  apply andb_true_iff in H. destruct H as [H1 H2]. apply N.eqb_eq in H1. apply IH in H2. congruence.
Qed.

Lemma align_mode_gen_partial : forall exact a, align_guard a = true -> align_mode_gen exact a = spec_mode a.
Proof.
  intros exact a G. unfold align_guard in G. apply andb_true_iff in G. destruct G as [G1 G2].
  unfold align_mode_gen, spec_mode, kw_test. destruct exact; [reflexivity|].
  destruct (str_eqb a gen_align_center) eqn:C.
  - apply str_eqb_true in C. subst. reflexivity.
  - destruct (prefix_eqb gen_align_center a) eqn:PC; [discriminate|].
    destruct (str_eqb a gen_align_right) eqn:R.
    + apply str_eqb_true in R. subst. reflexivity.
    + destruct (prefix_eqb gen_align_right a) eqn:PR; [discriminate | reflexivity].
Qed.

Lemma align_mode_partial : forall a, align_guard a = true -> align_mode_of a = spec_mode a.
Proof. intros a. apply align_mode_gen_partial. Qed.

(* with the whole-argument comparison the definition holds for every argument *)
Lemma align_mode_exact_full : forall a, align_mode_gen true a = spec_mode a.
Proof. intros a. reflexivity. Qed.

(* with the prefix comparison it does not *)
Lemma align_mode_prefix_refuted : exists a, align_mode_gen false a <> spec_mode a.
Proof. exists (gen_align_center ++ [101; 100]%N). vm_compute. discriminate. Qed.

Lemma align_mode_full_or_refuted :
  (gen_align_exact_keyword = true /\ forall a, align_mode_of a = spec_mode a)
  \/ (gen_align_exact_keyword = false /\ exists a, align_mode_of a <> spec_mode a).
Proof.
  unfold align_mode_of. destruct gen_align_exact_keyword.
  - left. split; [reflexivity | apply align_mode_exact_full].
  - right. split; [reflexivity | apply align_mode_prefix_refuted].
Qed.
