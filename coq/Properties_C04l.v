(* Properties_C04l.v — C04, part "legacy": the second XML serializer shipped in the library
   (xalanc/XMLSupport/FormatterToXML.cpp, model SerLegacyDefs.v, tables and variant flags regenerated
   into GenSerLegacy.v) against the model XML reader XmlParseDefs.v, and its agreement with the model
   of FormatterToXMLUnicode (SerEscDefs.v).
   g : lcfg = (m_maxCharacter, m_isXML1_1, lc_cdfix, lc_surfix); the theorems hold for EVERY g with
   lg_max_ok (lc_max g) unless a flag is named in the statement; lg_this_tree m v is the configuration
   with the flags found in the current source.  Strings are lists of 16-bit units (small) that XML
   can represent (wf_text: Chars of the version, surrogates in pairs). *)
From Coq Require Import NArith List Bool.
Require Import XV.GenSerLegacy XV.SerDefs XV.XmlParseDefs XV.SerEscModel XV.SerLegacyDefs XV.SerLegacyModel
               XV.SerLegacyModel2 XV.SerLegacyCdata XV.SerLegacyAgree.
Import ListNotations.
Local Open Scope N_scope.

(* every value XalanTranscodingServices::getMaximumCharacterValue can return is covered *)
Theorem legacy_max_character_values_covered : forallb lg_max_ok lg_max_character_values = true.
Proof. exact max_values_ok. Qed.
Print Assumptions legacy_max_character_values_covered.

(* ---- round trips ------------------------------------------------------------------------------ *)
Theorem legacy_content_roundtrip : forall g s, lg_max_ok (lc_max g) = true ->
  wf_text (lc_v11 g) s = true -> small s = true ->
  exists bs, lg_write_content g s = Ok bs /\ parse_content (lc_v11 g) bs = Some s.
Proof. exact SerLegacyModel2.legacy_content_roundtrip. Qed.
Print Assumptions legacy_content_roundtrip.

Theorem legacy_attr_roundtrip : forall g s, lg_max_ok (lc_max g) = true ->
  wf_text (lc_v11 g) s = true -> small s = true ->
  exists bs, lg_write_attr g s = Ok bs /\ parse_attr (lc_v11 g) bs = Some s.
Proof. exact SerLegacyModel2.legacy_attr_roundtrip. Qed.
Print Assumptions legacy_attr_roundtrip.

(* CDATA: the full statement for the repaired variant ... *)
Theorem legacy_cdata_roundtrip : forall g s, lg_max_ok (lc_max g) = true -> lc_cdfix g = true ->
  wf_text (lc_v11 g) s = true -> small s = true ->
  exists bs, lg_write_cdata g s = Ok bs /\ parse_content (lc_v11 g) bs = Some s.
Proof. exact legacy_cdata_roundtrip_fixed. Qed.
Print Assumptions legacy_cdata_roundtrip.

(* ... the exact guard for the unrepaired one (no CR; version 1.1: no NEL, LSEP, control character) ... *)
Theorem legacy_cdata_roundtrip_partial : forall g s, lg_max_ok (lc_max g) = true ->
  wf_text (lc_v11 g) s = true -> small s = true ->
  forallb (fun c => negb (lg_cd_esc (lc_v11 g) c)) s = true ->
  exists bs, lg_write_cdata g s = Ok bs /\ parse_content (lc_v11 g) bs = Some s.
Proof. exact legacy_cdata_roundtrip_unfixed. Qed.
Print Assumptions legacy_cdata_roundtrip_partial.

(* ... the witness that the guard is needed there (K-new-7: CR read back as LF), and that the repaired
   variant reads the same string back ... *)
Theorem legacy_cdata_roundtrip_refuted :
  lg_write_cdata (mklcfg 65535 false false false) [120; 13; 121] = Ok (lg_cdata_open ++ [120; 13; 121] ++ lg_cdata_close) /\
  parse_content false (lg_cdata_open ++ [120; 13; 121] ++ lg_cdata_close) = Some [120; 10; 121] /\
  wf_text false [120; 13; 121] = true /\
  lg_cd_guard (mklcfg 65535 false false false) [120; 13; 121] = false /\
  (exists bs, lg_write_cdata (mklcfg 65535 false true false) [120; 13; 121] = Ok bs /\
              parse_content false bs = Some [120; 13; 121]).
Proof. exact SerLegacyAgree.legacy_cdata_roundtrip_refuted. Qed.
Print Assumptions legacy_cdata_roundtrip_refuted.

(* ... and the statement at the flags regenerated from the current source: lg_cd_guard is "true" when
   GenSerLegacy.legacy_cdata_cr_referenced, else the guard of the partial theorem *)
Theorem legacy_cdata_roundtrip_this_tree : forall maxc v11 s, lg_max_ok maxc = true ->
  wf_text v11 s = true -> small s = true -> lg_cd_guard (lg_this_tree maxc v11) s = true ->
  exists bs, lg_write_cdata (lg_this_tree maxc v11) s = Ok bs /\ parse_content v11 bs = Some s.
Proof. exact legacy_cdata_roundtrip_tree. Qed.
Print Assumptions legacy_cdata_roundtrip_this_tree.

Example this_tree_guard : forall maxc v11 s,
  lg_cd_guard (lg_this_tree maxc v11) s =
  legacy_cdata_cr_referenced || forallb (fun c => negb (lg_cd_esc v11 c)) s.
Proof. reflexivity. Qed.

Theorem legacy_content_roundtrip_this_tree : forall maxc v11 s, lg_max_ok maxc = true ->
  wf_text v11 s = true -> small s = true ->
  exists bs, lg_write_content (lg_this_tree maxc v11) s = Ok bs /\ parse_content v11 bs = Some s.
Proof. exact legacy_content_roundtrip_tree. Qed.
Print Assumptions legacy_content_roundtrip_this_tree.

Example legacy_roundtrip_hypotheses_satisfiable :
  wf_text false [60; 38; 62; 34; 39; 9; 10; 13; 233; 8364; 55357; 56832; 93; 93; 62; 133; 8232] = true /\
  wf_text true [1; 60; 133; 8232; 159; 55357; 56832] = true /\
  small [60; 8364; 55357; 56832] = true /\
  lg_max_ok 127 = true /\ lg_max_ok 255 = true /\ lg_max_ok 65535 = true /\
  lg_cd_guard (mklcfg 255 true false false) [97; 93; 93; 62; 8364; 55357; 56832; 10] = true.
Proof. repeat split; vm_compute; reflexivity. Qed.
Print Assumptions legacy_roundtrip_hypotheses_satisfiable.

Example legacy_cdata_instance :
  lg_write_cdata (mklcfg 255 true true true) [8364; 97; 13; 10; 93; 93; 62; 1; 55357; 56832]
  = Ok (charref 8364 ++ lg_cdata_open ++ [97] ++ lg_cdata_close ++ charref 13 ++ lg_cdata_open ++ [10] ++
        lg_cdata_split ++ lg_cdata_close ++ charref 1 ++ lg_cdata_open ++ lg_cdata_close ++ charref 128512).
Proof. vm_compute. reflexivity. Qed.

(* ---- the two serializers agree ------------------------------------------------------------------ *)
(* on every string XML can represent both succeed, and the reader gets the same text from both
   outputs (namely the string).  Where the bytes may differ: FormatterToXML opens the section again
   directly after a reference (FormatterToXMLUnicode: before the next literal), writes a supplementary
   character as a pair only when m_maxCharacter = 0xFFFF, and ends a line with m_newlineString *)
Theorem legacy_agrees_with_unicode : forall g s, lg_max_ok (lc_max g) = true ->
  wf_text (lc_v11 g) s = true -> small s = true ->
  exists a b, lg_write_content g s = Ok a /\ payload (write_content fam_utf16 (lc_v11 g) s) = Ok b /\
              parse_content (lc_v11 g) a = parse_content (lc_v11 g) b /\ parse_content (lc_v11 g) a = Some s.
Proof. exact legacy_agrees_with_unicode_content. Qed.
Print Assumptions legacy_agrees_with_unicode.

Theorem legacy_agrees_with_unicode_in_attributes : forall g s, lg_max_ok (lc_max g) = true ->
  wf_text (lc_v11 g) s = true -> small s = true ->
  exists a b, lg_write_attr g s = Ok a /\ payload (write_attr_string fam_utf16 (lc_v11 g) s) = Ok b /\
              parse_attr (lc_v11 g) a = parse_attr (lc_v11 g) b /\ parse_attr (lc_v11 g) a = Some s.
Proof. exact legacy_agrees_with_unicode_attr. Qed.
Print Assumptions legacy_agrees_with_unicode_in_attributes.

Theorem legacy_agrees_with_unicode_in_cdata : forall g s, lg_max_ok (lc_max g) = true ->
  wf_text (lc_v11 g) s = true -> small s = true -> lg_cd_guard g s = true ->
  exists a b, lg_write_cdata g s = Ok a /\ payload (write_cdata fam_utf16 (lc_v11 g) s) = Ok b /\
              parse_content (lc_v11 g) a = parse_content (lc_v11 g) b /\ parse_content (lc_v11 g) a = Some s.
Proof. exact legacy_agrees_with_unicode_cdata. Qed.
Print Assumptions legacy_agrees_with_unicode_in_cdata.

Theorem legacy_agrees_with_unicode_other_encodings : forall g rep s, lg_max_ok (lc_max g) = true ->
  (forall c, c < 128 -> rep c = true) -> wf_text (lc_v11 g) s = true -> small s = true ->
  exists a b, lg_write_content g s = Ok a /\ payload (write_content (fam_other rep) (lc_v11 g) s) = Ok b /\
              parse_content (lc_v11 g) a = parse_content (lc_v11 g) b.
Proof. exact legacy_agrees_with_unicode_any_encoding. Qed.
Print Assumptions legacy_agrees_with_unicode_other_encodings.

(* ---- the error side ------------------------------------------------------------------------------ *)
(* a control character XML 1.0 forbids, anywhere behind a representable prefix, in a text node
   (attr = false) or an attribute value (attr = true): an error, never output *)
Theorem legacy_forbidden_char_fails : forall g attr p c r, lg_max_ok (lc_max g) = true -> lc_v11 g = false ->
  wf_text false p = true -> small p = true -> ctl10 c = true ->
  lg_loop g attr (p ++ c :: r) = Thrown err_forbidden.
Proof. exact SerLegacyAgree.legacy_forbidden_char_fails. Qed.
Print Assumptions legacy_forbidden_char_fails.

Theorem legacy_fails_iff_unicode_fails : forall g p c r, lg_max_ok (lc_max g) = true -> lc_v11 g = false ->
  wf_text false p = true -> small p = true -> ctl10 c = true -> sur_paired (p ++ c :: r) = true ->
  lg_write_content g (p ++ c :: r) = Thrown err_forbidden /\
  payload (write_content fam_utf16 false (p ++ c :: r)) = Thrown err_forbidden.
Proof. exact legacy_fails_iff_unicode_fails_forbidden. Qed.
Print Assumptions legacy_fails_iff_unicode_fails.

(* an unpaired surrogate (K-new-4): with the repair an error wherever it stands ... *)
Theorem legacy_unpaired_surrogate_fails : forall g attr p t, lg_max_ok (lc_max g) = true ->
  lc_surfix g = true -> wf_text (lc_v11 g) p = true -> small p = true -> lone_head t = true ->
  lg_loop g attr (p ++ t) = Thrown err_surrogate.
Proof. exact SerLegacyAgree.legacy_unpaired_surrogate_fails. Qed.
Print Assumptions legacy_unpaired_surrogate_fails.

(* ... without it a lone low surrogate is written (raw, or as a reference to itself): not well-formed ... *)
Theorem legacy_unpaired_surrogate_fails_refuted :
  lg_write_content (mklcfg 65535 false false false) [97; 56832; 98] = Ok [97; 56832; 98] /\
  parse_content false [97; 56832; 98] = None /\
  lg_write_content (mklcfg 255 false false false) [97; 56832; 98] = Ok ([97] ++ charref 56832 ++ [98]) /\
  parse_content false ([97] ++ charref 56832 ++ [98]) = None.
Proof. exact SerLegacyAgree.legacy_unpaired_surrogate_fails_refuted. Qed.
Print Assumptions legacy_unpaired_surrogate_fails_refuted.

(* ... and only a lone high surrogate outside the encoding is detected *)
Theorem legacy_unpaired_surrogate_fails_partial : forall g attr p c r, lg_max_ok (lc_max g) = true ->
  wf_text (lc_v11 g) p = true -> small p = true -> x_high c = true -> (lc_max g <? c) = true ->
  match r with n :: _ => x_low n = false | [] => True end ->
  lg_loop g attr (p ++ c :: r) = Thrown err_surrogate.
Proof. exact legacy_unpaired_high_fails_partial. Qed.
Print Assumptions legacy_unpaired_surrogate_fails_partial.

Example legacy_error_hypotheses_satisfiable :
  ctl10 1 = true /\ ctl10 31 = true /\ ctl10 9 = false /\ lone_head [56832; 98] = true /\
  lone_head [55357; 98] = true /\ lone_head [55357] = true /\ lone_head [55357; 56832] = false /\
  sur_paired ([97; 55357; 56832] ++ 1 :: [98]) = true.
Proof. repeat split; vm_compute; reflexivity. Qed.
Print Assumptions legacy_error_hypotheses_satisfiable.

(* comments and processing instructions: the legacy serializer checks nothing there (finding K-new-8):
   a character outside the encoding becomes a character reference inside the comment, which a reader
   takes as the seven characters themselves *)
Theorem legacy_comment_writes_a_reference_witness :
  lg_write_comment (mklcfg 255 false true true) [97; 8364] = [60; 33; 45; 45; 97] ++ charref 8364 ++ [45; 45; 62].
Proof. vm_compute. reflexivity. Qed.
Print Assumptions legacy_comment_writes_a_reference_witness.
