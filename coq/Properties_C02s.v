(* Properties_C02s.v — C02, declarative-specification part: the interpreter model of XpDefs.v
   (axis walks, node tests, predicates with positions, step merging, location paths, substring())
   equals a declarative reading of XPath 1.0 sections 2, 4.2 and 5 (XpSpecDefs.v), for EVERY
   well-formed node table, every context node, every step list; every document the generators
   build is well-formed.  The namespace axis is excluded (known finding K21).
   Only [exact] of lemmas proved in XpSpec*Model.v, each followed by Print Assumptions. *)
From Coq Require Import ZArith NArith List Bool Arith SpecFloat.
Require Import XV.GenNum XV.NumDefs XV.NumModel XV.XpAst XV.DomDefs XV.XpDefs XV.XpModel
               XV.XpSpecDefs XV.XpSpecLayoutModel XV.XpSpecAxesModel XV.XpSpecFollowModel XV.XpSpecBuildModel
               XV.XpSpecIndexModel XV.XpSpecStepModel XV.XpSpecMainModel XV.XpSpecEvalModel XV.XpSpecFuelModel XV.XpSpecSubstrModel.
Import ListNotations.

(** * the hypothesis [wfd d] is satisfied by every document the generators can build *)
Theorem built_documents_wellformed : forall top, wfd (build_doc top).
Proof. exact build_doc_wfd. Qed.
Print Assumptions built_documents_wellformed.

Example wellformed_example : wfd demo_doc /\ length demo_doc = 6.
Proof. split; [exact demo_doc_wfd | reflexivity]. Qed.

(** * the axis walks: exactly the nodes of the declarative axis, in axis order (document order for
      forward axes, reverse document order for reverse axes; hence no duplicates and
      list index + 1 = proximity position).  [walk_correct d ax n l] =
      [axis_ordered ax l /\ forall x, In x l <-> axis_rel d ax n x].  Fuel bounds are explicit. *)
Theorem axis_walk_self_correct : forall d n, walk_correct d AxSelf n [n].
Proof. exact self_walk. Qed.
Print Assumptions axis_walk_self_correct.

Theorem axis_walk_parent_correct : forall d, wfd d -> forall n,
  walk_correct d AxParent n (match parent_of d n with Some p => [p] | None => [] end).
Proof. exact ax_parent. Qed.
Print Assumptions axis_walk_parent_correct.

Theorem axis_walk_child_correct : forall d, wfd d -> forall n fuel, length d <= fuel ->
  walk_correct d AxChild n (siblings_after d fuel (first_child d n)).
Proof. exact ax_child. Qed.
Print Assumptions axis_walk_child_correct.

Theorem axis_walk_attribute_correct : forall d, wfd d -> forall n, n < length d ->
  walk_correct d AxAttribute n
    (filter (is_kattr d) (if nkind_eqb (n_kind (get d n)) KElem then n_attrs (get d n) else [])).
Proof. exact ax_attribute. Qed.
Print Assumptions axis_walk_attribute_correct.

Theorem axis_walk_ancestor_correct : forall d, wfd d -> forall n fuel, n < fuel ->
  walk_correct d AxAncestor n (ancestors_from d fuel (parent_of d n)).
Proof. exact ax_ancestor. Qed.
Print Assumptions axis_walk_ancestor_correct.

Theorem axis_walk_ancestor_or_self_correct : forall d, wfd d -> forall n fuel, n < fuel ->
  walk_correct d AxAncestorOrSelf n (ancestors_from d (S fuel) (Some n)).
Proof. exact ax_ancestor_or_self. Qed.
Print Assumptions axis_walk_ancestor_or_self_correct.

Theorem axis_walk_descendant_or_self_correct : forall d, wfd d -> forall n, n < length d ->
  walk_correct d AxDescendantOrSelf n (descendants_or_self d n).
Proof. exact ax_descendant_or_self. Qed.
Print Assumptions axis_walk_descendant_or_self_correct.

Theorem axis_walk_descendant_correct : forall d, wfd d -> forall n, n < length d ->
  walk_correct d AxDescendant n (tl (descendants_or_self d n)).
Proof. exact ax_descendant. Qed.
Print Assumptions axis_walk_descendant_correct.

(* the descendant walk with any fuel of at least the table length is the walk the interpreter runs *)
Theorem descendant_walk_fuel_sufficient : forall d, wfd d -> forall n fuel, n < length d -> length d <= fuel ->
  descend d fuel n n = descendants_or_self d n.
Proof. exact ax_descendant_or_self_fuel. Qed.
Print Assumptions descendant_walk_fuel_sufficient.

Theorem axis_walk_following_sibling_correct : forall d, wfd d -> forall n fuel, length d <= fuel ->
  walk_correct d AxFollowingSibling n (siblings_after d fuel (next_sibling d n)).
Proof. exact ax_following_sibling. Qed.
Print Assumptions axis_walk_following_sibling_correct.

Theorem axis_walk_preceding_sibling_correct : forall d, wfd d -> forall n fuel, length d <= fuel ->
  walk_correct d AxPrecedingSibling n (siblings_before d fuel (prev_sibling d n)).
Proof. exact ax_preceding_sibling. Qed.
Print Assumptions axis_walk_preceding_sibling_correct.

Theorem axis_walk_following_correct : forall d, wfd d -> forall n, n < length d ->
  walk_correct d AxFollowing n (following d n).
Proof. exact ax_following. Qed.
Print Assumptions axis_walk_following_correct.

Theorem axis_walk_preceding_correct : forall d, wfd d -> forall n, n < length d ->
  walk_correct d AxPreceding n (preceding d n).
Proof. exact ax_preceding. Qed.
Print Assumptions axis_walk_preceding_correct.

Theorem axis_walk_root_correct : forall d, wfd d -> forall n, n < length d -> walk_correct d AxRoot n [0].
Proof. exact ax_root. Qed.
Print Assumptions axis_walk_root_correct.

(* what [walk_correct] gives: no duplicates, the length is the size of the axis set, and the node at
   list index i has proximity position i + 1 *)
Theorem axis_walk_positions : forall d ax n l, walk_correct d ax n l ->
  NoDup l /\ set_size (axis_rel d ax n) (length l) /\
  forall i x, nth_error l i = Some x -> proximity_position ax (axis_rel d ax n) x (S i).
Proof. exact walk_correct_positions. Qed.
Print Assumptions axis_walk_positions.

Example following_of_an_attribute :
  axis_nodes (mkCtx demo_doc 3 [3] [] (fun _ _ => false)) AxFollowing TNode 3 = Ok ([4; 5], false) /\
  axis_nodes (mkCtx demo_doc 5 [5] [] (fun _ _ => false)) AxPreceding TNode 5 = Ok ([4], true).
Proof. split; vm_compute; reflexivity. Qed.

(** * walk + node test, all thirteen walks at once (the namespace axis excluded by name) *)
Theorem axis_nodes_correct_all : forall c ax t n l rv,
  wfd (cx_doc c) -> n < length (cx_doc c) -> ax <> AxNamespace -> (ax = AxRoot -> t = TRoot) ->
  axis_nodes c ax t n = Ok (l, rv) ->
  rv = axis_reverse ax /\ axis_ordered ax l /\
  forall x, In x l <-> axis_rel (cx_doc c) ax n x /\ test_node c ax t x = true.
Proof. exact axis_nodes_correct. Qed.
Print Assumptions axis_nodes_correct_all.

(** * position() and last() as coded are the proximity position and the context size *)
Theorem position_is_proximity_position : forall c ax (S : nat -> Prop) l i n,
  axis_ordered ax l -> (forall y, In y l <-> S y) -> nth_error l i = Some n ->
  proximity_position ax S n (position_of (with_node c n l)) /\
  set_size S (length (cx_list (with_node c n l))).
Proof. exact position_is_proximity. Qed.
Print Assumptions position_is_proximity_position.

(* the number-literal shortcut [k] of XPath::predicates selects index k-1 exactly when the literal
   equals the position as a double *)
Theorem numeric_predicate_shortcut : forall (x : dbl) (bound k : nat),
  valid_binary prec emax x = true -> (Z.of_nat bound < 2 ^ 53)%Z ->
  (d_index x bound = Some k <-> (1 <= k <= bound)%nat /\ d_eq (d_of_nat k) x = true).
Proof. exact d_index_spec. Qed.
Print Assumptions numeric_predicate_shortcut.

(** * a step: axis, node test, predicates left to right (general predicates by null-then-compact, a
      number literal by indexing; the PREDICATE_WITH_POSITION flag, the [bool] of each predicate, plays
      no role) = [step_denotes]; [ev] is any evaluator of predicate expressions that is a function
      [pv] of (node, position in the context list, length of the context list) *)
Theorem step_correct : forall (ev : ctx -> expr -> res value) (c : ctx) (pv : expr -> nat -> nat -> nat -> res value),
  (forall pe l i n, NoDup l -> nth_error l i = Some n -> ev (with_node c n l) pe = pv pe n (S i) (length l)) ->
  (forall t x k m, pv (ENumLit t) x k m = Ok (VNum (string_to_number t))) ->
  (Z.of_nat (length (cx_doc c)) < 2 ^ 53)%Z ->
  forall ax t ps n l0 rv l1,
  wfd (cx_doc c) -> n < length (cx_doc c) -> ax <> AxNamespace -> (ax = AxRoot -> t = TRoot) ->
  axis_nodes c ax t n = Ok (l0, rv) -> apply_preds ev c l0 ps = Ok l1 ->
  rv = axis_reverse ax /\ axis_ordered ax l1 /\
  forall x, In x l1 <-> step_denotes (cx_doc c) (test_node c) pv (ax, t, ps) n x.
Proof. exact step_from_node. Qed.
Print Assumptions step_correct.

(** * a location path: per-context-node steps merged in document order = relational composition;
      the result is strictly sorted in document order (so duplicate-free); the fuel the interpreter
      passes, [S (length steps)], suffices (an out-of-fuel run would not be [Ok]) *)
Theorem path_correct : forall (ev : ctx -> expr -> res value) (c : ctx) (pv : expr -> nat -> nat -> nat -> res value),
  (forall pe l i n, NoDup l -> nth_error l i = Some n -> ev (with_node c n l) pe = pv pe n (S i) (length l)) ->
  (forall t x k m, pv (ENumLit t) x k m = Ok (VNum (string_to_number t))) ->
  (Z.of_nat (length (cx_doc c)) < 2 ^ 53)%Z ->
  forall steps n r, wfd (cx_doc c) -> n < length (cx_doc c) -> steps_ok steps ->
  steps_from ev c (S (length steps)) [n] false steps = Ok r ->
  ordered r /\ forall x, In x r <-> path_denotes (cx_doc c) (test_node c) pv steps n x.
Proof. exact path_from_node. Qed.
Print Assumptions path_correct.

(* more fuel than steps: the step recursion reports out-of-fuel only if the evaluator of the predicate
   expressions does *)
Theorem step_fuel_sufficient : forall ev : ctx -> expr -> res value, (forall cc pe, ev cc pe <> Err EFuel) ->
  forall c steps sfuel sub rv e, length steps < sfuel ->
  steps_from ev c sfuel sub rv steps = Err e -> e <> EFuel.
Proof. exact steps_from_fuel. Qed.
Print Assumptions step_fuel_sufficient.

Example step_fuel_hypothesis_satisfiable : forall cc pe, ev_demo cc pe <> Err EFuel.
Proof. intros cc pe. unfold ev_demo. destruct pe; discriminate. Qed.

(* the hypotheses about [ev]/[pv] are satisfiable *)
Example step_hypotheses_satisfiable : forall c,
  (forall pe l i n, NoDup l -> nth_error l i = Some n -> ev_demo (with_node c n l) pe = pv_demo pe n (S i) (length l)) /\
  (forall t x k m, pv_demo (ENumLit t) x k m = Ok (VNum (string_to_number t))).
Proof. intros c. split; [exact (ev_demo_ok c) | reflexivity]. Qed.

Example steps_ok_example : steps_ok [(AxRoot, TRoot, []); (AxDescendantOrSelf, TNode, []); (AxChild, TName NsEmpty None, [(true, ENumLit [49%N])])].
Proof. repeat constructor; intros; discriminate. Qed.

(** * ... and the interpreter itself is such an evaluator: it reads the context node list only
      through position() and last() *)
Theorem eval_reads_context_list_through_position_and_size : forall f c l',
  position_of (set_list c l') = position_of c -> length l' = length (cx_list c) ->
  forall e, eval f (set_list c l') e = eval f c e.
Proof. exact eval_list_irrelevant. Qed.
Print Assumptions eval_reads_context_list_through_position_and_size.

(* a location-path expression (relative, or absolute through the AxRoot step) evaluated by the
   interpreter denotes the relational composition of its steps, each predicate expression being
   evaluated (by the interpreter) at the node, its proximity position and the size of the set
   the previous predicate left *)
Theorem eval_path_eq_spec : forall f c hps steps v,
  wfd (cx_doc c) -> cx_node c < length (cx_doc c) -> steps_ok steps ->
  (Z.of_nat (length (cx_doc c)) < 2 ^ 53)%Z ->
  eval (S (S f)) c (EPath None hps steps) = Ok v ->
  exists r, v = VNodes r /\ ordered r /\
    forall x, In x r <-> path_denotes (cx_doc c) (test_node c) (pv_eval (S f) c) steps (cx_node c) x.
Proof. exact eval_path_spec. Qed.
Print Assumptions eval_path_eq_spec.

(* a filter expression ($v, f(...), (e)) with predicates, followed by steps (section 3.3: its
   predicates count in document order) *)
Theorem eval_filter_path_eq_spec : forall f c h hps steps v,
  wfd (cx_doc c) -> steps_ok steps -> (Z.of_nat (length (cx_doc c)) < 2 ^ 53)%Z -> filter_head h ->
  eval (S (S f)) c (EPath (Some h) hps steps) = Ok v ->
  exists ns r, eval (S f) c h = Ok (VNodes ns) /\ v = VNodes r /\
    ((forall y, In y ns -> y < length (cx_doc c)) ->
     ordered r /\
     forall x, In x r <-> exists n, preds_set (pv_eval (S f) c) AxChild (fun y => In y ns) hps n /\
                                    path_denotes (cx_doc c) (test_node c) (pv_eval (S f) c) steps n x).
Proof. exact eval_filter_path_spec. Qed.
Print Assumptions eval_filter_path_eq_spec.

Example eval_path_example :
  eval_top (mkCtx demo_doc 0 [0] [] (fun _ _ => false))
    (EPath None [] [(AxDescendant, TNode, [(true, ENumLit [51%N])]); (AxPrecedingSibling, TNode, [])])
  = Ok (VNodes [4]).
Proof. vm_compute. reflexivity. Qed.

(** * substring() as coded = XPath 1.0 section 4.2 read on IEEE doubles and UTF-16 units (K6) *)
Theorem substring_is_section_4_2 : forall (s : str) (a : dbl) (b : option dbl),
  valid_binary prec emax a = true ->
  match b with Some t => valid_binary prec emax t = true | None => True end ->
  (Z.of_nat (length s) < 2 ^ 53)%Z ->
  f_substring s a b = substring_spec s a b.
Proof. exact substring_correct. Qed.
Print Assumptions substring_is_section_4_2.

Theorem substring_is_section_4_2_all_bit_patterns : forall (s : str) (ba : Z) (bb : option Z),
  (Z.of_nat (length s) < 2 ^ 53)%Z ->
  f_substring s (of_bits ba) (option_map of_bits bb) = substring_spec s (of_bits ba) (option_map of_bits bb).
Proof. exact substring_correct_bits. Qed.
Print Assumptions substring_is_section_4_2_all_bit_patterns.

(** * arithmetic as coded (DoubleSupport.cpp) = IEEE 754 (XPath 1.0 section 3.5) *)
From Coq Require Import Reals Lra.
From Flocq Require Import Core.
From Flocq Require IEEE754.BinarySingleNaN.
Require Import XV.XpSpecSubstrAuxModel XV.XpSpecArithModel.

(* the explicit zero-divisor / NaN treatment of DoubleSupport::divide returns exactly the IEEE quotient *)
Theorem div_is_ieee_division : forall x y : dbl, d_div x y = SFdiv prec emax x y.
Proof. exact d_div_is_ieee. Qed.
Print Assumptions div_is_ieee_division.

(* [fin x v]: x is a valid finite double of real value v.  mod is the exact truncating remainder, with
   the sign of the dividend *)
Theorem mod_is_exact_truncating_remainder : forall x y vx vy, fin x vx -> fin y vy -> vy <> 0%R ->
  fin (d_mod x y) (vx - vy * IZR (Ztrunc (vx / vy))) /\ BinarySingleNaN.sign_SF (d_mod x y) = BinarySingleNaN.sign_SF x.
Proof. exact mod_exact. Qed.
Print Assumptions mod_is_exact_truncating_remainder.

Theorem mod_special_cases : forall x y : dbl,
  (d_is_nan x = true -> d_mod x y = S754_nan) /\
  (d_is_nan y = true -> d_mod x y = S754_nan) /\
  (d_is_zero y = true -> d_mod x y = S754_nan) /\
  (BinarySingleNaN.is_finite_SF x = false -> d_mod x y = S754_nan) /\
  (BinarySingleNaN.is_finite_SF x = true -> (exists s, y = S754_infinity s) -> d_mod x y = x) /\
  (d_is_zero x = true -> BinarySingleNaN.is_finite_SF y = true -> d_is_zero y = false -> d_mod x y = x).
Proof. exact d_mod_special. Qed.
Print Assumptions mod_special_cases.

(* [arith_result r v]: r is the double nearest (ties to even) to v, or the correctly signed infinity
   when that overflows *)
Theorem add_sub_mul_div_round_to_nearest_even : forall x y vx vy, fin x vx -> fin y vy ->
  arith_result (d_add x y) (vx + vy) /\ arith_result (d_sub x y) (vx - vy) /\
  arith_result (d_mul x y) (vx * vy) /\ (vy <> 0%R -> arith_result (d_div x y) (vx / vy)).
Proof.
  exact (fun x y vx vy Hx Hy => conj (d_add_correct x y vx vy Hx Hy) (conj (d_sub_correct x y vx vy Hx Hy)
           (conj (d_mul_correct x y vx vy Hx Hy) (d_div_correct x y vx vy Hx Hy)))).
Qed.
Print Assumptions add_sub_mul_div_round_to_nearest_even.

Example arithmetic_hypotheses_satisfiable :
  fin (long_to_double 5) 5%R /\ fin (long_to_double (-3)) (-3)%R /\
  d_mod (long_to_double 5) (long_to_double (-3)) = long_to_double 2.
Proof. destruct mod_examples as [A [_ [_ [_ [B C]]]]]. exact (conj B (conj C A)). Qed.
