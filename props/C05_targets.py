"""C05, part "targets": the two tree-building result targets (FormatterToXercesDOM, FormatterToSourceTree) inside the
model.  run_part(ctx) is a plug-in for props/C05.py (same shape as props.C02_compiler):

  proof / tie   coq/Properties_C05t.v over coq/GenTargets.v (translator/gen_targets.py: the flush table of both classes,
                the pinned method bodies, the cdata() variant of the source-tree builder, the marker PI of charactersRaw)
  correspondence  the extracted machines (ocaml/targets_driver.ml) and the specification den_t against the real classes
                driven event by event (harness/targets.cpp) - document and fragment mode, with and without a prefix resolver
  oracle        independent of the model: the same script through the stream serializer, parsed again by Xerces, must give
                the same tree (XPath data model view) as both tree targets; both targets refuse text outside the
                document element together."""
import os, time
from vlib import core
from vlib import targets as tg

PART = "targets"
KEY_CDATA = "K-C05t-1"
KEY_CHARLEN = "K-C05t-2"


def _scripts(ctx, r, scale):
    """list of dicts: id, cls, items | events, res, safe (stream oracle possible), nested"""
    out = []

    def add(cls, items=None, events=None, res=None, safe=True, bare=False):
        out.append({"id": "%s%d" % (PART[0], len(out)), "cls": cls, "items": items, "events": events, "res": res, "safe": safe, "bare": bare})
        ctx.count("targets:" + cls.split("/")[0])

    for name, items in tg.boundary_scripts():
        add("boundary/" + name, items)
        if name.startswith("flush-before"):
            add("boundary/" + name + "/ns", items, res=[("", "urn:d"), ("p", "urn:p")])
    n = 420 * scale
    for _ in range(n):
        add("plain-doc", tg.gen_doc(r, "mp", tg.SAFE))
        add("plain-frag", tg.gen_frag(r, "mp", tg.SAFE))
    for _ in range(n // 2):
        add("mixed-doc", tg.gen_doc(r, "mpdri", tg.SAFE))
        add("mixed-frag", tg.gen_frag(r, "mpdrin", tg.SAFE), safe=True)
        add("wide-frag", tg.gen_frag(r, "mpdi", tg.WIDE), safe=False)
    for _ in range(n // 2):
        res = tg.gen_resolver(r)
        add("ns-doc", tg.gen_doc(r, "mp", tg.SAFE, ns=True), res=res)
        add("ns-frag", tg.gen_frag(r, "mpd", tg.SAFE, ns=True), res=res)
    for _ in range(n // 4):
        # anything at the top of a document: text, several elements, cdata, ...
        add("top-any", tg.gen_frag(r, "mpdrin", tg.SAFE + "  "))
        # duplicate attribute names (cannot come out of AttributeListImpl; the classes are public)
        e = tg.gen_elem(r, 2, "mp", tg.SAFE, False)
        at = list(e[2]) + [(r.choice(["k", "id", "y"]), tg.rand_text(r, tg.SAFE, 0, 3)) for _ in range(r.randint(1, 3))]
        r.shuffle(at)
        add("dup-attr", [('e', e[1], at, e[3])], safe=False)
        # not well nested: elements left open, no endDocument
        evs = tg.ev_tokens(tg.gen_frag(r, "mpd", tg.SAFE))
        cut = r.randint(0, len(evs))
        evs = [t for i, t in enumerate(evs) if not (t.startswith("E|") and (i >= cut or r.random() < 0.3))]
        add("unclosed", events=["O"] + evs + (["Z"] if r.random() < 0.5 else []), safe=False, bare=True)
    return out


def _lines(scripts):
    impl, model = [], []
    for s in scripts:
        for t in "xs":
            for m in "df":
                ln = tg.line("%s/%s%s" % (s["id"], t, m), t, m, s["res"], s["items"], s["events"], s["bare"])
                impl.append(ln)
                model.append(ln)
                if s["items"] is not None:
                    model.append(tg.line("%s/%s%s" % (s["id"], t.upper(), m), t.upper(), m, s["res"], s["items"], bare=True))
        for m in "df":
            # the document-order indexes of the source-tree target
            ln = tg.line("%s/i%s" % (s["id"], m), "i", m, s["res"], s["items"], s["events"], s["bare"])
            impl.append(ln)
            model.append(ln)
            if s["items"] is not None:
                model.append(tg.line("%s/J%s" % (s["id"], m), "J", m, s["res"], s["items"], bare=True))
        if s["items"] is not None and s["safe"] and _probe_ok(s["items"]):
            # order probe: the built source tree against the parsed stream output, queried by the same stylesheet
            impl.append(tg.line("%s/q" % s["id"], "q", "d", None, s["items"]))
            impl.append(tg.line("%s/p" % s["id"], "p", "d", None, s["items"]))
            # the same with a real first stage: identity transformation into a FormatterToSourceTree document / into a stream
            impl.append(tg.line("%s/Q" % s["id"], "Q", "d", None, s["items"]))
            impl.append(tg.line("%s/P" % s["id"], "P", "d", None, s["items"]))
        if s["items"] is not None and s["safe"]:
            # the stream serializer: one wrapping element makes every script one well-formed document
            impl.append(tg.line("%s/m" % s["id"], "m", "d", None, [('e', "W", [], s["items"])]))
            if tg.has_kind(s["items"], "d"):
                impl.append(tg.line("%s/m0" % s["id"], "m", "d", None, [('e', "W", [], _without(s["items"], "d"))]))
    return impl, model


def txt(t):
    try:
        return bytes.fromhex((t or "").split()[1]).decode("utf-8", "replace") if _status(t) == "ok" and len(t.split()) > 1 else (t or "")
    except ValueError:
        return t or ""


def _plain_names(items):
    for it in items:
        if it[0] == 'e':
            if ":" in it[1] or any(":" in a[0] or a[0].startswith("xmlns") for a in it[2]) or not _plain_names(it[3]):
                return False
        elif it[0] not in ('c', 'm', 'p'):
            return False
    return True


def _probe_ok(items):
    return tg.doc_shape_ok(items) and sum(1 for i in items if i[0] == 'e') == 1 and _plain_names(items)


def _first_diff(a, b):
    la, lb = tg.show(a), tg.show(b)
    for i in range(max(len(la), len(lb))):
        x = la[i] if i < len(la) else "<end>"
        y = lb[i] if i < len(lb) else "<end>"
        if x != y:
            return "%s  |vs|  %s" % (x, y)
    return "?"


def run_part(ctx):
    t0 = time.time()
    r = ctx.rng
    ctx.assumptions += [
        "targets: the mutable DOM of both builders is abstracted to a zipper (open elements with their children so far); the model is "
        "compared with the real classes event by event on generated scripts, not derived from the C++ text beyond the facts of GenTargets.v",
        "targets: names in scripts are XML names (the INVALID_CHARACTER_ERR / NAMESPACE_ERR checks of Xerces' create* calls are not "
        "modelled); characters(chars, length) is fed with a buffer of exactly length units",
        "targets: document-order indexes are modelled for FormatterToSourceTree only (a Xerces DOM stores none); the document's index counter at "
        "the start of a build is a parameter of the theorem, the correspondence runs on fresh documents (a document fragment takes one index itself)",
        "targets: the stream oracle uses an alphabet that serialisation + parsing leaves unchanged (no CR, no lone surrogates), and "
        "compares qualified names and values (namespace URIs are compared between the two tree targets, except on an attribute called xmlns)",
    ]
    proved = True
    old_gen = ctx.notes.get("gen")
    if os.path.exists(os.path.join(core.COQ, "Properties_C05t.v")):
        proved = ctx.prove(["Properties_C05t.v"], ["GenTargets"])
    else:
        ctx.notes["targets_proof"] = "coq/Properties_C05t.v is not there: no theorem of the targets part was checked in this run"
    facts = core.coq_prepare(["GenTargets"])
    if not os.path.exists(os.path.join(core.COQ, "Properties_C05t.v")):
        for name, r_ in facts.items():
            if not r_["ok"]:
                ctx.broken.append("translator: %s: %s" % (name, r_["error"]))
                proved = False
    merged = dict(old_gen or {})
    merged.update(ctx.notes.get("gen") or {})
    merged.update({k: ({"ok": True, "changed": v.get("changed")} if v["ok"] else v) for k, v in facts.items()})
    ctx.notes["gen"] = merged
    gfacts = (facts.get("GenTargets") or {}).get("facts") or {}
    # when the translator cannot read the source (a rewritten body), the oracle must not assume the as-found variants
    # (recorded findings K-C05t-1/-2 are repaired and excuse nothing): it then judges by the property text alone
    tf_ok = bool((facts.get("GenTargets") or {}).get("ok")) and bool(gfacts)
    cdata_fixed = bool(gfacts.get("s_cdata_is_characters")) if tf_ok else True
    charlen_fixed = bool(gfacts.get("s_top_ws_test_uses_length")) if tf_ok else True
    ctx.notes["targets_repo_variant"] = {"s_cdata_is_characters": cdata_fixed, "s_top_ws_test_uses_length": charlen_fixed,
                                         "s_element_created_after_flush": gfacts.get("s_element_created_after_flush")}
    model, ok_m, mlog = core.build_model(PART)
    if not ok_m:
        ctx.broken.append("targets: model extraction/build failed: " + mlog[-500:])
        model = None
    impl, ok_h, hlog = core.build_harness(PART, "plain")
    if not ok_h:
        ctx.broken.append("targets: harness/targets.cpp does not compile against the working tree: " + hlog[-500:])
        return
    known = {k["key"]: k for k in ctx.known.for_property("C05")}
    state = {"corr": [], "orc": [], "known": {}, "n_corr": 0, "n_spec": 0, "n_orc": 0, "nontrivial": set()}

    def round_(scale):
        scripts = _scripts(ctx, r, scale)
        # frozen replays of the recorded finding and of the seeded change
        cdir = os.path.join(core.VERIF, "corpus", "C05t")
        impl_lines, model_lines = _lines(scripts)
        res_i = _run(impl, impl_lines, state, "library")
        res_m = _run(model, model_lines, state, "model") if model else None
        _judge(ctx, scripts, res_i, res_m, state, cdata_fixed)
        _corpus(ctx, cdir, impl, state, cdata_fixed, charlen_fixed)

    round_(1 if not ctx.thorough else 8)
    if (state["corr"] or not proved or not model) and not state["orc"] and not ctx.thorough:
        ctx.escalated = True
        round_(5)
    for k in sorted(state["known"]):
        if k in known:
            ctx.known_finding("%s %s" % (k, known[k]["what"]))
        else:
            state["orc"].append(("known-class-without-entry", "class %s was hit but is not listed in props/C05.findings.txt / KNOWN_FINDINGS.txt" % k, ""))
    ctx.notes["targets_known_class_hits"] = state["known"]
    ctx.cov["evaluations"] += state["n_corr"] + state["n_orc"]
    ctx.cov["distinct_nontrivial"] += len(state["nontrivial"])
    ctx.cov["traces_validated_against_impl"] += state["n_corr"] + state["n_spec"]
    ctx.notes["targets_rule"] = ("targets: distinct = distinct event scripts; non-trivial = scripts with a characters event directly followed by "
                                 "a node-creating event or an end tag (a flush site)")
    ctx.notes["targets_counts"] = {"machine_vs_library": state["n_corr"], "specification_vs_library": state["n_spec"], "oracle_comparisons": state["n_orc"],
                                   "order_probes": state.get("n_probe", 0)}
    if state["corr"]:
        ctx.broken.append("correspondence targets: %d cases differ between model and library, e.g. %s" % (len(state["corr"]), str(state["corr"][0])[:700]))
        ctx.notes["targets_correspondence_mismatches"] = [str(c)[:600] for c in state["corr"][:10]]
    if state["orc"]:
        by_tag = {}
        for tag, what, ln in state["orc"]:
            by_tag.setdefault(tag, []).append((what, ln))
        for tag, items in by_tag.items():
            items.sort(key=lambda x: len(x[1]))
            txt = ("# C05 targets oracle failures, class %s (replay: feed the case lines to .build/targets_plain; x = FormatterToXercesDOM, "
                   "s = FormatterToSourceTree, m = stream serializer + Xerces)\n" % tag)
            txt += "\n".join("%s\n#   %s" % (ln, what[:1500]) for what, ln in items[:6])
            ctx.violation("targets-" + tag, txt)
    ctx.notes["targets_oracle_failures"] = len(state["orc"])
    ctx.notes.setdefault("phase_seconds", {})["targets"] = round(time.time() - t0, 1)


def _run(exe, lines, state, who):
    rc, res, raw = core.run_lines_parallel(exe, lines, timeout=600)
    if rc != 0:
        # a crash of one process loses its later cases: run the missing ones singly
        for ln in lines:
            cid = ln.split(" ", 1)[0]
            if cid in res:
                continue
            rc1, res1, raw1 = core.run_lines(exe, ln + "\n", timeout=60)
            res.update(res1)
            if rc1 != 0 and cid not in res1:
                res[cid] = "crash %d" % rc1
                if who == "library":
                    state["orc"].append(("crash", "the driver exited with status %d on this case: %s" % (rc1, raw1[-200:]), ln))
    return res


def _status(txt):
    if txt is None:
        return "missing"
    return txt.split(" ", 1)[0]


def _flush_site(items):
    prev_text = False
    for it in items:
        if it[0] == 'c':
            prev_text = prev_text or it[1] != ""
            continue
        if prev_text:
            return True
        if it[0] == 'e' and (_flush_site(it[3]) or (it[3] and it[3][-1][0] == 'c' and it[3][-1][1] != "")):
            return True
        prev_text = False
    return False


def _judge(ctx, scripts, res_i, res_m, state, cdata_fixed):
    for s in scripts:
        sid = s["id"]
        items = s["items"]
        if items is not None and _flush_site(items):
            state["nontrivial"].add(" ".join(tg.ev_tokens(items)))
        trees = {}
        for t in "xs":
            for m in "df":
                key = "%s/%s%s" % (sid, t, m)
                ti = res_i.get(key)
                ln = tg.line(key, t, m, s["res"], items, s["events"], s["bare"])
                pi = tg.parse_dump(ti) if ti else None
                trees[t + m] = pi if _status(ti) == "ok" else None
                if _status(ti) not in ("ok", "err"):
                    state["orc"].append(("driver", "unexpected driver answer %r" % (ti or "")[:80], ln))
                    continue
                # --- correspondence: the extracted machine
                if res_m is not None:
                    tm = res_m.get(key)
                    state["n_corr"] += 1
                    if _status(tm) != _status(ti):
                        state["corr"].append((s["cls"], "machine %s / library %s" % (_status(tm), (ti or "")[:40]), ln))
                    elif _status(ti) == "ok":
                        pm = tg.parse_dump(tm)
                        if tg.canon(pm) != tg.canon(pi):
                            state["corr"].append((s["cls"], "trees differ (machine |vs| library): " + _first_diff(tg.canon(pm), tg.canon(pi)), ln))
                    # --- the specification den_t against the library
                    if items is not None:
                        ts = res_m.get("%s/%s%s" % (sid, t.upper(), m))
                        if _status(ts) == "ok":
                            state["n_spec"] += 1
                            if _status(ti) != "ok":
                                state["corr"].append((s["cls"], "specification gives a tree, library: %s" % (ti or "")[:40], ln))
                            elif tg.canon(tg.parse_dump(ts)) != tg.canon(pi):
                                state["corr"].append((s["cls"], "trees differ (specification |vs| library): " +
                                                      _first_diff(tg.canon(tg.parse_dump(ts)), tg.canon(pi)), ln))
                        elif _status(ts) == "none":
                            state["n_spec"] += 1
                            if _status(ti) == "ok":
                                state["corr"].append((s["cls"], "top_ok is false but the library builds a tree", ln))
                        else:
                            state["corr"].append((s["cls"], "specification line: %r" % (ts or "")[:60], ln))
        for m in "df":
            key = "%s/i%s" % (sid, m)
            ti = res_i.get(key)
            ln = tg.line(key, "i", m, s["res"], items, s["events"], s["bare"])
            if res_m is not None:
                tm = res_m.get(key)
                state["n_corr"] += 1
                if (tm or "").split() != (ti or "").split() and not (_status(tm) == "err" and _status(ti) == "err"):
                    state["corr"].append((s["cls"], "indexes differ (machine |vs| library): %s |vs| %s" % ((tm or "")[:120], (ti or "")[:120]), ln))
                tj = res_m.get("%s/J%s" % (sid, m)) if items is not None else None
                if _status(tj) == "ok":
                    state["n_spec"] += 1
                    if (tj or "").split() != (ti or "").split():
                        state["corr"].append((s["cls"], "indexes differ (pre-order numbering of the denoted tree |vs| library): %s |vs| %s" %
                                              ((tj or "")[:120], (ti or "")[:120]), ln))
            if _status(ti) == "ok":
                # oracle: reading the dump left to right is document order (element, attributes, children): strictly increasing
                import re as _re
                nums = [int(x) for x in _re.findall(r"\d+", ti)]
                state["n_orc"] += 1
                if any(b <= a for a, b in zip(nums, nums[1:])):
                    state["orc"].append(("index-order", "document-order indexes of the built source tree are not increasing in tree order: %s" % ti[:300], ln))
        if items is not None and s["safe"] and _probe_ok(items):
            tq, tp = res_i.get("%s/q" % sid), res_i.get("%s/p" % sid)
            state["n_orc"] += 1
            state["n_probe"] = state.get("n_probe", 0) + 2
            if _status(tq) != "ok" or _status(tp) != "ok" or tq != tp:
                state["orc"].append(("order-probe", "nodes listed by //text()|//*|..., //*/node(), (text()|*)[1]: the source tree built by "
                                     "FormatterToSourceTree gives %r, the parsed stream output gives %r" % (txt(tq)[:400], txt(tp)[:400]),
                                     tg.line("%s/q" % sid, "q", "d", None, items) + "\n" + tg.line("%s/p" % sid, "p", "d", None, items)))
            tq, tp = res_i.get("%s/Q" % sid), res_i.get("%s/P" % sid)
            state["n_orc"] += 1
            if _status(tq) != "ok" or _status(tp) != "ok" or tq != tp:
                state["orc"].append(("order-probe-2stage", "identity transformation into a FormatterToSourceTree document, then the probe: %r; into a stream that "
                                     "is parsed again, then the probe: %r" % (txt(tq)[:400], txt(tp)[:400]),
                                     tg.line("%s/Q" % sid, "Q", "d", None, items) + "\n" + tg.line("%s/P" % sid, "P", "d", None, items)))
        if items is None or s["cls"] in ("dup-attr",):
            continue
        _oracle(ctx, s, trees, res_i, state, cdata_fixed)


def _oracle(ctx, s, trees, res_i, state, cdata_fixed):
    """independent of the model: x against s against the parsed stream output"""
    items, sid = s["items"], s["id"]
    has_cdata = tg.has_kind(items, "d")
    has_entref = tg.has_kind(items, "n")
    stream = None
    if s["safe"] and not has_entref:
        tm = res_i.get("%s/m" % sid)
        pm = tg.parse_dump(tm) if _status(tm) == "ok" else None
        if pm is None:
            state["orc"].append(("stream", "the stream serializer / parser failed on a script of the safe class: %r" % (tm or "")[:80],
                                 tg.line("%s/m" % sid, "m", "d", None, [('e', "W", [], items)])))
        else:
            stream = pm[0][4] if pm and pm[0][0] == 'e' else []
    # with the recorded finding K-C05t-1 in the tree the source-tree builder ignores cdata events: its expected tree is then the
    # parsed stream output of the script WITHOUT its cdata events (still independent of the model)
    cdata_dev = has_cdata and not cdata_fixed
    stream0 = None
    if cdata_dev and stream is not None:
        t0 = res_i.get("%s/m0" % sid)
        p0 = tg.parse_dump(t0) if _status(t0) == "ok" else None
        stream0 = p0[0][4] if p0 and p0[0][0] == 'e' else ([] if p0 is not None else None)
    for m in "df":
        top_doc = (m == 'd')
        shape_ok = (m == 'f') or tg.doc_shape_ok(items)
        x, sv = trees["x" + m], trees["s" + m]
        lnx = tg.line("%s/x%s" % (sid, m), "x", m, s["res"], items)
        lns = tg.line("%s/s%s" % (sid, m), "s", m, s["res"], items)
        lnm = tg.line("%s/m" % sid, "m", "d", None, [('e', "W", [], items)])
        if not shape_ok:
            # text outside the document element: refused by both tree targets
            if any(i[0] == 'c' and any(c not in tg.WS for c in i[1]) for i in items):
                state["n_orc"] += 1
                if x is not None or sv is not None:
                    state["orc"].append(("top-text", "text outside the document element: FormatterToXercesDOM %s, FormatterToSourceTree %s" %
                                         ("accepts" if x is not None else "refuses", "accepts" if sv is not None else "refuses"), lnx + "\n" + lns))
            continue
        state["n_orc"] += 1
        if x is None or sv is None:
            state["orc"].append(("refused", "a well-formed script is refused: FormatterToXercesDOM %s, FormatterToSourceTree %s" %
                                 ("ok" if x is not None else "err", "ok" if sv is not None else "err"), lnx + "\n" + lns))
            continue
        # entity references have no counterpart in the source tree (and none in the XPath data model): outside the comparison
        if has_entref:
            continue
        if not cdata_dev:
            vx = tg.view(x, top_doc, keep_ns=True)
            vs = tg.view(sv, top_doc, keep_ns=True)
            if vx != vs:
                state["orc"].append(("targets-differ", "FormatterToXercesDOM |vs| FormatterToSourceTree: " + _first_diff(vx, vs), lnx + "\n" + lns))
        if stream is not None:
            stream_v = tg.view(stream, top_doc)
            if tg.view(x, top_doc) != stream_v:
                state["orc"].append(("xerces-vs-stream", "FormatterToXercesDOM |vs| parsed stream output: " + _first_diff(tg.view(x, top_doc), stream_v),
                                     lnx + "\n" + lnm))
            if cdata_dev:
                if stream0 is None:
                    continue
                exp = tg.view(stream0, top_doc)
                if tg.view(sv, top_doc) != exp:
                    state["orc"].append(("sourcetree-vs-stream", "FormatterToSourceTree |vs| parsed stream output of the script without its cdata events "
                                         "(K-C05t-1 is in the tree): " + _first_diff(tg.view(sv, top_doc), exp), lns + "\n" + lnm))
                elif exp != stream_v:
                    state["known"][KEY_CDATA] = state["known"].get(KEY_CDATA, 0) + 1
            elif tg.view(sv, top_doc) != stream_v:
                state["orc"].append(("sourcetree-vs-stream", "FormatterToSourceTree |vs| parsed stream output: " + _first_diff(tg.view(sv, top_doc), stream_v),
                                     lns + "\n" + lnm))


def _without(items, kinds):
    out = []
    for it in items:
        if it[0] in kinds:
            continue
        out.append(('e', it[1], it[2], _without(it[3], kinds)) if it[0] == 'e' else it)
    return out


def _corpus(ctx, cdir, impl, state, cdata_fixed, charlen_fixed=False):
    """frozen replays: every file holds case lines and, after '#expect', the verdict the unchanged tree must give"""
    if not os.path.isdir(cdir):
        return
    for fn in sorted(os.listdir(cdir)):
        if not fn.endswith(".txt"):
            continue
        lines = [l for l in open(os.path.join(cdir, fn)).read().split("\n") if l and not l.startswith("#")]
        rc, res, raw = core.run_lines(impl, "\n".join(lines) + "\n", timeout=60)
        if fn.startswith("k_charlen"):
            # characters(chars, length) with a buffer longer than length, white space only within length: must be accepted
            for ln in lines:
                cid = ln.split(" ", 1)[0]
                state["n_orc"] += 1
                if _status(res.get(cid)) != "ok":
                    if not charlen_fixed:
                        state["known"][KEY_CHARLEN] = state["known"].get(KEY_CHARLEN, 0) + 1
                    else:
                        state["orc"].append(("corpus-" + fn[:-4], "white space within the length passed is refused: %r" % (res.get(cid) or "")[:60], ln))
            continue
        import re as _re
        for ln in lines:
            cid = ln.split(" ", 1)[0]
            if cid.rpartition("/")[2] in ("id", "if") and _status(res.get(cid)) == "ok":
                nums = [int(x) for x in _re.findall(r"\d+", res[cid])]
                state["n_orc"] += 1
                if any(b <= a for a, b in zip(nums, nums[1:])):
                    state["orc"].append(("corpus-" + fn[:-4], "document-order indexes are not increasing in tree order: %s" % res[cid][:200], ln))
        qp = {}
        for cid, val in res.items():
            base, _, cfg = cid.rpartition("/")
            if cfg in ("q", "p"):
                qp.setdefault(base, {})[cfg] = val
            if cfg in ("Q", "P"):
                qp.setdefault(base + "#2", {})[cfg.lower()] = val
        for base, d in qp.items():
            state["n_orc"] += 1
            if d.get("q") != d.get("p") or _status(d.get("q")) != "ok":
                state["orc"].append(("corpus-" + fn[:-4], "order probe: built source tree %r, parsed stream output %r" % ((d.get("q") or "")[:200], (d.get("p") or "")[:200]),
                                     "\n".join(l for l in lines if l.split(" ", 1)[0] in (base.replace("#2", "") + "/q", base.replace("#2", "") + "/p",
                                                                                            base.replace("#2", "") + "/Q", base.replace("#2", "") + "/P"))))
        by = {}
        for cid, val in res.items():
            base, _, cfg = cid.rpartition("/")
            if cfg not in ("xd", "xf", "sd", "sf", "m"):
                continue
            by.setdefault(base, {})[cfg] = tg.parse_dump(val) if _status(val) == "ok" else None
        for base, d in by.items():
            if "m" not in d:
                continue
            state["n_orc"] += 1
            if d["m"] is None:
                continue
            stream_raw = d["m"][0][4] if d["m"] and d["m"][0][0] == 'e' else []
            for cfg in ("xf", "sf", "xd", "sd"):
                if cfg not in d or d[cfg] is None:
                    continue
                stream = tg.view(stream_raw, cfg[1] == 'd')
                if tg.view(d[cfg], cfg[1] == 'd') != stream:
                    if fn.startswith("k_cdata") and cfg[0] == 's' and not cdata_fixed:
                        state["known"][KEY_CDATA] = state["known"].get(KEY_CDATA, 0) + 1
                    else:
                        state["orc"].append(("corpus-" + fn[:-4], "%s of %s differs from the parsed stream output: %s" %
                                             (cfg, base, _first_diff(tg.view(d[cfg], cfg[1] == 'd'), stream)),
                                             "\n".join(l for l in lines if l.startswith(base + "/"))))
