// Correspondence + oracle driver for the pattern matcher (C09).
//
// One case per line, fields separated by '|':
//   <id>|D:<hex utf-8 bytes of the source document>|X:<hex utf-8 bytes of the pattern>
// Output:
//   <id>|K:<kind per node>|M:<score class per node>|S:<0/1 per node>
//     K: r document, e element, a attribute, n namespace declaration attribute, t text, c comment, p PI
//     M: XPath::getMatchScore of the pattern compiled with initMatchPattern, for every node:
//        - none, t node-test, w ns-wildcard, q qname, o other, ! exception
//     S: the defining expression, evaluated by the library's expression evaluator only:
//        S[n] = 1 iff some ancestor-or-self A of n has n in XPath::execute(pattern text compiled with
//        initXPath, context A).   'E' in place of the bits: the expression failed to compile/evaluate.
//   <id>|docerr            the document did not parse
//   <id>|compile:<class>   the pattern did not compile as a match pattern
// node ids: document node 0, then pre-order: element, its attributes (as stored), children.
#include "common.hpp"
#include <map>
#include <xercesc/framework/MemBufInputSource.hpp>
#include <xalanc/XalanDOM/XalanDocument.hpp>
#include <xalanc/XalanDOM/XalanElement.hpp>
#include <xalanc/XalanDOM/XalanNamedNodeMap.hpp>
#include <xalanc/XalanDOM/XalanDOMException.hpp>
#include <xalanc/PlatformSupport/DOMStringHelper.hpp>
#include <xalanc/PlatformSupport/XSLException.hpp>
#include <xalanc/PlatformSupport/PrefixResolver.hpp>
#include <xalanc/DOMSupport/DOMServices.hpp>
#include <xalanc/XPath/XPath.hpp>
#include <xalanc/XPath/XObject.hpp>
#include <xalanc/XPath/XObjectFactoryDefault.hpp>
#include <xalanc/XPath/XPathProcessorImpl.hpp>
#include <xalanc/XPath/XPathConstructionContextDefault.hpp>
#include <xalanc/XPath/XPathExecutionContextDefault.hpp>
#include <xalanc/XPath/XPathEnvSupportDefault.hpp>
#include <xalanc/XPath/MutableNodeRefList.hpp>
#include <xalanc/XPath/NodeRefList.hpp>
#include <xalanc/XalanSourceTree/XalanSourceTreeDOMSupport.hpp>
#include <xalanc/XalanSourceTree/XalanSourceTreeParserLiaison.hpp>

using namespace xalanc;
using namespace verif;

static std::string unhex(const std::string& h)
{
    std::string r;
    for (size_t i = 0; i + 1 < h.size(); i += 2) r += (char) std::strtoul(h.substr(i, 2).c_str(), 0, 16);
    return r;
}

// the fixed bindings of the generator: p -> urn:p, q -> urn:q
class NoPrefixes : public PrefixResolver
{
public:
    XalanDOMString m_uri, m_p, m_q;
    NoPrefixes() { const char* a = "urn:p"; const char* b = "urn:q"; for (; *a; ++a) m_p.append(1, (XalanDOMChar) *a); for (; *b; ++b) m_q.append(1, (XalanDOMChar) *b); }
    virtual const XalanDOMString* getNamespaceForPrefix(const XalanDOMString& pre) const
    {
        if (pre.length() == 1 && pre[0] == 'p') return &m_p;
        if (pre.length() == 1 && pre[0] == 'q') return &m_q;
        return 0;
    }
    virtual const XalanDOMString& getURI() const { return m_uri; }
};

struct Doc {
    XalanDocument* doc;
    std::vector<XalanNode*> nodes;
    std::map<const XalanNode*, size_t> ids;
    std::string kinds;
    void add(XalanNode* n, char k) { ids[n] = nodes.size(); nodes.push_back(n); kinds += k; }
    void walk(XalanNode* n)
    {
        switch (n->getNodeType()) {
        case XalanNode::DOCUMENT_NODE: add(n, 'r'); break;
        case XalanNode::ELEMENT_NODE: add(n, 'e'); break;
        case XalanNode::TEXT_NODE: case XalanNode::CDATA_SECTION_NODE: add(n, 't'); break;
        case XalanNode::COMMENT_NODE: add(n, 'c'); break;
        case XalanNode::PROCESSING_INSTRUCTION_NODE: add(n, 'p'); break;
        default: add(n, '?'); break;
        }
        if (n->getNodeType() == XalanNode::ELEMENT_NODE) {
            const XalanNamedNodeMap* a = n->getAttributes();
            if (a) for (XalanSize_t i = 0; i < a->getLength(); ++i) {
                XalanNode* at = a->item(i);
                const XalanDOMString& nm = at->getNodeName();
                bool nsdecl = nm.length() >= 5 && nm[0] == 'x' && nm[1] == 'm' && nm[2] == 'l' && nm[3] == 'n' && nm[4] == 's' &&
                              (nm.length() == 5 || nm[5] == ':');
                add(at, nsdecl ? 'n' : 'a');
            }
        }
        for (XalanNode* c = n->getFirstChild(); c; c = c->getNextSibling()) walk(c);
    }
};

static XalanDOMString widen(const std::string& utf8)
{
    // the generators only produce ASCII patterns; anything else is passed through code unit by code unit
    XalanDOMString r;
    for (size_t i = 0; i < utf8.size(); ++i) r.append(1, (XalanDOMChar) (unsigned char) utf8[i]);
    return r;
}

int main(int argc, char** argv)
{
    Init init;
    std::istream* in = &std::cin;
    std::ifstream f;
    if (argc > 1) { f.open(argv[1]); in = &f; }
    MemoryManager& mm = XalanMemMgrs::getDefaultXercesMemMgr();
    std::string line;
    std::string lastDocField;
    XalanSourceTreeDOMSupport* dom = 0;
    XalanSourceTreeParserLiaison* liaison = 0;
    Doc d; d.doc = 0;
    while (std::getline(*in, line)) {
        if (line.empty() || line[0] == '#') continue;
        std::vector<std::string> fs;
        { size_t i = 0; while (true) { size_t j = line.find('|', i); if (j == std::string::npos) { fs.push_back(line.substr(i)); break; } fs.push_back(line.substr(i, j - i)); i = j + 1; } }
        if (fs.size() < 3 || fs[1].size() < 2 || fs[2].size() < 2) continue;
        const std::string& id = fs[0];
        std::string docf = fs[1].substr(2), xf = unhex(fs[2].substr(2));
        try {
            if (docf != lastDocField || d.doc == 0) {
                delete liaison; delete dom;
                dom = new XalanSourceTreeDOMSupport;
                liaison = new XalanSourceTreeParserLiaison(*dom, mm);
                dom->setParserLiaison(liaison);
                std::string xml = unhex(docf);
                xercesc::MemBufInputSource src((const XMLByte*) xml.data(), xml.size(), "case");
                d = Doc();
                d.doc = liaison->parseXMLStream(src);
                d.walk(d.doc);
                lastDocField = docf;
            }
        } catch (...) {
            std::cout << id << "|docerr" << '\n';
            d.doc = 0;
            continue;
        }
        NoPrefixes res;
        XPathEnvSupportDefault env(mm);
        XObjectFactoryDefault factory(mm);
        XPathExecutionContextDefault ec(mm);
        ec.setXPathEnvSupport(&env);
        ec.setXObjectFactory(&factory);
        ec.setDOMSupport(dom);
        XPathConstructionContextDefault cc(mm);
        XalanDOMString text = widen(xf);
        // --- the matcher
        std::string M;
        {
            XPath pat(mm);
            bool compiled = false;
            std::string cls;
            try { XPathProcessorImpl proc(mm); proc.initMatchPattern(pat, cc, text, res); compiled = true; }
            catch (const XSLException&) { cls = "xsl"; }
            catch (...) { cls = "other"; }
            if (!compiled) { std::cout << id << "|compile:" << cls << '\n'; continue; }
            for (size_t k = 0; k < d.nodes.size(); ++k) {
                char r = '!';
                try {
                    XPath::eMatchScore s = pat.getMatchScore(d.nodes[k], res, ec);
                    r = s == XPath::eMatchScoreNone ? '-' : s == XPath::eMatchScoreNodeTest ? 't' : s == XPath::eMatchScoreNSWild ? 'w' :
                        s == XPath::eMatchScoreQName ? 'q' : s == XPath::eMatchScoreOther ? 'o' : '?';
                } catch (...) { r = '!'; }
                M += r;
            }
        }
        // --- the defining expression
        std::string S(d.nodes.size(), '0');
        try {
            XPath xp(mm);
            { XPathProcessorImpl proc(mm); proc.initXPath(xp, cc, text, res); }
            for (size_t a = 0; a < d.nodes.size(); ++a) {
                NodeRefList empty(mm);
                XObjectPtr o = xp.execute(d.nodes[a], res, empty, ec);
                if (o.null() || o->getType() != XObject::eTypeNodeSet) { S = "E"; break; }
                const NodeRefListBase& l = o->nodeset();
                for (NodeRefListBase::size_type i = 0; i < l.getLength(); ++i) {
                    XalanNode* n = l.item(i);
                    // is d.nodes[a] an ancestor-or-self of n ?
                    bool anc = false;
                    for (XalanNode* p = n; p != 0; p = DOMServices::getParentOfNode(*p)) if (p == d.nodes[a]) { anc = true; break; }
                    if (!anc) continue;
                    std::map<const XalanNode*, size_t>::const_iterator it = d.ids.find(n);
                    if (it != d.ids.end()) S[it->second] = '1';
                }
            }
        } catch (...) { S = "E"; }
        std::cout << id << "|K:" << d.kinds << "|M:" << M << "|S:" << S << '\n';
    }
    return 0;
}
