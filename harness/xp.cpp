// Correspondence driver for the XPath interpreter (C02, C11) and the pattern matcher (C09).
//
// One case per line, fields separated by '|':
//   <id>|<mode>|D:<doc tokens>|C:<ctx>;<id,id,...>|V:<name=VALUE;...>|N:<prefix=u:uri;...>|X:<u16 token of the expression>
//   optional further fields (any order, after X:):  A:<s-expression>  (read by the model side only)
//                                                   T:<u16 token of a document type declaration, "<!DOCTYPE r [ ... ]>">
//   T: is prepended verbatim to the serialised document text before it is parsed (same SAX2 /
//   XalanSourceTreeParserLiaison path): attribute types (ID for id()), attribute-value normalisation and
//   attribute defaults then come from the internal subset.  Defaulted attributes are attribute nodes: they
//   are numbered after the specified ones, in the order the parser reports them.
// mode: eval  -> generic result + the five specialised entry points
//       match -> X is a match pattern; prints one score class per node
// doc tokens (space separated):  (qname   @qname=u:..   )   t=u:..   c=u:..   p=target=u:..
// node ids: document node 0, then pre-order: element, its attributes (source order, xmlns included), children.
// VALUE: b:0|1   n:<hex64>   s:u:..   ns:id,id,..
// Output: <id>|G:<value>|B:..|N:..|S:..|F:..|L:..      value = b:0/1, n:hex64|nan, s:u:.., ns:ids, err:<class>
#include "common.hpp"
#include <map>
#include <stdexcept>
#include <xercesc/framework/MemBufInputSource.hpp>
#include <xercesc/sax/SAXParseException.hpp>
#include <xalanc/XalanDOM/XalanDocument.hpp>
#include <xalanc/XalanDOM/XalanElement.hpp>
#include <xalanc/XalanDOM/XalanNamedNodeMap.hpp>
#include <xalanc/XalanDOM/XalanDOMException.hpp>
#include <xalanc/PlatformSupport/DOMStringHelper.hpp>
#include <xalanc/PlatformSupport/FormatterListener.hpp>
#include <xalanc/PlatformSupport/XSLException.hpp>
#include <xalanc/PlatformSupport/PrefixResolver.hpp>
#include <xalanc/DOMSupport/DOMServices.hpp>
#include <xalanc/XPath/XPath.hpp>
#include <xalanc/XPath/XObject.hpp>
#include <xalanc/XPath/XObjectFactoryDefault.hpp>
#include <xalanc/XPath/XPathProcessorImpl.hpp>
#include <xalanc/XPath/XPathConstructionContextDefault.hpp>
#include <xalanc/XPath/XPathExecutionContextDefault.hpp>
#include <xalanc/XPath/XPathEnvSupportDefault.hpp>
#include <xalanc/XPath/XalanQName.hpp>
#include <xalanc/XPath/MutableNodeRefList.hpp>
#include <xalanc/XPath/NodeRefList.hpp>
#include <xalanc/XalanSourceTree/XalanSourceTreeDOMSupport.hpp>
#include <xalanc/XalanSourceTree/XalanSourceTreeParserLiaison.hpp>

using namespace xalanc;
using namespace verif;

typedef std::map<std::string, XObjectPtr> VarMap;

static std::string narrow(const XalanDOMString& s)
{
    std::string r;
    for (XalanDOMString::size_type i = 0; i < s.length(); ++i) r += (char) s[i];
    return r;
}

class Ctx : public XPathExecutionContextDefault
{
public:
    Ctx(MemoryManager& mm) : XPathExecutionContextDefault(mm), m_vars(0) {}
    const VarMap* m_vars;
    virtual const XObjectPtr getVariable(const XalanQName& name, const Locator* = 0)
    {
        std::string k = narrow(name.getNamespace()) + "}" + narrow(name.getLocalPart());
        if (m_vars) { VarMap::const_iterator i = m_vars->find(k); if (i != m_vars->end()) return i->second; }
        // a reference to a variable that is not bound is an error (as in a stylesheet); the stock
        // context would hand back an "unknown" object that converts silently
        throw std::runtime_error("unbound-variable");
    }
};

class MapResolver : public PrefixResolver
{
public:
    std::map<std::string, XalanDOMString> m_map;
    XalanDOMString m_uri;
    virtual const XalanDOMString* getNamespaceForPrefix(const XalanDOMString& prefix) const
    {
        std::map<std::string, XalanDOMString>::const_iterator i = m_map.find(narrow(prefix));
        return i == m_map.end() ? 0 : &i->second;
    }
    virtual const XalanDOMString& getURI() const { return m_uri; }
};

class Collect : public FormatterListener
{
public:
    Collect() : FormatterListener(OUTPUT_METHOD_NONE) {}
    XalanDOMString m_text;
    virtual void charactersRaw(const XMLCh* const, const size_type) {}
    virtual void comment(const XMLCh* const) {}
    virtual void cdata(const XMLCh* const, const size_type) {}
    virtual void entityReference(const XMLCh* const) {}
    virtual void characters(const XMLCh* const chars, const size_type length) { m_text.append(chars, length); }
    virtual void endDocument() {}
    virtual void endElement(const XMLCh* const) {}
    virtual void ignorableWhitespace(const XMLCh* const, const size_type) {}
    virtual void processingInstruction(const XMLCh* const, const XMLCh* const) {}
    virtual void resetDocument() {}
    virtual void setDocumentLocator(const Locator* const) {}
    virtual void startDocument() {}
    virtual void startElement(const XMLCh* const, AttributeList&) {}
};

static void esc(std::string& out, const std::string& tok, bool attr)
{
    // tok = "u:41,42"
    size_t i = 2;
    char buf[16];
    while (i < tok.size()) {
        size_t j = tok.find(',', i);
        if (j == std::string::npos) j = tok.size();
        unsigned c = (unsigned) std::strtoul(tok.substr(i, j - i).c_str(), 0, 16);
        if (c == '<') out += "&lt;";
        else if (c == '>') out += "&gt;";
        else if (c == '&') out += "&amp;";
        else if (c == '"') out += "&quot;";
        else if (c >= 0x20 && c < 0x7f) out += (char) c;
        else if (c >= 0xD800 && c <= 0xDBFF && j < tok.size()) {
            size_t k = tok.find(',', j + 1);
            if (k == std::string::npos) k = tok.size();
            unsigned d = (unsigned) std::strtoul(tok.substr(j + 1, k - j - 1).c_str(), 0, 16);
            std::snprintf(buf, sizeof buf, "&#x%x;", 0x10000 + ((c - 0xD800) << 10) + (d - 0xDC00));
            out += buf;
            j = k;
        }
        else { std::snprintf(buf, sizeof buf, "&#x%x;", c); out += buf; }
        i = j + 1;
    }
}

static std::string xml_of_tokens(const std::string& field)
{
    std::vector<std::string> t = split(field);
    std::string out;
    std::vector<std::string> stack;
    bool open = false;   // start tag not yet closed with '>'
    for (size_t i = 0; i < t.size(); ++i) {
        const std::string& k = t[i];
        if (k[0] == '(') {
            if (open) out += ">";
            out += "<" + k.substr(1);
            stack.push_back(k.substr(1));
            open = true;
        } else if (k[0] == '@') {
            size_t e = k.find('=');
            out += " " + k.substr(1, e - 1) + "=\"";
            esc(out, k.substr(e + 1), true);
            out += "\"";
        } else if (k == ")") {
            if (open) { out += "/>"; open = false; }
            else out += "</" + stack.back() + ">";
            stack.pop_back();
        } else {
            if (open) { out += ">"; open = false; }
            if (k[0] == 't') esc(out, k.substr(2), false);
            else if (k[0] == 'c') { out += "<!--"; esc(out, k.substr(2), false); out += "-->"; }
            else if (k[0] == 'p') {
                size_t e = k.find('=', 2);
                out += "<?" + k.substr(2, e - 2);
                std::string d; esc(d, k.substr(e + 1), false);
                if (!d.empty()) out += " " + d;
                out += "?>";
            }
        }
    }
    return out;
}

struct Doc {
    XalanDocument* doc;
    std::vector<XalanNode*> nodes;
    std::map<const XalanNode*, size_t> ids;
    void add(XalanNode* n) { ids[n] = nodes.size(); nodes.push_back(n); }
    void walk(XalanNode* n)
    {
        add(n);
        if (n->getNodeType() == XalanNode::ELEMENT_NODE) {
            const XalanNamedNodeMap* a = n->getAttributes();
            if (a) for (XalanSize_t i = 0; i < a->getLength(); ++i) add(a->item(i));
        }
        for (XalanNode* c = n->getFirstChild(); c; c = c->getNextSibling()) walk(c);
    }
};

static std::string show_nodes(const Doc& d, const NodeRefListBase& l)
{
    std::string r = "ns:";
    char buf[24];
    for (NodeRefListBase::size_type i = 0; i < l.getLength(); ++i) {
        std::map<const XalanNode*, size_t>::const_iterator it = d.ids.find(l.item(i));
        if (it == d.ids.end()) std::snprintf(buf, sizeof buf, i ? ",?" : "?");
        else std::snprintf(buf, sizeof buf, i ? ",%zu" : "%zu", it->second);
        r += buf;
    }
    return r;
}

static std::string show_obj(const Doc& d, const XObjectPtr& o, XPathExecutionContext& ec)
{
    if (o.null()) return "null";
    switch (o->getType()) {
    case XObject::eTypeBoolean: return std::string("b:") + (o->boolean(ec) ? "1" : "0");
    case XObject::eTypeNumber: return "n:" + show_dbl(o->num(ec));
    case XObject::eTypeString: return "s:" + token_of_u16(o->str(ec));
    case XObject::eTypeNodeSet: return show_nodes(d, o->nodeset());
    case XObject::eTypeResultTreeFrag: return "rtf:" + token_of_u16(o->str(ec));
    default: return "other";
    }
}

static std::string errclass(const XSLException& e)
{
    std::string t = narrow(XalanDOMString(e.getType()));
    return "err:" + t;
}

#define GUARDED(field, stmt) \
    try { stmt; } \
    catch (const XSLException& e) { field = errclass(e); } \
    catch (const XalanDOMException& e) { field = "err:dom"; } \
    catch (const xercesc::XMLException& e) { field = "err:xml"; } \
    catch (const std::exception& e) { field = std::string("err:std:") + e.what(); }

int main(int argc, char** argv)
{
    Init init;
    std::istream* in = &std::cin;
    std::ifstream f;
    if (argc > 1) { f.open(argv[1]); in = &f; }
    MemoryManager& mm = XalanMemMgrs::getDefaultXercesMemMgr();
    std::string line;
    std::string lastDocField;
    XalanSourceTreeDOMSupport* dom = 0;
    XalanSourceTreeParserLiaison* liaison = 0;
    Doc d; d.doc = 0;
    while (std::getline(*in, line)) {
        if (line.empty() || line[0] == '#') continue;
        std::vector<std::string> fs;
        { size_t i = 0; while (true) { size_t j = line.find('|', i); if (j == std::string::npos) { fs.push_back(line.substr(i)); break; } fs.push_back(line.substr(i, j - i)); i = j + 1; } }
        if (fs.size() < 7) continue;
        const std::string& id = fs[0];
        const std::string& mode = fs[1];
        std::string docf = fs[2].substr(2), ctxf = fs[3].substr(2), varf = fs[4].substr(2), nsf = fs[5].substr(2), xf = fs[6].substr(2);
        std::string dtdf;
        for (size_t k = 7; k < fs.size(); ++k) if (fs[k].compare(0, 2, "T:") == 0) { dtdf = fs[k].substr(2); break; }
        const std::string dockey = dtdf.empty() ? docf : docf + "|T:" + dtdf;
        try {
            if (dockey != lastDocField || d.doc == 0) {
                delete liaison; delete dom;
                dom = new XalanSourceTreeDOMSupport;
                liaison = new XalanSourceTreeParserLiaison(*dom, mm);
                dom->setParserLiaison(liaison);
                std::string xml;
                if (!dtdf.empty()) {
                    const XalanDOMString t = u16_of_token(dtdf);
                    for (XalanDOMString::size_type k = 0; k < t.length(); ++k) {
                        if (t[k] >= 0x80) throw std::runtime_error("non-ASCII document type declaration");
                        xml += (char) t[k];
                    }
                    xml += "\n";
                }
                xml += xml_of_tokens(docf);
                xercesc::MemBufInputSource src((const XMLByte*) xml.data(), xml.size(), "case");
                d = Doc();
                d.doc = liaison->parseXMLStream(src);
                d.walk(d.doc);
                lastDocField = dockey;
            }
        } catch (...) {
            std::cout << id << "|docerr" << '\n';
            d.doc = 0;
            continue;
        }
        // context
        size_t semi = ctxf.find(';');
        size_t ctxid = (size_t) std::strtoul(ctxf.substr(0, semi).c_str(), 0, 10);
        MutableNodeRefList ctxList(mm);
        {
            std::string l = semi == std::string::npos ? "" : ctxf.substr(semi + 1);
            size_t i = 0;
            while (i < l.size()) { size_t j = l.find(',', i); if (j == std::string::npos) j = l.size();
                size_t k = (size_t) std::strtoul(l.substr(i, j - i).c_str(), 0, 10);
                if (k < d.nodes.size()) ctxList.addNode(d.nodes[k]); i = j + 1; }
        }
        if (ctxid >= d.nodes.size()) { std::cout << id << "|badctx" << '\n'; continue; }
        XalanNode* ctx = d.nodes[ctxid];
        // namespaces
        MapResolver res;
        {
            size_t i = 0;
            while (i < nsf.size()) { size_t j = nsf.find(';', i); if (j == std::string::npos) j = nsf.size();
                std::string kv = nsf.substr(i, j - i); size_t e = kv.find('=');
                if (e != std::string::npos) res.m_map[kv.substr(0, e)] = u16_of_token(kv.substr(e + 1));
                i = j + 1; }
        }
        XPathEnvSupportDefault env(mm);
        XObjectFactoryDefault factory(mm);
        Ctx ec(mm);
        ec.setXPathEnvSupport(&env);
        ec.setXObjectFactory(&factory);
        ec.setDOMSupport(dom);
        XPathConstructionContextDefault cc(mm);
        // variables
        VarMap vars;
        {
            size_t i = 0;
            while (i < varf.size()) { size_t j = varf.find(';', i); if (j == std::string::npos) j = varf.size();
                std::string kv = varf.substr(i, j - i); size_t e = kv.find('=');
                if (e != std::string::npos) {
                    std::string name = "}" + kv.substr(0, e), v = kv.substr(e + 1);
                    if (v[0] == 'b') vars[name] = factory.createBoolean(v[2] == '1');
                    else if (v[0] == 'n' && v[1] == ':') vars[name] = factory.createNumber(v.substr(2) == "nan" ? DoubleSupport::getNaN() : dbl_of_bits(hex64(v.substr(2))));
                    else if (v[0] == 's') vars[name] = factory.createString(u16_of_token(v.substr(2)));
                    else if (v[0] == 'n' && v[1] == 's') {
                        XPathExecutionContext::BorrowReturnMutableNodeRefList l(ec);
                        std::string ids = v.substr(3); size_t a = 0;
                        while (a < ids.size()) { size_t b = ids.find(',', a); if (b == std::string::npos) b = ids.size();
                            size_t k = (size_t) std::strtoul(ids.substr(a, b - a).c_str(), 0, 10);
                            if (k < d.nodes.size()) l->addNode(d.nodes[k]); a = b + 1; }
                        l->setDocumentOrder();
                        vars[name] = factory.createNodeSet(l);
                    }
                }
                i = j + 1; }
        }
        ec.m_vars = &vars;
        XalanDOMString expr = u16_of_token(xf);
        XPath xpath(mm);
        std::string G, B, N, S, F, L;
        bool compiled = false;
        {
            XPathProcessorImpl proc(mm);
            std::string cerr_;
            GUARDED(cerr_, (mode == "match" ? proc.initMatchPattern(xpath, cc, expr, res) : proc.initXPath(xpath, cc, expr, res)); compiled = true)
            if (!compiled) { std::cout << id << "|compile:" << cerr_ << '\n'; continue; }
        }
        if (mode == "match") {
            std::string bits;
            for (size_t k = 0; k < d.nodes.size(); ++k) {
                std::string r;
                GUARDED(r, { XPath::eMatchScore s = xpath.getMatchScore(d.nodes[k], res, ec);
                             r = s == XPath::eMatchScoreNone ? "-" : s == XPath::eMatchScoreNodeTest ? "t" : s == XPath::eMatchScoreNSWild ? "w" : s == XPath::eMatchScoreQName ? "q" : s == XPath::eMatchScoreOther ? "o" : "?"; })
                bits += r.size() == 1 ? r : "!";
            }
            std::cout << id << "|M:" << bits << '\n';
            continue;
        }
        GUARDED(G, G = show_obj(d, xpath.execute(ctx, res, ctxList, ec), ec))
        GUARDED(B, { bool b = false; xpath.execute(ctx, res, ctxList, ec, b); B = b ? "b:1" : "b:0"; })
        GUARDED(N, { double x = 0; xpath.execute(ctx, res, ctxList, ec, x); N = "n:" + show_dbl(x); })
        GUARDED(S, { XalanDOMString s(mm); xpath.execute(ctx, res, ctxList, ec, s); S = "s:" + token_of_u16(s); })
        GUARDED(F, { Collect c; xpath.execute(ctx, res, ctxList, ec, c, &FormatterListener::characters); F = "s:" + token_of_u16(c.m_text); })
        GUARDED(L, { XPathExecutionContext::BorrowReturnMutableNodeRefList l(ec);
                     XObjectPtr o = xpath.execute(ctx, res, ctxList, ec, *l);
                     L = o.null() ? show_nodes(d, *l) : show_obj(d, o, ec); })
        std::cout << id << "|G:" << G << "|B:" << B << "|N:" << N << "|S:" << S << "|F:" << F << "|L:" << L << '\n';
    }
    return 0;
}
