(* model side of the C17 correspondence.
   <id> fmt <grouping-separator token | -> <grouping-size> <format token> <hex,hex,...>
        -> "<id> u:..." | "<id> none"
   <id> cnt <explicit 0|1> <hasfrom 0|1> <level 0|1|2> <tree> <i,j,k,...>
        tree = (name,c,f kids...)   e.g. (0,0,0(1,1,0)(2,0,1(1,1,0)))
        -> "<id> 1.2|3||1" (one number list per numbered node) | "<id> none" *)
let n_of_hex (s : string) : n =
  match bits_of_hex s with [] -> N0 | b -> Npos (pos_of_bits b)

let parse_tree (s : string) : ((n * bool) * bool) tree =
  let p = ref 0 in
  let len = String.length s in
  let rec node () =
    if !p >= len || s.[!p] <> '(' then failwith "tree: '(' expected";
    incr p;
    let start = !p in
    while !p < len && s.[!p] <> '(' && s.[!p] <> ')' do incr p done;
    let hd = String.sub s start (!p - start) in
    let (nm, c, f) = match String.split_on_char ',' hd with
      | [a; b; c] -> (int_of_string a, b = "1", c = "1")
      | _ -> failwith "tree: label" in
    let kids = ref [] in
    while !p < len && s.[!p] = '(' do kids := node () :: !kids done;
    if !p >= len || s.[!p] <> ')' then failwith "tree: ')' expected";
    incr p;
    Node (((n_of_int nm, c), f), List.rev !kids) in
  node ()

let ints (s : string) : int list =
  if s = "" || s = "-" then [] else List.map int_of_string (String.split_on_char ',' s)

let () =
  let ic = if Array.length Sys.argv > 1 then open_in Sys.argv.(1) else stdin in
  iter_lines ic (fun line ->
    match split_ws line with
    | id :: "fmt" :: gsep :: gsize :: fmt :: nums :: _ ->
        let grouping = if gsep = "-" then None else Some (u16_of_token gsep, n_of_int (int_of_string gsize)) in
        let ns = List.map n_of_hex (String.split_on_char ',' nums) in
        (match format_number_list grouping (u16_of_token fmt) ns with
         | Some s -> Printf.printf "%s %s\n" id (token_of_u16 s)
         | None -> Printf.printf "%s none\n" id)
    | id :: "cnt" :: ex :: hf :: lv :: tr :: ord :: _ ->
        let order = List.map nat_of_int (ints ord) in
        (match run_doc (ex = "1") (hf = "1") (nat_of_int (int_of_string lv)) (parse_tree tr) order with
         | Some out ->
             Printf.printf "%s %s\n" id
               (String.concat "|" (List.map (fun l -> String.concat "." (List.map (fun k -> string_of_int (int_of_nat k)) l)) out))
         | None -> Printf.printf "%s none\n" id)
    | id :: "spec" :: hf :: lv :: tr :: ord :: _ ->
        let order = List.map nat_of_int (ints ord) in
        let out = spec_doc (hf = "1") (nat_of_int (int_of_string lv)) (parse_tree tr) order in
        Printf.printf "%s %s\n" id
          (String.concat "|" (List.map (fun l -> String.concat "." (List.map (fun k -> string_of_int (int_of_nat k)) l)) out))
    | _ -> ())
