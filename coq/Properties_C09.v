(* Properties_C09.v — C09: a node matches a pattern exactly when the pattern, as an expression, selects it.

   Model (PatDefs.v): XPath::stepPattern / doStepPredicate / handleFoundIndex / NodeTester and the op-code
   choice of XPathProcessorImpl::LocationPathPattern / AbbreviatedNodeTestStep, over a node table; the
   specification is the pattern evaluated left to right as an XPath expression (child / attribute steps,
   descendant-or-self::node() for '//', the root for a leading '/', an abstract node-set for id()/key()),
   with predicates filtering by position in the candidate list.  Predicates are arbitrary functions
   node -> position -> size -> boolean-or-number carrying the compiler's positional flag; the only
   hypothesis on them is that an unflagged predicate ignores position and size (proved for the concrete
   predicate language of the generator in flag_sound). *)
From Coq Require Import List Bool Arith.
Require Import XV.PatDefs XV.PatModel XV.PatModel2 XV.PatModel3.
Require XV.GenPat XV.PatSource.
Import ListNotations.

(** Tie to the current source: the case structure of stepPattern, the node-type guards, the op codes the
    compiler emits and the positional flag, as extracted from /repo by translator/gen_pat.py on this run
    (coq/GenPat.v), are the ones the model was written against (coq/PatSource.v). *)
Theorem model_mirrors_source :
  GenPat.step_pattern_cases = PatSource.modelled_cases /\
  GenPat.imm_excluded_types = PatSource.imm_excluded /\
  GenPat.any_cases_shared = PatSource.any_shared /\
  GenPat.any_document_excluded_for = PatSource.any_document_excluded /\
  GenPat.root_walk_up_after = PatSource.root_walk_up /\
  GenPat.name_test_attribute_axes = PatSource.attribute_axes /\
  GenPat.step_ops = PatSource.compiled_step_ops /\
  GenPat.head_ops = PatSource.compiled_head_ops /\
  GenPat.attr_tester_axis = PatSource.attribute_tester_axis /\
  forallb (fun b => b) GenPat.all_structure_flags = true.
Proof. repeat split. Qed.
Print Assumptions model_mirrors_source.

(** The matcher's treatment of one step — node test, then the predicate loop in which flagged or
    number-valued predicates are decided by re-running the forward step from the parent and looking the
    node up (handleFoundIndex) — holds exactly when the node is selected by that step from its parent. *)
Theorem found_index_correct : forall D st c,
  wf_doc D = true -> Forall wf_pred (s_preds st) ->
  (step_ok D (s_attr st) (s_test st) (s_preds st) c = true <->
   exists p, parent D c = Some p /\ In c (spec_step D st p)).
Proof. exact step_ok_spec. Qed.
Print Assumptions found_index_correct.

(** The predicate loop alone: with fi the answer of the re-run, it returns membership in the filtered
    candidate list, whatever mix of positional and non-positional predicates, in any order. *)
Theorem do_step_predicate_correct : forall ps cands c,
  Forall wf_pred ps -> In c cands ->
  do_preds (mem c (apply_preds ps cands)) ps c true = mem c (apply_preds ps cands).
Proof. exact do_preds_correct. Qed.
Print Assumptions do_step_predicate_correct.

(** The expression semantics, read backwards from the selected node (used by everything below). *)
Theorem select_chain : forall D steps, wf_doc D = true -> steps <> [] -> forall cs n,
  In n (sel_steps D cs steps) <->
  exists c, reach D steps n c /\
            exists p, parent D c = Some p /\
                      In p (expand D (match steps with (sp, _) :: _ => sp | [] => SChild end) cs).
Proof. exact sel_steps_reach. Qed.
Print Assumptions select_chain.

(** '/'-only step chains: the matcher returns exactly the node matched by the first step. *)
Theorem child_chain_exact : forall D steps, wf_doc D = true -> wf_steps steps -> steps <> [] ->
  all_child (tl steps) = true -> forall n g,
  step_pattern D (compile_steps steps) n = (Some g, true) <-> reach D steps n g.
Proof. exact chain_child. Qed.
Print Assumptions child_chain_exact.

(** Nearest suffices: when nothing but '//' stands to the left of a '//', whatever chain of ancestors
    the expression semantics uses, the matcher (nearest satisfying ancestor, no backtracking) succeeds,
    with a context at or below the chain's; and whatever the matcher finds is a chain. *)
Theorem nearest_suffices : forall D steps, wf_doc D = true -> wf_steps steps -> steps <> [] ->
  desc_then_child (tl steps) = true -> forall n,
  (forall g, step_pattern D (compile_steps steps) n = (Some g, true) -> reach D steps n g) /\
  (forall c, reach D steps n c ->
             exists g, step_pattern D (compile_steps steps) n = (Some g, true) /\ In c (aos D g)).
Proof. exact chain_any. Qed.
Print Assumptions nearest_suffices.

(** One location path pattern, every head (relative, '/', '//', id()/key()). *)
Theorem match_path_iff_select : forall D p n,
  wf_doc D = true -> wf_path p -> no_left_of_any p = true -> n < length D ->
  (match_path D p n = true <-> exists a, In a (aos D n) /\ In n (sel_path D p a)).
Proof. exact match_path_iff. Qed.
Print Assumptions match_path_iff_select.

(** C09 under the syntactic guard: unions of paths in which no '/' stands to the left of a '//', except
    the leading '/' of an absolute path. *)
Theorem match_iff_select_partial : forall D P n,
  wf_doc D = true -> wf_pattern P -> guard P = true -> n < length D ->
  (matches D P n = true <->
   exists p a, In p P /\ In a (aos D n) /\ In n (sel_path D p a)).
Proof. exact matches_iff_selects. Qed.
Print Assumptions match_iff_select_partial.

(** The compiler's positional flag is sound for the generator's predicate language, so for generated
    patterns the hypothesis on predicates is discharged. *)
Theorem flag_sound_concrete : forall D p, cflag p = false ->
  forall n i s i' s', ceval D p n i s = ceval D p n i' s'.
Proof. exact flag_sound. Qed.
Print Assumptions flag_sound_concrete.

Theorem match_iff_select_concrete : forall D P n,
  wf_doc D = true -> c_shape D P = true -> c_guard D P = true -> n < length D ->
  (c_match D P n = true <-> selects D (map (path_of D) P) n).
Proof. exact c_match_iff_select. Qed.
Print Assumptions match_iff_select_concrete.

(** One direction needs no guard at all: whatever pattern, whenever the matcher says "match" some
    ancestor-or-self context selects the node (there are no false positives). *)
Theorem match_sound : forall D P n,
  wf_doc D = true -> wf_pattern P -> n < length D ->
  matches D P n = true -> selects D P n.
Proof. exact matches_sound. Qed.
Print Assumptions match_sound.

(** Outside the guard the converse is false for the code as it is: the nearest-ancestor choice never
    backtracks. *)
Theorem match_iff_select_refuted_neg : exists P D n,     (* K15: c/a//b on <c><a><y><a><b/></a></y></a></c> *)
  wf_doc D = true /\ wf_pattern P /\ n < length D /\
  matches D P n = false /\ selects D P n.
Proof.
  exists k15_pat, k15_doc, 5. destruct k15_facts as [W [M [S _]]].
  split; [exact W|]. split.
  - intros p [E|[]]. subst p. split; [|reflexivity]. repeat constructor.
  - split; [vm_compute; auto|]. split; [exact M|]. apply selectsb_spec. exact S.
Qed.
Print Assumptions match_iff_select_refuted_neg.

(** The witness is outside the guard (so the partial theorem is not contradicted); the former K14
    witness /a//b on <x><a><b/></a></x> is inside it and is decided correctly. *)
Example refutation_outside_guard : guard k15_pat = false.
Proof. apply k15_facts. Qed.
Example k14_repaired : guard k14_pat = true /\ matches k14_doc k14_pat 3 = false /\ selectsb k14_doc k14_pat 3 = false.
Proof. destruct k14_facts as [_ [M [S G]]]. auto. Qed.

(** and the hypotheses of the partial theorem are satisfiable with non-trivial outcomes:
    a[@x]//b[position() = last()][1] | //c/@y   on   <a x=""><b/><d><b/><b/></d><c y=""/></a>
    (names a=0 b=1 c=2 d=3 x=4 y=5): matches the first b (node 3), the last b under d (node 6) and @y (8). *)
Definition ex_doc : doc :=
  [mkN KRoot None; el 0 0; mkN (KAttr 4) (Some 1); el 1 1; el 3 1; el 1 4; el 1 4; el 2 1; mkN (KAttr 5) (Some 7)].
Definition ex_pat : list cpath :=
  [mkCP CHRel [(SChild, mkCS false (TName 0) [CHasAttr 4]);
               (SDesc, mkCS false (TName 1) [CPosLast; CNum 1])];
   mkCP CHAbs [(SDesc, mkCS false (TName 2) []); (SChild, mkCS true (TName 5) [])]].

Example partial_hypotheses_satisfiable :
  wf_doc ex_doc = true /\ c_shape ex_doc ex_pat = true /\ c_guard ex_doc ex_pat = true /\
  map (c_match ex_doc ex_pat) (seq 0 (length ex_doc)) =
    [false; false; false; true; false; false; true; false; true] /\
  map (c_select ex_doc ex_pat) (seq 0 (length ex_doc)) =
    [false; false; false; true; false; false; true; false; true].
Proof. vm_compute. repeat split. Qed.
