"""gen_cont — regenerates coq/GenCont.v (constants of XalanVector / XalanMap / XalanDeque) from /repo's
current headers.  Fail-closed: AnchorError when a shape is not recognised."""
import re
from fractions import Fraction
import srcfacts
from srcfacts import AnchorError, need, read, strip_comments, HEADER


def dec(s):
    try:
        return Fraction(s)
    except Exception:
        raise AnchorError("not a decimal literal: " + s)


def gen_cont():
    v = strip_comments(read("Include/XalanVector.hpp"))
    m = strip_comments(read("Include/XalanMap.hpp"))
    d = strip_comments(read("Include/XalanDeque.hpp"))
    # XalanVector::grow: size_type((m_size * 1.6) + 0.5)
    g = need(r"theNewSize\s*=\s*size_type\s*\(\s*\(\s*m_size\s*\*\s*([0-9.]+)\s*\)\s*\+\s*([0-9.]+)\s*\)", v, "XalanVector::grow new size")
    gf, gr = dec(g.group(1)), dec(g.group(2))
    den = gf.denominator * gr.denominator // __import__("math").gcd(gf.denominator, gr.denominator)
    vec_num, vec_round = int(gf * den), int(gr * den)
    need(r"if\s*\(\s*m_size\s*<\s*m_allocation\s*\)\s*\{\s*construct_back", v, "doPushBack capacity test")
    need(r"if\s*\(\s*theTotalSize\s*>\s*capacity\s*\(\s*\)\s*\)", v, "insert reallocation test")
    # XalanMap
    enum = {}
    for name in ("eDefaultMinBuckets", "eDefaultEraseThreshold", "eMinimumBucketSize"):
        enum[name] = int(need(name + r"\s*=\s*(\d+)u?", m, name).group(1))
    lf = dec(need(r"double\s+loadFactor\s*=\s*([0-9.]+)", m, "default load factor").group(1))
    body = srcfacts.function_body(m, r"void\s+rehash\s*\(\s*\)\s*\{", "XalanMap::rehash")
    rg = dec(need(r"theNewSize\s*=\s*size_type\s*\(\s*([0-9.]+)\s*\*\s*size\s*\(\s*\)\s*\)", body, "rehash growth").group(1))
    need(r"if\s*\(\s*size_type\s*\(\s*m_loadFactor\s*\*\s*size\s*\(\s*\)\s*\)\s*>\s*m_buckets\.size\s*\(\s*\)\s*\)", m, "rehash trigger")
    need(r"if\s*\(\s*m_eraseCount\s*==\s*m_eraseThreshold\s*\)", m, "compaction trigger")
    need(r"if\s*\(\s*theExtraCapacity\s*>\s*theCurrentSize\s*\)", m, "bucket shrink test")
    # XalanDeque
    bs = int(need(r"size_type\s+blockSize\s*=\s*(\d+)", d, "deque default block size").group(1))
    out = HEADER
    out += "(* XalanVector::grow : new allocation = (size * vec_grow_num + vec_grow_round) / vec_grow_den *)\n"
    out += "Definition vec_grow_num : nat := %d.\nDefinition vec_grow_den : nat := %d.\nDefinition vec_grow_round : nat := %d.\n\n" % (vec_num, den, vec_round)
    out += "(* XalanMap defaults and policies *)\n"
    out += "Definition map_default_min_buckets : nat := %d.\n" % enum["eDefaultMinBuckets"]
    out += "Definition map_default_erase_threshold : nat := %d.\n" % enum["eDefaultEraseThreshold"]
    out += "Definition map_min_bucket_size : nat := %d.\n" % enum["eMinimumBucketSize"]
    out += "Definition map_default_lf_num : nat := %d.\nDefinition map_default_lf_den : nat := %d.\n" % (lf.numerator, lf.denominator)
    out += "(* rehash : new bucket count = size * map_grow_num / map_grow_den *)\n"
    out += "Definition map_grow_num : nat := %d.\nDefinition map_grow_den : nat := %d.\n\n" % (rg.numerator, rg.denominator)
    out += "Definition deque_default_block_size : nat := %d.\n" % bs
    facts = {"vec_grow": [vec_num, vec_round, den], "map_enum": enum, "map_lf": [lf.numerator, lf.denominator],
             "map_grow": [rg.numerator, rg.denominator], "deque_block": bs}
    return out, facts


GENERATORS = {"GenCont": gen_cont}
