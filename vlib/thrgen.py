"""Stylesheet / source generators for C07 (thr family): stylesheets are composed from *facility
snippets* (each touching one lazily initialised facility of the processor), sources are random
record documents with DTD-declared IDs.  Every random choice comes from the rng passed in."""

XSL_HEAD = """<?xml version="1.0"?>
<xsl:stylesheet version="1.0" xmlns:xsl="http://www.w3.org/1999/XSL/Transform"
  xmlns:xalan="http://xml.apache.org/xalan" xmlns:exsl="http://exslt.org/common"
  xmlns:math="http://exslt.org/math" xmlns:set="http://exslt.org/sets" xmlns:str="http://exslt.org/strings"
  xmlns:dyn="http://exslt.org/dynamic" exclude-result-prefixes="xalan exsl math set str dyn">
"""

# facility -> (top-level declarations, body instantiated inside <out> of the root template)
SNIPPETS = {
    "keys": ("""
  <xsl:key name="by-cat" match="item" use="@cat"/>
  <xsl:key name="by-initial" match="item" use="substring(name,1,1)"/>
  <xsl:key name="by-val" match="item" use="floor(value div 10)"/>
""", """
    <keys>
      <xsl:for-each select="//item[generate-id() = generate-id(key('by-cat', @cat)[1])]">
        <group cat="{@cat}" n="{count(key('by-cat', @cat))}" sum="{sum(key('by-cat', @cat)/value)}">
          <xsl:for-each select="key('by-cat', @cat)"><m><xsl:value-of select="@id"/></m></xsl:for-each>
        </group>
      </xsl:for-each>
      <ini><xsl:value-of select="count(key('by-initial','a'))"/>/<xsl:value-of select="count(key('by-val', 3))"/>/<xsl:value-of select="count(key('by-cat','nosuch'))"/></ini>
      <same><xsl:value-of select="generate-id(//item[1]) = generate-id(key('by-cat', //item[1]/@cat)[1])"/></same>
    </keys>
"""),
    "number": ("", """
    <numbers>
      <xsl:for-each select="//item">
        <n><xsl:number level="any" count="item"/>|<xsl:number level="multiple" count="section|item" format="1.a"/>|<xsl:number level="single" format="I"/>|<xsl:number level="any" from="section" count="item" format="001"/>|<xsl:number value="position() * 1000" grouping-separator="," grouping-size="3"/></n>
      </xsl:for-each>
      <xsl:for-each select="//section"><s><xsl:number level="multiple" count="section" format="A.1."/></s></xsl:for-each>
    </numbers>
"""),
    "sort": ("", """
    <sorted>
      <en><xsl:for-each select="//item"><xsl:sort select="name" lang="en" case-order="upper-first"/><i><xsl:value-of select="name"/></i></xsl:for-each></en>
      <fr><xsl:for-each select="//item"><xsl:sort select="name" lang="fr" case-order="lower-first"/><i><xsl:value-of select="name"/></i></xsl:for-each></fr>
      <de><xsl:for-each select="//item"><xsl:sort select="@cat" lang="de"/><xsl:sort select="value" data-type="number" order="descending"/><i><xsl:value-of select="@id"/></i></xsl:for-each></de>
      <sv><xsl:for-each select="//item"><xsl:sort select="name" lang="sv"/><i><xsl:value-of select="name"/></i></xsl:for-each></sv>
      <plain><xsl:for-each select="//item"><xsl:sort select="name"/><i><xsl:value-of select="name"/></i></xsl:for-each></plain>
      <ap><xsl:apply-templates select="//item" mode="sorted"><xsl:sort select="value" data-type="number"/><xsl:sort select="name" lang="en"/></xsl:apply-templates></ap>
    </sorted>
"""),
    "sortcase": ("", """
    <sortcase>
      <xsl:for-each select="//item"><xsl:sort select="name" lang="en" case-order="upper-first"/><u><xsl:value-of select="name"/></u></xsl:for-each>
      <xsl:for-each select="//item"><xsl:sort select="name" lang="en" case-order="lower-first"/><l><xsl:value-of select="name"/></l></xsl:for-each>
      <xsl:for-each select="//item"><xsl:sort select="name" lang="en"/><n><xsl:value-of select="name"/></n></xsl:for-each>
      <xsl:for-each select="//item"><xsl:sort select="name" lang="en" case-order="upper-first"/><u2><xsl:value-of select="name"/></u2></xsl:for-each>
      <xsl:for-each select="//item"><xsl:sort select="@cat" lang="fr" case-order="lower-first"/><xsl:sort select="name" lang="fr" case-order="upper-first"/><xsl:sort select="name" lang="en" case-order="lower-first"/><m><xsl:value-of select="@id"/></m></xsl:for-each>
      <xsl:for-each select="//item"><xsl:sort select="name" lang="de" case-order="upper-first" order="descending"/><d><xsl:value-of select="name"/></d></xsl:for-each>
      <xsl:for-each select="//item"><xsl:sort select="name" lang="sv" case-order="lower-first"/><s><xsl:value-of select="name"/></s></xsl:for-each>
      <xsl:for-each select="//item"><xsl:sort select="name" lang="tr" case-order="upper-first"/><t><xsl:value-of select="name"/></t></xsl:for-each>
      <xsl:for-each select="//item"><xsl:sort select="name" case-order="upper-first"/><p><xsl:value-of select="name"/></p></xsl:for-each>
      <xsl:apply-templates select="//item" mode="sorted"><xsl:sort select="name" lang="de" case-order="lower-first"/><xsl:sort select="value" data-type="number"/></xsl:apply-templates>
    </sortcase>
"""),
    "uent": ("", """
    <uent><xsl:value-of select="unparsed-entity-uri('pic')"/>|<xsl:value-of select="unparsed-entity-uri('nosuch')"/></uent>
"""),
    "format": ("""
  <xsl:decimal-format name="eu" decimal-separator="," grouping-separator="." NaN="nan" infinity="inf"/>
  <xsl:decimal-format decimal-separator="." grouping-separator="," minus-sign="-"/>
""", """
    <formats>
      <xsl:for-each select="//item">
        <f><xsl:value-of select="format-number(value * 1234.5678, '#.##0,00', 'eu')"/>|<xsl:value-of select="format-number(value div 7, '#,##0.000')"/>|<xsl:value-of select="format-number(value div 100, '0%')"/>|<xsl:value-of select="format-number(0 div 0, '0', 'eu')"/></f>
      </xsl:for-each>
    </formats>
"""),
    "document": ("""
  <xsl:variable name="lookup" select="document('doc2.xml')"/>
""", """
    <docs>
      <xsl:for-each select="//item">
        <d><xsl:value-of select="document('doc2.xml')/lookup/entry[@code = current()/@cat]/@id"/>:<xsl:value-of select="count($lookup//entry)"/></d>
      </xsl:for-each>
      <self><xsl:value-of select="count(document('')//xsl:template)"/></self>
      <xsl:for-each select="$lookup"><viaid><xsl:value-of select="id('b2 c3')/@code"/></viaid></xsl:for-each>
      <copy><xsl:copy-of select="$lookup/lookup/entry[1]"/></copy>
    </docs>
"""),
    "id": ("", """
    <ids>
      <xsl:for-each select="//ref"><r to="{@to}"><xsl:value-of select="id(@to)/name"/>|<xsl:value-of select="generate-id(id(@to)) = generate-id(//item[@id = current()/@to])"/></r></xsl:for-each>
      <multi><xsl:value-of select="count(id('i1 i2 i3 nosuch'))"/></multi>
    </ids>
"""),
    "strip": ("""
  <xsl:strip-space elements="*"/>
  <xsl:preserve-space elements="name note"/>
""", """
    <ws>
      <xsl:for-each select="//section"><c n="{count(node())}" t="{count(text())}"/></xsl:for-each>
      <xsl:for-each select="//note"><nt len="{string-length(.)}"/></xsl:for-each>
    </ws>
"""),
    "globals": ("""
  <xsl:variable name="g-count" select="count(//item)"/>
  <xsl:variable name="g-names"><xsl:for-each select="//item"><nm><xsl:value-of select="name"/></nm></xsl:for-each></xsl:variable>
  <xsl:variable name="g-late" select="$g-count + string-length($g-names)"/>
  <xsl:param name="gp" select="'default'"/>
""", """
    <globals count="{$g-count}" late="{$g-late}" gp="{$gp}" tid="{$tid}">
      <xsl:value-of select="$g-names"/>
      <xsl:for-each select="xalan:nodeset($g-names)/nm[position() mod 2 = 1]"><o><xsl:value-of select="."/></o></xsl:for-each>
    </globals>
"""),
    "rtf": ("", """
    <rtf>
      <xsl:variable name="frag"><xsl:for-each select="//item"><x v="{value}"><xsl:copy-of select="name"/></x></xsl:for-each></xsl:variable>
      <xsl:variable name="frag2"><xsl:copy-of select="exsl:node-set($frag)/x[@v &gt; 20]"/></xsl:variable>
      <c1><xsl:value-of select="count(exsl:node-set($frag)/x)"/></c1><c2><xsl:value-of select="count(exsl:node-set($frag2)/x)"/></c2>
      <s><xsl:value-of select="string($frag2)"/></s><n><xsl:value-of select="number(concat('1', string-length($frag)))"/></n>
      <xsl:copy-of select="$frag2"/>
      <xsl:call-template name="recurse"><xsl:with-param name="n" select="12"/></xsl:call-template>
    </rtf>
"""),
    "exslt": ("", """
    <exslt>
      <mx><xsl:value-of select="math:max(//item/value)"/>|<xsl:value-of select="math:min(//item/value)"/>|<xsl:value-of select="count(math:highest(//item/value))"/></mx>
      <st><xsl:value-of select="count(set:distinct(//item/@cat))"/>|<xsl:value-of select="count(set:difference(//item, //item[@cat='alpha']))"/>|<xsl:value-of select="set:has-same-node(//item[1], //item)"/></st>
      <sr><xsl:value-of select="str:padding(5, 'ab')"/>|<xsl:value-of select="str:align('x', '-----', 'right')"/>|<xsl:value-of select="str:concat(//item/@id)"/></sr>
      <dy><xsl:value-of select="dyn:evaluate('count(//item) + 1')"/></dy>
      <ot><xsl:value-of select="exsl:object-type(//item)"/>|<xsl:value-of select="exsl:object-type('s')"/></ot>
      <xa><xsl:value-of select="count(xalan:distinct(//item/@cat))"/>|<xsl:value-of select="count(xalan:intersection(//item, //section[1]/item))"/>|<xsl:value-of select="xalan:hasSameNodes(//item, //item)"/></xa>
    </exslt>
"""),
    "message": ("", """
    <msg><xsl:for-each select="//item[position() &lt; 4]"><xsl:message>item <xsl:value-of select="@id"/></xsl:message><m/></xsl:for-each></msg>
"""),
    "attrsets": ("""
  <xsl:attribute-set name="deco" use-attribute-sets="base-set">
    <xsl:attribute name="cls">c<xsl:value-of select="count(//item)"/></xsl:attribute>
  </xsl:attribute-set>
""", """
    <as>
      <xsl:for-each select="//item[position() &lt; 5]"><xsl:element name="e-{@cat}" use-attribute-sets="deco"><xsl:attribute name="id"><xsl:value-of select="@id"/></xsl:attribute></xsl:element></xsl:for-each>
      <lit xsl:use-attribute-sets="base-set"/>
    </as>
"""),
    "imports": ("", """
    <imports g="{$imp-global}">
      <xsl:apply-templates select="/*/section" mode="imp"/>
      <k><xsl:value-of select="count(key('by-cat-imp', 'beta'))"/></k>
    </imports>
"""),
    "patterns": ("", """
    <pat><xsl:apply-templates select="/*" mode="pat"/></pat>
"""),
}

COMMON_DECLS = """
  <xsl:import href="imported.xsl"/>
  <xsl:output method="xml" indent="no" encoding="UTF-8"/>
  <xsl:param name="tid" select="'none'"/>
  <xsl:template name="recurse"><xsl:param name="n"/><xsl:if test="$n &gt; 0"><d n="{$n}"/><xsl:call-template name="recurse"><xsl:with-param name="n" select="$n - 1"/></xsl:call-template></xsl:if></xsl:template>
  <xsl:template match="item" mode="sorted"><a p="{position()}" l="{last()}"><xsl:value-of select="@id"/></a></xsl:template>
  <xsl:template match="section[@kind='x']/item[value &gt; 10][1]" mode="pat" priority="3"><first-big id="{@id}"/></xsl:template>
  <xsl:template match="item[@cat='alpha'] | item[name='a']" mode="pat"><alpha id="{@id}"/></xsl:template>
  <xsl:template match="section//item" mode="pat" priority="-1"><deep id="{@id}"/></xsl:template>
  <xsl:template match="*" mode="pat"><xsl:apply-templates select="*" mode="pat"/></xsl:template>
  <xsl:template match="text()" mode="pat"/>
  <xsl:template match="item" mode="imp"><over id="{@id}"><xsl:apply-imports/></over></xsl:template>
"""


def make_xsl(facilities):
    decls = "".join(SNIPPETS[f][0] for f in facilities)
    body = "".join(SNIPPETS[f][1] for f in facilities)
    return (XSL_HEAD + COMMON_DECLS + decls +
            '  <xsl:template match="/">\n  <out tid="{$tid}">' + body + "  </out>\n  </xsl:template>\n</xsl:stylesheet>\n")


CATS = ["alpha", "beta", "gamma", "delta", "Alpha", "épsilon", "zeta"]
NAMES = ["apple", "Apple", "banana", "cherry", "éclair", "eclair", "Zebra", "zebra", "a", "B", "côte", "cote",
         "coté", "ångström", "angstrom", "Ob", "ob", "Öl", "mango", "kiwi"]


def make_xml(rng, n_items, ids=True, entity=False):
    """ids=False: no DTD at all (no ID attributes, no unparsed entities: the document's id and entity maps
    stay empty); entity=True additionally declares an unparsed entity 'pic'"""
    dtd = ""
    if ids:
        dtd = '<!DOCTYPE data [\n<!ATTLIST item id ID #REQUIRED>\n' + \
              ('<!NOTATION gif SYSTEM "image/gif">\n<!ENTITY pic SYSTEM "http://example.org/pic.gif" NDATA gif>\n' if entity else "") + ']>\n'
    out = ['<?xml version="1.0" encoding="UTF-8"?>\n' + dtd + '<data>\n']
    i = 0
    depth_open = 0
    nsec = max(1, n_items // 4)
    per = [0] * nsec
    for _ in range(n_items):
        per[rng.randrange(nsec)] += 1
    for s, cnt in enumerate(per):
        out.append('  <section kind="%s">\n' % rng.choice(["x", "y"]))
        if rng.random() < 0.4:
            out.append('    <section kind="x">\n')
            depth_open = 1
        for _ in range(cnt):
            i += 1
            out.append('    <item id="i%d" cat="%s"><name>%s</name><value>%d</value>%s</item>\n' % (
                i, rng.choice(CATS), rng.choice(NAMES), rng.randrange(0, 100),
                "<note> %s </note>" % rng.choice(["x", "  y  ", ""]) if rng.random() < 0.5 else ""))
        if depth_open:
            out.append("    </section>\n")
            depth_open = 0
        out.append("  </section>\n")
    for _ in range(max(2, n_items // 3)):
        out.append('  <ref to="i%d"/>\n' % rng.randrange(1, max(2, i + 2)))
    out.append("</data>\n")
    return "".join(out)
