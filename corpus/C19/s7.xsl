<?xml version="1.0"?>
<xsl:stylesheet version="1.0" xmlns:xsl="http://www.w3.org/1999/XSL/Transform">
  <xsl:output method="xml" encoding="ISO-8859-1" cdata-section-elements="d"/>
  <xsl:attribute-set name="as"><xsl:attribute name="cls">k</xsl:attribute></xsl:attribute-set>
  <xsl:template match="@*|node()" mode="id"><xsl:copy><xsl:apply-templates select="@*|node()" mode="id"/></xsl:copy></xsl:template>
  <xsl:template match="c" mode="id" priority="2"><c xsl:use-attribute-sets="as" pos="{count(preceding::c) + 1}"/></xsl:template>
  <xsl:template match="/">
    <xsl:apply-templates select="a" mode="id"/>
    <xsl:message>note: <xsl:value-of select="name(/*)"/></xsl:message>
  </xsl:template>
  <xsl:template match="d" mode="id"><d><xsl:value-of select="translate(., 'abcdefgh', 'ABCDEFGH')"/>&#233;</d>
    <xsl:if test="contains(., '&amp;') and starts-with(normalize-space(.), 'text')"><ok len="{string-length(.)}" sub="{substring-before(., ' ')}"/></xsl:if></xsl:template>
</xsl:stylesheet>
