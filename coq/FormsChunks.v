(* FormsChunks.v - C05: XalanOutputStream buffering: the callback chunks concatenate to the written data.
   Every lemma holds for both variants k of the stream (FormsDefs.ostep_k): the original one and the one that
   keeps a trailing high surrogate back when it flushes because more data is coming. *)
From Coq Require Import NArith List Bool Lia ZifyBool ZifyNat ZifyN.
Import ListNotations.
Require Import XV.GenForms XV.FormsDefs.

Lemma rev_eq_cons : forall (A : Type) (l : list A) x r, rev l = x :: r -> l = rev r ++ [x].
Proof. intros A l x r H. rewrite <- (rev_involutive l), H. reflexivity. Qed.

Section Transcoded.
  (* the transcoder applied by doWrite to each flushed block; only assumed to act block-wise
     (tc (a ++ b) = tc a ++ tc b): the identity (code units), the UTF-16 pass-through, any
     stateless per-character encoder without a surrogate pair split over two blocks *)
  Variable tc : list N -> list N.
  Hypothesis tc_app : forall a b, tc (a ++ b) = tc a ++ tc b.

  Lemma tc_nil : tc [] = [].
  Proof.
    pose proof (tc_app [] []) as H. cbn [app] in H. apply (f_equal (@length N)) in H. rewrite app_length in H.
    destruct (tc []); [reflexivity | cbn in H; lia].
  Qed.

  Definition bytes_c (c : ochunk) : list N := match c with CWide d => tc d | CNarrow d => d end.
  Definition bytes_w (w : owrite) : list N :=
    match w with OWide d => tc d | OChar c => tc [c] | ONarrow d => d | OFlush => [] end.
  Definition sent (st : ostate) : list N := flat_map bytes_c (rev (o_out st)).

  Lemma sent_cons : forall buf c out, sent (mkO buf (c :: out)) = sent (mkO [] out) ++ bytes_c c.
  Proof. intros; unfold sent; cbn [o_out rev]. rewrite flat_map_app. cbn [flat_map]. rewrite app_nil_r. reflexivity. Qed.

  Lemma sent_buf : forall b1 b2 out, sent (mkO b1 out) = sent (mkO b2 out).
  Proof. reflexivity. Qed.

  Lemma flush_keeps : forall st, sent (flush_buffer st) ++ tc (o_buf (flush_buffer st)) = sent st ++ tc (o_buf st).
  Proof.
    intros [buf out]; unfold flush_buffer; cbn [o_buf o_out]. destruct buf as [|x b]; [reflexivity|].
    rewrite sent_cons. cbn [o_buf bytes_c]. rewrite tc_nil, app_nil_r. reflexivity.
  Qed.

  Lemma flush_empties : forall st, o_buf (flush_buffer st) = [].
  Proof. intros [buf out]; unfold flush_buffer; cbn [o_buf]; destruct buf; reflexivity. Qed.

  Lemma flush_sent : forall buf out, sent (mkO [] (o_out (flush_buffer (mkO buf out)))) = sent (mkO [] out) ++ tc buf.
  Proof.
    intros buf out. unfold flush_buffer; cbn [o_buf o_out]. destruct buf as [|x b].
    - cbn [o_out]. rewrite tc_nil, app_nil_r. reflexivity.
    - cbn [o_out]. rewrite sent_cons. reflexivity.
  Qed.

  Lemma ffm_keeps : forall k st,
    sent (flush_for_more k st) ++ tc (o_buf (flush_for_more k st)) = sent st ++ tc (o_buf st).
  Proof.
    intros k [buf out]; unfold flush_for_more; cbn [o_buf o_out]. destruct k; [|apply flush_keeps].
    destruct (rev buf) as [|last r] eqn:E; [apply flush_keeps|].
    destruct (is_high_surrogate last); [|apply flush_keeps].
    cbn [o_buf]. rewrite (sent_buf [last] []), flush_sent, (rev_eq_cons _ _ _ _ E), tc_app, app_assoc. reflexivity.
  Qed.

  Lemma big_block_keeps : forall st d,
    sent (big_block st d) ++ tc (o_buf (big_block st d)) = (sent st ++ tc (o_buf st)) ++ tc d.
  Proof.
    intros [buf out] d. unfold big_block. cbn [o_buf o_out].
    destruct d as [|x d']; [rewrite tc_nil, app_nil_r; reflexivity|].
    assert (H2 : forall out2 d2, sent (mkO [] out2) ++ tc d2 = (sent (mkO buf out) ++ tc buf) ++ tc (x :: d') ->
      let st' := match rev d2 with
                 | [] => mkO [] out2
                 | last :: r => if is_high_surrogate last
                                then mkO [last] (match r with [] => out2 | _ => CWide (rev r) :: out2 end)
                                else mkO [] (CWide d2 :: out2)
                 end in
      sent st' ++ tc (o_buf st') = (sent (mkO buf out) ++ tc buf) ++ tc (x :: d')).
    { intros out2 d2 H. cbn zeta. destruct (rev d2) as [|last r] eqn:E.
      - assert (d2 = []) by (rewrite <- (rev_involutive d2), E; reflexivity). subst d2. cbn [o_buf]. exact H.
      - rewrite (rev_eq_cons _ _ _ _ E) in H. destruct (is_high_surrogate last).
        + cbn [o_buf]. destruct r as [|y r'].
          * cbn [rev app] in H. rewrite (sent_buf [last] []). exact H.
          * rewrite sent_cons. cbn [bytes_c]. rewrite <- app_assoc, <- tc_app. exact H.
        + cbn [o_buf]. rewrite sent_cons, tc_nil, app_nil_r. cbn [bytes_c]. rewrite (rev_eq_cons _ _ _ _ E). exact H. }
    destruct buf as [|b0 b].
    - apply H2. rewrite tc_nil, app_nil_r. reflexivity.
    - apply H2. rewrite sent_cons. cbn [bytes_c]. rewrite <- !app_assoc, <- !tc_app. rewrite <- app_assoc. reflexivity.
  Qed.

  Lemma ostep_keeps : forall k bs st w,
    (match w with ONarrow _ => o_buf st = [] | _ => True end) ->
    sent (ostep_k k bs st w) ++ tc (o_buf (ostep_k k bs st w)) = (sent st ++ tc (o_buf st)) ++ bytes_w w.
  Proof.
    intros k bs st w Hn. destruct w; cbn [ostep_k bytes_w].
    - (* OWide *)
      destruct (N.ltb bs (len d)) eqn:E2.
      + assert (E1 : N.ltb bs (len d + len (o_buf st)) = true) by (unfold len in *; lia). rewrite E1.
        destruct k.
        * rewrite big_block_keeps, ffm_keeps. reflexivity.
        * unfold flush_for_more. pose proof (flush_keeps st) as Hk. pose proof (flush_empties st) as He.
          destruct (flush_buffer st) as [b o]. cbn [o_buf o_out] in *. subst b.
          rewrite sent_cons. cbn [bytes_c o_buf]. rewrite tc_nil, app_nil_r in *. rewrite <- Hk. reflexivity.
      + set (st1 := if N.ltb bs (len d + len (o_buf st)) then flush_for_more k st else st).
        assert (H1 : sent st1 ++ tc (o_buf st1) = sent st ++ tc (o_buf st)).
        { unfold st1. destruct (N.ltb bs (len d + len (o_buf st))); [apply ffm_keeps | reflexivity]. }
        destruct st1 as [b o]. cbn [o_buf o_out] in *. rewrite (sent_buf (b ++ d) b o), tc_app, app_assoc, H1. reflexivity.
    - (* OChar *)
      set (full := if k then N.leb bs (len (o_buf st)) else N.eqb (len (o_buf st)) bs).
      destruct full.
      + pose proof (ffm_keeps k st) as Hk. destruct (flush_for_more k st) as [b o]. cbn [o_buf o_out] in *.
        rewrite (sent_buf (b ++ [c]) b o), tc_app, app_assoc, Hk. reflexivity.
      + destruct st as [b o]. cbn [o_buf o_out]. rewrite (sent_buf (b ++ [c]) b o), tc_app, app_assoc. reflexivity.
    - (* ONarrow *)
      destruct st as [b o]. cbn [o_buf o_out] in *. subst b. rewrite sent_cons. cbn [bytes_c o_buf].
      rewrite tc_nil, !app_nil_r. reflexivity.
    - (* OFlush *)
      rewrite app_nil_r. apply flush_keeps.
  Qed.

  Lemma orun_keeps : forall k ws bs st, narrow_ok_from k bs st ws = true ->
    let st' := fold_left (ostep_k k bs) ws st in
    sent st' ++ tc (o_buf st') = (sent st ++ tc (o_buf st)) ++ flat_map bytes_w ws.
  Proof.
    induction ws as [|w r IH]; intros bs st H; cbn [fold_left flat_map].
    - rewrite app_nil_r. reflexivity.
    - cbn [narrow_ok_from] in H. apply andb_prop in H; destruct H as [H1 H2].
      specialize (IH bs (ostep_k k bs st w) H2). cbn zeta in IH. rewrite IH, ostep_keeps, app_assoc; [reflexivity|].
      destruct w; try exact I. destruct (o_buf st); [reflexivity | discriminate].
  Qed.

  Lemma chunks_bytes_pending_k : forall k bs ws, narrow_ok_k k bs ws = true ->
    flat_map bytes_c (chunks_k k bs ws) ++ tc (o_buf (orun_k k bs ws)) = flat_map bytes_w ws.
  Proof.
    intros k bs ws H. unfold narrow_ok_k in H. pose proof (orun_keeps k ws (eff_size bs) (mkO [] []) H) as Hk.
    cbn zeta in Hk. unfold sent in Hk at 2. cbn [o_out o_buf rev flat_map app] in Hk. rewrite tc_nil in Hk. exact Hk.
  Qed.

  Lemma orun_flush : forall k bs ws, orun_k k bs (ws ++ [OFlush]) = flush_buffer (orun_k k bs ws).
  Proof. intros; unfold orun_k; rewrite fold_left_app; reflexivity. Qed.

  Lemma chunks_bytes_k : forall k bs ws, narrow_ok_k k bs ws = true ->
    flat_map bytes_c (chunks_k k bs (ws ++ [OFlush])) = flat_map bytes_w ws.
  Proof.
    intros k bs ws H. rewrite <- (chunks_bytes_pending_k k bs ws H). unfold chunks_k. rewrite orun_flush.
    pose proof (flush_keeps (orun_k k bs ws)) as Hk. rewrite flush_empties, tc_nil, app_nil_r in Hk. exact Hk.
  Qed.
End Transcoded.

(* code-unit level: tc = identity *)
Lemma chunks_units_k : forall k bs ws, narrow_ok_k k bs ws = true -> delivered (chunks_k k bs (ws ++ [OFlush])) = written ws.
Proof.
  intros k bs ws H. pose proof (chunks_bytes_k (fun x => x) (fun a b => eq_refl) k bs ws H) as Hk.
  unfold delivered, written.
  erewrite flat_map_ext; [erewrite (flat_map_ext write_data)|]; [exact Hk | |]; intros []; reflexivity.
Qed.

Lemma chunks_units_pending_k : forall k bs ws, narrow_ok_k k bs ws = true ->
  delivered (chunks_k k bs ws) ++ o_buf (orun_k k bs ws) = written ws.
Proof.
  intros k bs ws H. pose proof (chunks_bytes_pending_k (fun x => x) (fun a b => eq_refl) k bs ws H) as Hk.
  unfold delivered, written.
  erewrite flat_map_ext; [erewrite (flat_map_ext write_data)|]; [exact Hk | |]; intros []; reflexivity.
Qed.

(* UTF-16 pass-through (m_writeAsUTF16): every code unit becomes two bytes *)
Definition utf16le (l : list N) : list N := flat_map (fun u => [N.modulo u 256; N.div u 256]) l.
Lemma utf16le_app : forall a b, utf16le (a ++ b) = utf16le a ++ utf16le b.
Proof. intros; unfold utf16le; apply flat_map_app. Qed.

(** ** sizes: the buffer holds at most its size (plus the one high surrogate kept back in the repaired
    variant); a chunk is at most that long, or it is (original variant) exactly one oversized write /
    (repaired variant) a piece of one oversized write *)
Definition slack (k : bool) : N := if k then 1%N else 0%N.

Definition chunk_ok (k : bool) (bs : N) (ws : list owrite) (c : ochunk) : Prop :=
  match c with
  | CWide d => (len d <= bs + slack k)%N
               \/ (if k then exists w, In (OWide w) ws /\ (len d <= len w)%N else In (OWide d) ws)
  | CNarrow d => In (ONarrow d) ws
  end.

Lemma ffm_buf : forall k st, (len (o_buf (flush_for_more k st)) <= slack k)%N.
Proof.
  intros k [buf out]. unfold flush_for_more, slack, len. cbn [o_buf o_out].
  assert (Hf : o_buf (flush_buffer (mkO buf out)) = []) by (unfold flush_buffer; cbn [o_buf]; destruct buf; reflexivity).
  destruct k; [|rewrite Hf; cbn; lia].
  destruct (rev buf) as [|last r]; [rewrite Hf; cbn; lia|].
  destruct (is_high_surrogate last); [cbn; lia | rewrite Hf; cbn; lia].
Qed.

Lemma flush_out : forall st (P : ochunk -> Prop), Forall P (o_out st) -> P (CWide (o_buf st)) -> Forall P (o_out (flush_buffer st)).
Proof.
  intros [buf out] P Ho Hb. unfold flush_buffer; cbn [o_buf o_out] in *. destruct buf; [assumption | constructor; assumption].
Qed.

Lemma ffm_out : forall k st (P : ochunk -> Prop), Forall P (o_out st) ->
  (forall d, (len d <= len (o_buf st))%N -> P (CWide d)) -> Forall P (o_out (flush_for_more k st)).
Proof.
  intros k [buf out] P Ho Hs. unfold flush_for_more; cbn [o_buf o_out] in *.
  assert (Hf : Forall P (o_out (flush_buffer (mkO buf out)))) by (apply flush_out; [assumption | apply Hs; cbn [o_buf]; lia]).
  destruct k; [|exact Hf].
  destruct (rev buf) as [|last r] eqn:E; [exact Hf|].
  destruct (is_high_surrogate last); [|exact Hf].
  cbn [o_out]. apply flush_out; [assumption|]. cbn [o_buf]. apply Hs.
  unfold len. rewrite rev_length, <- (rev_length buf), E. cbn [length]. lia.
Qed.

Lemma big_block_buf : forall st d, (len (o_buf st) <= 1)%N -> (len (o_buf (big_block st d)) <= 1)%N.
Proof.
  intros [buf out] d H. unfold big_block; cbn [o_buf o_out]. destruct d as [|x d']; [exact H|].
  destruct buf as [|b0 b].
  - destruct (rev (x :: d')) as [|last r]; [cbn; lia|]. destruct (is_high_surrogate last); cbn; lia.
  - destruct (rev d') as [|last r]; [cbn; lia|]. destruct (is_high_surrogate last); cbn; lia.
Qed.

Lemma big_block_out : forall st d (P : ochunk -> Prop), Forall P (o_out st) ->
  (forall e, (len e <= len (o_buf st) + 1)%N -> P (CWide e)) -> (forall e, (len e <= len d)%N -> P (CWide e)) ->
  Forall P (o_out (big_block st d)).
Proof.
  intros [buf out] d P Ho Hs Hd. unfold big_block; cbn [o_buf o_out] in *. destruct d as [|x d']; [exact Ho|].
  assert (H2 : forall out2 d2, Forall P out2 -> (len d2 <= len (x :: d'))%N ->
    Forall P (o_out (match rev d2 with
                     | [] => mkO [] out2
                     | last :: r => if is_high_surrogate last
                                    then mkO [last] (match r with [] => out2 | _ => CWide (rev r) :: out2 end)
                                    else mkO [] (CWide d2 :: out2)
                     end))).
  { intros out2 d2 H2 Hl. destruct (rev d2) as [|last r] eqn:E; [exact H2|].
    destruct (is_high_surrogate last); cbn [o_out].
    - destruct r as [|y r']; [exact H2|]. constructor; [|exact H2]. apply Hd.
      unfold len in *. rewrite rev_length. rewrite <- (rev_length d2), E in Hl. cbn [length] in *. lia.
    - constructor; [apply Hd; exact Hl | exact H2]. }
  destruct buf as [|b0 b].
  - apply H2; [exact Ho | lia].
  - apply H2; [constructor; [|exact Ho] | unfold len; cbn [length]; lia].
    apply Hs. unfold len. rewrite app_length. cbn [length]. lia.
Qed.

Lemma ostep_bound : forall k bs st w, (1 <= bs)%N -> (len (o_buf st) <= bs + slack k)%N ->
  (len (o_buf (ostep_k k bs st w)) <= bs + slack k)%N.
Proof.
  intros k bs st w Hb H. destruct w; cbn [ostep_k].
  - destruct (N.ltb bs (len d)) eqn:E2.
    + assert (E1 : N.ltb bs (len d + len (o_buf st)) = true) by (unfold len in *; lia). rewrite E1.
      pose proof (ffm_buf k st) as Hf. destruct k.
      * pose proof (big_block_buf (flush_for_more true st) d Hf). unfold slack in *. lia.
      * cbn [o_buf]. unfold slack in *. lia.
    + destruct (N.ltb bs (len d + len (o_buf st))) eqn:E1.
      * pose proof (ffm_buf k st) as Hf. cbn [o_buf]. unfold len in *. rewrite app_length. lia.
      * cbn [o_buf]. unfold len in *. rewrite app_length. lia.
  - destruct k.
    + destruct (N.leb bs (len (o_buf st))) eqn:E.
      * pose proof (ffm_buf true st) as Hf. cbn [o_buf]. unfold len, slack in *. rewrite app_length. cbn [length]. lia.
      * cbn [o_buf]. unfold len, slack in *. rewrite app_length. cbn [length]. lia.
    + destruct (N.eqb (len (o_buf st)) bs) eqn:E.
      * pose proof (ffm_buf false st) as Hf. cbn [o_buf]. unfold len, slack in *. rewrite app_length. cbn [length]. lia.
      * cbn [o_buf]. unfold len, slack in *. rewrite app_length. cbn [length]. lia.
  - cbn [o_buf]. assumption.
  - unfold flush_buffer. destruct (o_buf st) eqn:Eb; [rewrite Eb; cbn; lia | cbn; lia].
Qed.

Lemma ostep_chunks_ok : forall k bs ws st w, (1 <= bs)%N -> (len (o_buf st) <= bs + slack k)%N ->
  Forall (chunk_ok k bs ws) (o_out st) -> In w ws -> Forall (chunk_ok k bs ws) (o_out (ostep_k k bs st w)).
Proof.
  intros k bs ws st w Hbs Hb Ho Hin.
  assert (Hsmall : forall d, (len d <= len (o_buf st))%N -> chunk_ok k bs ws (CWide d)) by (intros d Hd; left; lia).
  assert (Hffm : Forall (chunk_ok k bs ws) (o_out (flush_for_more k st))) by (apply ffm_out; assumption).
  destruct w; cbn [ostep_k].
  - destruct (N.ltb bs (len d)) eqn:E2.
    + assert (E1 : N.ltb bs (len d + len (o_buf st)) = true) by (unfold len in *; lia). rewrite E1.
      destruct k.
      * apply big_block_out; [exact Hffm | |].
        -- intros e He. left. pose proof (ffm_buf true st). unfold slack in *. lia.
        -- intros e He. right. exists d. split; assumption.
      * cbn [o_out]. constructor; [right; exact Hin | exact Hffm].
    + destruct (N.ltb bs (len d + len (o_buf st))); cbn [o_out]; assumption.
  - destruct k.
    + destruct (N.leb bs (len (o_buf st))); cbn [o_out]; assumption.
    + destruct (N.eqb (len (o_buf st)) bs); cbn [o_out]; assumption.
  - cbn [o_out]. constructor; [exact Hin | exact Ho].
  - apply flush_out; [exact Ho | left; exact Hb].
Qed.

Lemma orun_chunks_ok : forall k ws0 ws bs st, (1 <= bs)%N -> (len (o_buf st) <= bs + slack k)%N ->
  Forall (chunk_ok k bs (ws0 ++ ws)) (o_out st) ->
  Forall (chunk_ok k bs (ws0 ++ ws)) (o_out (fold_left (ostep_k k bs) ws st))
  /\ (len (o_buf (fold_left (ostep_k k bs) ws st)) <= bs + slack k)%N.
Proof.
  intros k ws0 ws; revert ws0. induction ws as [|w r IH]; intros ws0 bs st Hbs Hb Ho; cbn [fold_left].
  - split; assumption.
  - replace (ws0 ++ w :: r) with ((ws0 ++ [w]) ++ r) in * by (rewrite <- app_assoc; reflexivity).
    apply IH; [assumption | apply ostep_bound; assumption |].
    apply ostep_chunks_ok; try assumption. apply in_or_app; left; apply in_or_app; right; left; reflexivity.
Qed.

Lemma chunks_bounded_k : forall k bs ws,
  Forall (chunk_ok k (eff_size bs) ws) (chunks_k k bs ws) /\ (len (o_buf (orun_k k bs ws)) <= eff_size bs + slack k)%N.
Proof.
  intros k bs ws. assert (H1 : (1 <= eff_size bs)%N) by (unfold eff_size; destruct (N.eqb bs 0) eqn:E; lia).
  destruct (orun_chunks_ok k [] ws (eff_size bs) (mkO [] []) H1) as [Ha Hb]; [cbn; lia | constructor |].
  split; [|exact Hb]. unfold chunks_k, orun_k. apply Forall_rev. exact Ha.
Qed.

