"""C18 — number/string conversions follow XPath and round-trip exactly."""
import re, math, struct
from fractions import Fraction
from vlib import core

LEVEL = "proof"
FAMILY = "num"


def bits(x):
    return struct.unpack(">Q", struct.pack(">d", x))[0]


def dbl(b):
    return struct.unpack(">d", struct.pack(">Q", b & 0xFFFFFFFFFFFFFFFF))[0]


def hexb(b):
    return "%016x" % (b & 0xFFFFFFFFFFFFFFFF)


def tok(s):
    return "u:" + ",".join("%x" % ord(c) for c in s)


def untok(t):
    body = t[2:]
    return "" if not body else "".join(chr(int(h, 16)) for h in body.split(","))


# ---------------------------------------------------------------------------------------------
# generators (every choice from ctx.rng)

def gen_doubles(ctx, n):
    r = ctx.rng
    out = []

    def add(cls, b):
        out.append((cls, b & 0xFFFFFFFFFFFFFFFF))

    def around(cls, x, k=2):
        b = bits(x)
        for d in range(-k, k + 1):
            add(cls, b + d)
            add(cls, (b + d) ^ (1 << 63))
    for b in (0, 1 << 63, 0x7FF0000000000000, 0xFFF0000000000000, 0x7FF8000000000000, 0x7FF0000000000001,
              1, 0x000FFFFFFFFFFFFF, 0x0010000000000000, 0x7FEFFFFFFFFFFFFF, 0xFFEFFFFFFFFFFFFF):
        add("special", b)
    for e in range(-1074, 1024, 7 if not ctx.thorough else 1):
        around("pow2", math.ldexp(1.0, e), 1)
    for e in range(-323, 309, 5 if not ctx.thorough else 1):
        around("pow10", float("1e%d" % e), 1)
    for x in (2.0 ** 52, 2.0 ** 53, 2.0 ** 63, 2.0 ** 64, 1e89, 1e90, 1e-35, 1e-18, 2.0 ** -63, 2.0 ** -64, 9007199254740993.0):
        around("boundary", x, 3)
    for _ in range(n // 6):   # x.5 ties and their neighbours
        k = r.choice([r.randrange(0, 8), r.randrange(0, 1 << 20), r.randrange(1 << 40, 1 << 52), r.randrange(1 << 50, 1 << 52)])
        around("tie", k + 0.5, 1)
    for _ in range(n // 6):   # small integers and simple decimals
        add("int", bits(float(r.randrange(-10 ** r.randrange(1, 19), 10 ** r.randrange(1, 19)))))
        add("decimal", bits(r.randrange(-10 ** 6, 10 ** 6) / 10.0 ** r.randrange(1, 9)))
    for _ in range(n // 3):   # uniform over exponents
        e = r.randrange(0, 2047)
        add("uniform_exp", (r.getrandbits(1) << 63) | (e << 52) | r.getrandbits(52))
    for _ in range(n // 6):   # in the unit interval and near it (fraction-heavy)
        add("unit", bits(r.random() * r.choice([1, 1, 10, 1000, 1e-5, 1e-10, 1e-17])))
    for _ in range(n // 12):
        add("random64", r.getrandbits(64))
    # magnitudes below 2^-63, down to the subnormals: the "%.*f" continuation of DoubleToCharacters after
    # the 35-digit table (the former known-finding class K5), densely
    for b in (1, 2, 3, 0x000FFFFFFFFFFFFF, 0x0010000000000000, 0x0010000000000001, bits(5e-324), bits(2.2250738585072014e-308),
              bits(1e-40), bits(1.2345678901234567e-20), bits(2.0 ** -64), bits(2.0 ** -63), bits(1e-323), bits(9.9e-324)):
        add("tiny_fixed", b)
        add("tiny_fixed", b | (1 << 63))
    for e in range(-1074, -60, 5 if not ctx.thorough else 1):
        around("tiny_pow2", math.ldexp(1.0, e), 1)
    for e in range(-323, -17, 3 if not ctx.thorough else 1):
        around("tiny_pow10", float("1e%d" % e), 1)
    for _ in range(n // 10):   # subnormals: every mantissa width
        w = r.randrange(1, 53)
        add("subnormal", (r.getrandbits(1) << 63) | (r.getrandbits(w) | (1 << (w - 1))))
    for _ in range(n // 8):   # normal numbers below 2^-63, uniform over the exponent field 1..959
        e = r.randrange(1, 960)
        add("tiny_uniform", (r.getrandbits(1) << 63) | (e << 52) | r.getrandbits(52))
    for _ in range(n // 20):  # few significant decimal digits at a tiny scale (short numerals, long zero runs)
        x = float("%de-%d" % (r.randrange(1, 10 ** r.randrange(1, 18)), r.randrange(18, 340)))
        add("tiny_decimal", bits(x) | (r.getrandbits(1) << 63))
    return out


WS = " \t\n\r"


def gen_strings(ctx, n):
    r = ctx.rng
    out = []

    def digits(k):
        return "".join(r.choice("0123456789") for _ in range(k))

    def ws():
        return "".join(r.choice(WS) for _ in range(r.choice([0, 0, 0, 1, 2])))
    for s in ("", " ", "-", ".", "-.", "0", "-0", "-0.0", "0.0", "1.", ".5", "-.5", "+1", "1e3", "1E3", "- 1", "1 2", "1.2.3",
              "--1", "1-", "0x10", "Infinity", "NaN", "-Infinity", "1,5", "١", " 12 ", "\t-12.50\n", "00012", "123456789",
              "1234567890", "-12345678", "-123456789", " 99999999", "999999999", "4.9e-324", "1" * 308, "1" * 309, "1" * 310,
              "0." + "0" * 323 + "4", "0." + "0" * 323 + "2", "9007199254740993", "9007199254740992.5", "0.1", "0.30000000000000004",
              "179769313486231580793728971405303415079934132710037826936173778980444968292764750946649017977587207096330286416692887910946555547851940402630657488671505820681908902000708383676273854845817711531764475730270069855571366959622842914819860834936475292719074168444365510704342711559699508093042880177904174497791.9999999999999999999",
              "179769313486231580793728971405303415079934132710037826936173778980444968292764750946649017977587207096330286416692887910946555547851940402630657488671505820681908902000708383676273854845817711531764475730270069855571366959622842914819860834936475292719074168444365510704342711559699508093042880177904174497792"):
        out.append(("fixed", s))
    for _ in range(n // 3):   # valid numerals, lengths straddling the long-hack threshold (10)
        neg = r.choice(["", "", "-"])
        ip = digits(r.choice([0, 1, 2, 5, 7, 8, 9, 10, 11, 17, 20]))
        if r.random() < 0.5:
            fp = digits(r.choice([0, 1, 2, 8, 17, 25]))
            body = ip + "." + fp
        else:
            body = ip
        out.append(("valid", ws() + neg + body + ws()))
    # integer numerals aimed at the widths of the integer types a shortcut could go through
    # (int / long / unsigned), every length 1..22, with the sign and white space counted in
    bounds = [2 ** 31, 2 ** 32, 2 ** 53, 2 ** 63, 2 ** 64] + [10 ** k for k in range(1, 23)]
    for _ in range(n // 4):
        if r.random() < 0.6:
            v = r.choice(bounds) + r.choice([-2, -1, 0, 1, 2, 7, 1000])
            if r.random() < 0.3:
                lo = r.choice(bounds)
                v = r.randrange(lo, 10 ** len(str(lo)))
        else:
            k = r.randrange(1, 23)
            v = int(r.choice("123456789") + digits(k - 1))
        body = str(max(v, 0))
        if r.random() < 0.15:
            body = "0" * r.randrange(1, 4) + body
        out.append(("intwidth", r.choice(["", "", " ", "  ", "\t"]) + r.choice(["", "", "-"]) + body + r.choice(["", "", " "])))
    for _ in range(n // 8):   # length around the 200-byte stack buffer
        k = r.choice([196, 197, 198, 199, 200, 201, 202, 250])
        s = digits(r.randrange(1, 30)) + "." + digits(400)
        out.append(("long", (r.choice(["", " "]) + s)[:k]))
    for _ in range(n // 4):   # mutations of valid numerals
        s = list(r.choice(["-12.5", "7", " 42 ", "0.001", "-.75", "123456789", "3.", "1234567890123"]))
        for _ in range(r.choice([1, 1, 2])):
            op = r.randrange(3)
            pos = r.randrange(len(s) + 1)
            c = r.choice("0123456789.-+eE \t\n\rxa,")
            if op == 0:
                s.insert(pos, c)
            elif op == 1 and s:
                s.pop(min(pos, len(s) - 1))
            elif s:
                s[min(pos, len(s) - 1)] = c
        out.append(("mutated", "".join(s)))
    for _ in range(n // 4):   # random over the alphabet
        k = r.choice([1, 2, 3, 4, 6, 9, 10, 12])
        out.append(("alphabet", "".join(r.choice("0123456789.-+e \t") for _ in range(k))))
    return out


# ---------------------------------------------------------------------------------------------
# independent oracle (Python's correctly rounded float()/Fraction arithmetic; no model involved)

SYNTAX = re.compile(r"^(NaN|Infinity|-Infinity|-?(0|[1-9][0-9]*)(\.[0-9]*[1-9])?)$")
NUMBER = re.compile(r"^[ \t\r\n]*(-?)([0-9]+(\.[0-9]*)?|\.[0-9]+)[ \t\r\n]*$")


def exact_nearest(s):
    """the double nearest to the decimal numeral s, by exact rational arithmetic (ties to even):
    independent of float()'s parser"""
    q = Fraction(s)
    if q == 0:
        return -0.0 if s.startswith("-") else 0.0
    neg, q = q < 0, abs(q)
    e = q.numerator.bit_length() - q.denominator.bit_length()      # 2^(e-1) < q < 2^(e+1)
    if Fraction(2) ** e > q:
        e -= 1                                                       # 2^e <= q < 2^(e+1)
    ex = max(e - 52, -1074)                                          # exponent of the last place
    scaled = q / Fraction(2) ** ex
    m = scaled.numerator // scaled.denominator
    rem = scaled - m
    if rem > Fraction(1, 2) or (rem == Fraction(1, 2) and m % 2 == 1):
        m += 1
    try:
        y = math.ldexp(float(m), ex)                                 # m <= 2^53: exact
    except OverflowError:
        y = float("inf")
    return -y if neg else y


def in_class_K13(s):
    """known finding K13: numeral denoting negative zero"""
    m = NUMBER.match(s)
    return bool(m) and m.group(1) == "-" and float(m.group(2)) == 0.0


def oracle_n2s(x, s):
    """returns None if fine, else text"""
    if not SYNTAX.match(s):
        return "string(%r) = %r is not in the XPath number syntax" % (x, s)
    if x != x:
        return None if s == "NaN" else "string(NaN) = %r" % s
    if s.startswith("-") and not (x < 0):
        return "leading '-' for a non-negative value"
    if s in ("NaN",) or (s in ("Infinity", "-Infinity")) != math.isinf(x):
        return "string(%r) = %r" % (x, s)
    if math.isinf(x):
        return None if s == ("Infinity" if x > 0 else "-Infinity") else "string(%r) = %r" % (x, s)
    if x == 0:
        return None if s == "0" else "string(%r) = %r" % (x, s)
    y = float(s)
    if y != x:
        return "number(string(x)) = %r differs from x = %r (string %r)" % (y, x, s)
    z = exact_nearest(s)
    if z != x or math.copysign(1.0, z) != math.copysign(1.0, x):
        return "the double nearest to the numeral %r is %r (exact rational arithmetic), not x = %r" % (s, z, x)
    if Fraction(s) == 0:
        return "string(%r) = %r denotes zero" % (x, s)
    return None


def ref_s2n(s):
    m = NUMBER.match(s)
    if not m:
        return float("nan")
    return float(m.group(0).strip(" \t\r\n"))


def ref_round(x):
    if x != x or math.isinf(x) or x == 0:
        return x
    f = Fraction(x)
    r = math.floor(f + Fraction(1, 2))
    if r == 0:
        return -0.0 if x < 0 else 0.0
    return float(r)


def ref_floor(x):
    if x != x or math.isinf(x) or x == 0:
        return x
    r = math.floor(Fraction(x))
    return (-0.0 if x < 0 else 0.0) if r == 0 else float(r)


def ref_ceil(x):
    if x != x or math.isinf(x) or x == 0:
        return x
    r = math.ceil(Fraction(x))
    return (-0.0 if x < 0 else 0.0) if r == 0 else float(r)


def show(x):
    return "nan" if x != x else hexb(bits(x))


# ---------------------------------------------------------------------------------------------

def make_cases(ctx, n_d, n_s):
    cases = []   # (id, kind, payload, cls)
    i = 0
    for cls, b in gen_doubles(ctx, n_d):
        cases.append(("d%d" % i, "n2s", b, cls)); i += 1
        if cls in ("tie", "boundary", "pow2", "special", "unit", "decimal", "uniform_exp", "int"):
            for op in ("round", "floor", "ceil"):
                cases.append(("d%d" % i, op, b, cls)); i += 1
    for cls, s in gen_strings(ctx, n_s):
        if "\0" in s:
            continue
        cases.append(("s%d" % i, "s2n", s, cls)); i += 1
    return cases


def case_line(c):
    cid, kind, payload, _ = c
    return "%s %s %s" % (cid, kind, tok(payload) if kind == "s2n" else hexb(payload))


def evaluate(ctx, cases, impl, model, check_known=True):
    """Run both sides and the oracle. Returns (corr_mismatches, oracle_failures) as lists of dicts."""
    lines = [case_line(c) for c in cases]
    # the processes get contiguous chunks: deal the lines round-robin so that the expensive classes
    # (tiny magnitudes: some 20 conversions of 1000-bit numbers each in the model) are spread evenly
    lines = [l for k in range(core.NPROC) for l in lines[k::core.NPROC]]
    rc_i, res_i, raw_i = core.run_lines_parallel(impl, lines)
    rc_m, res_m, raw_m = core.run_lines_parallel(model, lines) if model else (0, {}, "")
    corr, orc = [], []
    if rc_i != 0:
        orc.append({"case": "(process)", "what": "implementation driver exited with status %d: %s" % (rc_i, raw_i[-300:]), "known": None})
    seen = set()
    for c in cases:
        cid, kind, payload, cls = c
        ri = res_i.get(cid)
        ctx.cov["evaluations"] += 1
        ctx.count(kind + ":" + cls)
        if ri is None:
            orc.append({"case": case_line(c), "what": "no result from the implementation (crash?)", "known": None})
            continue
        key = (kind, payload)
        if key not in seen:
            seen.add(key)
        if model:
            rm = res_m.get(cid)
            ctx.cov["traces_validated_against_impl"] += 1
            if rm != ri:
                corr.append({"case": case_line(c), "impl": ri, "model": rm})
        # oracle
        if kind == "n2s":
            x = dbl(payload)
            a, b = ri.split(" ")
            s = untok(a)
            msg = None
            if a != b:
                msg = "NumberToDOMString gives %r but NumberToCharacters gives %r" % (s, untok(b))
            else:
                msg = oracle_n2s(x, s)
            if msg:
                orc.append({"case": case_line(c), "what": msg, "known": None})
        elif kind == "s2n":
            exp = ref_s2n(payload)
            if show(exp) != ri:
                known = "K13" if (in_class_K13(payload) and ri == "0000000000000000") else None
                orc.append({"case": case_line(c), "what": "number(%r) = %s, expected %s" % (payload, ri, show(exp)), "known": known})
        else:
            x = dbl(payload)
            exp = {"round": ref_round, "floor": ref_floor, "ceil": ref_ceil}[kind](x)
            if show(exp) != ri:
                orc.append({"case": case_line(c), "what": "%s(%r) = %s, expected %s" % (kind, x, ri, show(exp)), "known": None})
    ctx.cov["distinct_nontrivial"] = ctx.cov.get("distinct_nontrivial", 0) + len(seen)
    return corr, orc


def load_corpus(names, have):
    """regression inputs stored as case lines under corpus/C18/"""
    import os
    out = []
    for name in names:
        path = os.path.join(core.VERIF, "corpus", "C18", name)
        for line in open(path):
            t = line.split()
            if len(t) == 3 and not line.startswith("#") and t[0] not in have and t[1] in ("n2s", "round", "floor", "ceil"):
                out.append((t[0], t[1], int(t[2], 16), "corpus"))
                have.add(t[0])
    return out


def run(ctx):
    ctx.notes["rule"] = ("doubles from boundary streams (powers of 2 and 10, ties, 2^53/2^63 neighbourhoods, subnormals, "
                         "uniform over exponents, magnitudes below 2^-63 down to the smallest subnormal) and strings (valid numerals of every length, integer numerals around the widths "
                         "of int/long/unsigned, mutated numerals, random over the alphabet); distinct = distinct (operation, input) "
                         "pairs; non-trivial = input is not one of the fixed special values (NaN, infinities, zeros)")
    ctx.assumptions += [
        "glibc sprintf(\"%.Nf\") prints the exact decimal expansion rounded half-even and atof is correctly rounded (modelled in Z arithmetic; validated on every run by the correspondence)",
        "the comparison 'x - floor(x) >= 0.5' in DoubleSupport::round is modelled exactly (argued exact in the source; boundary stream x.5 +- 1ulp)",
        "strings contain no NUL code unit (c_str semantics are modelled, the oracle skips them)",
        "frexp() returns the exponent e with |x| = f * 2^e, 1/2 <= f < 1, also for subnormals (modelled as digits2(m) + e; exercised by the subnormal streams of the correspondence)",
        "the round-trip theorems use Flocq 4.1's correctness of division/rounding (real-number reasoning): standard-library axioms of the classical reals (sig_forall_dec, sig_not_dec, functional_extensionality_dep, classic) appear in their Print Assumptions",
    ]
    ok_lib, liblog = core.build_lib("plain")
    if not ok_lib:
        ctx.broken.append("library does not build from the working tree: " + liblog[-500:])
        return ctx.finish(LEVEL)
    proved = ctx.prove(["Properties_C18.v"], ["GenNum"])
    model, ok_m, mlog = core.build_model(FAMILY)
    if not ok_m:
        ctx.broken.append("model extraction/build failed: " + mlog[-500:])
        model = None
    impl, ok_h, hlog = core.build_harness("num", "plain")
    if not ok_h:
        ctx.broken.append("harness does not compile against the working tree: " + hlog[-500:])
        return ctx.finish(LEVEL)

    # corpus first: replays of known findings and of fixed defects
    known = {k["key"]: k for k in ctx.known.for_property("C18")}
    corpus = [("k0", "n2s", 0x37A16C262777579C, "corpus"),      # 1e-40 (K5, repaired: regression)
              ("k1", "n2s", bits(1.2345678901234567e-20), "corpus"),
              ("k3", "n2s", bits(-1e-40), "corpus"), ("k4", "n2s", 1, "corpus"), ("k5", "n2s", (1 << 63) | 1, "corpus"),
              ("k2", "s2n", "-0", "corpus"),                      # K13
              ("f0", "n2s", bits(1e89), "corpus"), ("f1", "n2s", 0x7FEFFFFFFFFFFFFF, "corpus"),   # F5
              ("f2", "round", 0x3FDFFFFFFFFFFFFF, "corpus"), ("f3", "round", 0x4330000000000001, "corpus"),
              ("f4", "round", bits(-0.2), "corpus"), ("f5", "round", bits(-0.5), "corpus")]          # F6
    corpus += load_corpus(("k5.txt",), {c[0] for c in corpus})
    n_d, n_s = (3000, 3000) if not ctx.thorough else (40000, 30000)
    cases = corpus + make_cases(ctx, n_d, n_s)
    ctx.cov["samples"] = [case_line(c) for c in cases[:4] + cases[len(cases) // 2: len(cases) // 2 + 4]]
    corr, orc = evaluate(ctx, cases, impl, model)
    new = [o for o in orc if not (o["known"] and o["known"] in known)]
    if (corr or not proved or not model) and not new and not ctx.thorough:
        # a broken proof / tie / correspondence widens the search for a failing input before the verdict
        ctx.escalated = True
        more = make_cases(ctx, 20000, 20000)
        c2, o2 = evaluate(ctx, more, impl, model)
        corr += c2
        orc += o2
    reported_known = set()
    new = [o for o in orc if not (o["known"] and o["known"] in known)]
    for o in orc:
        if o["known"] and o["known"] in known and o["known"] not in reported_known:
            reported_known.add(o["known"])
    for k in sorted(reported_known):
        ctx.known_finding("%s %s" % (k, known[k]["what"]))
    ctx.notes["known_class_hits"] = {k: sum(1 for o in orc if o["known"] == k) for k in reported_known}
    if corr:
        ctx.broken.append("correspondence num: %d of %d cases differ between model and library, e.g. %s" % (
            len(corr), ctx.cov["traces_validated_against_impl"], corr[0]))
        ctx.notes["correspondence_mismatches"] = corr[:20]
    if new:
        new.sort(key=lambda o: len(o["case"]))
        txt = "\n".join("%s\n#   %s" % (o["case"], o["what"]) for o in new[:50])
        ctx.violation("oracle", "# C18 oracle failures (replay: feed the case lines to .build/num_plain)\n" + txt)
    ctx.notes["oracle_failures"] = len(new)
    return ctx.finish(LEVEL, explanation="theorems over the Gallina model of the conversions + correspondence of the extracted model with the rebuilt library + independent exact oracle")


def replay(ctx, path):
    core.build_lib("plain")
    impl, ok_h, hlog = core.build_harness("num", "plain")
    lines = [l for l in open(path) if l.strip() and not l.startswith("#")]
    rc, out = core.sh([impl], input="".join(lines))
    print(out)
    return 0
