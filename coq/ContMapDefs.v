(* ContMapDefs.v — executable model of xalanc::XalanMap (Include/XalanMap.hpp) as it is:
   m_entries (list of nodes, iteration order), m_freeEntries (erased nodes, reused from the back),
   m_buckets (a vector of XalanVectors of node references, capacity included), m_size, m_eraseCount /
   m_eraseThreshold with compactBuckets, rehash on the load factor, minimum buckets, the copy
   constructor, operator= (copy + swap, which leaves m_loadFactor / m_minBuckets alone), swap, clear.
   Node references are node ids; the "erased" flag is a stored bit read through the reference, as in
   the code.  Constants come from GenCont.v.  The hash function is a parameter ([hash]).
   Specification: a finite map with insertion order = association list with unique keys.
   Definitions only. *)
From Coq Require Import List Arith Bool.
Require Import XV.GenCont XV.ContVecDefs.
Import ListNotations.

Record node := mknode { nid : nat; nkey : nat; nval : nat; nerased : bool }.

Record xmap := mkmap {
  m_lfn : nat; m_lfd : nat; m_minb : nat;      (* m_loadFactor = m_lfn / m_lfd, m_minBuckets: never swapped *)
  m_size : nat;
  m_entries : list node;
  m_free : list node;
  m_buckets : list vec;                         (* vdata = node ids *)
  m_ec : nat; m_thr : nat }.

Definition new_map (lfn lfd minb thr : nat) : xmap := mkmap lfn lfd minb 0 [] [] [] 0 thr.

Section Hash.
Variable hash : nat -> nat.

Definition deref (m : xmap) (id : nat) : option node :=
  find (fun nd => nid nd =? id) (m_entries m ++ m_free m).

Definition do_hash (k modulus : nat) : nat := hash k mod modulus.

(* find(): scan the bucket for the first reference whose node is not erased and has the key *)
Definition ref_matches (m : xmap) (k id : nat) : bool :=
  match deref m id with Some nd => negb (nerased nd) && (nkey nd =? k) | None => false end.

Definition map_find (m : xmap) (k : nat) : option node :=
  if m_size m =? 0 then None
  else
    let b := nth (do_hash k (length (m_buckets m))) (m_buckets m) vempty in
    match find (ref_matches m k) (vdata b) with
    | Some id => deref m id
    | None => None
    end.

Fixpoint upd_bucket (i : nat) (f : vec -> vec) (bs : list vec) : list vec :=
  match bs, i with
  | [], _ => []
  | b :: t, O => f b :: t
  | b :: t, S j => b :: upd_bucket j f t
  end.

Definition rehash (m : xmap) : xmap :=
  let n := m_size m * map_grow_num / map_grow_den in
  let temp := fold_left (fun bs nd => upd_bucket (do_hash (nkey nd) n) (fun b => do_push_back b (nid nd)) bs)
                        (m_entries m) (repeat vempty n) in
  mkmap (m_lfn m) (m_lfd m) (m_minb m) (m_size m) (m_entries m) (m_free m) temp (m_ec m) (m_thr m).

(* doCreateEntry; [next] is the id given to a freshly allocated node. Returns the map and the new
   [next]. *)
Definition create_entry (m : xmap) (next k v : nat) : xmap * nat :=
  let m1 := if length (m_buckets m) =? 0
            then mkmap (m_lfn m) (m_lfd m) (m_minb m) (m_size m) (m_entries m) (m_free m)
                       (repeat vempty (m_minb m)) (m_ec m) (m_thr m)
            else m in
  let m2 := if length (m_buckets m1) <? m_lfn m1 * m_size m1 / m_lfd m1 then rehash m1 else m1 in
  let idx := do_hash k (length (m_buckets m2)) in
  let '(fr, next') := if length (m_free m2) =? 0 then ([mknode next 0 0 false], S next) else (m_free m2, next) in
  let nd := mknode (nid (last fr (mknode 0 0 0 false))) k v false in
  (mkmap (m_lfn m2) (m_lfd m2) (m_minb m2) (S (m_size m2)) (m_entries m2 ++ [nd]) (removelast fr)
         (upd_bucket idx (fun b => do_push_back b (nid nd)) (m_buckets m2)) (m_ec m2) (m_thr m2), next').

(* doRemoveEntry: splice the node to the end of the free list, mark it erased *)
Definition remove_entry (m : xmap) (id : nat) : xmap :=
  match find (fun nd => nid nd =? id) (m_entries m) with
  | None => m
  | Some nd =>
    mkmap (m_lfn m) (m_lfd m) (m_minb m) (m_size m - 1)
          (filter (fun x => negb (nid x =? id)) (m_entries m))
          (m_free m ++ [mknode (nid nd) (nkey nd) (nval nd) true])
          (m_buckets m) (m_ec m) (m_thr m)
  end.

Definition ref_erased (m : xmap) (id : nat) : bool :=
  match deref m id with Some nd => nerased nd | None => false end.

Definition compact_bucket (m : xmap) (b : vec) : vec :=
  let b1 := mkvec (filter (fun id => negb (ref_erased m id)) (vdata b)) (vcap b) in
  let cur := vsize b1 in
  let extra := vcap b1 - cur in
  if cur <? extra then copy_with b1 (if cur =? 0 then map_min_bucket_size else extra) else b1.

Definition compact (m : xmap) : xmap :=
  mkmap (m_lfn m) (m_lfd m) (m_minb m) (m_size m) (m_entries m) (m_free m)
        (map (compact_bucket m) (m_buckets m)) (m_ec m) (m_thr m).

Definition do_erase (m : xmap) (id : nat) : xmap :=
  let m1 := remove_entry m id in
  let m2 := mkmap (m_lfn m1) (m_lfd m1) (m_minb m1) (m_size m1) (m_entries m1) (m_free m1) (m_buckets m1)
                  (S (m_ec m1)) (m_thr m1) in
  if m_ec m2 =? m_thr m2 then
    let m3 := compact m2 in
    mkmap (m_lfn m3) (m_lfd m3) (m_minb m3) (m_size m3) (m_entries m3) (m_free m3) (m_buckets m3) 0 (m_thr m3)
  else m2.

(* doRemoveEntries: while (size() > 0) doRemoveEntry(begin()) *)
Fixpoint remove_entries (fuel : nat) (m : xmap) : xmap :=
  match fuel with
  | O => m
  | S f => if m_size m =? 0 then m
           else match m_entries m with
                | [] => m
                | nd :: _ => remove_entries f (remove_entry m (nid nd))
                end
  end.

Definition map_clear (m : xmap) : xmap :=
  let m1 := remove_entries (S (length (m_entries m))) m in
  mkmap (m_lfn m1) (m_lfd m1) (m_minb m1) (m_size m1) (m_entries m1) (m_free m1)
        (map (fun b => clear b) (m_buckets m1)) 0 (m_thr m1).

Definition map_insert (m : xmap) (next k v : nat) : xmap * nat :=
  match map_find m k with
  | Some _ => (m, next)
  | None => create_entry m next k v
  end.

(* operator[] : returns the (possibly new) entry's value *)
Definition map_index (m : xmap) (next k : nat) : xmap * nat * nat :=
  match map_find m k with
  | Some nd => (m, next, nval nd)
  | None => let '(m', n') := create_entry m next k 0 in (m', n', 0)
  end.

Definition set_val (m : xmap) (k v : nat) : xmap :=
  match map_find m k with
  | None => m
  | Some nd =>
    mkmap (m_lfn m) (m_lfd m) (m_minb m) (m_size m)
          (map (fun x => if nid x =? nid nd then mknode (nid x) (nkey x) v (nerased x) else x) (m_entries m))
          (m_free m) (m_buckets m) (m_ec m) (m_thr m)
  end.

Definition map_erase (m : xmap) (k : nat) : xmap * nat :=
  match map_find m k with
  | Some nd => (do_erase m (nid nd), 1)
  | None => (m, 0)
  end.

(* XalanMap(theRhs, mgr) *)
Definition map_copy (r : xmap) (next : nat) : xmap * nat :=
  let m0 := mkmap (m_lfn r) (m_lfd r) (m_minb r) 0 [] []
                  (repeat vempty (S (m_lfn r * m_size r / m_lfd r))) 0 (m_thr r) in
  fold_left (fun '(m, n) nd => map_insert m n (nkey nd) (nval nd)) (m_entries r) (m0, next).

(* swap: everything except m_loadFactor and m_minBuckets *)
Definition swap_into (a b : xmap) : xmap :=   (* a after a.swap(b) *)
  mkmap (m_lfn a) (m_lfd a) (m_minb a) (m_size b) (m_entries b) (m_free b) (m_buckets b) (m_ec b) (m_thr b).

Definition map_assign (a r : xmap) (next : nat) : xmap * nat :=
  let '(t, n') := map_copy r next in (swap_into a t, n').

(* ---------------------------------------------------------------------------------------------- *)
Inductive mop :=
| MIns (k v : nat) | MSet (k v : nat) | MGet (k : nat) | MFind (k : nat) | MErase (k : nat) | MEraseIt (k : nat)
| MClear | MCopy | MAssign | MSelfAssign | MSwap | MSel (r : bool) | MNew (lfn lfd minb thr : nat).

Inductive mret := MRNone | MRNum (n : nat) | MRKV (k v : nat) | MREnd.

Record mstate := mkms { mreg0 : xmap; mreg1 : xmap; mcur : bool; mnext : nat }.
Definition cur_map (s : mstate) := if mcur s then mreg1 s else mreg0 s.
Definition oth_map (s : mstate) := if mcur s then mreg0 s else mreg1 s.
Definition set_cur_m (s : mstate) (m : xmap) (n : nat) : mstate :=
  if mcur s then mkms (mreg0 s) m true n else mkms m (mreg1 s) false n.
Definition set_oth_m (s : mstate) (m : xmap) (n : nat) : mstate :=
  if mcur s then mkms m (mreg1 s) true n else mkms (mreg0 s) m false n.

Definition mstep (s : mstate) (o : mop) : mstate * mret :=
  let m := cur_map s in
  let nx := mnext s in
  match o with
  | MIns k v => let '(m', n') := map_insert m nx k v in (set_cur_m s m' n', MRNone)
  | MSet k v => let '(m', n', _) := map_index m nx k in (set_cur_m s (set_val m' k v) n', MRNone)
  | MGet k => let '(m', n', r) := map_index m nx k in (set_cur_m s m' n', MRNum r)
  | MFind k => (s, match map_find m k with Some nd => MRKV (nkey nd) (nval nd) | None => MREnd end)
  | MErase k => let '(m', r) := map_erase m k in (set_cur_m s m' nx, MRNum r)
  | MEraseIt k => (set_cur_m s (fst (map_erase m k)) nx, MRNone)
  | MClear => (set_cur_m s (map_clear m) nx, MRNone)
  | MCopy => let '(m', n') := map_copy m nx in (set_oth_m s m' n', MRNone)
  | MAssign => let '(m', n') := map_assign m (oth_map s) nx in (set_cur_m s m' n', MRNone)
  | MSelfAssign => let '(m', n') := map_assign m m nx in (set_cur_m s m' n', MRNone)
  | MSwap => (mkms (swap_into (mreg0 s) (mreg1 s)) (swap_into (mreg1 s) (mreg0 s)) (mcur s) nx, MRNone)
  | MSel r => (mkms (mreg0 s) (mreg1 s) r nx, MRNone)
  | MNew a b c d => (set_cur_m s (new_map a b c d) nx, MRNone)
  end.

Definition contents (m : xmap) : list (nat * nat) := map (fun nd => (nkey nd, nval nd)) (m_entries m).

(* observation: return value, size(), iteration contents, and the whole current map for the
   internal observables (bucket count, erase count, free list, bucket contents and capacities) *)
Fixpoint mrun (s : mstate) (ops : list mop) : list (mret * nat * list (nat * nat) * xmap) :=
  match ops with
  | [] => []
  | o :: r => let '(s', rt) := mstep s o in
              (rt, m_size (cur_map s'), contents (cur_map s'), cur_map s') :: mrun s' r
  end.

End Hash.

(* ---------------------------------------------------------------------------------------------- *)
(* specification: association list with unique keys in insertion order *)
Definition al := list (nat * nat).
Fixpoint al_find (k : nat) (l : al) : option nat :=
  match l with [] => None | (k', v) :: t => if k' =? k then Some v else al_find k t end.
Definition al_insert (k v : nat) (l : al) : al := match al_find k l with Some _ => l | None => l ++ [(k, v)] end.
Definition al_set (k v : nat) (l : al) : al := map (fun p => if fst p =? k then (fst p, v) else p) l.
Definition al_erase (k : nat) (l : al) : al := filter (fun p => negb (fst p =? k)) l.

Record sstate := mkss { s0 : al; s1 : al; scur : bool }.
Definition cur_s (s : sstate) := if scur s then s1 s else s0 s.
Definition oth_s (s : sstate) := if scur s then s0 s else s1 s.
Definition set_cur_s (s : sstate) (l : al) := if scur s then mkss (s0 s) l true else mkss l (s1 s) false.
Definition set_oth_s (s : sstate) (l : al) := if scur s then mkss l (s1 s) true else mkss (s0 s) l false.

Definition sstep (s : sstate) (o : mop) : sstate * mret :=
  let l := cur_s s in
  match o with
  | MIns k v => (set_cur_s s (al_insert k v l), MRNone)
  | MSet k v => (set_cur_s s (al_set k v (al_insert k 0 l)), MRNone)
  | MGet k => (set_cur_s s (al_insert k 0 l), MRNum (match al_find k l with Some v => v | None => 0 end))
  | MFind k => (s, match al_find k l with Some v => MRKV k v | None => MREnd end)
  | MErase k => (set_cur_s s (al_erase k l), MRNum (match al_find k l with Some _ => 1 | None => 0 end))
  | MEraseIt k => (set_cur_s s (al_erase k l), MRNone)
  | MClear => (set_cur_s s [], MRNone)
  | MCopy => (set_oth_s s l, MRNone)
  | MAssign => (set_cur_s s (oth_s s), MRNone)
  | MSelfAssign => (s, MRNone)
  | MSwap => (mkss (s1 s) (s0 s) (scur s), MRNone)
  | MSel r => (mkss (s0 s) (s1 s) r, MRNone)
  | MNew _ _ _ _ => (set_cur_s s [], MRNone)
  end.

Fixpoint srun (s : sstate) (ops : list mop) : list (mret * nat * al) :=
  match ops with
  | [] => []
  | o :: r => let '(s', rt) := sstep s o in (rt, length (cur_s s'), cur_s s') :: srun s' r
  end.

(* ---------------------------------------------------------------------------------------------- *)
(* XalanSet<V> (Include/XalanSet.hpp) is XalanMap<V, bool> with default parameters: insert(v) =
   m_map.insert(v, true), erase / find / count / clear / size / begin / end and the copy constructor
   forward to the map *)
Inductive setop := TIns (k : nat) | TErase (k : nat) | TFind (k : nat) | TClear | TCopy | TSel (r : bool).
Definition set_to_map (o : setop) : mop :=
  match o with
  | TIns k => MIns k 1 | TErase k => MErase k | TFind k => MFind k | TClear => MClear | TCopy => MCopy | TSel r => MSel r
  end.
Definition default_map : xmap :=
  new_map map_default_lf_num map_default_lf_den map_default_min_buckets map_default_erase_threshold.
Definition set_run (hash : nat -> nat) (ops : list setop) :=
  mrun hash (mkms default_map default_map false 0) (map set_to_map ops).
