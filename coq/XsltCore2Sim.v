(* C01 core2 interpreter: the simulation. Every evaluation of the (guarded) reference semantics sem2 is matched, step by
   step, by the explicit-stack machine run2 (induction on the fuel of the semantics; inner inductions on instruction
   lists and node lists).  The structure is that of XsltCoreSim.v; new: the mode tm of the semantics is tied to the
   top of the machine's copy-text-nodes-only stack (tflag o = mflag fx_frag tm), the output stacks travel as one bundle, and
   the cases xsl:element / xsl:comment / xsl:processing-instruction. *)
From Coq Require Import List NArith Bool Arith Lia.
Require Import XV.XsltEventsDefs XV.XsltEventsModel XV.XsltVarsDefs XV.XsltVarsModel XV.XsltCoreDefs XV.XsltCoreModel XV.XsltCoreSim.
Require Import XV.XsltCore2Defs XV.XsltCore2Model.
Import ListNotations.

Section Core2Sim.
  Variable ev_value : N -> list value -> N -> N -> N -> value.
  Variable ev_string : N -> list value -> N -> N -> N -> str.
  Variable ev_bool : N -> list value -> N -> N -> N -> bool.
  Variable ev_nodes : N -> list value -> N -> N -> N -> list N.
  Variable ev_sort : N -> list value -> N -> N -> N -> list N -> list N.
  Variable sel_template : N -> N -> option N.
  Variable node_copy : N -> list item.
  Variable node_shallow : N -> shallow.
  Variable templates : list instr2.
  Variable name_ok : str -> bool.
  Variable pi_ok : str -> bool.
  (* the guard of the semantics and the source variant of the machine: the guard is needed only by the variant that does
     not leave copy-text-nodes-only mode while a fragment is built *)
  Variable gd fx_frag fx_copy : bool.
  Hypothesis Hgf : fx_frag = false -> gd = true.

  (* what is assumed of the abstract mechanisms: node lists are sets, element names are not empty *)
  Hypothesis ev_nodes_nodup : forall id vs n p z, NoDup (ev_nodes id vs n p z).
  Hypothesis ev_sort_nodup : forall id vs n p z l, NoDup l -> NoDup (ev_sort id vs n p z l).
  Hypothesis node_copy_ok : forall n, forallb names_ok (node_copy n) = true.
  Hypothesis node_shallow_ok : forall n its, node_shallow n = ShLeaf its -> forallb names_ok its = true.
  Hypothesis name_ok_nonempty : forall n, name_ok n = true -> nonempty n = true.
  Hypothesis ev_value_ok : forall id vs n p z t, ev_value id vs n p z = VRtf t -> forallb rnames_ok t = true.

  Notation step2 := (step2 fx_frag fx_copy ev_value ev_string ev_bool ev_nodes ev_sort sel_template node_copy node_shallow templates name_ok pi_ok).
  Notation run2 := (run2 fx_frag fx_copy ev_value ev_string ev_bool ev_nodes ev_sort sel_template node_copy node_shallow templates name_ok pi_ok).
  Notation sem2 := (sem2 gd ev_value ev_string ev_bool ev_nodes ev_sort sel_template node_copy node_shallow templates name_ok pi_ok).
  Notation sem_tmpl2 := (sem_tmpl2 ev_value templates).
  Notation sem_wps2 := (sem_wps2 ev_value).
  Notation sem_vvalue2 := (sem_vvalue2 ev_value).
  Notation sem_params2 := (sem_params2 ev_value).
  Notation sel_nodes := (sel_nodes ev_nodes ev_sort).
  Notation get_template2 := (get_template2 templates).
  Notation run_to := (run_to ev_value ev_string ev_bool ev_nodes ev_sort sel_template node_copy node_shallow templates name_ok pi_ok fx_frag fx_copy).

  Definition cxof (n : N) (l : list N) (md : N) : ctx := mkC n (pos_of n l) (N.of_nat (length l)) md.

  Lemma sel_nodes_nodup : forall lk c e srt l, sel_nodes lk c e srt = Some l -> NoDup l.
  Proof.
    intros lk c e srt l. unfold sel_nodes, gx. destruct (lk (xvars e)); try discriminate.
    destruct srt.
    - destruct (lk (xvars e0)); try discriminate. intros H. inversion H. apply ev_sort_nodup. apply ev_nodes_nodup.
    - intros H. inversion H. apply ev_nodes_nodup.
  Qed.

  (* ---- every item the semantics produces has non-empty element names ---- *)
  Lemma copy_items_ok : forall id vs n p z, forallb names_ok (copy_items node_copy (ev_value id vs n p z)) = true.
  Proof.
    intros. destruct (ev_value id vs n p z) eqn:E; simpl.
    - unfold text_items. destruct (nonempty sval); reflexivity.
    - clear E. induction l; simpl; auto. rewrite forallb_app'. rewrite node_copy_ok. exact IHl.
    - apply ev_value_ok in E. induction t; simpl in *; auto. apply andb_true_iff in E. destruct E.
      rewrite names_ok_item_of_rnode. rewrite H. auto.
  Qed.

  Definition gok (g : instr2 -> venv -> option (venv * list item)) : Prop :=
    forall x en en' o, g x en = Some (en', o) -> forallb names_ok o = true.

  Lemma sem_seq_ok : forall g, gok g -> forall l en o, sem_seq2 g l en = Some o -> forallb names_ok o = true.
  Proof.
    intros g H. induction l; intros en o; simpl.
    - intros X. inversion X. reflexivity.
    - destruct (g a en) as [[en' o1]|] eqn:E; try discriminate. destruct (sem_seq2 g l en') eqn:E2; try discriminate.
      intros X. inversion X. rewrite forallb_app'. rewrite (H _ _ _ _ E). rewrite (IHl _ _ E2). reflexivity.
  Qed.

  Lemma each_ok : forall (g : N -> N -> option (list item)), (forall n p o, g n p = Some o -> forallb names_ok o = true) ->
    forall l pos o, each g l pos = Some o -> forallb names_ok o = true.
  Proof.
    intros g H. induction l; intros pos o; simpl.
    - intros X. inversion X. reflexivity.
    - destruct (g a pos) eqn:E; try discriminate. destruct (each g l (N.succ pos)) eqn:E2; try discriminate.
      intros X. inversion X. rewrite forallb_app'. rewrite (H _ _ _ E). rewrite (IHl _ _ E2). reflexivity.
  Qed.

  Lemma sem_tmpl_ok : forall g, (forall pv c, gok (g pv c)) -> forall pv c t o, sem_tmpl2 g pv c t = Some o -> forallb names_ok o = true.
  Proof.
    intros g H pv c t o. unfold XsltCore2Defs.sem_tmpl2. destruct (nth_error templates (N.to_nat t)); try discriminate.
    destruct i; try discriminate. destruct (sem_params2 pv c ps []); try discriminate. apply sem_seq_ok. apply H.
  Qed.

  Lemma copy_guard_ok : forall g0 tm its its', copy_guard g0 tm its = Some its' -> its' = its.
  Proof.
    intros g0 tm its its'. destruct tm; simpl.
    - intros X; inversion X; auto.
    - destruct (forallb is_gtext its); try discriminate. intros X; inversion X; auto.
    - destruct (forallb is_gtext its). intros X; inversion X; auto. destruct g0; try discriminate. intros X; inversion X; auto.
  Qed.

  Lemma attr_items_ok : forall pre, forallb names_ok (attr_items pre) = true.
  Proof. induction pre; simpl; auto. Qed.

  Lemma sem_ok : forall f tm wp c, gok (sem2 f tm wp c).
  Proof.
    induction f; intros tm wp c x en en' o H. discriminate.
    assert (IHs : forall tm' wp' c' l e1 o1, sem_seq2 (sem2 f tm' wp' c') l e1 = Some o1 -> forallb names_ok o1 = true).
    { intros tm' wp' c'. apply sem_seq_ok. apply IHf. }
    assert (IHt : forall tm' pv c' t o1, sem_tmpl2 (sem2 f tm') pv c' t = Some o1 -> forallb names_ok o1 = true).
    { intros tm'. apply sem_tmpl_ok. intros. apply IHf. }
    revert H. cbn [XsltCore2Defs.sem2]. destruct x; try discriminate.
    - destruct (nonempty n) eqn:En; try discriminate. destruct (ev_atts ev_string (slk en) c atts); try discriminate.
      destruct (sem_seq2 (sem2 f tm wp c) body en) eqn:E; try discriminate. intros X. inversion X. simpl. rewrite En. rewrite (IHs _ _ _ _ _ _ E). reflexivity.
    - intros X. inversion X. reflexivity.
    - destruct (gx ev_string (slk en) c e); try discriminate. intros X. inversion X. unfold text_items. destruct (nonempty s); reflexivity.
    - destruct (gx ev_bool (slk en) c e) as [[|]|]; try discriminate.
      + destruct (sem_seq2 (sem2 f tm wp c) body en) eqn:E; try discriminate. intros X. inversion X. subst. eapply IHs; eauto.
      + intros X. inversion X. reflexivity.
    - destruct (pick2 ev_bool (slk en) c branches) as [[x|]|]; try discriminate.
      + destruct (sem2 f tm wp c x en) as [[e1 o1]|] eqn:E; try discriminate. intros X. inversion X. subst. eapply IHf; eauto.
      + intros X. inversion X. reflexivity.
    - destruct (sem_seq2 (sem2 f tm wp c) body en) eqn:E; try discriminate. intros X. inversion X. subst. eapply IHs; eauto.
    - destruct (sem_seq2 (sem2 f tm wp c) body en) eqn:E; try discriminate. intros X. inversion X. subst. eapply IHs; eauto.
    - destruct body. intros X; inversion X; reflexivity.
      destruct (sel_nodes (slk en) c e srt); try discriminate.
      match goal with |- match each ?g ?l ?p with _ => _ end = _ -> _ => destruct (each g l p) eqn:E; try discriminate end.
      intros X. inversion X. subst. eapply each_ok; [|exact E]. intros n0 p0 o0. apply IHs.
    - destruct (sem_wps2 (sem_seq2 (sem2 f (tfrag tm) wp c)) c en wps); try discriminate.
      destruct (sem_tmpl2 (sem2 f tm) v c t) eqn:E2; try discriminate. intros X. inversion X. subst. eapply IHt; eauto.
    - match goal with |- match XsltCore2Defs.sem_wps2 _ ?s ?c1 _ _ with _ => _ end = _ -> _ => destruct (sem_wps2 s c1 en wps); try discriminate end.
      match goal with |- match XsltCoreDefs.sel_nodes _ _ _ ?c1 _ _ with _ => _ end = _ -> _ => destruct (sel_nodes (slk en) c1 e srt); try discriminate end.
      match goal with |- match each ?g ?l ?p with _ => _ end = _ -> _ => destruct (each g l p) eqn:E3; try discriminate end.
      intros X. inversion X. subst. eapply each_ok; [|exact E3]. intros n0 p0 o0. cbv beta.
      destruct (sel_template n0 _). apply IHt. intros Y. inversion Y. reflexivity.
    - destruct (lookup_v n en); try discriminate.
      destruct (sem_vvalue2 (sem_seq2 (sem2 f (tfrag tm) wp c)) c sel body en); try discriminate. intros X. inversion X. reflexivity.
    - destruct (node_shallow (cnode c)) eqn:Es; try discriminate.
      + destruct (nonempty n) eqn:En; cbn [andb]; try discriminate. destruct (elem_guard gd tm); try discriminate.
        destruct (sem_seq2 (sem2 f tm wp c) body en) eqn:E; try discriminate.
        intros X. inversion X. simpl. rewrite En. rewrite (IHs _ _ _ _ _ _ E). reflexivity.
      + destruct (sem_seq2 (sem2 f tm wp c) body en) eqn:E; try discriminate. intros X. inversion X. subst. eapply IHs; eauto.
      + destruct (copy_guard gd tm its) eqn:Eg; try discriminate. intros X. inversion X. subst.
        rewrite (copy_guard_ok _ _ _ _ Eg). eapply node_shallow_ok; eauto.
    - unfold gx. destruct (slk en (xvars e)); try discriminate.
      match goal with |- match copy_guard _ _ ?its with _ => _ end = _ -> _ => destruct (copy_guard gd tm its) eqn:Eg; try discriminate end.
      intros X. inversion X. subst. rewrite (copy_guard_ok _ _ _ _ Eg). apply copy_items_ok.
    - destruct (ev_avt ev_string (slk en) c v); try discriminate. intros X. inversion X. reflexivity.
    - destruct (ev_avt ev_string (slk en) c nm); try discriminate. destruct (name_ok s) eqn:En; try discriminate.
      destruct (sem_seq2 (sem2 f tm wp c) body en) eqn:E; try discriminate. intros X. inversion X. simpl.
      rewrite (name_ok_nonempty _ En). rewrite (IHs _ _ _ _ _ _ E). reflexivity.
    - destruct (sem_seq2 (sem2 f TOn wp c) body en) eqn:E; try discriminate. destruct (text_of_items l); try discriminate.
      intros X. inversion X. reflexivity.
    - destruct (ev_avt ev_string (slk en) c nm); try discriminate. destruct (pi_ok s); try discriminate.
      destruct (sem_seq2 (sem2 f TOn wp c) body en) eqn:E; try discriminate. destruct (text_of_items l); try discriminate.
      intros X. inversion X. reflexivity.
    - destruct (nonempty n) eqn:En; try discriminate.
      destruct (sem_seq2 (sem2 f tm wp c) (use_sets use) en) eqn:E0; try discriminate.
      destruct (ev_atts ev_string (slk en) c atts); try discriminate.
      destruct (sem_seq2 (sem2 f tm wp c) body en) eqn:E; try discriminate. intros X. inversion X. simpl. rewrite En.
      rewrite !forallb_app'. rewrite (IHs _ _ _ _ _ _ E0). rewrite (IHs _ _ _ _ _ _ E). rewrite attr_items_ok. reflexivity.
    - destruct (ev_avt ev_string (slk en) c nm); try discriminate. destruct (name_ok s) eqn:En; try discriminate.
      destruct (sem_seq2 (sem2 f tm wp c) (use_sets use) en) eqn:E0; try discriminate.
      destruct (sem_seq2 (sem2 f tm wp c) body en) eqn:E; try discriminate. intros X. inversion X. simpl.
      rewrite (name_ok_nonempty _ En). rewrite forallb_app'. rewrite (IHs _ _ _ _ _ _ E0). rewrite (IHs _ _ _ _ _ _ E). reflexivity.
    - destruct (node_shallow (cnode c)) eqn:Es; try discriminate.
      + destruct (nonempty n) eqn:En; cbn [andb]; try discriminate. destruct (elem_guard gd tm); try discriminate.
        destruct (sem_seq2 (sem2 f tm wp c) (use_sets use) en) eqn:E0; try discriminate.
        destruct (sem_seq2 (sem2 f tm wp c) body en) eqn:E; try discriminate.
        intros X. inversion X. simpl. rewrite En. rewrite forallb_app'. rewrite (IHs _ _ _ _ _ _ E0). rewrite (IHs _ _ _ _ _ _ E). reflexivity.
      + destruct (sem_seq2 (sem2 f tm wp c) body en) eqn:E; try discriminate. intros X. inversion X. subst. eapply IHs; eauto.
      + destruct (copy_guard gd tm its) eqn:Eg; try discriminate. intros X. inversion X. subst.
        rewrite (copy_guard_ok _ _ _ _ Eg). eapply node_shallow_ok; eauto.
    - destruct (nth_error templates (N.to_nat k)) as [[]|]; try discriminate.
      destruct (sem_seq2 (sem2 f tm wp c) (set_body use atts) []) eqn:E; try discriminate. intros X. inversion X. subst. eapply IHs; eauto.
  Qed.

  (* ================= simulation ================= *)
  Definition SimI (f : nat) : Prop :=
    forall i tm wp n l md en en' items,
      sem2 f tm wp (cxof n l md) i en = Some (en', items) ->
    forall stk nodes cnl cur modes ifs pvs store o F R benv wpb,
      GoodR F R -> Fr true F benv wpb -> Res store benv en -> tflag o = mflag fx_frag tm ->
    exists k store' V newb,
      run2 k (KStart i) (mkM2 stk nodes (l :: cnl) (n :: cur) (md :: modes) ifs pvs (VS F R) store o)
      = Run2 KNext (mkM2 stk nodes (l :: cnl) (n :: cur) (md :: modes) ifs pvs (VS (V ++ F) R) store' (emit2 (ops_of items) o))
      /\ Forall is_varE V /\ Fr true (V ++ F) (newb ++ benv) wpb /\ Res store' (newb ++ benv) en'
      /\ (exists ext, store' = store ++ ext) /\ (is_decl2 i = false -> V = []).

  Lemma ops_of_app : forall a b, ops_of (a ++ b) = ops_of a ++ ops_of b.
  Proof. intros. unfold ops_of. apply flat_map_app. Qed.

  Lemma GoodR_vars : forall V F R, Forall is_varE V -> GoodR F R -> GoodR (V ++ F) R.
  Proof. intros. apply Good_app; auto. apply is_varE_not_ctx; auto. Qed.

  Lemma ext_trans : forall (s s1 s2 : list value), (exists e, s1 = s ++ e) -> (exists e, s2 = s1 ++ e) -> exists e, s2 = s ++ e.
  Proof. intros s s1 s2 [e1 H1] [e2 H2]. subst. exists (e1 ++ e2). rewrite app_assoc. reflexivity. Qed.

  Lemma ext_refl : forall (s : list value), exists e, s = s ++ e.
  Proof. intros. exists []. rewrite app_nil_r. reflexivity. Qed.

  Lemma Res_ext' : forall s s' b e, (exists x, s' = s ++ x) -> Res s b e -> Res s' b e.
  Proof. intros s s' b e [x H] HR. subst. apply Res_ext. assumption. Qed.

  (* a list of sibling instructions under an open element p *)
  Lemma seq_sim : forall f, SimI f ->
    forall body tm wp n l md en items,
      sem_seq2 (sem2 f tm wp (cxof n l md)) body en = Some items ->
    forall p stk nodes cnl cur modes ifs pvs store o F R benv wpb,
      GoodR F R -> Fr true F benv wpb -> Res store benv en -> tflag o = mflag fx_frag tm ->
    exists k store' V,
      run2 k KNext (mkM2 ((p, body, false) :: stk) nodes (l :: cnl) (n :: cur) (md :: modes) ifs pvs (VS F R) store o)
      = Run2 KNext (mkM2 ((p, [], false) :: stk) nodes (l :: cnl) (n :: cur) (md :: modes) ifs pvs (VS (V ++ F) R) store' (emit2 (ops_of items) o))
      /\ Forall is_varE V /\ (exists ext, store' = store ++ ext) /\ (has_decl2 body = false -> V = []).
  Proof.
    intros f Hf. induction body as [|x r IH]; intros tm wp n l md en items Hs p stk nodes cnl cur modes ifs pvs store o F R benv wpb HG HF HR Ht.
    - simpl in Hs. inversion Hs; subst. exists 0, store, []. simpl. rewrite emit_nil. repeat split; auto. apply ext_refl.
    - cbn [sem_seq2] in Hs.
      destruct (sem2 f tm wp (cxof n l md) x en) as [[en1 o1]|] eqn:E1; try discriminate.
      match type of Hs with match ?t with _ => _ end = _ => destruct t as [o2|] eqn:E2; try discriminate end.
      inversion Hs; subst items. clear Hs.
      destruct (Hf _ _ _ _ _ _ _ _ _ E1 ((p, r, false) :: stk) nodes cnl cur modes ifs pvs store o F R benv wpb HG HF HR Ht)
        as [k1 [store1 [V1 [newb [Hrun1 [HV1 [HF1 [HR1 [Hext1 Hnil1]]]]]]]]].
      assert (HG1 : GoodR (V1 ++ F) R) by (apply GoodR_vars; auto).
      destruct (IH _ _ _ _ _ _ _ E2 p stk nodes cnl cur modes ifs pvs store1 (emit2 (ops_of o1) o) (V1 ++ F) R (newb ++ benv) wpb HG1 HF1 HR1 Ht)
        as [k2 [store2 [V2 [Hrun2 [HV2 [Hext2 Hnil2]]]]]].
      exists (1 + (k1 + k2)), store2, (V2 ++ V1). repeat split.
      + rewrite (run_to 1 _ _ _ (KStart x) (mkM2 ((p, r, false) :: stk) nodes (l :: cnl) (n :: cur) (md :: modes) ifs pvs (VS F R) store o)) by reflexivity.
        rewrite (run_to _ _ _ _ _ _ Hrun1). rewrite Hrun2. rewrite ops_of_app. rewrite emit_app. rewrite <- app_assoc. reflexivity.
      + apply Forall_app. split; auto.
      + eapply ext_trans; eauto.
      + simpl. intros X. apply orb_false_iff in X. destruct X as [X1 X2]. rewrite (Hnil1 X1). rewrite (Hnil2 X2). reflexivity.
  Qed.

  Lemma end_children_VS : forall body V F R, GoodR F R -> Forall is_varE V -> (has_decl2 body = false -> V = []) ->
    end_children2 body (VS (V ++ (if has_decl2 body then EFrame 0%N :: F else F)) R) = Some (VS F R).
  Proof.
    intros body V F R HG HV Hn. unfold end_children2. destruct (has_decl2 body).
    - unfold VS. rewrite <- app_assoc. cbn [app]. apply pop_frame_st; auto. destruct F; discriminate.
    - rewrite Hn by reflexivity. reflexivity.
  Qed.

  (* the children of a container: beginExecuteChildren ... the state in which endExecuteChildren will run2 *)
  Lemma block_sim : forall f, SimI f ->
    forall body tm wp n l md en items,
      sem_seq2 (sem2 f tm wp (cxof n l md)) body en = Some items ->
    forall p stk nodes cnl cur modes ifs pvs store o F R benv wpb,
      GoodR F R -> Fr true F benv wpb -> Res store benv en -> tflag o = mflag fx_frag tm ->
    exists k store' v1,
      run2 k KNext (mkM2 ((p, body, false) :: stk) nodes (l :: cnl) (n :: cur) (md :: modes) ifs pvs (begin_children2 body (VS F R)) store o)
      = Run2 KNext (mkM2 ((p, [], false) :: stk) nodes (l :: cnl) (n :: cur) (md :: modes) ifs pvs v1 store' (emit2 (ops_of items) o))
      /\ end_children2 body v1 = Some (VS F R) /\ (exists ext, store' = store ++ ext).
  Proof.
    intros f Hf body tm wp n l md en items Hs p stk nodes cnl cur modes ifs pvs store o F R benv wpb HG HF HR Ht.
    unfold begin_children2. destruct (has_decl2 body) eqn:Ehv.
    - unfold VS at 1. rewrite push_st.
      assert (HG1 : GoodR (EFrame 0%N :: F) R) by (apply Good_cons; simpl; auto).
      destruct (seq_sim f Hf _ _ _ _ _ _ _ _ Hs p stk nodes cnl cur modes ifs pvs store o (EFrame 0%N :: F) R benv wpb HG1 (Fr_push_frame _ _ _ _ _ HF) HR Ht)
        as [k [store' [V [Hrun [HV [Hext Hnil]]]]]].
      exists k, store', (VS (V ++ EFrame 0%N :: F) R). split; [exact Hrun|]. split; auto.
      pose proof (end_children_VS body V F R HG HV) as X. rewrite Ehv in X. apply X. intros; discriminate.
    - destruct (seq_sim f Hf _ _ _ _ _ _ _ _ Hs p stk nodes cnl cur modes ifs pvs store o F R benv wpb HG HF HR Ht)
        as [k [store' [V [Hrun [HV [Hext Hnil]]]]]].
      exists k, store', (VS (V ++ F) R). split; [exact Hrun|]. split; auto.
      pose proof (end_children_VS body V F R HG HV) as X. rewrite Ehv in X. apply X. intros _. apply Hnil. exact Ehv.
  Qed.

  (* ---- a prefix of the children: the frame keeps the rest ---- *)
  Lemma seq_sim_app : forall f, SimI f ->
    forall body rest tm wp n l md en items,
      sem_seq2 (sem2 f tm wp (cxof n l md)) body en = Some items ->
    forall p stk nodes cnl cur modes ifs pvs store o F R benv wpb,
      GoodR F R -> Fr true F benv wpb -> Res store benv en -> tflag o = mflag fx_frag tm ->
    exists k store' V,
      run2 k KNext (mkM2 ((p, body ++ rest, false) :: stk) nodes (l :: cnl) (n :: cur) (md :: modes) ifs pvs (VS F R) store o)
      = Run2 KNext (mkM2 ((p, rest, false) :: stk) nodes (l :: cnl) (n :: cur) (md :: modes) ifs pvs (VS (V ++ F) R) store' (emit2 (ops_of items) o))
      /\ Forall is_varE V /\ (exists ext, store' = store ++ ext) /\ (has_decl2 body = false -> V = []).
  Proof.
    intros f Hf. induction body as [|x r IH]; intros rest tm wp n l md en items Hs p stk nodes cnl cur modes ifs pvs store o F R benv wpb HG HF HR Ht.
    - simpl in Hs. inversion Hs; subst. exists 0, store, []. simpl. rewrite emit_nil. repeat split; auto. apply ext_refl.
    - cbn [sem_seq2] in Hs.
      destruct (sem2 f tm wp (cxof n l md) x en) as [[en1 o1]|] eqn:E1; try discriminate.
      match type of Hs with match ?t with _ => _ end = _ => destruct t as [o2|] eqn:E2; try discriminate end.
      inversion Hs; subst items. clear Hs.
      destruct (Hf _ _ _ _ _ _ _ _ _ E1 ((p, r ++ rest, false) :: stk) nodes cnl cur modes ifs pvs store o F R benv wpb HG HF HR Ht)
        as [k1 [store1 [V1 [newb [Hrun1 [HV1 [HF1 [HR1 [Hext1 Hnil1]]]]]]]]].
      assert (HG1 : GoodR (V1 ++ F) R) by (apply GoodR_vars; auto).
      destruct (IH rest _ _ _ _ _ _ _ E2 p stk nodes cnl cur modes ifs pvs store1 (emit2 (ops_of o1) o) (V1 ++ F) R (newb ++ benv) wpb HG1 HF1 HR1 Ht)
        as [k2 [store2 [V2 [Hrun2 [HV2 [Hext2 Hnil2]]]]]].
      exists (1 + (k1 + k2)), store2, (V2 ++ V1). repeat split.
      + rewrite (run_to 1 _ _ _ (KStart x) (mkM2 ((p, r ++ rest, false) :: stk) nodes (l :: cnl) (n :: cur) (md :: modes) ifs pvs (VS F R) store o)) by reflexivity.
        rewrite (run_to _ _ _ _ _ _ Hrun1). rewrite Hrun2. rewrite ops_of_app. rewrite emit_app. rewrite <- app_assoc. reflexivity.
      + apply Forall_app. split; auto.
      + eapply ext_trans; eauto.
      + simpl. intros X. apply orb_false_iff in X. destruct X as [X1 X2]. rewrite (Hnil1 X1). rewrite (Hnil2 X2). reflexivity.
  Qed.

  Definition frame_of (body : list instr2) (F : list entry) : list entry := if has_decl2 body then EFrame 0%N :: F else F.

  Lemma begin_VS : forall body F R, begin_children2 body (VS F R) = VS (frame_of body F) R.
  Proof. intros. unfold begin_children2, frame_of. destruct (has_decl2 body); auto. unfold VS. rewrite push_st. reflexivity. Qed.

  Lemma frame_of_good : forall body F R benv wpb, GoodR F R -> Fr true F benv wpb -> GoodR (frame_of body F) R /\ Fr true (frame_of body F) benv wpb.
  Proof.
    intros. unfold frame_of. destruct (has_decl2 body); auto. split. apply Good_cons; simpl; auto. apply Fr_push_frame. assumption.
  Qed.

  Lemma use_sets_nodecl : forall use, has_decl2 (use_sets use) = false.
  Proof. induction use; simpl; auto. Qed.

  Lemma set_body_nodecl : forall use atts, has_decl2 (set_body use atts) = false.
  Proof.
    intros. unfold set_body, has_decl2. rewrite existsb_app. fold (has_decl2 (use_sets use)). rewrite use_sets_nodecl. simpl.
    induction atts; simpl; auto.
  Qed.

  (* the children of an element that runs something without declarations (its attribute sets) before its own content *)
  Lemma block_pre_sim : forall f, SimI f ->
    forall pre_l body tm wp n l md en sa items, has_decl2 pre_l = false ->
      sem_seq2 (sem2 f tm wp (cxof n l md)) pre_l en = Some sa ->
      sem_seq2 (sem2 f tm wp (cxof n l md)) body en = Some items ->
    forall p stk nodes cnl cur modes ifs pvs store o F R benv wpb,
      GoodR F R -> Fr true F benv wpb -> Res store benv en -> tflag o = mflag fx_frag tm ->
    exists k store' v1,
      run2 k KNext (mkM2 ((p, pre_l ++ body, false) :: stk) nodes (l :: cnl) (n :: cur) (md :: modes) ifs pvs (begin_children2 body (VS F R)) store o)
      = Run2 KNext (mkM2 ((p, [], false) :: stk) nodes (l :: cnl) (n :: cur) (md :: modes) ifs pvs v1 store' (emit2 (ops_of (sa ++ items)) o))
      /\ end_children2 body v1 = Some (VS F R) /\ (exists ext, store' = store ++ ext).
  Proof.
    intros f Hf pre_l body tm wp n l md en sa items Hnd Hsa Hs p stk nodes cnl cur modes ifs pvs store o F R benv wpb HG HF HR Ht.
    rewrite begin_VS. destruct (frame_of_good body F R benv wpb HG HF) as [HG0 HF0].
    destruct (seq_sim_app f Hf _ body _ _ _ _ _ _ _ Hsa p stk nodes cnl cur modes ifs pvs store o (frame_of body F) R benv wpb HG0 HF0 HR Ht)
      as [k1 [store1 [V1 [Hrun1 [HV1 [Hext1 Hnil1]]]]]].
    rewrite (Hnil1 Hnd) in Hrun1. cbn [app] in Hrun1.
    destruct (seq_sim f Hf _ _ _ _ _ _ _ _ Hs p stk nodes cnl cur modes ifs pvs store1 (emit2 (ops_of sa) o) (frame_of body F) R benv wpb HG0 HF0 (Res_ext' _ _ _ _ Hext1 HR) Ht)
      as [k2 [store2 [V2 [Hrun2 [HV2 [Hext2 Hnil2]]]]]].
    exists (k1 + k2), store2, (VS (V2 ++ frame_of body F) R). split; [|split].
    - rewrite (run_to _ _ _ _ _ _ Hrun1). rewrite Hrun2. rewrite ops_of_app. rewrite emit_app. reflexivity.
    - unfold frame_of. apply end_children_VS; auto.
    - eapply ext_trans; eauto.
  Qed.

  (* ---- attribute sets add attributes only; so the start tag is still pending when the element's own AVTs are added ---- *)
  Definition is_gattr (i : item) : bool := match i with GAttr _ _ => true | _ => false end.
  Definition set_like (x : instr2) : bool := match x with JSet _ | JAttribute _ _ => true | _ => false end.

  Lemma set_body_like : forall use atts, forallb set_like (set_body use atts) = true.
  Proof.
    intros. unfold set_body. rewrite forallb_app'. apply andb_true_iff. split.
    - induction use; simpl; auto.
    - induction atts; simpl; auto.
  Qed.

  Lemma sets_attr_only : forall f tm wp c l en o, forallb set_like l = true ->
    sem_seq2 (sem2 f tm wp c) l en = Some o -> forallb is_gattr o = true.
  Proof.
    induction f; intros tm wp c l.
    - destruct l; intros en o _ H; simpl in H. inversion H; reflexivity. discriminate.
    - induction l as [|x r IHl]; intros en o Hl H. { simpl in H. inversion H; reflexivity. }
      cbn [XsltCore2Defs.sem_seq2] in H. simpl in Hl. apply andb_true_iff in Hl. destruct Hl as [Hx Hr].
      destruct (sem2 (S f) tm wp c x en) as [[en1 o1]|] eqn:E1; try discriminate.
      destruct (sem_seq2 (sem2 (S f) tm wp c) r en1) as [o2|] eqn:E2; try discriminate. inversion H.
      rewrite forallb_app'. rewrite (IHl _ _ Hr E2). rewrite andb_true_r.
      destruct x; try discriminate; cbn [XsltCore2Defs.sem2] in E1.
      + destruct (ev_avt ev_string (slk en) c v); try discriminate. inversion E1. reflexivity.
      + destruct (nth_error templates (N.to_nat k)) as [[]|]; try discriminate.
        destruct (sem_seq2 (sem2 f tm wp c) (set_body use atts) []) eqn:E; try discriminate. inversion E1; subst.
        eapply IHf; [apply set_body_like|exact E].
  Qed.

  Lemma use_sets_like : forall use, forallb set_like (use_sets use) = true.
  Proof. induction use; simpl; auto. Qed.

  Lemma attr_ops_keep_pending : forall its s, forallb is_gattr its = true -> pname (run_ops (ops_of its) s) = pname s.
  Proof.
    induction its as [|i r IH]; intros s H. reflexivity.
    simpl in H. apply andb_true_iff in H. destruct H as [H1 H2]. destruct i; try discriminate.
    unfold ops_of. cbn [flat_map ops_of_item app]. change (flat_map ops_of_item r) with (ops_of r).
    unfold run_ops. cbn [fold_left]. fold (run_ops (ops_of r) (XsltEventsDefs.step (IAttr n v) s)). rewrite IH by assumption.
    cbn [XsltEventsDefs.step]. destruct (pending s); reflexivity.
  Qed.

  Lemma emit_avts_ops : forall nm sa pre o, nonempty nm = true -> forallb is_gattr sa = true ->
    emit_avts pre (emit2 (ops_of sa) (emit2 [IStart nm] o)) =
    emit2 (map (fun p => IAttr (fst p) (snd p)) pre) (emit2 (ops_of sa) (emit2 [IStart nm] o)).
  Proof.
    intros nm sa pre o Hn Hsa. destruct o as [[|e r] tx sr]; unfold emit_avts, emit2; cbn [o_fmt o_txt o_str]; auto.
    f_equal. f_equal. apply add_attrs_guarded. unfold pending. rewrite attr_ops_keep_pending by assumption.
    unfold run_ops. cbn [fold_left XsltEventsDefs.step eng_start pname]. exact Hn.
  Qed.

  Lemma ops_of_attr_items : forall pre, ops_of (attr_items pre) = map (fun p => IAttr (fst p) (snd p)) pre.
  Proof. induction pre; simpl; auto. unfold ops_of in *. simpl. rewrite IHpre. reflexivity. Qed.

  (* ---- xsl:param children of a template instance ---- *)
  Lemma step_param_start : forall nm sel stk nodes l cnl n cur md modes ifs pvs v store o,
    step2 (KStart (JParam nm sel)) (mkM2 stk nodes (l :: cnl) (n :: cur) (md :: modes) ifs pvs v store o) =
    match get_param_variable nm v with
    | (Some _, v1) => Run2 (KEnd (JParam nm sel)) (mkM2 stk nodes (l :: cnl) (n :: cur) (md :: modes) ifs pvs v1 store o)
    | (None, v1) =>
        match start_value2 ev_value (mlk v1 store) (cxof n l md) sel [] with
        | Some (Some val) =>
            match push_variable nm (N.of_nat (length store)) 0%N v1 with
            | Some v' => Run2 (KEnd (JParam nm sel)) (mkM2 stk nodes (l :: cnl) (n :: cur) (md :: modes) ifs pvs v' (store ++ [val]) o)
            | None => Stuck2
            end
        | _ => Stuck2
        end
    end.
  Proof. reflexivity. Qed.

  Lemma step_param_end : forall nm sel stk nodes l cnl n cur md modes ifs pvs v store o,
    step2 (KEnd (JParam nm sel)) (mkM2 stk nodes (l :: cnl) (n :: cur) (md :: modes) ifs pvs v store o) =
    match get_param_variable nm v with
    | (Some _, v1) => Run2 KNext (mkM2 stk nodes (l :: cnl) (n :: cur) (md :: modes) ifs pvs v1 store o)
    | (None, _) => Run2 KNext (mkM2 stk nodes (l :: cnl) (n :: cur) (md :: modes) ifs pvs v store o)
    end.
  Proof. reflexivity. Qed.

  Lemma Res_cons_new : forall store nm v b e, Res store b e ->
    Res (store ++ [v]) ((nm, N.of_nat (length store)) :: b) ((nm, v) :: e).
  Proof. intros. apply (Res_app _ [_] [_]). apply Res_new. apply Res_ext. assumption. Qed.

  Lemma params_sim : forall tmi body pv n l md ps en en0,
    sem_params2 pv (cxof n l md) ps en = Some en0 ->
    forall stk nodes cnl cur modes ifs pvs store o V Fp R benv wpb,
      GoodR Fp R -> Forall is_varE V -> Fr true (V ++ EFrame 0%N :: Fp) benv wpb -> TFw Fp wpb ->
      Res store benv en -> Res store wpb pv ->
    exists k store' V' Fp' benv',
      run2 k KNext (mkM2 ((tmi, ps ++ body, false) :: stk) nodes (l :: cnl) (n :: cur) (md :: modes) ifs pvs (VS (V ++ EFrame 0%N :: Fp) R) store o)
      = Run2 KNext (mkM2 ((tmi, body, false) :: stk) nodes (l :: cnl) (n :: cur) (md :: modes) ifs pvs (VS (V' ++ EFrame 0%N :: Fp') R) store' o)
      /\ Forall is_varE V' /\ Fr true (V' ++ EFrame 0%N :: Fp') benv' wpb /\ TFw Fp' wpb /\ GoodR Fp' R
      /\ Res store' benv' en0 /\ Res store' wpb pv /\ (exists ext, store' = store ++ ext).
  Proof.
    intros tmi body pv n l md. induction ps as [|x r IH]; intros en en0 Hs stk nodes cnl cur modes ifs pvs store o V Fp R benv wpb HG HV HF HT HR HP.
    - simpl in Hs. inversion Hs; subst. exists 0, store, V, Fp, benv.
      exact (conj eq_refl (conj HV (conj HF (conj HT (conj HG (conj HR (conj HP (ext_refl _)))))))).
    - cbn [XsltCore2Defs.sem_params2] in Hs. destruct x; try discriminate.
      destruct (lookup_v n0 en) eqn:Eo; try discriminate.
      pose proof (Res_lookup_none _ _ _ _ HR Eo) as Hnb.
      set (F := V ++ EFrame 0%N :: Fp) in *.
      assert (HGF : GoodR F R).
      { unfold F. apply GoodR_vars; auto. apply Good_cons; simpl; auto. }
      pose proof HF as [H0 [Ha [Hb [Hc Hd]]]].
      pose proof (Hc n0 Hnb) as Hv.
      assert (HvV : has_var n0 V = false).
      { unfold F in Hv. rewrite has_var_app in Hv. apply orb_false_iff in Hv. tauto. }
      assert (Hfst : fst (fl n0 true F) = lookup n0 (rev wpb)).
      { rewrite fl_true_fst by assumption. apply Hd. }
      assert (Hstep1 : forall st0, run2 1 KNext (mkM2 ((tmi, (JParam n0 sel :: r) ++ body, false) :: stk) nodes (l :: cnl) (n :: cur) (md :: modes) ifs pvs st0 store o)
                       = Run2 (KStart (JParam n0 sel)) (mkM2 ((tmi, r ++ body, false) :: stk) nodes (l :: cnl) (n :: cur) (md :: modes) ifs pvs st0 store o)) by reflexivity.
      destruct (lookup_v n0 (rev pv)) as [v|] eqn:Ep.
      + (* passed: the entry is activated *)
        destruct (Res_lookup_some _ _ _ _ _ (Res_rev _ _ _ HP) Ep) as [i [Hi1 Hi2]].
        assert (Hpv : pval n0 F = Some i) by (rewrite <- Hd in Hi1; exact Hi1).
        assert (Hact : act n0 F = V ++ EFrame 0%N :: act n0 Fp) by (unfold F; apply act_app_vars; auto).
        assert (HF' : Fr true (V ++ EFrame 0%N :: act n0 Fp) ((n0, i) :: benv) wpb).
        { rewrite <- Hact. apply Fr_act; auto. }
        assert (HG' : GoodR (act n0 Fp) R).
        { destruct HG as [G0 [G1 G2]]. repeat split; auto. apply act_not_ctx; auto. }
        assert (HR' : Res store ((n0, i) :: benv) ((n0, v) :: en)).
        { constructor; auto. }
        destruct (IH _ _ Hs stk nodes cnl cur modes ifs pvs store o V (act n0 Fp) R ((n0, i) :: benv) wpb HG' HV HF' (TFw_act _ _ _ HT) HR' HP)
          as [k [store' [V' [Fp' [benv' [Hrun X]]]]]].
        exists (1 + (1 + (1 + k))), store', V', Fp', benv'. split; [|exact X].
        rewrite (run_to 1 _ _ _ _ _ (Hstep1 _)).
        rewrite (run_to 1 _ _ _ (KEnd (JParam n0 sel)) (mkM2 ((tmi, r ++ body, false) :: stk) nodes (l :: cnl) (n :: cur) (md :: modes) ifs pvs (VS (act n0 F) R) store o)).
        2:{ cbn [XsltCore2Defs.run2]. rewrite step_param_start. rewrite get_param_VS by assumption. rewrite Hfst. rewrite Hi1. reflexivity. }
        rewrite (run_to 1 _ _ _ KNext (mkM2 ((tmi, r ++ body, false) :: stk) nodes (l :: cnl) (n :: cur) (md :: modes) ifs pvs (VS (act n0 F) R) store o)).
        2:{ cbn [XsltCore2Defs.run2]. rewrite step_param_end. rewrite get_param_VS.
            - rewrite fl_act_idem. cbn [fst]. rewrite Hfst. rewrite Hi1.
              replace (act n0 (act n0 F)) with (act n0 F). reflexivity.
              symmetry. unfold act at 1. rewrite fl_act_idem. reflexivity.
            - rewrite Hact. apply GoodR_vars; auto. apply Good_cons; simpl; auto. }
        rewrite Hact. exact Hrun.
      + (* not passed: the default, as a variable *)
        pose proof (Res_lookup_none _ _ _ _ (Res_rev _ _ _ HP) Ep) as Hi1.
        assert (Hpv : pval n0 F = None) by (rewrite <- Hd in Hi1; exact Hi1).
        assert (Hact : act n0 F = F) by (apply fl_true_none; auto).
        match type of Hs with match ?t with _ => _ end = _ => destruct t as [v|] eqn:Ev; try discriminate end.
        set (b := N.of_nat (length store)).
        assert (HF' : Fr true ((EVar n0 b :: V) ++ EFrame 0%N :: Fp) ((n0, b) :: benv) wpb).
        { cbn [app]. apply Fr_push_var; auto. }
        assert (HV' : Forall is_varE (EVar n0 b :: V)) by (constructor; simpl; auto).
        assert (HR' : Res (store ++ [v]) ((n0, b) :: benv) ((n0, v) :: en)) by (apply Res_cons_new; auto).
        destruct (IH _ _ Hs stk nodes cnl cur modes ifs pvs (store ++ [v]) o (EVar n0 b :: V) Fp R ((n0, b) :: benv) wpb HG HV' HF' HT HR' (Res_ext _ _ _ _ HP))
          as [k [store' [V' [Fp' [benv' [Hrun [A1 [A2 [A3 [A4 [A5 [A6 A7]]]]]]]]]]]].
        exists (1 + (1 + (1 + k))), store', V', Fp', benv'. split; [|exact (conj A1 (conj A2 (conj A3 (conj A4 (conj A5 (conj A6 (ext_trans store (store ++ [v]) store' (ex_intro _ [v] eq_refl) A7)))))))].
        rewrite (run_to 1 _ _ _ _ _ (Hstep1 _)).
        rewrite (run_to 1 _ _ _ (KEnd (JParam n0 sel)) (mkM2 ((tmi, r ++ body, false) :: stk) nodes (l :: cnl) (n :: cur) (md :: modes) ifs pvs (VS (EVar n0 b :: F) R) (store ++ [v]) o)).
        2:{ cbn [XsltCore2Defs.run2]. rewrite step_param_start. rewrite get_param_VS by assumption. rewrite Hfst. rewrite Hi1. rewrite Hact.
            assert (Esv : start_value2 ev_value (mlk (VS F R) store) (cxof n l md) sel [] = Some (Some v)).
            { unfold start_value2. destruct sel.
              - rewrite (gx_ext _ _ (fun xs => mlk_slk F R benv wpb store en xs HGF HF HR)). rewrite Ev. reflexivity.
              - inversion Ev. reflexivity. }
            rewrite Esv. rewrite push_variable_VS by assumption. reflexivity. }
        rewrite (run_to 1 _ _ _ KNext (mkM2 ((tmi, r ++ body, false) :: stk) nodes (l :: cnl) (n :: cur) (md :: modes) ifs pvs (VS (EVar n0 b :: F) R) (store ++ [v]) o)).
        2:{ cbn [XsltCore2Defs.run2]. rewrite step_param_end. rewrite get_param_VS by (apply Good_cons; simpl; auto).
            unfold act. cbn [fl]. rewrite N.eqb_refl. reflexivity. }
        exact Hrun.
  Qed.

  (* ---- a template instance ---- *)
  Lemma step_tmpl_start : forall ps body stk nodes l cnl n cur md modes ifs pvs v store o,
    step2 (KStart (JTemplate ps body)) (mkM2 stk nodes (l :: cnl) (n :: cur) (md :: modes) ifs pvs v store o) =
    Run2 KNext (mkM2 ((JTemplate ps body, ps ++ body, false) :: stk) nodes (l :: cnl) (n :: cur) (md :: modes) ifs pvs
                   (begin_children2 (ps ++ body) v) store o).
  Proof. reflexivity. Qed.

  Lemma step_tmpl_end : forall ps body stk nodes l cnl n cur md modes ifs pvs v store o,
    step2 (KEnd (JTemplate ps body)) (mkM2 stk nodes (l :: cnl) (n :: cur) (md :: modes) ifs pvs v store o) =
    if has_decl2 (ps ++ body) then
      match pop_frame v with
      | Some v' => Run2 KNext (mkM2 stk nodes (l :: cnl) (n :: cur) (md :: modes) ifs pvs (reset_params v') store o)
      | None => Stuck2
      end
    else Run2 KNext (mkM2 stk nodes (l :: cnl) (n :: cur) (md :: modes) ifs pvs v store o).
  Proof. reflexivity. Qed.

  Lemma tmpl_sim : forall f, SimI f -> forall tm pv n l md t items,
    sem_tmpl2 (sem2 f tm) pv (cxof n l md) t = Some items ->
    exists tmi, get_template2 t = Some tmi /\
    forall stk nodes cnl cur modes ifs pvs store o Fp R wpb,
      GoodR Fp R -> TF true Fp wpb -> Res store wpb pv -> tflag o = mflag fx_frag tm ->
    exists k store' Fp',
      run2 k (KStart tmi) (mkM2 stk nodes (l :: cnl) (n :: cur) (md :: modes) ifs pvs (VS Fp R) store o)
      = Run2 KNext (mkM2 stk nodes (l :: cnl) (n :: cur) (md :: modes) ifs pvs (VS Fp' R) store' (emit2 (ops_of items) o))
      /\ TF true Fp' wpb /\ GoodR Fp' R /\ Res store' wpb pv /\ (exists ext, store' = store ++ ext).
  Proof.
    intros f Hf tm pv n l md t items Hs. unfold XsltCore2Defs.sem_tmpl2 in Hs.
    destruct (nth_error templates (N.to_nat t)) as [tmi|] eqn:Et; try discriminate.
    destruct tmi; try discriminate.
    exists (JTemplate ps body). split. { unfold XsltCore2Defs.get_template2. rewrite Et. reflexivity. }
    destruct (sem_params2 pv (cxof n l md) ps []) as [en0|] eqn:Ep; try discriminate.
    intros stk nodes cnl cur modes ifs pvs store o Fp R wpb HG HT HP Ht.
    set (tmi := JTemplate ps body).
    destruct (has_decl2 (ps ++ body)) eqn:Ehv.
    - assert (HF0 : Fr true ([] ++ EFrame 0%N :: Fp) [] wpb) by (apply Fr_push_frame; apply TF_Fr; auto).
      destruct HT as [HTw HT5].
      destruct (params_sim tmi body pv n l md ps [] en0 Ep stk nodes cnl cur modes ifs pvs store o [] Fp R [] wpb HG (Forall_nil _) HF0 HTw (Forall2_nil _) HP)
        as [k1 [store1 [V1 [Fp1 [benv1 [Hrun1 [A1 [A2 [A3 [A4 [A5 [A6 A7]]]]]]]]]]]].
      assert (HG1 : GoodR (V1 ++ EFrame 0%N :: Fp1) R) by (apply GoodR_vars; auto; apply Good_cons; simpl; auto).
      destruct (seq_sim f Hf _ _ _ _ _ _ _ _ Hs tmi stk nodes cnl cur modes ifs pvs store1 o (V1 ++ EFrame 0%N :: Fp1) R benv1 wpb HG1 A2 A5 Ht)
        as [k2 [store2 [V2 [Hrun2 [HV2 [Hext2 Hnil2]]]]]].
      exists (1 + (k1 + (k2 + (1 + 1)))), store2, (map deact1 Fp1).
      split.
      + rewrite (run_to 1 _ _ _ KNext (mkM2 ((tmi, ps ++ body, false) :: stk) nodes (l :: cnl) (n :: cur) (md :: modes) ifs pvs (VS ([] ++ EFrame 0%N :: Fp) R) store o)).
        2:{ cbn [XsltCore2Defs.run2]. unfold tmi. rewrite step_tmpl_start. unfold begin_children2. rewrite Ehv. unfold VS. rewrite push_st. reflexivity. }
        rewrite (run_to _ _ _ _ _ _ Hrun1). rewrite (run_to _ _ _ _ _ _ Hrun2).
        rewrite (run_to 1 _ _ _ (KEnd tmi) (mkM2 stk nodes (l :: cnl) (n :: cur) (md :: modes) ifs pvs (VS (V2 ++ V1 ++ EFrame 0%N :: Fp1) R) store2 (emit2 (ops_of items) o))) by reflexivity.
        cbn [XsltCore2Defs.run2]. unfold tmi. rewrite step_tmpl_end. rewrite Ehv.
        unfold VS. replace ((V2 ++ V1 ++ EFrame 0%N :: Fp1) ++ ECtx :: R) with ((V2 ++ V1) ++ EFrame 0%N :: (Fp1 ++ ECtx :: R)).
        2:{ rewrite <- !app_assoc. cbn [app]. reflexivity. }
        rewrite pop_frame_st.
        * destruct A4 as [G0 [G1 G2]]. rewrite reset_params_st by assumption. reflexivity.
        * apply Forall_app. split; auto.
        * destruct Fp1; discriminate.
      + split. { apply TF_deact. assumption. }
        split. { destruct A4 as [G0 [G1 G2]]. repeat split; auto. apply deact1_not_ctx; auto. }
        split. { eapply Res_ext'; [exact Hext2|]. assumption. }
        eapply ext_trans; eauto.
    - assert (ps = []).
      { destruct ps; auto. simpl in Ep. destruct i; discriminate. }
      subst ps. simpl in Ep. inversion Ep; subst en0. cbn [app] in *.
      destruct (seq_sim f Hf _ _ _ _ _ _ _ _ Hs tmi stk nodes cnl cur modes ifs pvs store o Fp R [] wpb HG (TF_Fr _ _ _ HT) (Forall2_nil _) Ht)
        as [k2 [store2 [V2 [Hrun2 [HV2 [Hext2 Hnil2]]]]]].
      rewrite (Hnil2 Ehv) in Hrun2. cbn [app] in Hrun2.
      exists (1 + (k2 + (1 + 1))), store2, Fp. split.
      + rewrite (run_to 1 _ _ _ KNext (mkM2 ((tmi, body, false) :: stk) nodes (l :: cnl) (n :: cur) (md :: modes) ifs pvs (VS Fp R) store o)).
        2:{ cbn [XsltCore2Defs.run2]. unfold tmi. rewrite step_tmpl_start. unfold begin_children2. cbn [app]. rewrite Ehv. reflexivity. }
        rewrite (run_to _ _ _ _ _ _ Hrun2).
        rewrite (run_to 1 _ _ _ (KEnd tmi) (mkM2 stk nodes (l :: cnl) (n :: cur) (md :: modes) ifs pvs (VS Fp R) store2 (emit2 (ops_of items) o))) by reflexivity.
        cbn [XsltCore2Defs.run2]. unfold tmi. rewrite step_tmpl_end. cbn [app]. rewrite Ehv. reflexivity.
      + split; auto. split; auto. split; auto. eapply Res_ext'; eauto.
  Qed.

  (* ---- result tree fragments: the body runs against a fresh formatter, which is popped at endElement ---- *)
  Definition binder (i : instr2) : Prop :=
    (exists nm sel body, i = JWithParam nm sel body) \/ (exists nm sel body, i = JVar nm sel body).

  Lemma step_leave_binder : forall i stk nodes l cnl n cur md modes ifs pvs v store o, binder i ->
    step2 KNext (mkM2 ((i, [], false) :: stk) nodes (l :: cnl) (n :: cur) (md :: modes) ifs pvs v store o)
    = Run2 (KEnd i) (mkM2 stk nodes (l :: cnl) (n :: cur) (md :: modes) ifs pvs v store o).
  Proof. intros. destruct H as [[nm [sel [body H]]]|[nm [sel [body H]]]]; subst; reflexivity. Qed.

  Lemma rtf_sim : forall f, SimI f ->
    forall i body tm wp n l md en its, binder i ->
      sem_seq2 (sem2 f (tfrag tm) wp (cxof n l md)) body en = Some its ->
    forall stk nodes cnl cur modes ifs pvs store o F R benv wpb,
      GoodR F R -> Fr true F benv wpb -> Res store benv en -> tflag o = mflag fx_frag tm ->
    exists k store' v1 e1,
      run2 k KNext (mkM2 ((i, body, false) :: stk) nodes (l :: cnl) (n :: cur) (md :: modes) ifs pvs (begin_children2 body (VS F R)) store (frag_begin fx_frag o))
      = Run2 (KEnd i) (mkM2 stk nodes (l :: cnl) (n :: cur) (md :: modes) ifs pvs v1 store' (push_fmt e1 (fpush fx_frag o)))
      /\ end_children2 body v1 = Some (VS F R) /\ frag_end fx_frag (push_fmt e1 (fpush fx_frag o)) = Some (spec_tree false its, o)
      /\ (exists ext, store' = store ++ ext).
  Proof.
    intros f Hf i body tm wp n l md en its Hi Hs stk nodes cnl cur modes ifs pvs store o F R benv wpb HG HF HR Ht.
    assert (Ht1 : tflag (frag_begin fx_frag o) = mflag fx_frag (tfrag tm)) by (apply (fpush_flag fx_frag tm o Ht)).
    destruct (block_sim f Hf _ _ _ _ _ _ _ _ Hs i stk nodes cnl cur modes ifs pvs store (frag_begin fx_frag o) F R benv wpb HG HF HR Ht1)
      as [k [store' [v1 [Hrun [Hend Hext]]]]].
    exists (k + 1), store', v1, (run_ops (ops_of its) e_init). split; [|split; [exact Hend|split; [|exact Hext]]].
    - rewrite (run_to _ _ _ _ _ _ Hrun). cbn [XsltCore2Defs.run2]. rewrite step_leave_binder by assumption. reflexivity.
    - assert (X : machine_tree (ops_of its) = Some (spec_tree false its)).
      { apply pending_machine_builds_tree_thm. eapply sem_seq_ok; [|exact Hs]. apply sem_ok. }
      unfold machine_tree, events_of in X. destruct o as [fm tx sr].
      unfold frag_end, pop_rtf2, fpush, push_fmt, push_txt, pop_txt. destruct fx_frag; cbn [o_fmt o_txt o_str]; rewrite X; reflexivity.
  Qed.

  (* ---- xsl:with-param children ---- *)
  Lemma step_wp_start : forall nm sel body stk nodes l cnl n cur md modes ifs pvs v store o,
    step2 (KStart (JWithParam nm sel body)) (mkM2 stk nodes (l :: cnl) (n :: cur) (md :: modes) ifs pvs v store o) =
    match start_value2 ev_value (mlk v store) (cxof n l md) sel body with
    | Some (Some val) =>
        match pvs with
        | top :: pr => Run2 (KEnd (JWithParam nm sel body)) (mkM2 stk nodes (l :: cnl) (n :: cur) (md :: modes) ifs ((top ++ [(nm, N.of_nat (length store))]) :: pr) v (store ++ [val]) o)
        | [] => Stuck2
        end
    | Some None => Run2 KNext (mkM2 ((JWithParam nm sel body, body, false) :: stk) nodes (l :: cnl) (n :: cur) (md :: modes) ifs pvs (begin_children2 body v) store (frag_begin fx_frag o))
    | None => Stuck2
    end.
  Proof. reflexivity. Qed.

  Lemma step_wp_end : forall nm sel body stk nodes l cnl n cur md modes ifs pvs v store o,
    step2 (KEnd (JWithParam nm sel body)) (mkM2 stk nodes (l :: cnl) (n :: cur) (md :: modes) ifs pvs v store o) =
    if is_rtf_def2 sel body then
      match end_children2 body v, frag_end fx_frag o, pvs with
      | Some v', Some (t, o'), top :: pr =>
          Run2 KNext (mkM2 stk nodes (l :: cnl) (n :: cur) (md :: modes) ifs ((top ++ [(nm, N.of_nat (length store))]) :: pr) v' (store ++ [VRtf t]) o')
      | _, _, _ => Stuck2
      end
    else Run2 KNext (mkM2 stk nodes (l :: cnl) (n :: cur) (md :: modes) ifs pvs v store o).
  Proof. reflexivity. Qed.

  Lemma start_value_sel : forall F R benv wpb store en c e v,
    GoodR F R -> Fr true F benv wpb -> Res store benv en ->
    gx ev_value (slk en) c e = Some v ->
    forall body, start_value2 ev_value (mlk (VS F R) store) c (Some e) body = Some (Some v).
  Proof.
    intros. unfold start_value2. rewrite (gx_ext _ _ (fun xs => mlk_slk F R benv wpb store en xs H H0 H1)). rewrite H2. reflexivity.
  Qed.

  Lemma wps_sim : forall f, SimI f ->
    forall wps tm wp n l md en pv,
      sem_wps2 (sem_seq2 (sem2 f (tfrag tm) wp (cxof n l md))) (cxof n l md) en wps = Some pv ->
    forall p stk nodes cnl cur modes ifs top pr store o F R benv wpb,
      GoodR F R -> Fr true F benv wpb -> Res store benv en -> tflag o = mflag fx_frag tm ->
    exists k store' pb,
      run2 k KNext (mkM2 ((p, wps, false) :: stk) nodes (l :: cnl) (n :: cur) (md :: modes) ifs (top :: pr) (VS F R) store o)
      = Run2 KNext (mkM2 ((p, [], false) :: stk) nodes (l :: cnl) (n :: cur) (md :: modes) ifs ((top ++ pb) :: pr) (VS F R) store' o)
      /\ Res store' pb pv /\ (exists ext, store' = store ++ ext).
  Proof.
    intros f Hf. induction wps as [|x r IH]; intros tm wp n l md en pv Hs p stk nodes cnl cur modes ifs top pr store o F R benv wpb HG HF HR Ht.
    - simpl in Hs. inversion Hs; subst. exists 0, store, []. rewrite app_nil_r. split; [reflexivity|]. split. constructor. apply ext_refl.
    - cbn [XsltCore2Defs.sem_wps2] in Hs. destruct x; try discriminate.
      destruct (sem_vvalue2 (sem_seq2 (sem2 f (tfrag tm) wp (cxof n l md))) (cxof n l md) sel body en) as [v|] eqn:Ev; try discriminate.
      match type of Hs with match ?t with _ => _ end = _ => destruct t as [pv1|] eqn:E2; try discriminate end.
      inversion Hs; subst pv. clear Hs.
      set (i := JWithParam n0 sel body).
      assert (Hstep1 : run2 1 KNext (mkM2 ((p, i :: r, false) :: stk) nodes (l :: cnl) (n :: cur) (md :: modes) ifs (top :: pr) (VS F R) store o)
                       = Run2 (KStart i) (mkM2 ((p, r, false) :: stk) nodes (l :: cnl) (n :: cur) (md :: modes) ifs (top :: pr) (VS F R) store o)) by reflexivity.
      (* in every case the with-param ends in this state *)
      assert (Hone : exists k1 store1, 
                run2 k1 (KStart i) (mkM2 ((p, r, false) :: stk) nodes (l :: cnl) (n :: cur) (md :: modes) ifs (top :: pr) (VS F R) store o)
                = Run2 KNext (mkM2 ((p, r, false) :: stk) nodes (l :: cnl) (n :: cur) (md :: modes) ifs ((top ++ [(n0, N.of_nat (length store1))]) :: pr) (VS F R) (store1 ++ [v]) o)
                /\ (exists ext, store1 = store ++ ext)).
      { unfold XsltCore2Defs.sem_vvalue2 in Ev. destruct sel as [e|].
        - exists 2, store. split; [|apply ext_refl]. cbn [XsltCore2Defs.run2]. unfold i. rewrite step_wp_start.
          rewrite (start_value_sel F R benv wpb store en _ _ _ HG HF HR Ev). rewrite step_wp_end. reflexivity.
        - destruct body as [|b0 body'].
          + inversion Ev; subst v. exists 2, store. split; [|apply ext_refl]. reflexivity.
          + match type of Ev with match ?t with _ => _ end = _ => destruct t as [its|] eqn:Eb; try discriminate end.
            inversion Ev; subst v. clear Ev.
            destruct (rtf_sim f Hf i (b0 :: body') tm wp n l md en its (or_introl (ex_intro _ n0 (ex_intro _ None (ex_intro _ (b0 :: body') eq_refl)))) Eb
                        ((p, r, false) :: stk) nodes cnl cur modes ifs (top :: pr) store o F R benv wpb HG HF HR Ht)
              as [k [store1 [v1 [e1 [Hrun [Hend [Hpop Hext]]]]]]].
            exists (1 + (k + 1)), store1. split; [|exact Hext].
            rewrite (run_to 1 _ _ _ KNext (mkM2 ((i, b0 :: body', false) :: (p, r, false) :: stk) nodes (l :: cnl) (n :: cur) (md :: modes) ifs (top :: pr) (begin_children2 (b0 :: body') (VS F R)) store (frag_begin fx_frag o))) by reflexivity.
            rewrite (run_to _ _ _ _ _ _ Hrun). cbn [XsltCore2Defs.run2]. unfold i. rewrite step_wp_end. cbn [is_rtf_def2].
            rewrite Hend. rewrite Hpop. reflexivity. }
      destruct Hone as [k1 [store1 [Hrun1 Hext1]]].
      assert (HR1 : Res (store1 ++ [v]) benv en).
      { apply Res_ext. eapply Res_ext'; eauto. }
      destruct (IH _ _ _ _ _ _ _ E2 p stk nodes cnl cur modes ifs (top ++ [(n0, N.of_nat (length store1))]) pr (store1 ++ [v]) o F R benv wpb HG HF HR1 Ht)
        as [k2 [store2 [pb [Hrun2 [HP2 Hext2]]]]].
      exists (1 + (k1 + k2)), store2, ((n0, N.of_nat (length store1)) :: pb). split; [|split].
      + rewrite (run_to _ _ _ _ _ _ Hstep1). rewrite (run_to _ _ _ _ _ _ Hrun1). rewrite Hrun2. rewrite <- app_assoc. reflexivity.
      + constructor; auto. simpl. split; auto. destruct Hext2 as [x Hx]. rewrite Hx. rewrite Nat2N.id.
        rewrite nth_error_app1 by (rewrite app_length; simpl; lia). rewrite nth_error_app2 by lia. rewrite Nat.sub_diag. reflexivity.
      + eapply ext_trans; [|exact Hext2]. eapply ext_trans; [exact Hext1|]. eexists; reflexivity.
  Qed.

  (* ---- xsl:for-each: one run2 of the children per selected node ---- *)
  Lemma cxof_at : forall done n1 rest md, NoDup (done ++ n1 :: rest) ->
    mkC n1 (N.of_nat (S (length done))) (N.of_nat (length (done ++ n1 :: rest))) md = cxof n1 (done ++ n1 :: rest) md.
  Proof. intros. unfold cxof, pos_of. rewrite index_of_app_nodup by assumption. reflexivity. Qed.

  Lemma step_fe_next : forall e srt body stk n2 r nodes l cnl n cur md modes ifs pvs v v' store o,
    end_children2 body v = Some v' ->
    step2 KNext (mkM2 ((JForEach e srt body, [], false) :: stk) ((n2 :: r) :: nodes) (l :: cnl) (n :: cur) (md :: modes) ifs pvs v store o)
    = Run2 KNext (mkM2 ((JForEach e srt body, body, false) :: stk) (r :: nodes) (l :: cnl) (n2 :: cur) (md :: modes) ifs pvs (begin_children2 body v') store o).
  Proof. intros. cbn [XsltCore2Defs.step2]. rewrite H. reflexivity. Qed.

  Lemma foreach_loop : forall f, SimI f -> forall e srt body tm wp md en sl, NoDup sl ->
    forall rest n1 done items, sl = done ++ n1 :: rest ->
      each (fun n pos => sem_seq2 (sem2 f tm wp (mkC n pos (N.of_nat (length sl)) md)) body en) (n1 :: rest) (N.of_nat (S (length done))) = Some items ->
    forall stk nodes cnl cur modes ifs pvs store o F R benv wpb,
      GoodR F R -> Fr true F benv wpb -> Res store benv en -> tflag o = mflag fx_frag tm ->
    exists k store' v1 nl,
      run2 k KNext (mkM2 ((JForEach e srt body, body, false) :: stk) (rest :: nodes) (sl :: cnl) (n1 :: cur) (md :: modes) ifs pvs (begin_children2 body (VS F R)) store o)
      = Run2 KNext (mkM2 ((JForEach e srt body, [], false) :: stk) ([] :: nodes) (sl :: cnl) (nl :: cur) (md :: modes) ifs pvs v1 store' (emit2 (ops_of items) o))
      /\ end_children2 body v1 = Some (VS F R) /\ (exists ext, store' = store ++ ext).
  Proof.
    intros f Hf e srt body tm wp md en sl Hnd. induction rest as [|n2 r IH]; intros n1 done items Hsl Hs stk nodes cnl cur modes ifs pvs store o F R benv wpb HG HF HR Ht.
    - cbn [each] in Hs.
      match type of Hs with match ?t with _ => _ end = _ => destruct t as [o1|] eqn:E1; try discriminate end.
      inversion Hs; subst items. rewrite app_nil_r. clear Hs.
      rewrite Hsl in E1. rewrite cxof_at in E1 by (rewrite <- Hsl; assumption). rewrite <- Hsl in E1.
      destruct (block_sim f Hf _ _ _ _ _ _ _ _ E1 (JForEach e srt body) stk ([] :: nodes) cnl cur modes ifs pvs store o F R benv wpb HG HF HR Ht)
        as [k [store' [v1 [Hrun [Hend Hext]]]]].
      exists k, store', v1, n1. auto.
    - cbn [each] in Hs.
      match type of Hs with match ?t with _ => _ end = _ => destruct t as [o1|] eqn:E1; try discriminate end.
      match type of Hs with match ?t with _ => _ end = _ => destruct t as [o2|] eqn:E2; try discriminate end.
      inversion Hs; subst items. clear Hs.
      rewrite Hsl in E1. rewrite cxof_at in E1 by (rewrite <- Hsl; assumption). rewrite <- Hsl in E1.
      destruct (block_sim f Hf _ _ _ _ _ _ _ _ E1 (JForEach e srt body) stk ((n2 :: r) :: nodes) cnl cur modes ifs pvs store o F R benv wpb HG HF HR Ht)
        as [k1 [store1 [v1 [Hrun1 [Hend1 Hext1]]]]].
      assert (Hsl2 : sl = (done ++ [n1]) ++ n2 :: r) by (rewrite <- app_assoc; exact Hsl).
      assert (Hpos : N.succ (N.of_nat (S (length done))) = N.of_nat (S (length (done ++ [n1])))).
      { apply pos_succ. }
      rewrite Hpos in E2.
      destruct (IH n2 (done ++ [n1]) o2 Hsl2 E2 stk nodes cnl cur modes ifs pvs store1 (emit2 (ops_of o1) o) F R benv wpb HG HF (Res_ext' _ _ _ _ Hext1 HR) Ht)
        as [k2 [store2 [v2 [nl [Hrun2 [Hend2 Hext2]]]]]].
      exists (k1 + (1 + k2)), store2, v2, nl. split; [|split; [exact Hend2|eapply ext_trans; eauto]].
      rewrite (run_to _ _ _ _ _ _ Hrun1).
      rewrite (run_to 1 _ _ _ KNext (mkM2 ((JForEach e srt body, body, false) :: stk) (r :: nodes) (sl :: cnl) (n2 :: cur) (md :: modes) ifs pvs (begin_children2 body (VS F R)) store1 (emit2 (ops_of o1) o))).
      2:{ cbn [XsltCore2Defs.run2]. rewrite (step_fe_next _ _ _ _ _ _ _ _ _ _ _ _ _ _ _ _ _ _ _ Hend1). reflexivity. }
      rewrite Hrun2. rewrite ops_of_app. rewrite emit_app. reflexivity.
  Qed.

  (* ---- xsl:apply-templates: one template instance per selected node that has a template ---- *)
  Definition after_find (p : instr2) (stk' : list frame2) (nodes' cnl : list (list N)) (sl cur' : list N) (md1 : N) (modes : list N)
             (ifs : list bool) (pvs : list (list (N * N))) (Fp R : list entry) (fn : option (N * N * list N))
             (store : list value) (o : out2) : res2 :=
    match fn with
    | Some (n1, t, rest') =>
        match get_template2 t with
        | Some tmi => Run2 (KStart tmi) (mkM2 ((p, [], true) :: stk') (rest' :: nodes') (sl :: cnl) (n1 :: cur') (md1 :: modes) ifs pvs (VS Fp R) store o)
        | None => Stuck2
        end
    | None => Run2 (KEnd p) (mkM2 stk' ([] :: nodes') (sl :: cnl) cur' (md1 :: modes) ifs pvs (VS Fp R) store o)
    end.

  Lemma step_apply_next : forall e m srt wps stk' rest nodes' sl cnl n1 cur' md1 modes ifs pvs Fp R store o,
    step2 KNext (mkM2 ((JApply e m srt wps, [], true) :: stk') (rest :: nodes') (sl :: cnl) (n1 :: cur') (md1 :: modes) ifs pvs (VS Fp R) store o)
    = after_find (JApply e m srt wps) stk' nodes' cnl sl cur' md1 modes ifs pvs Fp R (find_next sel_template md1 rest) store o.
  Proof. intros. cbn [XsltCore2Defs.step2]. unfold after_find. destruct (find_next sel_template md1 rest) as [[[a b] c]|]; reflexivity. Qed.

  Lemma apply_loop : forall f, SimI f -> forall e m srt wps tm pv md1 sl, NoDup sl ->
    forall rest done items, sl = done ++ rest ->
      each (fun n pos => match sel_template n md1 with
                         | Some t => sem_tmpl2 (sem2 f tm) pv (mkC n pos (N.of_nat (length sl)) md1) t
                         | None => Some []
                         end) rest (N.of_nat (S (length done))) = Some items ->
    forall stk' nodes' cnl cur' modes ifs pvs store o Fp R wpb,
      GoodR Fp R -> TF true Fp wpb -> Res store wpb pv -> tflag o = mflag fx_frag tm ->
    exists k store' Fp',
      (forall c0 s0, step2 c0 s0 = after_find (JApply e m srt wps) stk' nodes' cnl sl cur' md1 modes ifs pvs Fp R (find_next sel_template md1 rest) store o ->
         run2 (S k) c0 s0 = Run2 (KEnd (JApply e m srt wps)) (mkM2 stk' ([] :: nodes') (sl :: cnl) cur' (md1 :: modes) ifs pvs (VS Fp' R) store' (emit2 (ops_of items) o)))
      /\ TF true Fp' wpb /\ GoodR Fp' R /\ (exists ext, store' = store ++ ext).
  Proof.
    intros f Hf e m srt wps tm pv md1 sl Hnd. induction rest as [|n1 r IH]; intros done items Hsl Hs stk' nodes' cnl cur' modes ifs pvs store o Fp R wpb HG HT HP Ht.
    - simpl in Hs. inversion Hs; subst items. exists 0, store, Fp. split; [|split; [exact HT|split; [exact HG|apply ext_refl]]].
      intros c0 s0 H. cbn [XsltCore2Defs.run2]. rewrite H. cbn [find_next after_find]. rewrite emit_nil. reflexivity.
    - cbn [each] in Hs.
      assert (Hsl2 : sl = (done ++ [n1]) ++ r) by (rewrite <- app_assoc; exact Hsl).
      assert (Hpos : N.succ (N.of_nat (S (length done))) = N.of_nat (S (length (done ++ [n1])))).
      { apply pos_succ. }
      destruct (sel_template n1 md1) as [t|] eqn:Et.
      + match type of Hs with match ?t with _ => _ end = _ => destruct t as [o1|] eqn:E1; try discriminate end.
        match type of Hs with match ?t with _ => _ end = _ => destruct t as [o2|] eqn:E2; try discriminate end.
        inversion Hs; subst items. clear Hs.
        rewrite Hsl in E1. rewrite cxof_at in E1 by (rewrite <- Hsl; assumption). rewrite <- Hsl in E1.
        destruct (tmpl_sim f Hf _ _ _ _ _ _ _ E1) as [tmi [Hgt Htm]].
        destruct (Htm ((JApply e m srt wps, [], true) :: stk') (r :: nodes') cnl cur' modes ifs pvs store o Fp R wpb HG HT HP Ht)
          as [k1 [store1 [Fp1 [Hrun1 [HT1 [HG1 [HP1 Hext1]]]]]]].
        rewrite Hpos in E2.
        destruct (IH (done ++ [n1]) o2 Hsl2 E2 stk' nodes' cnl cur' modes ifs pvs store1 (emit2 (ops_of o1) o) Fp1 R wpb HG1 HT1 HP1 Ht)
          as [k2 [store2 [Fp2 [Hrun2 [HT2 [HG2 Hext2]]]]]].
        exists (k1 + S k2), store2, Fp2. split; [|split; [exact HT2|split; [exact HG2|eapply ext_trans; eauto]]].
        intros c0 s0 H. cbn [XsltCore2Defs.run2]. rewrite H. cbn [find_next]. rewrite Et. cbn [after_find]. rewrite Hgt.
        rewrite (run_to _ _ _ _ _ _ Hrun1). rewrite (Hrun2 _ _ (step_apply_next _ _ _ _ _ _ _ _ _ _ _ _ _ _ _ _ _ _ _)).
        rewrite ops_of_app. rewrite emit_app. reflexivity.
      + match type of Hs with match ?t with _ => _ end = _ => destruct t as [o2|] eqn:E2; try discriminate end.
        inversion Hs; subst items. clear Hs. cbn [app].
        rewrite Hpos in E2.
        destruct (IH (done ++ [n1]) o2 Hsl2 E2 stk' nodes' cnl cur' modes ifs pvs store o Fp R wpb HG HT HP Ht)
          as [k2 [store2 [Fp2 [Hrun2 X]]]].
        exists k2, store2, Fp2. split; [|exact X].
        intros c0 s0 H. apply Hrun2. rewrite H. cbn [find_next]. rewrite Et. reflexivity.
  Qed.

  Lemma step_apply_select : forall e m srt wps stk nodes l cnl n cur md1 modes' ifs top pr F R store o sl,
    sel_nodes (mlk (VS F R) store) (cxof n l md1) e srt = Some sl ->
    step2 KNext (mkM2 ((JApply e m srt wps, [], false) :: stk) nodes (l :: cnl) (n :: cur) (md1 :: modes') ifs (top :: pr) (VS F R) store o)
    = after_find (JApply e m srt wps) stk nodes (l :: cnl) sl (n :: cur) md1 modes' ifs pr
                 (rev (map (fun p => EParam (fst p) (snd p)) top)) (F ++ ECtx :: R) (find_next sel_template md1 sl) store o.
  Proof.
    intros. cbn [XsltCore2Defs.step2]. fold (cxof n l md1). rewrite H.
    assert (Hpush : push_params top (push ECtx (VS F R)) = VS (rev (map (fun p => EParam (fst p) (snd p)) top)) (F ++ ECtx :: R)).
    { unfold VS. rewrite push_st. rewrite push_params_st. reflexivity. }
    rewrite Hpush. unfold after_find. destruct (find_next sel_template md1 sl) as [[[a b] c]|]; reflexivity.
  Qed.

  (* ---- one instruction ---- *)
  Lemma step_var_start : forall nm sel body stk nodes l cnl n cur md modes ifs pvs v store o,
    step2 (KStart (JVar nm sel body)) (mkM2 stk nodes (l :: cnl) (n :: cur) (md :: modes) ifs pvs v store o) =
    match start_value2 ev_value (mlk v store) (cxof n l md) sel body with
    | Some (Some val) =>
        match push_variable nm (N.of_nat (length store)) 0%N v with
        | Some v' => Run2 (KEnd (JVar nm sel body)) (mkM2 stk nodes (l :: cnl) (n :: cur) (md :: modes) ifs pvs v' (store ++ [val]) o)
        | None => Stuck2
        end
    | Some None => Run2 KNext (mkM2 ((JVar nm sel body, body, false) :: stk) nodes (l :: cnl) (n :: cur) (md :: modes) ifs pvs (begin_children2 body v) store (frag_begin fx_frag o))
    | None => Stuck2
    end.
  Proof. reflexivity. Qed.

  Lemma step_var_end : forall nm sel body stk nodes l cnl n cur md modes ifs pvs v store o,
    step2 (KEnd (JVar nm sel body)) (mkM2 stk nodes (l :: cnl) (n :: cur) (md :: modes) ifs pvs v store o) =
    if is_rtf_def2 sel body then
      match end_children2 body v, frag_end fx_frag o with
      | Some v', Some (t, o') =>
          match push_variable nm (N.of_nat (length store)) 0%N v' with
          | Some v'' => Run2 KNext (mkM2 stk nodes (l :: cnl) (n :: cur) (md :: modes) ifs pvs v'' (store ++ [VRtf t]) o')
          | None => Stuck2
          end
      | _, _ => Stuck2
      end
    else Run2 KNext (mkM2 stk nodes (l :: cnl) (n :: cur) (md :: modes) ifs pvs v store o).
  Proof. reflexivity. Qed.

  Lemma emit_elem : forall n pre body o,
    emit2 [IEnd n] (emit2 (ops_of body) (emit2 (IStart n :: map (fun p => IAttr (fst p) (snd p)) pre) o)) = emit2 (ops_of [GElem n pre body]) o.
  Proof.
    intros. rewrite <- !emit_app. f_equal. unfold ops_of. simpl. rewrite app_nil_r. reflexivity.
  Qed.

  Lemma pick_kind : forall lk c l x, pick2 ev_bool lk c l = Some (Some x) -> is_decl2 x = false.
  Proof.
    induction l; simpl; intros x H; try discriminate. destruct a; try discriminate.
    - destruct (gx ev_bool lk c e) as [[|]|]; try discriminate. inversion H; reflexivity. auto.
    - inversion H; reflexivity.
  Qed.

  Lemma single_text_eq : forall body t, single_text body = Some t -> body = [JText t].
  Proof.
    intros body t. destruct body as [|x [|y r]]; simpl; try discriminate; destruct x; try discriminate.
    intros H; inversion H; reflexivity.
  Qed.

  Lemma pop_str_emit2 : forall a b s o, pop_str (emit2 b (emit2 a (push_str s o))) = Some (s, emit2 b (emit2 a o)).
  Proof. reflexivity. Qed.

  (* endFormatToText: what the collector pushed by beginFormatToText has received, and the stacks below it *)
  Lemma pop_text_collector : forall ops o, o = mkO (o_fmt o) (o_txt o) (o_str o) ->
    pop_text (emit2 ops (push_fmt e_init o)) = Some (chars_of_sax (rev (out (run_ops ops e_init))), o).
  Proof. intros ops o H. rewrite H at 2. reflexivity. Qed.

  Ltac one c' s' := rewrite (run_to 1 _ _ _ c' s') by reflexivity.
  Ltac close_nd k store' Hext HF HR :=
    exists k, store', (@nil entry), (@nil (N * N));
    split; [| split; [constructor | split; [exact HF | split; [eapply Res_ext'; [exact Hext | exact HR] | split; [exact Hext | intros _; reflexivity]]]]].

  Lemma sim_S : forall f, SimI f -> SimI (S f).
  Proof.
    intros f Hf i tm wp n l md en en' items Hs stk nodes cnl cur modes ifs pvs store o F R benv wpb HG HF HR Ht.
    pose proof (fun xs => mlk_slk F R benv wpb store en xs HG HF HR) as Hlk.
    cbn [XsltCore2Defs.sem2] in Hs. destruct i; try discriminate.
    - (* literal result element *)
      destruct (nonempty n0) eqn:En; try discriminate.
      destruct (ev_atts ev_string (slk en) (cxof n l md) atts) as [pre|] eqn:Ea; try discriminate.
      destruct (sem_seq2 (sem2 f tm wp (cxof n l md)) body en) as [o1|] eqn:Eb; try discriminate.
      inversion Hs; subst en' items. clear Hs.
      set (i := JLre n0 atts body).
      destruct (block_sim f Hf _ _ _ _ _ _ _ _ Eb i stk nodes cnl cur modes ifs pvs store (emit2 (IStart n0 :: map (fun p => IAttr (fst p) (snd p)) pre) o) F R benv wpb HG HF HR Ht)
        as [k [store' [v1 [Hrun [Hend Hext]]]]].
      close_nd (1 + (k + (1 + 1))) store' Hext HF HR.
      rewrite (run_to 1 _ _ _ KNext (mkM2 ((i, body, false) :: stk) nodes (l :: cnl) (n :: cur) (md :: modes) ifs pvs (begin_children2 body (VS F R)) store (emit2 (IStart n0 :: map (fun p => IAttr (fst p) (snd p)) pre) o))).
      2:{ cbn [XsltCore2Defs.run2 XsltCore2Defs.step2 i]. fold (cxof n l md). rewrite (ev_atts_ext _ _ _ Hlk). rewrite Ea. rewrite emit_lre_start_ops by assumption. reflexivity. }
      rewrite (run_to _ _ _ _ _ _ Hrun).
      one (KEnd i) (mkM2 stk nodes (l :: cnl) (n :: cur) (md :: modes) ifs pvs v1 store' (emit2 (ops_of o1) (emit2 (IStart n0 :: map (fun p => IAttr (fst p) (snd p)) pre) o))).
      cbn [XsltCore2Defs.run2 XsltCore2Defs.step2 i]. rewrite Hend. rewrite emit_elem. reflexivity.
    - (* text *)
      inversion Hs; subst en' items. close_nd 2 store (ext_refl store) HF HR. reflexivity.
    - (* value-of *)
      destruct (gx ev_string (slk en) (cxof n l md) e) as [t|] eqn:Eg; try discriminate.
      inversion Hs; subst en' items. close_nd 2 store (ext_refl store) HF HR.
      cbn [XsltCore2Defs.run2 XsltCore2Defs.step2]. fold (cxof n l md). rewrite (gx_ext _ _ Hlk). rewrite Eg. reflexivity.
    - (* if *)
      destruct (gx ev_bool (slk en) (cxof n l md) e) as [[|]|] eqn:Eg; try discriminate.
      + destruct (sem_seq2 (sem2 f tm wp (cxof n l md)) body en) as [o1|] eqn:Eb; try discriminate.
        inversion Hs; subst en' items. clear Hs.
        set (i := JIf e body).
        destruct (block_sim f Hf _ _ _ _ _ _ _ _ Eb i stk nodes cnl cur modes (true :: ifs) pvs store o F R benv wpb HG HF HR Ht)
          as [k [store' [v1 [Hrun [Hend Hext]]]]].
        close_nd (1 + (k + (1 + 1))) store' Hext HF HR.
        rewrite (run_to 1 _ _ _ KNext (mkM2 ((i, body, false) :: stk) nodes (l :: cnl) (n :: cur) (md :: modes) (true :: ifs) pvs (begin_children2 body (VS F R)) store o)).
        2:{ cbn [XsltCore2Defs.run2 XsltCore2Defs.step2 i]. fold (cxof n l md). rewrite (gx_ext _ _ Hlk). rewrite Eg. reflexivity. }
        rewrite (run_to _ _ _ _ _ _ Hrun).
        one (KEnd i) (mkM2 stk nodes (l :: cnl) (n :: cur) (md :: modes) (true :: ifs) pvs v1 store' (emit2 (ops_of o1) o)).
        cbn [XsltCore2Defs.run2 XsltCore2Defs.step2 i]. rewrite Hend. reflexivity.
      + inversion Hs; subst en' items. close_nd 2 store (ext_refl store) HF HR.
        cbn [XsltCore2Defs.run2 XsltCore2Defs.step2]. fold (cxof n l md). rewrite (gx_ext _ _ Hlk). rewrite Eg. cbn [ops_of flat_map]. rewrite emit_nil. reflexivity.
    - (* choose *)
      destruct (pick2 ev_bool (slk en) (cxof n l md) branches) as [[x|]|] eqn:Ep; try discriminate.
      + destruct (sem2 f tm wp (cxof n l md) x en) as [[e1 o1]|] eqn:Ex; try discriminate.
        inversion Hs; subst en' items. clear Hs.
        set (i := JChoose branches).
        destruct (Hf _ _ _ _ _ _ _ _ _ Ex ((i, [], false) :: stk) nodes cnl cur modes ifs pvs store o F R benv wpb HG HF HR Ht)
          as [k [store' [V [newb [Hrun [HV [HF1 [HR1 [Hext Hnil]]]]]]]]].
        rewrite (Hnil (pick_kind _ _ _ _ Ep)) in Hrun. cbn [app] in Hrun.
        close_nd (1 + (k + (1 + 1))) store' Hext HF HR.
        rewrite (run_to 1 _ _ _ (KStart x) (mkM2 ((i, [], false) :: stk) nodes (l :: cnl) (n :: cur) (md :: modes) ifs pvs (VS F R) store o)).
        2:{ cbn [XsltCore2Defs.run2 XsltCore2Defs.step2 i]. fold (cxof n l md). rewrite (pick_ext _ _ _ Hlk). rewrite Ep. reflexivity. }
        rewrite (run_to _ _ _ _ _ _ Hrun). reflexivity.
      + inversion Hs; subst en' items. close_nd 2 store (ext_refl store) HF HR.
        cbn [XsltCore2Defs.run2 XsltCore2Defs.step2]. fold (cxof n l md). rewrite (pick_ext _ _ _ Hlk). rewrite Ep. cbn [ops_of flat_map]. rewrite emit_nil. reflexivity.
    - (* when *)
      destruct (sem_seq2 (sem2 f tm wp (cxof n l md)) body en) as [o1|] eqn:Eb; try discriminate.
      inversion Hs; subst en' items. clear Hs.
      set (i := JWhen e body).
      destruct (block_sim f Hf _ _ _ _ _ _ _ _ Eb i stk nodes cnl cur modes ifs pvs store o F R benv wpb HG HF HR Ht)
        as [k [store' [v1 [Hrun [Hend Hext]]]]].
      close_nd (1 + (k + (1 + 1))) store' Hext HF HR.
      one KNext (mkM2 ((i, body, false) :: stk) nodes (l :: cnl) (n :: cur) (md :: modes) ifs pvs (begin_children2 body (VS F R)) store o).
      rewrite (run_to _ _ _ _ _ _ Hrun).
      one (KEnd i) (mkM2 stk nodes (l :: cnl) (n :: cur) (md :: modes) ifs pvs v1 store' (emit2 (ops_of o1) o)).
      cbn [XsltCore2Defs.run2 XsltCore2Defs.step2 i]. rewrite Hend. reflexivity.
    - (* otherwise *)
      destruct (sem_seq2 (sem2 f tm wp (cxof n l md)) body en) as [o1|] eqn:Eb; try discriminate.
      inversion Hs; subst en' items. clear Hs.
      set (i := JOtherwise body).
      destruct (block_sim f Hf _ _ _ _ _ _ _ _ Eb i stk nodes cnl cur modes ifs pvs store o F R benv wpb HG HF HR Ht)
        as [k [store' [v1 [Hrun [Hend Hext]]]]].
      close_nd (1 + (k + (1 + 1))) store' Hext HF HR.
      one KNext (mkM2 ((i, body, false) :: stk) nodes (l :: cnl) (n :: cur) (md :: modes) ifs pvs (begin_children2 body (VS F R)) store o).
      rewrite (run_to _ _ _ _ _ _ Hrun).
      one (KEnd i) (mkM2 stk nodes (l :: cnl) (n :: cur) (md :: modes) ifs pvs v1 store' (emit2 (ops_of o1) o)).
      cbn [XsltCore2Defs.run2 XsltCore2Defs.step2 i]. rewrite Hend. reflexivity.
    - (* for-each *)
      destruct body as [|b0 body'].
      + inversion Hs; subst en' items. close_nd 2 store (ext_refl store) HF HR. cbn [ops_of flat_map]. rewrite emit_nil. reflexivity.
      + set (body := b0 :: body') in *.
        destruct (sel_nodes (slk en) (cxof n l md) e srt) as [sl|] eqn:Esl; try discriminate.
        match type of Hs with match ?t with _ => _ end = _ => destruct t as [o1|] eqn:Ee; try discriminate end.
        inversion Hs; subst en' items. clear Hs.
        pose proof (sel_nodes_nodup _ _ _ _ _ Esl) as Hnd.
        set (i := JForEach e srt body).
        destruct sl as [|n1 rest].
        * simpl in Ee. inversion Ee; subst o1. close_nd 2 store (ext_refl store) HF HR.
          cbn [XsltCore2Defs.run2 XsltCore2Defs.step2 i body]. fold (cxof n l md). rewrite (sel_nodes_ext _ _ _ _ Hlk). rewrite Esl.
          cbn [ops_of flat_map tl_or_nil]. rewrite emit_nil. reflexivity.
        * cbn [cmode cxof] in Ee.
          destruct (foreach_loop f Hf e srt body tm wp md en (n1 :: rest) Hnd rest n1 [] o1 eq_refl Ee stk nodes (l :: cnl) (n :: cur) modes ifs pvs store o F R benv wpb HG HF HR Ht)
            as [k [store' [v1 [nl [Hrun [Hend Hext]]]]]].
          close_nd (1 + (k + (1 + 1))) store' Hext HF HR.
          rewrite (run_to 1 _ _ _ KNext (mkM2 ((i, body, false) :: stk) (rest :: nodes) ((n1 :: rest) :: l :: cnl) (n1 :: n :: cur) (md :: modes) ifs pvs (begin_children2 body (VS F R)) store o)).
          2:{ cbn [XsltCore2Defs.run2 XsltCore2Defs.step2 i body]. fold (cxof n l md). rewrite (sel_nodes_ext _ _ _ _ Hlk). rewrite Esl. reflexivity. }
          rewrite (run_to _ _ _ _ _ _ Hrun).
          one (KEnd i) (mkM2 stk ([] :: nodes) ((n1 :: rest) :: l :: cnl) (n :: cur) (md :: modes) ifs pvs v1 store' (emit2 (ops_of o1) o)).
          cbn [XsltCore2Defs.run2 XsltCore2Defs.step2 i body]. fold body. rewrite Hend. reflexivity.
    - (* call-template *)
      destruct (sem_wps2 (sem_seq2 (sem2 f (tfrag tm) wp (cxof n l md))) (cxof n l md) en wps) as [pv|] eqn:Ew; try discriminate.
      destruct (sem_tmpl2 (sem2 f tm) pv (cxof n l md) t) as [o1|] eqn:Et; try discriminate.
      inversion Hs; subst en' items. clear Hs.
      set (i := JCall t wps).
      destruct (tmpl_sim f Hf _ _ _ _ _ _ _ Et) as [tmi [Hgt Htm]].
      assert (Hpush : forall pb, push_params pb (push ECtx (VS F R)) = VS (rev (map (fun p => EParam (fst p) (snd p)) pb)) (F ++ ECtx :: R)).
      { intros. unfold VS. rewrite push_st. rewrite push_params_st. reflexivity. }
      assert (Hfin : forall Fp2 store2 pb, TF true Fp2 pb ->
                     run2 (1 + 1) KNext (mkM2 ((i, [], true) :: stk) nodes (l :: cnl) (n :: cur) (md :: modes) ifs pvs (VS Fp2 (F ++ ECtx :: R)) store2 (emit2 (ops_of o1) o))
                     = Run2 KNext (mkM2 stk nodes (l :: cnl) (n :: cur) (md :: modes) ifs pvs (VS F R) store2 (emit2 (ops_of o1) o))).
      { intros Fp2 store2 pb HT2. cbn [XsltCore2Defs.run2 XsltCore2Defs.step2 i plus]. unfold VS. rewrite pop_ctx_st. reflexivity. destruct HT2 as [[T0 _] _]; auto. }
      destruct wps as [|w0 wps'].
      + (* no with-param: the marker is pushed by startElement *)
        simpl in Ew. inversion Ew; subst pv.
        assert (HTP : TF true [] []) by apply (TF_params true []).
        assert (HGP : GoodR [] (F ++ ECtx :: R)) by (apply Good_nested; auto).
        destruct (Htm ((i, [], true) :: stk) nodes cnl cur modes ifs pvs store o [] (F ++ ECtx :: R) [] HGP HTP (Forall2_nil _) Ht)
          as [k2 [store2 [Fp2 [Hrun2 [HT2 [HG2 [HP2 Hext2]]]]]]].
        close_nd (1 + (k2 + (1 + 1))) store2 Hext2 HF HR.
        rewrite (run_to 1 _ _ _ (KStart tmi) (mkM2 ((i, [], true) :: stk) nodes (l :: cnl) (n :: cur) (md :: modes) ifs pvs (VS [] (F ++ ECtx :: R)) store o)).
        2:{ cbn [XsltCore2Defs.run2 XsltCore2Defs.step2 i]. rewrite Hgt. unfold VS. rewrite push_st. reflexivity. }
        rewrite (run_to _ _ _ _ _ _ Hrun2). exact (Hfin _ _ _ HT2).
      + destruct (wps_sim f Hf _ _ _ _ _ _ _ _ Ew i stk nodes cnl cur modes ifs [] pvs store o F R benv wpb HG HF HR Ht)
          as [k1 [store1 [pb [Hrun1 [HP1 Hext1]]]]].
        cbn [app] in Hrun1.
        set (P := rev (map (fun p => EParam (fst p) (snd p)) pb)).
        assert (HTP : TF true P pb) by apply TF_params.
        assert (HGP : GoodR P (F ++ ECtx :: R)).
        { apply Good_nested; auto. destruct HTP as [[T0 _] _]; auto. }
        destruct (Htm ((i, [], true) :: stk) nodes cnl cur modes ifs pvs store1 o P (F ++ ECtx :: R) pb HGP HTP HP1 Ht)
          as [k2 [store2 [Fp2 [Hrun2 [HT2 [HG2 [HP2 Hext2]]]]]]].
        assert (Hext : exists ext, store2 = store ++ ext) by (eapply ext_trans; eauto).
        close_nd (1 + (k1 + (1 + (k2 + (1 + 1))))) store2 Hext HF HR.
        one KNext (mkM2 ((i, w0 :: wps', false) :: stk) nodes (l :: cnl) (n :: cur) (md :: modes) ifs ([] :: pvs) (VS F R) store o).
        rewrite (run_to _ _ _ _ _ _ Hrun1).
        rewrite (run_to 1 _ _ _ (KStart tmi) (mkM2 ((i, [], true) :: stk) nodes (l :: cnl) (n :: cur) (md :: modes) ifs pvs (VS P (F ++ ECtx :: R)) store1 o)).
        2:{ cbn [XsltCore2Defs.run2 XsltCore2Defs.step2 i]. rewrite Hgt. rewrite Hpush. reflexivity. }
        rewrite (run_to _ _ _ _ _ _ Hrun2). exact (Hfin _ _ _ HT2).
    - (* apply-templates *)
      set (md1 := match m with Some m' => m' | None => md end).
      change (match m with Some m' => m' | None => cmode (cxof n l md) end) with md1 in Hs.
      change (mkC (cnode (cxof n l md)) (cpos (cxof n l md)) (csize (cxof n l md)) md1) with (cxof n l md1) in Hs.
      destruct (sem_wps2 (sem_seq2 (sem2 f (tfrag tm) wp (cxof n l md1))) (cxof n l md1) en wps) as [pv|] eqn:Ew; try discriminate.
      destruct (sel_nodes (slk en) (cxof n l md1) e srt) as [sl|] eqn:Esl; try discriminate.
      match type of Hs with match ?t with _ => _ end = _ => destruct t as [o1|] eqn:Ee; try discriminate end.
      inversion Hs; subst en' items. clear Hs.
      pose proof (sel_nodes_nodup _ _ _ _ _ Esl) as Hnd.
      set (i := JApply e m srt wps).
      set (modes' := match m with Some _ => md :: modes | None => modes end).
      destruct (wps_sim f Hf _ _ _ _ _ _ _ _ Ew i stk nodes cnl cur modes' ifs [] pvs store o F R benv wpb HG HF HR Ht)
        as [k1 [store1 [pb [Hrun1 [HP1 Hext1]]]]].
      cbn [app] in Hrun1.
      set (P := rev (map (fun p => EParam (fst p) (snd p)) pb)).
      assert (HTP : TF true P pb) by apply TF_params.
      assert (HGP : GoodR P (F ++ ECtx :: R)).
      { apply Good_nested; auto. destruct HTP as [[T0 _] _]; auto. }
      destruct (apply_loop f Hf e m srt wps tm pv md1 sl Hnd sl [] o1 eq_refl Ee stk nodes (l :: cnl) (n :: cur) modes' ifs pvs store1 o P (F ++ ECtx :: R) pb HGP HTP HP1 Ht)
        as [k2 [store2 [Fp2 [Hrun2 [HT2 [HG2 Hext2]]]]]].
      assert (Hext : exists ext, store2 = store ++ ext) by (eapply ext_trans; eauto).
      assert (Hsel : sel_nodes (mlk (VS F R) store1) (cxof n l md1) e srt = Some sl).
      { rewrite (sel_nodes_ext _ _ _ _ (fun xs => mlk_slk F R benv wpb store1 en xs HG HF (Res_ext' _ _ _ _ Hext1 HR))). exact Esl. }
      close_nd (1 + (k1 + (S k2 + 1))) store2 Hext HF HR.
      rewrite (run_to 1 _ _ _ KNext (mkM2 ((i, wps, false) :: stk) nodes (l :: cnl) (n :: cur) (md1 :: modes') ifs ([] :: pvs) (VS F R) store o)).
      2:{ unfold i, md1, modes'. destruct m; destruct wps; reflexivity. }
      rewrite (run_to _ _ _ _ _ _ Hrun1).
      rewrite (run_to _ _ _ _ _ _ (Hrun2 _ _ (step_apply_select e m srt wps stk nodes l cnl n cur md1 modes' ifs pb pvs F R store1 o sl Hsel))).
      cbn [XsltCore2Defs.run2 XsltCore2Defs.step2 i]. unfold VS. rewrite pop_ctx_st by (destruct HT2 as [[T0 _] _]; auto).
      unfold md1, modes'. destruct m; reflexivity.
    - (* variable *)
      destruct (lookup_v n0 en) eqn:Eo; try discriminate.
      pose proof (Res_lookup_none _ _ _ _ HR Eo) as Hnb.
      destruct (sem_vvalue2 (sem_seq2 (sem2 f (tfrag tm) wp (cxof n l md))) (cxof n l md) sel body en) as [v|] eqn:Ev; try discriminate.
      inversion Hs; subst en' items. clear Hs. cbn [ops_of flat_map]. rewrite emit_nil.
      set (i := JVar n0 sel body).
      assert (Hone : exists k1 store1,
                run2 k1 (KStart i) (mkM2 stk nodes (l :: cnl) (n :: cur) (md :: modes) ifs pvs (VS F R) store o)
                = Run2 KNext (mkM2 stk nodes (l :: cnl) (n :: cur) (md :: modes) ifs pvs (VS (EVar n0 (N.of_nat (length store1)) :: F) R) (store1 ++ [v]) o)
                /\ (exists ext, store1 = store ++ ext)).
      { unfold XsltCore2Defs.sem_vvalue2 in Ev. destruct sel as [e|].
        - exists 2, store. split; [|apply ext_refl]. cbn [XsltCore2Defs.run2]. unfold i. rewrite step_var_start.
          rewrite (start_value_sel F R benv wpb store en _ _ _ HG HF HR Ev). rewrite push_variable_VS by assumption. rewrite step_var_end. reflexivity.
        - destruct body as [|b0 body'].
          + inversion Ev; subst v. exists 2, store. split; [|apply ext_refl].
            cbn [XsltCore2Defs.run2]. unfold i. rewrite step_var_start. cbn [start_value2]. rewrite push_variable_VS by assumption. rewrite step_var_end. reflexivity.
          + match type of Ev with match ?t with _ => _ end = _ => destruct t as [its|] eqn:Eb; try discriminate end.
            inversion Ev; subst v. clear Ev.
            destruct (rtf_sim f Hf i (b0 :: body') tm wp n l md en its (or_intror (ex_intro _ n0 (ex_intro _ None (ex_intro _ (b0 :: body') eq_refl)))) Eb
                        stk nodes cnl cur modes ifs pvs store o F R benv wpb HG HF HR Ht)
              as [k [store1 [v1 [e1 [Hrun [Hend [Hpop Hext]]]]]]].
            exists (1 + (k + 1)), store1. split; [|exact Hext].
            rewrite (run_to 1 _ _ _ KNext (mkM2 ((i, b0 :: body', false) :: stk) nodes (l :: cnl) (n :: cur) (md :: modes) ifs pvs (begin_children2 (b0 :: body') (VS F R)) store (frag_begin fx_frag o))) by reflexivity.
            rewrite (run_to _ _ _ _ _ _ Hrun). cbn [XsltCore2Defs.run2]. unfold i. rewrite step_var_end. cbn [is_rtf_def2].
            rewrite Hend. rewrite Hpop. rewrite push_variable_VS by assumption. reflexivity. }
      destruct Hone as [k1 [store1 [Hrun1 Hext1]]].
      exists k1, (store1 ++ [v]), [EVar n0 (N.of_nat (length store1))], [(n0, N.of_nat (length store1))].
      split; [exact Hrun1|]. split; [constructor; simpl; auto|]. split; [apply Fr_push_var; auto|].
      split; [apply Res_cons_new; eapply Res_ext'; eauto|]. split; [eapply ext_trans; [exact Hext1|eexists; reflexivity]|]. intros; discriminate.
    - (* copy *)
      cbn [cnode cxof] in Hs. destruct (node_shallow n) as [nm| |its] eqn:Esh.
      + destruct (nonempty nm) eqn:En; cbn [andb] in Hs; try discriminate.
        destruct (elem_guard gd tm) eqn:Egd; try discriminate.
        pose proof (elem_guard_mflag _ _ _ Hgf Egd) as Eton.
        match type of Hs with match ?t with _ => _ end = _ => destruct t as [o1|] eqn:Eb; try discriminate end.
        inversion Hs; subst en' items. clear Hs. fold (cxof n l md) in Eb.
        set (i := JCopy body).
        destruct (block_sim f Hf _ _ _ _ _ _ _ _ Eb i stk nodes cnl cur modes ifs pvs store (emit2 [IStart nm] o) F R benv wpb HG HF HR Ht)
          as [k [store' [v1 [Hrun [Hend Hext]]]]].
        close_nd (1 + (k + (1 + 1))) store' Hext HF HR.
        rewrite (run_to 1 _ _ _ KNext (mkM2 ((i, body, false) :: stk) nodes (l :: cnl) (n :: cur) (md :: modes) ifs pvs (begin_children2 body (VS F R)) store (emit2 [IStart nm] o))).
        2:{ cbn [XsltCore2Defs.run2 XsltCore2Defs.step2 i]. rewrite Esh. rewrite Ht. rewrite Eton. reflexivity. }
        rewrite (run_to _ _ _ _ _ _ Hrun).
        one (KEnd i) (mkM2 stk nodes (l :: cnl) (n :: cur) (md :: modes) ifs pvs v1 store' (emit2 (ops_of o1) (emit2 [IStart nm] o))).
        cbn [XsltCore2Defs.run2 XsltCore2Defs.step2 i]. rewrite Esh.
        change (tflag (emit2 (ops_of o1) (emit2 [IStart nm] o))) with (tflag o). rewrite Ht. rewrite Eton. cbn [andb]. rewrite Hend.
        rewrite <- (emit_elem nm [] o1 o). reflexivity.
      + match type of Hs with match ?t with _ => _ end = _ => destruct t as [o1|] eqn:Eb; try discriminate end.
        inversion Hs; subst en' items. clear Hs. fold (cxof n l md) in Eb.
        set (i := JCopy body).
        destruct (block_sim f Hf _ _ _ _ _ _ _ _ Eb i stk nodes cnl cur modes ifs pvs store o F R benv wpb HG HF HR Ht)
          as [k [store' [v1 [Hrun [Hend Hext]]]]].
        close_nd (1 + (k + (1 + 1))) store' Hext HF HR.
        rewrite (run_to 1 _ _ _ KNext (mkM2 ((i, body, false) :: stk) nodes (l :: cnl) (n :: cur) (md :: modes) ifs pvs (begin_children2 body (VS F R)) store o)).
        2:{ cbn [XsltCore2Defs.run2 XsltCore2Defs.step2 i]. rewrite Esh. reflexivity. }
        rewrite (run_to _ _ _ _ _ _ Hrun).
        one (KEnd i) (mkM2 stk nodes (l :: cnl) (n :: cur) (md :: modes) ifs pvs v1 store' (emit2 (ops_of o1) o)).
        cbn [XsltCore2Defs.run2 XsltCore2Defs.step2 i]. rewrite Esh. rewrite Hend. reflexivity.
      + destruct (copy_guard gd tm its) as [its'|] eqn:Ecg; try discriminate.
        destruct (copy_guard_tfilter _ _ _ _ _ Hgf Ecg) as [Ei Ef]. subst its'.
        inversion Hs; subst en' items. close_nd 2 store (ext_refl store) HF HR.
        cbn [XsltCore2Defs.run2 XsltCore2Defs.step2]. rewrite Esh. cbn [XsltCore2Defs.run2 XsltCore2Defs.step2]. rewrite Esh.
        rewrite Ht. rewrite Ef. reflexivity.
    - (* copy-of *)
      destruct (gx ev_value (slk en) (cxof n l md) e) as [v|] eqn:Eg; try discriminate.
      destruct (copy_guard gd tm (copy_items node_copy v)) as [its'|] eqn:Ecg; try discriminate.
      destruct (copy_guard_tfilter _ _ _ _ _ Hgf Ecg) as [Ei Ef]. subst its'.
      inversion Hs; subst en' items. close_nd 2 store (ext_refl store) HF HR.
      cbn [XsltCore2Defs.run2 XsltCore2Defs.step2]. fold (cxof n l md). rewrite (gx_ext _ _ Hlk). rewrite Eg. rewrite Ht. rewrite Ef. reflexivity.
    - (* attribute *)
      destruct (ev_avt ev_string (slk en) (cxof n l md) v) as [t|] eqn:Eg; try discriminate.
      inversion Hs; subst en' items. close_nd 2 store (ext_refl store) HF HR.
      cbn [XsltCore2Defs.run2 XsltCore2Defs.step2]. fold (cxof n l md). rewrite (ev_avt_ext _ _ _ Hlk). rewrite Eg. reflexivity.
    - (* xsl:element: the name travels on the cached-string stack from startElement to endElement *)
      destruct (ev_avt ev_string (slk en) (cxof n l md) nm) as [en0|] eqn:Ea; try discriminate.
      destruct (name_ok en0) eqn:En; try discriminate.
      destruct (sem_seq2 (sem2 f tm wp (cxof n l md)) body en) as [o1|] eqn:Eb; try discriminate.
      inversion Hs; subst en' items. clear Hs.
      set (i := JElement nm body).
      destruct (block_sim f Hf _ _ _ _ _ _ _ _ Eb i stk nodes cnl cur modes ifs pvs store (emit2 [IStart en0] (push_str en0 o)) F R benv wpb HG HF HR Ht)
        as [k [store' [v1 [Hrun [Hend Hext]]]]].
      close_nd (1 + (k + (1 + 1))) store' Hext HF HR.
      rewrite (run_to 1 _ _ _ KNext (mkM2 ((i, body, false) :: stk) nodes (l :: cnl) (n :: cur) (md :: modes) ifs pvs (begin_children2 body (VS F R)) store (emit2 [IStart en0] (push_str en0 o)))).
      2:{ cbn [XsltCore2Defs.run2 XsltCore2Defs.step2 i]. fold (cxof n l md). rewrite (ev_avt_ext _ _ _ Hlk). rewrite Ea. rewrite En. reflexivity. }
      rewrite (run_to _ _ _ _ _ _ Hrun).
      one (KEnd i) (mkM2 stk nodes (l :: cnl) (n :: cur) (md :: modes) ifs pvs v1 store' (emit2 (ops_of o1) (emit2 [IStart en0] (push_str en0 o)))).
      cbn [XsltCore2Defs.run2 XsltCore2Defs.step2 i]. rewrite Hend. rewrite pop_str_emit2.
      rewrite <- (emit_elem en0 [] o1 o). reflexivity.
    - (* xsl:comment: the body runs against a text collector, in copy-text-nodes-only mode *)
      destruct (sem_seq2 (sem2 f TOn wp (cxof n l md)) body en) as [o1|] eqn:Eb; try discriminate.
      destruct (text_of_items o1) as [s|] eqn:Et; try discriminate.
      inversion Hs; subst en' items. clear Hs.
      set (i := JComment body).
      destruct (single_text body) as [t0|] eqn:Est.
      + pose proof (single_text_eq _ _ Est) as Eb0. subst body.
        destruct f as [|f0]; [discriminate|].
        cbn [XsltCore2Defs.sem_seq2 XsltCore2Defs.sem2 app] in Eb. inversion Eb; subst o1. clear Eb.
        cbn [text_of_items] in Et. inversion Et; subst s. rewrite app_nil_r.
        close_nd 2 store (ext_refl store) HF HR.
        cbn [XsltCore2Defs.run2 XsltCore2Defs.step2 i single_text]. reflexivity.
      + assert (Ht1 : tflag (push_fmt e_init (push_str [] (push_txt true o))) = mflag fx_frag TOn) by reflexivity.
        destruct (block_sim f Hf _ _ _ _ _ _ _ _ Eb i stk nodes cnl cur modes ifs pvs store (push_fmt e_init (push_str [] (push_txt true o))) F R benv wpb HG HF HR Ht1)
          as [k [store' [v1 [Hrun [Hend Hext]]]]].
        close_nd (1 + (k + (1 + 1))) store' Hext HF HR.
        rewrite (run_to 1 _ _ _ KNext (mkM2 ((i, body, false) :: stk) nodes (l :: cnl) (n :: cur) (md :: modes) ifs pvs (begin_children2 body (VS F R)) store (push_fmt e_init (push_str [] (push_txt true o))))).
        2:{ cbn [XsltCore2Defs.run2 XsltCore2Defs.step2 i]. rewrite Est. reflexivity. }
        rewrite (run_to _ _ _ _ _ _ Hrun).
        one (KEnd i) (mkM2 stk nodes (l :: cnl) (n :: cur) (md :: modes) ifs pvs v1 store' (emit2 (ops_of o1) (push_fmt e_init (push_str [] (push_txt true o))))).
        cbn [XsltCore2Defs.run2 XsltCore2Defs.step2 i]. rewrite Est. rewrite Hend. rewrite pop_text_collector by reflexivity.
        rewrite (collector_text _ _ Et). reflexivity.
    - (* xsl:processing-instruction *)
      destruct (ev_avt ev_string (slk en) (cxof n l md) nm) as [pn|] eqn:Ea; try discriminate.
      destruct (pi_ok pn) eqn:En; try discriminate.
      destruct (sem_seq2 (sem2 f TOn wp (cxof n l md)) body en) as [o1|] eqn:Eb; try discriminate.
      destruct (text_of_items o1) as [s|] eqn:Et; try discriminate.
      inversion Hs; subst en' items. clear Hs.
      set (i := JPI nm body).
      destruct (single_text body) as [t0|] eqn:Est.
      + pose proof (single_text_eq _ _ Est) as Eb0. subst body.
        destruct f as [|f0]; [discriminate|].
        cbn [XsltCore2Defs.sem_seq2 XsltCore2Defs.sem2 app] in Eb. inversion Eb; subst o1. clear Eb.
        cbn [text_of_items] in Et. inversion Et; subst s. rewrite app_nil_r.
        close_nd 2 store (ext_refl store) HF HR.
        cbn [XsltCore2Defs.run2 XsltCore2Defs.step2 i]. fold (cxof n l md). rewrite (ev_avt_ext _ _ _ Hlk). rewrite Ea. rewrite En.
        cbn [single_text XsltCore2Defs.step2]. reflexivity.
      + assert (Ht1 : tflag (push_fmt e_init (push_txt true (push_str [] (push_str pn o)))) = mflag fx_frag TOn) by reflexivity.
        destruct (block_sim f Hf _ _ _ _ _ _ _ _ Eb i stk nodes cnl cur modes ifs pvs store (push_fmt e_init (push_txt true (push_str [] (push_str pn o)))) F R benv wpb HG HF HR Ht1)
          as [k [store' [v1 [Hrun [Hend Hext]]]]].
        close_nd (1 + (k + (1 + 1))) store' Hext HF HR.
        rewrite (run_to 1 _ _ _ KNext (mkM2 ((i, body, false) :: stk) nodes (l :: cnl) (n :: cur) (md :: modes) ifs pvs (begin_children2 body (VS F R)) store (push_fmt e_init (push_txt true (push_str [] (push_str pn o)))))).
        2:{ cbn [XsltCore2Defs.run2 XsltCore2Defs.step2 i]. fold (cxof n l md). rewrite (ev_avt_ext _ _ _ Hlk). rewrite Ea. rewrite En. rewrite Est. reflexivity. }
        rewrite (run_to _ _ _ _ _ _ Hrun).
        one (KEnd i) (mkM2 stk nodes (l :: cnl) (n :: cur) (md :: modes) ifs pvs v1 store' (emit2 (ops_of o1) (push_fmt e_init (push_txt true (push_str [] (push_str pn o)))))).
        cbn [XsltCore2Defs.run2 XsltCore2Defs.step2 i]. rewrite Est. rewrite Hend. rewrite pop_text_collector by reflexivity.
        rewrite (collector_text _ _ Et). reflexivity.
    - (* literal result element using attribute sets: start tag, the sets, the element's own AVTs, the content *)
      destruct (nonempty n0) eqn:En; try discriminate.
      destruct (sem_seq2 (sem2 f tm wp (cxof n l md)) (use_sets use) en) as [sa|] eqn:Esa; try discriminate.
      destruct (ev_atts ev_string (slk en) (cxof n l md) atts) as [pre|] eqn:Ea; try discriminate.
      destruct (sem_seq2 (sem2 f tm wp (cxof n l md)) body en) as [o1|] eqn:Eb; try discriminate.
      inversion Hs; subst en' items. clear Hs.
      set (i := JLreU n0 use atts body).
      pose proof (sets_attr_only _ _ _ _ _ _ _ (use_sets_like use) Esa) as Hattr.
      destruct (frame_of_good body F R benv wpb HG HF) as [HG0 HF0].
      set (o0 := emit2 [IStart n0] o).
      destruct (seq_sim_app f Hf _ (JAvts atts :: body) _ _ _ _ _ _ _ Esa i stk nodes cnl cur modes ifs pvs store o0 (frame_of body F) R benv wpb HG0 HF0 HR Ht)
        as [k1 [store1 [V1 [Hrun1 [HV1 [Hext1 Hnil1]]]]]].
      rewrite (Hnil1 (use_sets_nodecl use)) in Hrun1. cbn [app] in Hrun1.
      set (o2 := emit2 (map (fun p => IAttr (fst p) (snd p)) pre) (emit2 (ops_of sa) o0)).
      pose proof (Res_ext' _ _ _ _ Hext1 HR) as HR1.
      destruct (seq_sim f Hf _ _ _ _ _ _ _ _ Eb i stk nodes cnl cur modes ifs pvs store1 o2 (frame_of body F) R benv wpb HG0 HF0 HR1 Ht)
        as [k2 [store2 [V2 [Hrun2 [HV2 [Hext2 Hnil2]]]]]].
      assert (Hext : exists ext, store2 = store ++ ext) by (eapply ext_trans; eauto).
      close_nd (1 + (k1 + (1 + (1 + (1 + (k2 + (1 + 1))))))) store2 Hext HF HR.
      rewrite (run_to 1 _ _ _ KNext (mkM2 ((i, use_sets use ++ JAvts atts :: body, false) :: stk) nodes (l :: cnl) (n :: cur) (md :: modes) ifs pvs (VS (frame_of body F) R) store o0)).
      2:{ cbn [XsltCore2Defs.run2 XsltCore2Defs.step2 i]. rewrite begin_VS. reflexivity. }
      rewrite (run_to _ _ _ _ _ _ Hrun1).
      one (KStart (JAvts atts)) (mkM2 ((i, body, false) :: stk) nodes (l :: cnl) (n :: cur) (md :: modes) ifs pvs (VS (frame_of body F) R) store1 (emit2 (ops_of sa) o0)).
      rewrite (run_to 1 _ _ _ (KEnd (JAvts atts)) (mkM2 ((i, body, false) :: stk) nodes (l :: cnl) (n :: cur) (md :: modes) ifs pvs (VS (frame_of body F) R) store1 o2)).
      2:{ cbn [XsltCore2Defs.run2 XsltCore2Defs.step2]. fold (cxof n l md).
          rewrite (ev_atts_ext _ _ _ (fun xs => mlk_slk (frame_of body F) R benv wpb store1 en xs HG0 HF0 HR1)). rewrite Ea.
          unfold o0. rewrite emit_avts_ops by assumption. reflexivity. }
      one KNext (mkM2 ((i, body, false) :: stk) nodes (l :: cnl) (n :: cur) (md :: modes) ifs pvs (VS (frame_of body F) R) store1 o2).
      rewrite (run_to _ _ _ _ _ _ Hrun2).
      one (KEnd i) (mkM2 stk nodes (l :: cnl) (n :: cur) (md :: modes) ifs pvs (VS (V2 ++ frame_of body F) R) store2 (emit2 (ops_of o1) o2)).
      cbn [XsltCore2Defs.run2 XsltCore2Defs.step2 i]. unfold frame_of. rewrite (end_children_VS body V2 F R HG HV2 Hnil2).
      unfold o2, o0. rewrite <- !emit_app. f_equal. unfold ops_of. cbn [flat_map ops_of_item map app]. rewrite app_nil_r.
      rewrite !flat_map_app. fold (ops_of (attr_items pre)). rewrite ops_of_attr_items. rewrite <- !app_assoc. reflexivity.
    - (* xsl:element using attribute sets *)
      destruct (ev_avt ev_string (slk en) (cxof n l md) nm) as [en0|] eqn:Ea; try discriminate.
      destruct (name_ok en0) eqn:En; try discriminate.
      destruct (sem_seq2 (sem2 f tm wp (cxof n l md)) (use_sets use) en) as [sa|] eqn:Esa; try discriminate.
      destruct (sem_seq2 (sem2 f tm wp (cxof n l md)) body en) as [o1|] eqn:Eb; try discriminate.
      inversion Hs; subst en' items. clear Hs.
      set (i := JElementU nm use body).
      destruct (block_pre_sim f Hf _ _ _ _ _ _ _ _ _ _ (use_sets_nodecl use) Esa Eb i stk nodes cnl cur modes ifs pvs store (emit2 [IStart en0] (push_str en0 o)) F R benv wpb HG HF HR Ht)
        as [k [store' [v1 [Hrun [Hend Hext]]]]].
      close_nd (1 + (k + (1 + 1))) store' Hext HF HR.
      rewrite (run_to 1 _ _ _ KNext (mkM2 ((i, use_sets use ++ body, false) :: stk) nodes (l :: cnl) (n :: cur) (md :: modes) ifs pvs (begin_children2 body (VS F R)) store (emit2 [IStart en0] (push_str en0 o)))).
      2:{ cbn [XsltCore2Defs.run2 XsltCore2Defs.step2 i]. fold (cxof n l md). rewrite (ev_avt_ext _ _ _ Hlk). rewrite Ea. rewrite En. reflexivity. }
      rewrite (run_to _ _ _ _ _ _ Hrun).
      one (KEnd i) (mkM2 stk nodes (l :: cnl) (n :: cur) (md :: modes) ifs pvs v1 store' (emit2 (ops_of (sa ++ o1)) (emit2 [IStart en0] (push_str en0 o)))).
      cbn [XsltCore2Defs.run2 XsltCore2Defs.step2 i]. rewrite Hend. rewrite pop_str_emit2.
      rewrite <- (emit_elem en0 [] (sa ++ o1) o). reflexivity.
    - (* xsl:copy using attribute sets *)
      cbn [cnode cxof] in Hs. destruct (node_shallow n) as [nm| |its] eqn:Esh.
      + destruct (nonempty nm) eqn:En; cbn [andb] in Hs; try discriminate.
        destruct (elem_guard gd tm) eqn:Egd; try discriminate.
        pose proof (elem_guard_mflag _ _ _ Hgf Egd) as Eton.
        fold (cxof n l md) in Hs.
        destruct (sem_seq2 (sem2 f tm wp (cxof n l md)) (use_sets use) en) as [sa|] eqn:Esa; try discriminate.
        destruct (sem_seq2 (sem2 f tm wp (cxof n l md)) body en) as [o1|] eqn:Eb; try discriminate.
        inversion Hs; subst en' items. clear Hs.
        set (i := JCopyU use body).
        destruct (block_pre_sim f Hf _ _ _ _ _ _ _ _ _ _ (use_sets_nodecl use) Esa Eb i stk nodes cnl cur modes ifs pvs store (emit2 [IStart nm] o) F R benv wpb HG HF HR Ht)
          as [k [store' [v1 [Hrun [Hend Hext]]]]].
        close_nd (1 + (k + (1 + 1))) store' Hext HF HR.
        rewrite (run_to 1 _ _ _ KNext (mkM2 ((i, use_sets use ++ body, false) :: stk) nodes (l :: cnl) (n :: cur) (md :: modes) ifs pvs (begin_children2 body (VS F R)) store (emit2 [IStart nm] o))).
        2:{ cbn [XsltCore2Defs.run2 XsltCore2Defs.step2 i]. rewrite Esh. rewrite Ht. rewrite Eton. reflexivity. }
        rewrite (run_to _ _ _ _ _ _ Hrun).
        one (KEnd i) (mkM2 stk nodes (l :: cnl) (n :: cur) (md :: modes) ifs pvs v1 store' (emit2 (ops_of (sa ++ o1)) (emit2 [IStart nm] o))).
        cbn [XsltCore2Defs.run2 XsltCore2Defs.step2 i]. rewrite Esh.
        change (tflag (emit2 (ops_of (sa ++ o1)) (emit2 [IStart nm] o))) with (tflag o). rewrite Ht. rewrite Eton. cbn [andb]. rewrite Hend.
        rewrite <- (emit_elem nm [] (sa ++ o1) o). reflexivity.
      + match type of Hs with match ?t with _ => _ end = _ => destruct t as [o1|] eqn:Eb; try discriminate end.
        inversion Hs; subst en' items. clear Hs. fold (cxof n l md) in Eb.
        set (i := JCopyU use body).
        destruct (block_sim f Hf _ _ _ _ _ _ _ _ Eb i stk nodes cnl cur modes ifs pvs store o F R benv wpb HG HF HR Ht)
          as [k [store' [v1 [Hrun [Hend Hext]]]]].
        close_nd (1 + (k + (1 + 1))) store' Hext HF HR.
        rewrite (run_to 1 _ _ _ KNext (mkM2 ((i, body, false) :: stk) nodes (l :: cnl) (n :: cur) (md :: modes) ifs pvs (begin_children2 body (VS F R)) store o)).
        2:{ cbn [XsltCore2Defs.run2 XsltCore2Defs.step2 i]. rewrite Esh. reflexivity. }
        rewrite (run_to _ _ _ _ _ _ Hrun).
        one (KEnd i) (mkM2 stk nodes (l :: cnl) (n :: cur) (md :: modes) ifs pvs v1 store' (emit2 (ops_of o1) o)).
        cbn [XsltCore2Defs.run2 XsltCore2Defs.step2 i]. rewrite Esh. rewrite Hend. reflexivity.
      + destruct (copy_guard gd tm its) as [its'|] eqn:Ecg; try discriminate.
        destruct (copy_guard_tfilter _ _ _ _ _ Hgf Ecg) as [Ei Ef]. subst its'.
        inversion Hs; subst en' items. close_nd 2 store (ext_refl store) HF HR.
        cbn [XsltCore2Defs.run2 XsltCore2Defs.step2]. rewrite Esh. cbn [XsltCore2Defs.run2 XsltCore2Defs.step2]. rewrite Esh.
        rewrite Ht. rewrite Ef. reflexivity.
    - (* an attribute set: under a context marker (no local binding of the user is visible), its own sets, then its attributes *)
      destruct (nth_error templates (N.to_nat k)) as [[]|] eqn:Et; try discriminate.
      destruct (sem_seq2 (sem2 f tm wp (cxof n l md)) (set_body use atts) []) as [o1|] eqn:Eb; try discriminate.
      inversion Hs; subst en' items. clear Hs.
      set (i := JSet k).
      assert (HGn : GoodR [] (F ++ ECtx :: R)) by (apply Good_nested; [constructor|exact HG]).
      assert (HFn : Fr true [] [] []) by (apply TF_Fr; apply (TF_params true [])).
      destruct (seq_sim f Hf _ _ _ _ _ _ _ _ Eb i stk nodes cnl cur modes ifs pvs store o [] (F ++ ECtx :: R) [] [] HGn HFn (Forall2_nil _) Ht)
        as [k1 [store1 [V1 [Hrun1 [HV1 [Hext1 Hnil1]]]]]].
      rewrite (Hnil1 (set_body_nodecl use atts)) in Hrun1. cbn [app] in Hrun1.
      close_nd (1 + (k1 + (1 + 1))) store1 Hext1 HF HR.
      rewrite (run_to 1 _ _ _ KNext (mkM2 ((i, set_body use atts, false) :: stk) nodes (l :: cnl) (n :: cur) (md :: modes) ifs pvs (VS [] (F ++ ECtx :: R)) store o)).
      2:{ cbn [XsltCore2Defs.run2 XsltCore2Defs.step2 i]. rewrite Et. unfold VS. rewrite push_st. reflexivity. }
      rewrite (run_to _ _ _ _ _ _ Hrun1).
      one (KEnd i) (mkM2 stk nodes (l :: cnl) (n :: cur) (md :: modes) ifs pvs (VS [] (F ++ ECtx :: R)) store1 (emit2 (ops_of o1) o)).
      cbn [XsltCore2Defs.run2 XsltCore2Defs.step2 i]. unfold VS. rewrite (pop_ctx_st [] (F ++ ECtx :: R)) by constructor. reflexivity.
  Qed.

  Lemma sim_all : forall f, SimI f.
  Proof.
    induction f. intros i wp n l md en en' items Hs. discriminate. apply sim_S. assumption.
  Qed.

  (* ================= the whole transformation ================= *)
  Notation sem_main2 := (sem_main2 gd ev_value ev_string ev_bool ev_nodes ev_sort sel_template node_copy node_shallow templates name_ok pi_ok).
  Notation machine_main2 := (machine_main2 fx_frag fx_copy ev_value ev_string ev_bool ev_nodes ev_sort sel_template node_copy node_shallow templates name_ok pi_ok).

  Lemma init_vs : impl_start [] = VS [] [EFrame 0%N; ECtx].
  Proof. rewrite impl_start_st. reflexivity. Qed.

  Lemma init_good : GoodR [] [EFrame 0%N; ECtx].
  Proof. repeat split. constructor. discriminate. exists [ECtx]. reflexivity. Qed.

  Lemma init_ctx : forall root, mkC root 1%N 1%N 0%N = cxof root [root] 0%N.
  Proof. intros. unfold cxof, pos_of. simpl. rewrite N.eqb_refl. reflexivity. Qed.

  Theorem machine_refines_sem_thm : forall f root items,
    sem_main2 f root = Some items ->
    exists k s, (forall j, machine_main2 (k + j) root = Done2 s) /\ result_tree2 s = Some (result_of items).
  Proof.
    intros f root items H. unfold XsltCore2Defs.sem_main2 in H. unfold XsltCore2Defs.machine_main2.
    destruct (sel_template root 0%N) as [t|]; try discriminate.
    rewrite init_ctx in H.
    assert (Hok : forallb names_ok items = true).
    { eapply sem_tmpl_ok; [|exact H]. intros. apply sem_ok. }
    destruct (tmpl_sim f (sim_all f) _ _ _ _ _ _ _ H) as [tmi [Hgt Htm]]. rewrite Hgt.
    destruct (Htm [] [] [] [] [] [] [] [] (mkO [e_init] [] []) [] [EFrame 0%N; ECtx] [] init_good (TF_params true []) (Forall2_nil _) eq_refl)
      as [k [store' [Fp' [Hrun _]]]].
    unfold m_init2. rewrite init_vs.
    exists (k + 1). eexists. split.
    - intros j. apply run_done_more. rewrite (run_to _ _ _ _ _ _ Hrun). reflexivity.
    - unfold result_tree2, result_of. cbn [m2_out emit2 o_fmt].
      pose proof (pending_machine_builds_tree_thm items Hok) as X. unfold machine_tree, events_of in X. exact X.
  Qed.

  Lemma run_done_le : forall a b c st s, run2 a c st = Done2 s -> a <= b -> run2 b c st = Done2 s.
  Proof.
    intros. replace b with (a + (b - a)) by lia. apply run_done_more. assumption.
  Qed.

  Theorem machine_deterministic_thm : forall f root items n s',
    sem_main2 f root = Some items -> machine_main2 n root = Done2 s' ->
    result_tree2 s' = Some (result_of items).
  Proof.
    intros f root items n s' H Hm.
    destruct (machine_refines_sem_thm f root items H) as [k [s [Hk Hr]]].
    specialize (Hk n). unfold XsltCore2Defs.machine_main2 in *.
    destruct (sel_template root 0%N); try discriminate. destruct (get_template2 n0); try discriminate.
    assert (E1 : run2 (k + n) (KStart i) (m_init2 root) = Done2 s') by (eapply run_done_le; [exact Hm|lia]).
    rewrite E1 in Hk. inversion Hk; subst. exact Hr.
  Qed.

  Theorem sem_main_fuel_mono_thm : forall f f' root items,
    sem_main2 f root = Some items -> f <= f' -> sem_main2 f' root = Some items.
  Proof.
    intros f f' root items H Hle. unfold XsltCore2Defs.sem_main2 in *. destruct (sel_template root 0%N); try discriminate.
    eapply sem_tmpl_mono; [|exact H]. intros. apply sem_fuel_le. assumption.
  Qed.
End Core2Sim.

