"""C02x — stand-alone wrapper of the extension part of C02 (props/C02_ext.py) for development:
   python3 check.py C02x [--tier thorough] [--replay FILE]"""
import json
from vlib import core, xpxrun, xsltrun
from props.C02_ext import run_part, RTF_TOP

LEVEL = "proof"


def run(ctx):
    run_part(ctx)
    return ctx.finish("proof", checker_cmd="coq_makefile -f _CoqProject -o Makefile && make -k Properties_C02x.vo (Coq 8.16.1, full .vo build) ; coqc Properties_C02x.v (Print Assumptions)",
                      explanation="theorems over the Gallina models of the extension functions and id()'s tokenizer (tables and decisions "
                                  "regenerated from /repo) + correspondence of the extracted model with the rebuilt library on the "
                                  "library's own argument values + reference definitions (vlib/xpxref.py)")


def replay(ctx, path):
    """every JSON line {"source", "ctx", "type", "expr"} of the file is evaluated by the rebuilt library"""
    core.build_lib("plain")
    exe, ok, log = xsltrun.build()
    rows = [json.loads(l) for l in open(path, encoding="utf-8") if l.strip().startswith("{")]
    rb = [{"id": "r%d" % i, "source": row["source"], "ctx": row.get("ctx", ""), "exprs": [(0, row.get("type", "str"), row["expr"])], "extra_top": RTF_TOP}
          for i, row in enumerate(rows) if "expr" in row]
    res = xpxrun.run_batches(rb, exe=exe)
    for i, row in enumerate(rows):
        if "expr" not in row:
            continue
        r = res["r%d" % i]
        print("%s  [context %s]  =>  %r%s" % (row["expr"], row.get("ctx", "") or "/", r[1].get("0") if r[0] == "ok" else r,
                                             ("   (definition: %r)" % (row["expect"],)) if "expect" in row else ""))
    return 0
