(* Extraction of the model of the legacy XML serializer (C04, part "legacy") for the correspondence
   driver ocaml/serLegacy_driver.ml.  ExtrOcamlBasic only. *)
Require Import ExtrOcamlBasic.
From Coq Require Import ZArith.
Require Import XV.SerDefs XV.SerLegacyDefs XV.SerLegacyRawDefs.
(* Z.of_N only so that the type z exists for ocaml/conv.ml *)
Extraction "extracted/serLegacy_model.ml" lg_document lg_this_tree lg_chk_this_tree lg_comment lg_pi lg_write_content lg_write_attr lg_write_cdata u_serialize_raw lg_is_marker fam_of fam_other rep_all Z.of_N.
