(* XpSpecRelModel.v — steps and location paths of the interpreter model against the RELATIONAL path
   semantics of XpSpecDenDefs.v (declarative node test, predicate values given by a relation,
   definedness: an error in a predicate anywhere makes the path erroneous):
   [steps_from ... = Ok r]  <->  the path is defined at every context node, and r is the sorted list
   of the nodes the composition of the steps relates to them. *)
From Coq Require Import ZArith NArith List Bool Arith Lia Relations Sorted.
Require Import XV.XpAst XV.DomDefs XV.NumDefs XV.XpDefs XV.DomModel XV.XpModel
               XV.XpSpecDefs XV.XpSpecAxesModel XV.XpSpecIndexModel XV.XpSpecStepModel XV.XpSpecFuelModel
               XV.XpSpecEvalModel XV.XpSpecDenDefs.
Import ListNotations.

Section Rel.
  Variable ev : ctx -> expr -> res value.
  Variable c : ctx.
  Variable pv : expr -> nat -> nat -> nat -> res value.
  Hypothesis Hev : forall pe l i n, NoDup l -> nth_error l i = Some n ->
    ev (with_node c n l) pe = pv pe n (S i) (length l).
  Hypothesis Hnum : forall t x k m, pv (ENumLit t) x k m = Ok (VNum (string_to_number t)).
  Hypothesis Hsmall : (Z.of_nat (length (cx_doc c)) < 2 ^ 53)%Z.
  Hypothesis Hw : wfd (cx_doc c).
  (* the node test as coded is the declarative one (XpSpecNodeTestModel.v) *)
  Variable tstP : axis -> ntest -> nat -> Prop.
  Hypothesis Htst : forall ax t n, n < length (cx_doc c) -> ax <> AxNamespace ->
    match t with TName NsAny _ => False | _ => True end ->
    (test_node c ax t n = true <-> tstP ax t n).

  Let d := cx_doc c.
  Let pvR : expr -> nat -> nat -> nat -> value -> Prop := fun pe x k m v => pv pe x k m = Ok v.

  Lemma fs_iff ax (S : nat -> Prop) pe x : filter_set pv ax S pe x <-> filter_setR pvR ax S pe x.
  Proof.
    unfold filter_set, filter_setR, pos_size, pred_true, pvR, truth. split.
    - intros [Hx [k [m [Hk [Hm [v [Hv Ht]]]]]]]. split; [exact Hx|]. exists k, m, v. auto.
    - intros [Hx [k [m [v [[Hk Hm] [Hv Ht]]]]]]. split; [exact Hx|]. exists k, m. split; [exact Hk|]. split; [exact Hm|].
      exists v. auto.
  Qed.

  (* the general filter succeeds exactly when the predicate has a value at every node of the tail *)
  Lemma pred_filter_total l pe : NoDup l -> forall rest pre, l = pre ++ rest ->
    ((exists r, pred_filter ev c l pe rest (length pre) = Ok r) <->
     forall j x, nth_error rest j = Some x -> exists v, pv pe x (S (length pre + j)) (length l) = Ok v).
  Proof.
    intros Hnd. induction rest as [|n rest IH]; intros pre E; cbn [pred_filter].
    - split; [intros _ j x Hj; destruct j; discriminate | intros _; eexists; reflexivity].
    - assert (Hn : nth_error l (length pre) = Some n).
      { rewrite E, nth_error_app2 by lia. rewrite Nat.sub_diag. reflexivity. }
      rewrite (Hev pe l (length pre) n Hnd Hn).
      assert (E' : l = (pre ++ [n]) ++ rest) by (rewrite <- app_assoc; exact E).
      assert (Hl' : length (pre ++ [n]) = S (length pre)) by (rewrite app_length; simpl; lia).
      specialize (IH (pre ++ [n]) E'). rewrite Hl' in IH. split.
      + intros [r H] j x Hj. cbn [bind] in H.
        destruct (pv pe n (S (length pre)) (length l)) as [v|er] eqn:Ev; cbn [bind] in H; [|discriminate].
        destruct (pred_filter ev c l pe rest (S (length pre))) as [r'|er] eqn:Er; cbn [bind] in H; [|discriminate].
        destruct j as [|j]; cbn [nth_error] in Hj.
        * inversion Hj; subst x. rewrite Nat.add_0_r. eexists; exact Ev.
        * replace (length pre + S j) with (S (length pre) + j) by lia.
          apply (proj1 IH (ex_intro _ r' eq_refl) j x Hj).
      + intros Hall. destruct (Hall 0 n eq_refl) as [v Ev]. rewrite Nat.add_0_r in Ev. rewrite Ev. cbn [bind].
        destruct (proj2 IH) as [r' Er].
        { intros j x Hj. replace (S (length pre) + j) with (length pre + S j) by lia. apply (Hall (S j) x Hj). }
        rewrite Er. cbn [bind]. eexists; reflexivity.
  Qed.

  Lemma pos_size_of_list ax (S : nat -> Prop) l : axis_ordered ax l -> (forall y, In y l <-> S y) ->
    forall j x, nth_error l j = Some x -> pos_size ax S x (Datatypes.S j) (length l).
  Proof. intros Ho Hm j x Hj. split; [apply (prox_of_list ax S l Ho Hm j x Hj) | apply (size_of_list ax S l Ho Hm)]. Qed.

  Lemma pos_size_unique ax (S : nat -> Prop) x k m k' m' : pos_size ax S x k m -> pos_size ax S x k' m' -> k = k' /\ m = m'.
  Proof. intros [A B] [A' B']. split; [eapply prox_unique; eauto | eapply size_unique; eauto]. Qed.

  Lemma apply_pred_total ax (S : nat -> Prop) l p :
    axis_ordered ax l -> (forall y, In y l <-> S y) ->
    ((exists r, apply_pred ev c l p = Ok r) <-> pred_definedR pvR ax S (snd p)).
  Proof.
    intros Ho Hm. assert (Hnd : NoDup l) by (apply (axis_ordered_nodup ax); exact Ho).
    pose proof (pos_size_of_list ax S l Ho Hm) as Hps.
    assert (Hgen : forall pe, (exists r, pred_filter ev c l pe l 0 = Ok r) <-> pred_definedR pvR ax S pe).
    { intros pe. rewrite (pred_filter_total l pe Hnd l [] eq_refl). cbn [length plus]. unfold pred_definedR, pvR. split.
      - intros H y Hy. apply Hm in Hy. destruct (In_nth_error _ _ Hy) as [j Hj]. destruct (H j y Hj) as [v Hv].
        exists (Datatypes.S j), (length l), v. split; [apply Hps; exact Hj | exact Hv].
      - intros H j x Hj. assert (Hx : S x) by (apply Hm; eapply nth_error_In; exact Hj).
        destruct (H x Hx) as [k [m [v [Hkm Hv]]]].
        destruct (pos_size_unique ax S x k m _ _ Hkm (Hps j x Hj)) as [-> ->]. exists v. exact Hv. }
    assert (Hlit : forall t, pred_definedR pvR ax S (ENumLit t)).
    { intros t y Hy. apply Hm in Hy. destruct (In_nth_error _ _ Hy) as [j Hj].
      exists (Datatypes.S j), (length l), (VNum (string_to_number t)). split; [apply Hps; exact Hj | apply Hnum]. }
    unfold apply_pred. destruct l as [|a l'] eqn:El.
    { split; [intros _ y Hy; apply Hm in Hy; destruct Hy | intros _; eexists; reflexivity]. }
    rewrite <- El in *. clear El a l'.
    destruct (snd p) as [| | | | | | | | | | | | | | | | | | tk | | |]; try (apply Hgen).
    split; [intros _; apply Hlit|]. intros _.
    destruct (d_index (string_to_number tk) (length l)); eexists; reflexivity.
  Qed.

  Lemma preds_setR_sub ax : forall ps (S : nat -> Prop) x, preds_setR pvR ax S ps x -> S x.
  Proof.
    induction ps as [|p ps IH]; intros S x H; cbn [preds_setR] in H; [exact H|].
    apply IH in H. destruct H as [H _]. exact H.
  Qed.

  (* all the predicates of a step: success <-> definedness; the result enumerates the filtered set *)
  Lemma apply_preds_R ax : forall ps (S : nat -> Prop) l,
    axis_ordered ax l -> (forall y, In y l <-> S y) -> (forall y, S y -> y < length d) ->
    ((exists r, apply_preds ev c l ps = Ok r) <-> preds_definedR pvR ax S ps) /\
    (forall r, apply_preds ev c l ps = Ok r ->
       axis_ordered ax r /\ forall x, In x r <-> preds_setR pvR ax S ps x).
  Proof.
    unfold apply_preds. induction ps as [|p ps IH]; intros S l Ho Hm Hr; cbn [fold_left preds_definedR preds_setR].
    - split; [split; [intros _; exact I | intros _; eexists; reflexivity]|].
      intros r H. inversion H; subst. split; [exact Ho | exact Hm].
    - cbn [bind]. pose proof (apply_pred_total ax S l p Ho Hm) as Htot.
      destruct (apply_pred ev c l p) as [l1|er] eqn:E.
      + destruct (apply_pred_spec ev c pv Hev Hnum Hsmall ax S l p l1 Ho Hm Hr E) as [Ho1 Hm1].
        assert (Hm1' : forall y, In y l1 <-> filter_setR pvR ax S (snd p) y)
          by (intros y; rewrite (Hm1 y); apply fs_iff).
        assert (Hr1 : forall y, filter_setR pvR ax S (snd p) y -> y < length d) by (intros y [Hy _]; apply Hr; exact Hy).
        destruct (IH _ l1 Ho1 Hm1' Hr1) as [IH1 IH2]. split; [|exact IH2].
        rewrite IH1. split; [intros H; split; [apply Htot; eexists; reflexivity | exact H] | intros [_ H]; exact H].
      + split.
        * split; [intros [r H]; rewrite fold_err in H; [discriminate | reflexivity]|].
          intros [Hd _]. apply Htot in Hd. destruct Hd as [r Hr0]. discriminate.
        * intros r H. rewrite fold_err in H; [discriminate | reflexivity].
  Qed.

  (** ** the fold over the context nodes *)
  Section Fold.
    Variable G : nat -> res (list nat).
    Let F := fun (acc : res (list nat)) (n : nat) => do q <- acc; do r0 <- G n; Ok (merge_doc_order q r0).

    Lemma fold_G : forall sub q r, fold_left F sub (Ok q) = Ok r <->
      exists rs, Forall2 (fun n r0 => G n = Ok r0) sub rs /\ r = fold_left merge_doc_order rs q.
    Proof.
      induction sub as [|n sub IH]; intros q r; cbn [fold_left].
      - split.
        + intros H. inversion H; subst. exists []. split; [constructor | reflexivity].
        + intros [rs [H ->]]. inversion H; subst. reflexivity.
      - unfold F at 2. cbn [bind]. destruct (G n) as [r0|er] eqn:E; cbn [bind].
        + rewrite IH. split.
          * intros [rs [H ->]]. exists (r0 :: rs). split; [constructor; assumption | reflexivity].
          * intros [rs [H ->]]. inversion H as [|? r0' ? rs' H1 H2]; subst. rewrite E in H1. inversion H1; subst r0'.
            exists rs'. split; [exact H2 | reflexivity].
        + split.
          * intros H. rewrite fold_err in H; [discriminate | reflexivity].
          * intros [rs [H _]]. inversion H as [|? r0' ? rs' H1 H2]; subst. rewrite E in H1. discriminate.
    Qed.

    Lemma fold_merge_In : forall rs q x, In x (fold_left merge_doc_order rs q) <-> In x q \/ exists r0, In r0 rs /\ In x r0.
    Proof.
      induction rs as [|r0 rs IH]; intros q x; cbn [fold_left].
      - split; [auto | intros [H|[r0 [[] _]]]; exact H].
      - rewrite IH, merge_In. split.
        + intros [[H|H]|[r1 [H1 H2]]]; [left; exact H | right; exists r0; split; [left; reflexivity | exact H] |
                                         right; exists r1; split; [right; exact H1 | exact H2]].
        + intros [H|[r1 [[<-|H1] H2]]]; [left; left; exact H | left; right; exact H2 | right; exists r1; split; assumption].
    Qed.

    Lemma fold_merge_ordered : forall rs q, ordered q -> ordered (fold_left merge_doc_order rs q).
    Proof. induction rs as [|r0 rs IH]; intros q Hq; cbn [fold_left]; [exact Hq | apply IH, merge_ordered, Hq]. Qed.

    Lemma Forall2_total (sub : list nat) : (forall n, In n sub -> exists r0, G n = Ok r0) ->
      exists rs, Forall2 (fun n r0 => G n = Ok r0) sub rs.
    Proof.
      induction sub as [|n sub IH]; intros H; [exists []; constructor|].
      destruct (H n (or_introl eq_refl)) as [r0 E]. destruct IH as [rs Hrs]; [intros m Hm; apply H; right; exact Hm|].
      exists (r0 :: rs). constructor; assumption.
    Qed.
  End Fold.

  Lemma Forall2_In_l {A B} (P : A -> B -> Prop) l1 l2 a : Forall2 P l1 l2 -> In a l1 -> exists b, In b l2 /\ P a b.
  Proof.
    induction 1 as [|x y l1 l2 Hxy _ IH]; intros Hin; [destruct Hin|].
    destruct Hin as [<-|Hin]; [exists y; split; [left; reflexivity | exact Hxy]|].
    destruct (IH Hin) as [b [Hb Hp]]. exists b. split; [right; exact Hb | exact Hp].
  Qed.

  Lemma Forall2_In_r {A B} (P : A -> B -> Prop) l1 l2 b : Forall2 P l1 l2 -> In b l2 -> exists a, In a l1 /\ P a b.
  Proof.
    induction 1 as [|x y l1 l2 Hxy _ IH]; intros Hin; [destruct Hin|].
    destruct Hin as [<-|Hin]; [exists x; split; [left; reflexivity | exact Hxy]|].
    destruct (IH Hin) as [a [Ha Hp]]. exists a. split; [right; exact Ha | exact Hp].
  Qed.

  Definition steps_wf (steps : list step) : Prop := Forall step_wf steps.

  (* the step recursion from a list of context nodes *)
  Lemma steps_from_R : forall steps sfuel sub rv, steps <> [] -> steps_wf steps ->
    (forall n, In n sub -> n < length d) -> length steps < sfuel ->
    ((exists r, steps_from ev c sfuel sub rv steps = Ok r) <->
     forall n, In n sub -> path_definedR d tstP pvR steps n) /\
    (forall r, steps_from ev c sfuel sub rv steps = Ok r ->
       ordered r /\ forall x, In x r <-> exists n, In n sub /\ path_denR d tstP pvR steps n x).
  Proof.
    induction steps as [|[[ax t] ps] rest IH]; intros sfuel sub rv Hne Hwf Hsub Hf; [congruence|].
    destruct sfuel as [|sf]; [simpl in Hf; lia|]. simpl in Hf.
    inversion Hwf as [|? ? Hst Hwf']; subst. cbn beta iota in Hst. destruct Hst as [Hns [Hrt Hna]].
    cbn [steps_from].
    set (G := fun n : nat => do an <- axis_nodes c ax t n; let (l0, rv0) := an in
                do l1 <- apply_preds ev c l0 ps; steps_from ev c sf l1 rv0 rest).
    assert (HF : forall sub0 q,
              fold_left (fun (acc : res (list nat)) (n : nat) =>
                 do q0 <- acc; do an <- axis_nodes c ax t n; let (l0, rv0) := an in
                 do l1 <- apply_preds ev c l0 ps; do r0 <- steps_from ev c sf l1 rv0 rest; Ok (merge_doc_order q0 r0)) sub0 (Ok q)
              = fold_left (fun (acc : res (list nat)) (n : nat) => do q0 <- acc; do r0 <- G n; Ok (merge_doc_order q0 r0)) sub0 (Ok q)).
    { intros sub0 q. f_equal. apply FunctionalExtensionality.functional_extensionality. intros acc.
      apply FunctionalExtensionality.functional_extensionality. intros n. destruct acc as [q0|er]; [|reflexivity]. cbn [bind]. unfold G.
      destruct (axis_nodes c ax t n) as [[l0 rv0]|er]; [|reflexivity]. cbn [bind].
      destruct (apply_preds ev c l0 ps); reflexivity. }
    rewrite HF.
    (* one context node *)
    assert (HG : forall n, n < length d ->
              ((exists r0, G n = Ok r0) <-> path_definedR d tstP pvR ((ax, t, ps) :: rest) n) /\
              (forall r0, G n = Ok r0 -> forall x, In x r0 <-> path_denR d tstP pvR ((ax, t, ps) :: rest) n x)).
    { intros n Hn. unfold G.
      destruct (axis_nodes_total c ax t n) as [[l0 rv0] Ea]. rewrite Ea. cbn [bind].
      destruct (axis_nodes_correct c ax t n l0 rv0 Hw Hn Hns Hrt Ea) as [Hrv [Ho0 Hm0]].
      assert (Hm0' : forall y, In y l0 <-> axis_set d tstP ax t n y).
      { intros y. rewrite (Hm0 y). unfold axis_set. split; intros [Hy Ht]; (split; [exact Hy|]);
          pose proof (axis_rel_in_range d ax n y Hw Hn Hy) as Hyr; apply (Htst ax t y Hyr Hns Hna); exact Ht. }
      assert (Hr0 : forall y, axis_set d tstP ax t n y -> y < length d)
        by (intros y [Hy _]; apply (axis_rel_in_range d ax n y Hw Hn Hy)).
      destruct (apply_preds_R ax ps _ l0 Ho0 Hm0' Hr0) as [Hp1 Hp2].
      cbn [path_definedR path_denR step_definedR step_denR].
      destruct (apply_preds ev c l0 ps) as [l1|er] eqn:Ep; cbn [bind].
      2:{ split.
          - split; [intros [r0 H]; discriminate|]. intros [Hd _]. apply Hp1 in Hd. destruct Hd as [r Hr]. discriminate.
          - intros r0 H. discriminate. }
      destruct (Hp2 l1 eq_refl) as [Ho1 Hm1].
      assert (Hd1 : preds_definedR pvR ax (axis_set d tstP ax t n) ps) by (apply Hp1; eexists; reflexivity).
      assert (Hsub1 : forall y, In y l1 -> y < length d).
      { intros y Hy. apply Hm1 in Hy. apply preds_setR_sub in Hy. apply Hr0. exact Hy. }
      destruct rest as [|st rest'].
      - destruct sf as [|sf']; [lia|]. cbn [steps_from path_definedR path_denR]. split.
        + split; [intros _; split; [exact Hd1 | intros y _; exact I] | intros _; eexists; reflexivity].
        + intros r0 H. inversion H; subst r0. intros x. split.
          * intros Hx. exists x. split; [|reflexivity]. apply Hm1. destruct rv0; [apply in_rev|]; exact Hx.
          * intros [y [Hy ->]]. apply Hm1 in Hy. destruct rv0; [apply -> in_rev|]; exact Hy.
      - destruct (IH sf l1 rv0) as [IH1 IH2]; [discriminate | exact Hwf' | exact Hsub1 | simpl in *; lia |]. split.
        + rewrite IH1. split.
          * intros H. split; [exact Hd1|]. intros y Hy. apply H. apply Hm1. exact Hy.
          * intros [_ H] y Hy. apply H. apply Hm1. exact Hy.
        + intros r0 H x. destruct (IH2 r0 H) as [_ Hm]. rewrite (Hm x). split.
          * intros [y [Hy Hp]]. exists y. split; [apply Hm1; exact Hy | exact Hp].
          * intros [y [Hy Hp]]. exists y. split; [apply Hm1; exact Hy | exact Hp]. }
    split.
    - split.
      + intros [r H] n Hn. apply (fold_G G) in H. destruct H as [rs [H2 _]].
        destruct (Forall2_In_l _ _ _ n H2 Hn) as [r0 [_ E]]. apply (HG n (Hsub n Hn)). eexists; exact E.
      + intros H. destruct (Forall2_total G sub) as [rs Hrs].
        { intros n Hn. apply (HG n (Hsub n Hn)). apply H. exact Hn. }
        eexists. apply (fold_G G). exists rs. split; [exact Hrs | reflexivity].
    - intros r H. apply (fold_G G) in H. destruct H as [rs [H2 ->]]. split; [apply fold_merge_ordered, ordered_nil|].
      intros x. rewrite fold_merge_In. split.
      + intros [[]|[r0 [Hr0 Hx]]]. destruct (Forall2_In_r _ _ _ r0 H2 Hr0) as [n [Hn E]].
        exists n. split; [exact Hn|]. apply (proj2 (HG n (Hsub n Hn)) r0 E). exact Hx.
      + intros [n [Hn Hp]]. right. destruct (Forall2_In_l _ _ _ n H2 Hn) as [r0 [Hr0 E]].
        exists r0. split; [exact Hr0|]. apply (proj2 (HG n (Hsub n Hn)) r0 E). exact Hp.
  Qed.
End Rel.
