(* PatModel3.v — C09, part 3: pattern heads (relative, '/', '//', id()/key()), whole paths, unions, the
   concrete predicate language, and the two refutations outside the guard. *)
From Coq Require Import List Bool Arith Lia.
Require Import XV.PatDefs XV.PatModel XV.PatModel2.
Import ListNotations.

(** * the root *)
Lemma last_default : forall (l : list nat) a d d', last (a :: l) d = last (a :: l) d'.
Proof.
  induction l as [|b l IH]; intros a d d'; [reflexivity|].
  change (last (a :: b :: l) d) with (last (b :: l) d).
  change (last (a :: b :: l) d') with (last (b :: l) d'). apply IH.
Qed.

Lemma root_of_eq : forall D n,
  root_of D n = match parent D n with Some p => root_of D p | None => n end.
Proof.
  intros D n. unfold root_of. rewrite (aos_eq D n). destruct (parent D n) as [p|]; [|reflexivity].
  rewrite (aos_eq D p).
  change (last (n :: p :: match parent D p with Some p0 => aos D p0 | None => [] end) n)
    with (last (p :: match parent D p with Some p0 => aos D p0 | None => [] end) n).
  apply last_default.
Qed.

Lemma root_of_noparent : forall D n, parent D (root_of D n) = None.
Proof.
  intros D n. induction n as [n IH] using (node_ind D). rewrite root_of_eq.
  destruct (parent D n) as [p|] eqn:E; [apply IH; reflexivity|exact E].
Qed.

Lemma root_of_in : forall D n, In (root_of D n) (aos D n).
Proof.
  intros D n. induction n as [n IH] using (node_ind D). rewrite root_of_eq.
  destruct (parent D n) as [p|] eqn:E; [|apply aos_self].
  eapply aos_up; [exact E|apply IH; reflexivity].
Qed.

Lemma root_unique : forall D n r, In r (aos D n) -> parent D r = None -> r = root_of D n.
Proof.
  intros D n. induction n as [n IH] using (node_ind D). intros r H Hr.
  rewrite root_of_eq. apply aos_cases in H. destruct H as [H|[p [Hp H]]].
  - subst. rewrite Hr. reflexivity.
  - rewrite Hp. apply IH; assumption.
Qed.

Lemma root_of_anc : forall D n a, In a (aos D n) -> root_of D a = root_of D n.
Proof.
  intros D n a H. apply root_unique; [|apply root_of_noparent].
  eapply aos_trans; [apply root_of_in|exact H].
Qed.

Lemma aos_le : forall D c a, In a (aos D c) -> a <= c.
Proof.
  intros D c. induction c as [c IH] using (node_ind D). intros a H.
  apply aos_cases in H. destruct H as [H|[p [Hp H]]]; [lia|].
  pose proof (IH p Hp a H). pose proof (parent_lt _ _ _ Hp). lia.
Qed.

Lemma root_kind : forall D c, wf_doc D = true -> c < length D ->
  (is_root (kind_of D c) = true <-> parent D c = None).
Proof.
  intros D c W Hc. split.
  - intros H. destruct (parent D c) as [p|] eqn:E; [|reflexivity].
    destruct (wf_parent_container D c p W E) as [_ H']. congruence.
  - apply wf_noparent_root; assumption.
Qed.

(** * heads *)
Lemma snd_let : forall (x : option nat * bool),
  snd (let (c, s) := x in ((if s then c else None), s)) = snd x.
Proof. intros [c s]. reflexivity. Qed.

Lemma head_generic : forall D h m1 rest n, is_user m1 = true ->
  (snd (step_pattern D (h :: m1 :: rest) n) = true <->
   exists g c', step_pattern D (m1 :: rest) n = (Some g, true) /\ parent D g = Some c' /\
                snd (body D h (m1 :: rest) c') = true).
Proof.
  intros D h m1 rest n U. rewrite step_pattern_cons2, (user_not_anyfn m1 U).
  destruct (step_pattern D (m1 :: rest) n) as [[g|] [|]].
  - destruct (parent D g) as [c'|] eqn:Hp.
    + rewrite snd_let. split.
      * intro H. exists g, c'. auto.
      * intros [g' [c'' [E1 [E2 H]]]]. inversion E1. subst g'. rewrite Hp in E2. inversion E2. subst. exact H.
    + split; [discriminate|]. intros [g' [c'' [E1 [E2 _]]]]. inversion E1. subst g'. congruence.
  - split; [discriminate|]. intros [g' [c'' [E1 _]]]. discriminate.
  - split; [discriminate|]. intros [g' [c'' [E1 _]]]. discriminate.
  - split; [discriminate|]. intros [g' [c'' [E1 _]]]. discriminate.
Qed.

Lemma head_func_desc : forall D fs m1 rest n, is_user m1 = true ->
  (snd (step_pattern D (MFunc fs :: MAnyFn :: m1 :: rest) n) = true <->
   exists g c' f, step_pattern D (m1 :: rest) n = (Some g, true) /\ parent D g = Some c' /\
                  find fs (aos D c') = Some f).
Proof.
  intros D fs m1 rest n U.
  rewrite step_pattern_cons2. cbn [is_anyfn].
  rewrite step_pattern_cons2, (user_not_anyfn m1 U).
  destruct (step_pattern D (m1 :: rest) n) as [[g|] [|]].
  - destruct (parent D g) as [c'|] eqn:Hp.
    + cbn [body head_is_anyfn is_anyfn negb].
      destruct (find fs (aos D c')) as [f|] eqn:Fd.
      * cbn [snd]. split; [intros _; exists g, c', f; auto|reflexivity].
      * cbn [snd]. split; [discriminate|]. intros [g' [c'' [f [E1 [E2 E3]]]]].
        inversion E1. subst g'. rewrite Hp in E2. inversion E2. subst. congruence.
    + cbn [snd]. split; [discriminate|]. intros [g' [c'' [f [E1 [E2 _]]]]]. inversion E1. subst g'. congruence.
  - cbn [snd]. split; [discriminate|]. intros [g' [c'' [f [E1 _]]]]. discriminate.
  - cbn [snd]. split; [discriminate|]. intros [g' [c'' [f [E1 _]]]]. discriminate.
  - cbn [snd]. split; [discriminate|]. intros [g' [c'' [f [E1 _]]]]. discriminate.
Qed.

Definition wf_path (p : path) : Prop := wf_steps (p_steps p) /\ wf_path_shape p = true.

Lemma compile_first : forall sp st r, exists m1 rest,
  compile_steps ((sp, st) :: r) = m1 :: rest /\ is_user m1 = true /\
  (next_is_desc r = false -> is_any m1 = false).
Proof.
  intros sp st r. rewrite compile_steps_cons.
  destruct (s_attr st).
  - eexists; eexists; split; [reflexivity|split; [reflexivity|reflexivity]].
  - destruct (next_is_desc r).
    + eexists; eexists; split; [reflexivity|split; [reflexivity|discriminate]].
    + eexists; eexists; split; [reflexivity|split; [reflexivity|reflexivity]].
Qed.

Lemma all_child_next : forall r, all_child r = true -> next_is_desc r = false.
Proof. intros [|[[|] st] r] H; try reflexivity. discriminate. Qed.

(** * a whole path *)
Lemma below_root_top : forall D e c, wf_doc D = true -> below_root D e = true ->
  In c (aos D e) -> parent D c <> None -> c = e.
Proof.
  intros D e c W B H Hc. unfold below_root in B.
  destruct (parent D e) as [p|] eqn:Hp; [|discriminate].
  apply aos_cases in H. destruct H as [H|[q [Hq H]]]; [exact H|].
  rewrite Hp in Hq. inversion Hq. subst q. exfalso.
  assert (Hpl : p < length D).
  { pose proof (parent_lt _ _ _ Hp). pose proof (parent_valid _ _ _ Hp). lia. }
  apply (root_kind D p W Hpl) in B.
  rewrite (aos_eq D p), B in H. destruct H as [H|[]]. subst c. congruence.
Qed.

Lemma desc_no_next_all_child : forall r, desc_then_child r = true -> next_is_desc r = false ->
  all_child r = true.
Proof. intros [|[[|] st] r] G H; try reflexivity; try discriminate. exact G. Qed.

Lemma snd_root_retry : forall D c F,
  snd (root_retry D c F) = true <-> exists e, find (below_root D) (aos D c) = Some e /\ F e = true.
Proof.
  intros D c F. unfold root_retry. destruct (find (below_root D) (aos D c)) as [e|].
  - destruct (F e) eqn:Fe; cbn [snd]; split.
    + intros _. exists e. auto.
    + reflexivity.
    + discriminate.
    + intros [e' [E Fe']]. inversion E. subst. congruence.
  - cbn [snd]. split; [discriminate|]. intros [e' [E _]]. discriminate.
Qed.

(* soundness: no guard *)
Theorem match_path_sound : forall D p n,
  wf_doc D = true -> wf_path p -> n < length D ->
  match_path D p n = true -> exists a, In a (aos D n) /\ In n (sel_path D p a).
Proof.
  intros D [h steps] n W [Wf Sh] Hn. unfold match_path, compile, sel_path in *.
  cbn [p_head p_steps] in *.
  destruct steps as [|[sp1 st1] r].
  - destruct h as [| |fs].
    + discriminate.
    + cbn [app compile_steps next_is_desc sel_steps fold_left]. rewrite step_pattern_one, snd_let.
      cbn [body].
      assert (E : snd (if is_root (kind_of D n) then (Some n, true) else (Some n, false)) = is_root (kind_of D n))
        by (destruct (is_root (kind_of D n)); reflexivity).
      rewrite E. rewrite (root_kind D n W Hn).
      intro Hp. exists n. split; [apply aos_self|]. left. rewrite root_of_eq, Hp. reflexivity.
    + cbn [app compile_steps next_is_desc sel_steps fold_left]. rewrite step_pattern_one, snd_let.
      cbn [body head_is_anyfn snd].
      intro H. exists n. split; [apply aos_self|]. apply filter_In.
      split; [unfold nodes; apply in_seq; lia|exact H].
  - assert (Hne : (sp1, st1) :: r <> []) by discriminate.
    pose proof (chain_sound D _ W Wf Hne n) as Cs.
    destruct (compile_first sp1 st1 r) as [m1 [rest [Em [Um Hany]]]].
    destruct h as [| |fs].
    + cbn [app]. destruct sp1; [|discriminate]. intro H. rewrite Em in *.
      destruct (user_result D m1 rest n Um) as [[g Hg]|Hg]; [|rewrite Hg in H; discriminate].
      pose proof (Cs g Hg) as R. destruct (reach_first_ok D _ n g R) as [a Ha].
      exists a. split; [eapply aos_parent_in; [eapply reach_aos; exact R|exact Ha]|].
      apply (sel_steps_reach D _ W Hne). exists g. split; [exact R|].
      exists a. split; [exact Ha|]. left. reflexivity.
    + destruct sp1.
      * cbn [next_is_desc app].
        assert (RootCase : forall g c', reach D ((SChild, st1) :: r) n g -> parent D g = Some c' ->
                  is_root (kind_of D c') = true ->
                  exists a, In a (aos D n) /\ In n (sel_steps D [root_of D a] ((SChild, st1) :: r))).
        { intros g c' Hg Hp Rt.
          pose proof (aos_parent_in D g n c' (reach_aos D _ n g Hg) Hp) as Hin.
          assert (Hc' : c' < length D).
          { pose proof (parent_lt _ _ _ Hp). pose proof (parent_valid _ _ _ Hp). lia. }
          apply (root_kind D c' W Hc') in Rt.
          exists n. split; [apply aos_self|].
          apply (sel_steps_reach D _ W Hne). exists g. split; [exact Hg|].
          exists c'. split; [exact Hp|]. left. symmetry. apply root_unique; assumption. }
        pose proof Em as Em'. rewrite compile_steps_cons in Em'. rewrite Em in *.
        rewrite (head_generic D MRoot m1 rest n Um).
        intros [g [c' [Hg [Hp Hb]]]]. apply Cs in Hg.
        cbn [body] in Hb.
        destruct (is_root (kind_of D c')) eqn:Rt; [apply (RootCase g c' Hg Hp Rt)|].
        destruct (s_attr st1) eqn:At; [inversion Em'; subst m1; discriminate|].
        destruct (next_is_desc r) eqn:Nd; [|inversion Em'; subst m1; discriminate].
        inversion Em'. subst m1. clear Em'.
        apply snd_root_retry in Hb. destruct Hb as [e [Fd Fe]].
        apply find_some in Fd. destruct Fd as [Hin Be].
        pose proof Be as Be'. unfold below_root in Be'.
        destruct (parent D e) as [r0|] eqn:Hpe; [|discriminate].
        destruct (wf_parent_container D e r0 W Hpe) as [_ Hnr].
        destruct (wf_parent_container D g c' W Hp) as [Hcc _].
        assert (Hna : is_attr (kind_of D e) = false).
        { destruct (aos_container D e c' W Hin) as [E|E]; [subst|]; apply container_not_attr; assumption. }
        assert (S : step_ok D (s_attr st1) (s_test st1) (s_preds st1) e = true).
        { unfold step_ok. rewrite At, Hna, Hnr. exact Fe. }
        inversion_clear Wf as [|? ? Wst Wr]. cbn [snd] in Wst.
        apply (step_ok_spec D st1 e W Wst) in S.
        destruct r as [|[[|] st2] r']; try discriminate.
        assert (Re : reach D ((SChild, st1) :: (SDesc, st2) :: r') n e).
        { cbn [reach] in Hg |- *. destruct Hg as [_ [c2 [R2 [p2 [Hp2 Hanc]]]]].
          split; [exact S|]. exists c2. split; [exact R2|]. exists p2. split; [exact Hp2|].
          eapply aos_trans; [|exact Hanc]. eapply aos_up; [exact Hp|exact Hin]. }
        apply (RootCase e r0 Re Hpe Be').
      * cbn [next_is_desc app]. rewrite Em in *.
        rewrite (head_generic D MAnyWP m1 rest n Um).
        intros [g [c' [Hg [Hp Hb]]]]. apply Cs in Hg.
        pose proof (aos_parent_in D g n c' (reach_aos D _ n g Hg) Hp) as Hin.
        exists n. split; [apply aos_self|].
        apply (sel_steps_reach D _ W Hne). exists g. split; [exact Hg|].
        exists c'. split; [exact Hp|]. cbn [expand flat_map]. rewrite app_nil_r.
        apply in_dos. split.
        -- pose proof (parent_lt _ _ _ Hp). pose proof (parent_valid _ _ _ Hp). lia.
        -- right. split.
           ++ apply container_not_attr. apply (wf_parent_container D g c' W Hp).
           ++ rewrite <- (root_of_anc D n c' Hin). apply root_of_in.
    + destruct sp1.
      * cbn [next_is_desc app]. rewrite Em in *.
        rewrite (head_generic D (MFunc fs) m1 rest n Um).
        intros [g [c' [Hg [Hp Hb]]]]. apply Cs in Hg.
        cbn [body head_is_anyfn] in Hb. rewrite (user_not_anyfn m1 Um) in Hb. cbn [snd] in Hb.
        exists n. split; [apply aos_self|].
        apply (sel_steps_reach D _ W Hne). exists g. split; [exact Hg|].
        exists c'. split; [exact Hp|]. cbn [expand]. apply filter_In. split; [|exact Hb].
        unfold nodes. apply in_seq.
        pose proof (parent_lt _ _ _ Hp). pose proof (parent_valid _ _ _ Hp). lia.
      * cbn [next_is_desc app]. rewrite Em in *.
        rewrite (head_func_desc D fs m1 rest n Um).
        intros [g [c' [f [Hg [Hp Fd]]]]]. apply Cs in Hg. apply find_some in Fd.
        destruct Fd as [Hf Ff].
        exists n. split; [apply aos_self|].
        apply (sel_steps_reach D _ W Hne). exists g. split; [exact Hg|].
        exists c'. split; [exact Hp|]. cbn [expand]. apply in_flat_map.
        assert (Hc' : c' < length D).
        { pose proof (parent_lt _ _ _ Hp). pose proof (parent_valid _ _ _ Hp). lia. }
        exists f. split.
        -- apply filter_In. split; [|exact Ff]. unfold nodes. apply in_seq.
           pose proof (aos_le D c' f Hf). lia.
        -- apply in_dos. split; [exact Hc'|]. right. split; [|exact Hf].
           apply container_not_attr. apply (wf_parent_container D g c' W Hp).
Qed.

(* completeness: under the guard *)
Theorem match_path_complete : forall D p n,
  wf_doc D = true -> wf_path p -> no_left_of_any p = true -> n < length D ->
  (exists a, In a (aos D n) /\ In n (sel_path D p a)) -> match_path D p n = true.
Proof.
  intros D [h steps] n W [Wf Sh] G Hn. unfold match_path, compile, sel_path, no_left_of_any in *.
  cbn [p_head p_steps] in *.
  destruct steps as [|[sp1 st1] r].
  - destruct h as [| |fs].
    + discriminate.
    + cbn [app compile_steps next_is_desc sel_steps fold_left]. rewrite step_pattern_one, snd_let.
      cbn [body].
      assert (E : snd (if is_root (kind_of D n) then (Some n, true) else (Some n, false)) = is_root (kind_of D n))
        by (destruct (is_root (kind_of D n)); reflexivity).
      rewrite E. rewrite (root_kind D n W Hn).
      intros [a [Ha [E'|[]]]]. subst n. apply root_of_noparent.
    + cbn [app compile_steps next_is_desc sel_steps fold_left]. rewrite step_pattern_one, snd_let.
      cbn [body head_is_anyfn snd].
      intros [a [_ H]]. apply filter_In in H. apply H.
  - assert (Hne : (sp1, st1) :: r <> []) by discriminate.
    pose proof (chain_sound D _ W Wf Hne n) as Cs.
    destruct (compile_first sp1 st1 r) as [m1 [rest [Em [Um Hany]]]].
    destruct h as [| |fs].
    + cbn [app]. destruct sp1; [|discriminate].
      destruct (chain_any D _ W Wf Hne G n) as [_ Cb].
      intros [a [_ H]]. apply (sel_steps_reach D _ W Hne) in H.
      destruct H as [c [R _]]. destruct (Cb c R) as [g [Hg _]]. rewrite Hg. reflexivity.
    + destruct sp1.
      * cbn [next_is_desc app].
        pose proof Em as Em'. rewrite compile_steps_cons in Em'. rewrite Em in *.
        rewrite (head_generic D MRoot m1 rest n Um).
        intros [a [Ha H]]. apply (sel_steps_reach D _ W Hne) in H.
        destruct H as [c [R [p [Hp [E|[]]]]]]. subst p.
        assert (Hra : root_of D a < length D).
        { pose proof (parent_lt _ _ _ Hp). pose proof (parent_valid _ _ _ Hp). lia. }
        pose proof (proj2 (root_kind D _ W Hra) (root_of_noparent D a)) as Rk.
        destruct (next_is_desc r) eqn:Nd.
        -- (* '/a//...' *)
           destruct (chain_any D _ W Wf Hne G n) as [_ Cb].
           destruct (Cb c R) as [g [Hg Hcg]]. rewrite Em in Hg.
           pose proof (Cs g Hg) as Rg. destruct (reach_first_ok D _ n g Rg) as [c' Hp'].
           exists g, c'. split; [exact Hg|]. split; [exact Hp'|].
           cbn [body]. destruct (is_root (kind_of D c')) eqn:Rt; [reflexivity|].
           destruct r as [|[[|] st2] r']; try discriminate.
           destruct (s_attr st1) eqn:At.
           { exfalso. eapply attr_before_desc_unreachable; eauto. }
           cbn [next_is_desc] in Em'. inversion Em'. subst m1.
           apply snd_root_retry.
           assert (Bc : below_root D c = true) by (unfold below_root; rewrite Hp; exact Rk).
           assert (Hcc' : In c (aos D c')).
           { apply aos_cases in Hcg. destruct Hcg as [E|[q [Hq Hcg]]].
             - subst g. rewrite Hp in Hp'. inversion Hp'. subst c'. congruence.
             - rewrite Hp' in Hq. inversion Hq. subst q. exact Hcg. }
           destruct (find_aos D (below_root D) c' c Hcc' Bc) as [e [Fd Hce]].
           pose proof Fd as Fd'. apply find_some in Fd'. destruct Fd' as [_ Be].
           assert (Ece : c = e) by (apply (below_root_top D e c W Be Hce); congruence).
           subst e. exists c. split; [exact Fd|].
           inversion_clear Wf as [|? ? Wst Wr]. cbn [snd] in Wst.
           cbn [reach] in R. destruct R as [Sok _].
           apply (step_ok_spec D st1 c W Wst) in Sok. unfold step_ok in Sok. rewrite At in Sok.
           apply andb_prop in Sok. destruct Sok as [S1 S2].
           apply andb_prop in S1. destruct S1 as [_ S1]. rewrite S1, S2. reflexivity.
        -- pose proof (desc_no_next_all_child r G Nd) as Gall.
           pose proof (chain_child D _ W Wf Hne Gall n) as C.
           exists c, (root_of D a). split; [rewrite <- Em; apply C; exact R|]. split; [exact Hp|].
           cbn [body]. rewrite Rk. reflexivity.
      * cbn [next_is_desc app]. cbn [desc_then_child] in G.
        destruct (chain_any D _ W Wf Hne G n) as [_ Cb]. rewrite Em in *.
        rewrite (head_generic D MAnyWP m1 rest n Um).
        intros [a [Ha H]]. apply (sel_steps_reach D _ W Hne) in H.
        destruct H as [c [R _]]. destruct (Cb c R) as [g [Hg _]].
        pose proof (Cs g Hg) as Rg. destruct (reach_first_ok D _ n g Rg) as [c' Hp].
        exists g, c'. split; [exact Hg|]. split; [exact Hp|].
        cbn [body]. rewrite (container_not_attr _ (proj1 (wf_parent_container D g c' W Hp))).
        reflexivity.
    + destruct sp1.
      * cbn [next_is_desc app]. cbn [desc_then_child] in G.
        pose proof (chain_child D _ W Wf Hne G n) as C. rewrite Em in *.
        rewrite (head_generic D (MFunc fs) m1 rest n Um).
        intros [a [Ha H]]. apply (sel_steps_reach D _ W Hne) in H.
        destruct H as [c [R [p [Hp Hin]]]]. cbn [expand] in Hin. apply filter_In in Hin.
        exists c, p. split; [apply C; exact R|]. split; [exact Hp|].
        cbn [body head_is_anyfn]. rewrite (user_not_anyfn m1 Um). cbn [snd]. apply Hin.
      * cbn [next_is_desc app]. cbn [desc_then_child] in G.
        destruct (chain_any D _ W Wf Hne G n) as [_ Cb]. rewrite Em in *.
        rewrite (head_func_desc D fs m1 rest n Um).
        intros [a [Ha H]]. apply (sel_steps_reach D _ W Hne) in H.
        destruct H as [c [R [p [Hp Hin]]]]. cbn [expand] in Hin. apply in_flat_map in Hin.
        destruct Hin as [f [Hf Hd]]. apply filter_In in Hf. destruct Hf as [_ Ff].
        assert (Hfp : In f (aos D p)).
        { apply in_dos in Hd. destruct Hd as [_ [Hd|[_ Hd]]]; [subst; apply aos_self|exact Hd]. }
        destruct (Cb c R) as [g [Hg Hcg]].
        pose proof (Cs g Hg) as Rg. destruct (reach_first_ok D _ n g Rg) as [c' Hp'].
        assert (Hfc : In f (aos D c')).
        { apply aos_cases in Hcg. destruct Hcg as [E|[q [Hq Hcg]]].
          - subst g. rewrite Hp in Hp'. inversion Hp'. subst. exact Hfp.
          - rewrite Hp' in Hq. inversion Hq. subst q.
            eapply aos_trans; [exact Hfp|]. eapply aos_parent_in; eauto. }
        destruct (find_aos D fs c' f Hfc Ff) as [f' [Fd _]].
        exists g, c', f'. auto.
Qed.

Theorem match_path_iff : forall D p n,
  wf_doc D = true -> wf_path p -> no_left_of_any p = true -> n < length D ->
  (match_path D p n = true <-> exists a, In a (aos D n) /\ In n (sel_path D p a)).
Proof.
  intros D p n W Wp G Hn. split.
  - apply match_path_sound; assumption.
  - apply match_path_complete; assumption.
Qed.

(** * unions *)
Definition wf_pattern (P : pattern) : Prop := forall p, In p P -> wf_path p.

Theorem matches_iff_selects : forall D P n,
  wf_doc D = true -> wf_pattern P -> guard P = true -> n < length D ->
  (matches D P n = true <-> selects D P n).
Proof.
  intros D P n W Wp G Hn. unfold matches, selects. rewrite existsb_exists.
  unfold guard in G. rewrite forallb_forall in G. split.
  - intros [p [Hp H]]. apply (match_path_iff D p n W (Wp p Hp) (G p Hp) Hn) in H.
    destruct H as [a [Ha H]]. exists p, a. auto.
  - intros [p [a [Hp [Ha H]]]]. exists p. split; [exact Hp|].
    apply (match_path_iff D p n W (Wp p Hp) (G p Hp) Hn). exists a. auto.
Qed.

Theorem matches_sound : forall D P n,
  wf_doc D = true -> wf_pattern P -> n < length D ->
  matches D P n = true -> selects D P n.
Proof.
  intros D P n W Wp Hn H. unfold matches in H. apply existsb_exists in H.
  destruct H as [p [Hp H]]. apply (match_path_sound D p n W (Wp p Hp) Hn) in H.
  destruct H as [a [Ha H]]. exists p, a. auto.
Qed.

Lemma selectsb_spec : forall D P n, selectsb D P n = true <-> selects D P n.
Proof.
  intros D P n. unfold selectsb, selects. rewrite existsb_exists. split.
  - intros [p [Hp H]]. apply existsb_exists in H. destruct H as [a [Ha H]].
    apply mem_In in H. exists p, a. auto.
  - intros [p [a [Hp [Ha H]]]]. exists p. split; [exact Hp|]. apply existsb_exists.
    exists a. split; [exact Ha|]. apply mem_In. exact H.
Qed.

(** * the concrete predicate language: the compiler's flag is sound *)
Lemma flag_sound : forall D p, cflag p = false ->
  forall n i s i' s', ceval D p n i s = ceval D p n i' s'.
Proof.
  intros D p. induction p; cbn [cflag]; intros F n i s i' s'; try discriminate; try reflexivity.
  - cbn [ceval]. rewrite (IHp F n i s i' s'). reflexivity.
  - apply orb_false_elim in F. destruct F as [F1 F2].
    cbn [ceval]. rewrite (IHp1 F1 n i s i' s'), (IHp2 F2 n i s i' s'). reflexivity.
  - apply orb_false_elim in F. destruct F as [F1 F2].
    cbn [ceval]. rewrite (IHp1 F1 n i s i' s'), (IHp2 F2 n i s i' s'). reflexivity.
Qed.

Lemma cpred_wf : forall D p, wf_pred (cpred_compile D p).
Proof. intros D p F. cbn [cpred_compile pfl pfn] in *. apply flag_sound. exact F. Qed.

Lemma path_of_wf : forall D p, wf_path_shape (path_of D p) = true -> wf_path (path_of D p).
Proof.
  intros D p Sh. split; [|exact Sh]. unfold wf_steps, path_of. cbn [p_steps].
  apply Forall_forall. intros s Hs. apply in_map_iff in Hs. destruct Hs as [x [E _]]. subst s.
  cbn [snd s_preds]. apply Forall_forall. intros q Hq. apply in_map_iff in Hq.
  destruct Hq as [y [E _]]. subst q. apply cpred_wf.
Qed.

Theorem c_match_iff_select : forall D P n,
  wf_doc D = true -> c_shape D P = true -> c_guard D P = true -> n < length D ->
  (c_match D P n = true <-> selects D (map (path_of D) P) n).
Proof.
  intros D P n W Sh G Hn. unfold c_match. apply matches_iff_selects; try assumption.
  intros p Hp. apply in_map_iff in Hp. destruct Hp as [x [E Hx]]. subst p.
  apply path_of_wf. unfold c_shape in Sh. rewrite forallb_forall in Sh. apply Sh.
  apply in_map. exact Hx.
Qed.

(** * outside the guard *)
Definition el (n : nat) (p : nat) : nrec := mkN (KElem n) (Some p).
Definition name_step (n : nat) : sstep := mkS false (TName n) [].

(* K14:  /a//b  on  <x><a><b/></a></x>   (names: a = 0, b = 1, x = 4) *)
Definition k14_doc : doc := [mkN KRoot None; el 4 0; el 0 1; el 1 2].
Definition k14_pat : pattern := [mkPath HAbs [(SChild, name_step 0); (SDesc, name_step 1)]].

(* K15:  c/a//b  on  <c><a><y><a><b/></a></y></a></c>   (c = 2, y = 5) *)
Definition k15_doc : doc := [mkN KRoot None; el 2 0; el 0 1; el 5 2; el 0 3; el 1 4].
Definition k15_pat : pattern :=
  [mkPath HRel [(SChild, name_step 2); (SChild, name_step 0); (SDesc, name_step 1)]].

(* K14 (repaired): the pattern is inside the guard now, and nothing matches *)
Lemma k14_facts : wf_doc k14_doc = true /\ matches k14_doc k14_pat 3 = false /\
                  selectsb k14_doc k14_pat 3 = false /\ guard k14_pat = true.
Proof. vm_compute. repeat split. Qed.

Lemma k15_facts : wf_doc k15_doc = true /\ matches k15_doc k15_pat 5 = false /\
                  selectsb k15_doc k15_pat 5 = true /\ guard k15_pat = false.
Proof. vm_compute. repeat split. Qed.
