(* SerUtfModel2.v — the extracted entry points equal the specification-level functions; the
   transcoder-backed writer with an arbitrary representability predicate is transparent too. *)
From Coq Require Import NArith List Bool.
Require Import XV.SerDefs XV.SerUtfModel.
Import ListNotations.
Local Open Scope N_scope.

Lemma serialize_fast_eq : forall k v11 ver enc es,
  serialize_fast k v11 ver enc es = serialize k v11 ver enc es.
Proof.
  intros. unfold serialize_fast, serialize.
  destruct (run _ _ _) as [w| |c]; try reflexivity.
  unfold all_units. rewrite !rev_append_rev, app_nil_r. reflexivity.
Qed.

Lemma serialize_other_fast_eq : forall rep v11 ver enc es,
  serialize_other_fast rep v11 ver enc es = serialize_other rep v11 ver enc es.
Proof.
  intros. unfold serialize_other_fast, serialize_other.
  destruct (run _ _ _) as [w| |c]; try reflexivity.
  unfold all_units. rewrite !rev_append_rev, app_nil_r. reflexivity.
Qed.

Lemma kbuf_other_fits : kbuf_other < 2 ^ 64.
Proof. apply N.ltb_lt. vm_compute. reflexivity. Qed.

Theorem serialize_other_transparent : forall rep v11 ver enc es,
  serialize_other rep v11 ver enc es = payload (document_items (fam_other rep) v11 ver enc es).
Proof.
  intros. unfold serialize_other.
  assert (Hk : f_kbuf (fam_other rep) < 2 ^ 64) by exact kbuf_other_fits.
  pose proof (run_transparent (f_kbuf (fam_other rep)) (document_items (fam_other rep) v11 ver enc es)
                (wr_init (f_kbuf (fam_other rep))) Hk (wr_init_inv _)
                (document_items_sound _ v11 ver enc es (fam_other_sound rep))) as H.
  destruct (payload (document_items (fam_other rep) v11 ver enc es)) as [bs| |c].
  - destruct H as [w' [E [_ U]]]. rewrite E, U, all_units_init. reflexivity.
  - destruct H.
  - rewrite H. reflexivity.
Qed.
