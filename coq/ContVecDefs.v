(* ContVecDefs.v — executable model of xalanc::XalanVector (Include/XalanVector.hpp) as it is:
   size / allocation / data with the growth policy, the three insert paths (at end, reallocating,
   in-capacity with element shifting by doPushBack + std::copy_backward + std::copy/fill; a value argument
   that is one of the vector's own elements is copied first), erase by
   std::copy + pop_back, resize, reserve, operator=, swap, copy construction with an initial
   allocation — and the independent specification (plain list operations = std::vector).
   Definitions only.  Sizes, indices and element values are nat (small in every use).
   std::copy / std::copy_backward / std::fill are modelled by [blit] (their standard meaning under
   their own precondition, which the generated call sites satisfy: shown in ContVecModel.v). *)
From Coq Require Import List Arith Bool.
Require Import XV.GenCont.
Import ListNotations.

Record vec := mkvec { vdata : list nat; vcap : nat }.
Definition vsize (v : vec) : nat := length (vdata v).
Definition vempty : vec := mkvec [] 0.

(* sub a b l = the elements l[a..b) ; blit s o l = l with s written at offset o *)
Definition sub (a b : nat) (l : list nat) : list nat := firstn (b - a) (skipn a l).
Definition blit (s : list nat) (o : nat) (l : list nat) : list nat :=
  firstn o l ++ s ++ skipn (o + length s) l.

(* grow(): size_type((m_size * 1.6) + 0.5), constants regenerated from the header *)
Definition grow_cap (s : nat) : nat := (s * vec_grow_num + vec_grow_round) / vec_grow_den.

(* XalanVector(theSource, mgr, theInitialAllocation) *)
Definition copy_with (v : vec) (c : nat) : vec :=
  if 0 <? vsize v then mkvec (vdata v) (Nat.max (vsize v) c) else mkvec [] c.

Definition do_push_back (v : vec) (x : nat) : vec :=
  if vsize v <? vcap v then mkvec (vdata v ++ [x]) (vcap v)              (* construct_back *)
  else if vsize v =? 0 then mkvec [x] 1                                   (* init *)
  else let t := copy_with v (grow_cap (vsize v)) in                      (* grow *)
       mkvec (vdata t ++ [x]) (vcap t).

Definition push_all (v : vec) (xs : list nat) : vec := fold_left do_push_back xs v.

Definition pop_back (v : vec) : vec := mkvec (removelast (vdata v)) (vcap v).
Fixpoint pop_n (n : nat) (v : vec) : vec := match n with O => v | S k => pop_n k (pop_back v) end.

Definition reserve (v : vec) (n : nat) : vec := if vcap v <? n then copy_with v n else v.

(* insert(thePosition, theFirst, theLast) with an external source range, and
   insert(thePosition, theCount, theData) (src = repeat x n; the value is passed by value here) *)
Definition insert_list (fill : bool) (v : vec) (pos : nat) (src : list nat) : vec :=
  let n := length src in
  let sz := vsize v in
  if (negb fill && (n =? 0))%bool then v
  else if pos =? sz then
    let v1 := reserve v (sz + n) in mkvec (vdata v1 ++ src) (vcap v1)
  else if vcap v <? sz + n then
    mkvec (sub 0 pos (vdata v) ++ src ++ sub pos sz (vdata v)) (sz + n)
  else
    let right := sz - pos in
    if right <=? n then
      let v1 := push_all v (skipn right src) in
      let v2 := push_all v1 (sub pos sz (vdata v1)) in
      mkvec (blit (firstn right src) pos (vdata v2)) (vcap v2)
    else
      let v1 := push_all v (sub (sz - n) sz (vdata v)) in
      let d2 := blit (sub pos (sz - n) (vdata v1)) (pos + n) (vdata v1) in   (* copy_backward *)
      mkvec (blit src pos d2) (vcap v1).

(* the same call with the value being a REFERENCE to element i of the vector itself: isOwnElement()
   holds, the code makes a one-element copy and calls itself with the copy (likewise resize) *)
Definition insert_alias (v : vec) (pos n i : nat) : vec :=
  insert_list true v pos (repeat (nth i (vdata v) 0) n).

Definition erase_range (v : vec) (a b : nat) : vec :=
  if a =? b then v
  else pop_n (b - a) (mkvec (blit (sub b (vsize v) (vdata v)) a (vdata v)) (vcap v)).

Definition resize (v : vec) (n x : nat) : vec :=
  if n <? vsize v then pop_n (vsize v - n) v
  else if vsize v <? n then
    let v1 := reserve v n in mkvec (vdata v1 ++ repeat x (n - vsize v)) (vcap v1)
  else v.

Definition clear (v : vec) : vec := if 0 <? vsize v then pop_n (vsize v) v else v.

Definition assign_range (v : vec) (src : list nat) : vec := insert_list false (clear v) 0 src.

(* operator= for distinct objects *)
Definition assign_from (v r : vec) : vec :=
  if vcap v <? vsize r then copy_with r 0
  else if vsize r <? vsize v then
    let v1 := pop_n (vsize v - vsize r) v in mkvec (blit (vdata r) 0 (vdata v1)) (vcap v1)
  else if vsize v <? vsize r then
    let v1 := insert_list false v (vsize v) (sub (vsize v) (vsize r) (vdata r)) in
    mkvec (blit (sub 0 (vsize v) (vdata r)) 0 (vdata v1)) (vcap v1)
  else mkvec (blit (vdata r) 0 (vdata v)) (vcap v).

Definition ctor_fill (n x : nat) : vec := insert_list true vempty 0 (repeat x n).
Definition ctor_range (src : list nat) : vec := insert_list false vempty 0 src.

(* ---------------------------------------------------------------------------------------------- *)
(* op language of the correspondence driver (two registers) *)
Inductive vop :=
| VPush (x : nat) | VPop | VIns1 (p x : nat) | VInsN (p n x : nat) | VInsR (p : nat) (l : list nat)
| VErase (p : nat) | VEraseR (a b : nat) | VResize (n x : nat) | VReserve (n : nat) | VClear
| VAssignR (l : list nat) | VAt (i : nat) | VIdx (i : nat) | VSetIdx (i x : nat) | VFront | VBack | VRIter
| VCopy (c : nat) | VAssign | VSelfAssign | VSwap | VSel (r : bool) | VNew (c : nat) | VNewN (n x : nat)
| VNewR (l : list nat)
| VInsA (p n i : nat) | VResizeA (n i : nat) | VPushA (i : nat) | VAssignN (n x : nat).

Inductive ret := RNone | RNum (n : nat) | ROor | RList (l : list nat).

Record vstate := mkvs { reg0 : vec; reg1 : vec; vcur : bool }.
Definition vinit : vstate := mkvs vempty vempty false.
Definition cur_vec (s : vstate) : vec := if vcur s then reg1 s else reg0 s.
Definition oth_vec (s : vstate) : vec := if vcur s then reg0 s else reg1 s.
Definition set_cur (s : vstate) (v : vec) : vstate :=
  if vcur s then mkvs (reg0 s) v true else mkvs v (reg1 s) false.
Definition set_oth (s : vstate) (v : vec) : vstate :=
  if vcur s then mkvs v (reg1 s) true else mkvs (reg0 s) v false.

Fixpoint set_nth (i x : nat) (l : list nat) : list nat :=
  match l, i with
  | [], _ => []
  | _ :: t, O => x :: t
  | h :: t, S k => h :: set_nth k x t
  end.

(* None = precondition of the C++ operation violated (driver skips the op) *)
Definition vstep (s : vstate) (o : vop) : option (vstate * ret) :=
  let v := cur_vec s in
  let n := vsize v in
  match o with
  | VPush x => Some (set_cur s (do_push_back v x), RNone)
  | VPop => if n =? 0 then None else Some (set_cur s (pop_back v), RNone)
  | VIns1 p x => if n <? p then None else Some (set_cur s (insert_list true v p [x]), RNum p)
  | VInsN p k x => if n <? p then None else Some (set_cur s (insert_list true v p (repeat x k)), RNone)
  | VInsR p l => if n <? p then None else Some (set_cur s (insert_list false v p l), RNone)
  | VErase p => if p <? n then Some (set_cur s (erase_range v p (S p)), RNum p) else None
  | VEraseR a b => if ((a <=? b) && (b <=? n))%bool then Some (set_cur s (erase_range v a b), RNum a) else None
  | VResize k x => Some (set_cur s (resize v k x), RNone)
  | VReserve k => Some (set_cur s (reserve v k), RNone)
  | VClear => Some (set_cur s (clear v), RNone)
  | VAssignR l => Some (set_cur s (assign_range v l), RNone)
  | VAt i => Some (s, if i <? n then RNum (nth i (vdata v) 0) else ROor)
  | VIdx i => if i <? n then Some (s, RNum (nth i (vdata v) 0)) else None
  | VSetIdx i x => if i <? n then Some (set_cur s (mkvec (set_nth i x (vdata v)) (vcap v)), RNone) else None
  | VFront => if n =? 0 then None else Some (s, RNum (nth 0 (vdata v) 0))
  | VBack => if n =? 0 then None else Some (s, RNum (nth (n - 1) (vdata v) 0))
  | VRIter => Some (s, RList (rev (vdata v)))
  | VCopy c => Some (set_oth s (copy_with v c), RNone)
  | VAssign => Some (set_cur s (assign_from v (oth_vec s)), RNone)
  | VSelfAssign => Some (s, RNone)
  | VSwap => Some (mkvs (reg1 s) (reg0 s) (vcur s), RNone)
  | VSel r => Some (mkvs (reg0 s) (reg1 s) r, RNone)
  | VNew c => Some (set_cur s (mkvec [] c), RNone)
  | VNewN k x => Some (set_cur s (ctor_fill k x), RNone)
  | VNewR l => Some (set_cur s (ctor_range l), RNone)
  | VInsA p k i => if ((p <=? n) && (i <? n))%bool then Some (set_cur s (insert_alias v p k i), RNone) else None
  | VResizeA k i => if i <? n then Some (set_cur s (resize v k (nth i (vdata v) 0)), RNone) else None
  | VPushA i => if i <? n then Some (set_cur s (do_push_back v (nth i (vdata v) 0)), RNone) else None
  | VAssignN k x => Some (set_cur s (insert_list true (clear v) 0 (repeat x k)), RNone)
  end.

(* observation after an op: return value, size, capacity, elements of the current register *)
Definition vobs : Type := option (ret * nat * nat * list nat).

Fixpoint vrun (s : vstate) (ops : list vop) : list vobs :=
  match ops with
  | [] => []
  | o :: r =>
    match vstep s o with
    | None => None :: vrun s r
    | Some (s', rt) => Some (rt, vsize (cur_vec s'), vcap (cur_vec s'), vdata (cur_vec s')) :: vrun s' r
    end
  end.

Fixpoint vfinal (s : vstate) (ops : list vop) : vstate :=
  match ops with
  | [] => s
  | o :: r => match vstep s o with None => vfinal s r | Some (s', _) => vfinal s' r end
  end.

(* ---------------------------------------------------------------------------------------------- *)
(* specification: std::vector as a list *)
Record lstate := mkls { l0 : list nat; l1 : list nat; lcur : bool }.
Definition linit : lstate := mkls [] [] false.
Definition cur_l (s : lstate) := if lcur s then l1 s else l0 s.
Definition oth_l (s : lstate) := if lcur s then l0 s else l1 s.
Definition set_cur_l (s : lstate) (l : list nat) := if lcur s then mkls (l0 s) l true else mkls l (l1 s) false.
Definition set_oth_l (s : lstate) (l : list nat) := if lcur s then mkls l (l1 s) true else mkls (l0 s) l false.
Definition ins_spec (p : nat) (src l : list nat) := firstn p l ++ src ++ skipn p l.
Definition erase_spec (a b : nat) (l : list nat) := firstn a l ++ skipn b l.
Definition resize_spec (n x : nat) (l : list nat) := firstn n l ++ repeat x (n - length l).

Definition lstep (s : lstate) (o : vop) : option (lstate * ret) :=
  let l := cur_l s in
  let n := length l in
  match o with
  | VPush x => Some (set_cur_l s (l ++ [x]), RNone)
  | VPop => if n =? 0 then None else Some (set_cur_l s (removelast l), RNone)
  | VIns1 p x => if n <? p then None else Some (set_cur_l s (ins_spec p [x] l), RNum p)
  | VInsN p k x => if n <? p then None else Some (set_cur_l s (ins_spec p (repeat x k) l), RNone)
  | VInsR p src => if n <? p then None else Some (set_cur_l s (ins_spec p src l), RNone)
  | VErase p => if p <? n then Some (set_cur_l s (erase_spec p (S p) l), RNum p) else None
  | VEraseR a b => if ((a <=? b) && (b <=? n))%bool then Some (set_cur_l s (erase_spec a b l), RNum a) else None
  | VResize k x => Some (set_cur_l s (resize_spec k x l), RNone)
  | VReserve _ => Some (set_cur_l s l, RNone)
  | VClear => Some (set_cur_l s [], RNone)
  | VAssignR src => Some (set_cur_l s src, RNone)
  | VAt i => Some (s, if i <? n then RNum (nth i l 0) else ROor)
  | VIdx i => if i <? n then Some (s, RNum (nth i l 0)) else None
  | VSetIdx i x => if i <? n then Some (set_cur_l s (set_nth i x l), RNone) else None
  | VFront => if n =? 0 then None else Some (s, RNum (nth 0 l 0))
  | VBack => if n =? 0 then None else Some (s, RNum (nth (n - 1) l 0))
  | VRIter => Some (s, RList (rev l))
  | VCopy _ => Some (set_oth_l s l, RNone)
  | VAssign => Some (set_cur_l s (oth_l s), RNone)
  | VSelfAssign => Some (s, RNone)
  | VSwap => Some (mkls (l1 s) (l0 s) (lcur s), RNone)
  | VSel r => Some (mkls (l0 s) (l1 s) r, RNone)
  | VNew _ => Some (set_cur_l s [], RNone)
  | VNewN k x => Some (set_cur_l s (repeat x k), RNone)
  | VNewR src => Some (set_cur_l s src, RNone)
  | VInsA p k i => if ((p <=? n) && (i <? n))%bool then Some (set_cur_l s (ins_spec p (repeat (nth i l 0) k) l), RNone) else None
  | VResizeA k i => if i <? n then Some (set_cur_l s (resize_spec k (nth i l 0) l), RNone) else None
  | VPushA i => if i <? n then Some (set_cur_l s (l ++ [nth i l 0]), RNone) else None
  | VAssignN k x => Some (set_cur_l s (repeat x k), RNone)
  end.

Definition lobs : Type := option (ret * nat * list nat).

Fixpoint lrun (s : lstate) (ops : list vop) : list lobs :=
  match ops with
  | [] => []
  | o :: r =>
    match lstep s o with
    | None => None :: lrun s r
    | Some (s', rt) => Some (rt, length (cur_l s'), cur_l s') :: lrun s' r
    end
  end.

Definition strip_cap (o : vobs) : lobs :=
  match o with None => None | Some (r, n, _, d) => Some (r, n, d) end.
