(* PatcSemModel.v — C09 part "compile": the composition of the pattern compiler, the expression compiler and the matcher. *)
From Coq Require Import List NArith Bool Arith Lia.
Import ListNotations.
Require Import XV.XpAst XV.GenXpc XV.XpcLexDefs XV.XpcParseDefs XV.XpcPrintDefs XV.XpcPrintFacts XV.XpcPrintModel.
Require Import XV.PatcDefs XV.PatcPrintDefs XV.PatcPrintModel XV.PatcExprModel XV.PatcSemDefs.
Require XV.PatDefs XV.PatModel XV.PatModel2 XV.PatModel3.

Definition interp_ok (I : interp) : Prop := forall p, PatModel.wf_pred (i_pred I p).

Lemma isnil_ne : forall (A : Type) (l : list A), negb (isnil l) = true -> l <> [].
Proof. intros A [|x l] H; [discriminate|discriminate]. Qed.

(* the op codes the pattern compiler wrote are the ones PatDefs.compile derives from the surface path *)
Lemma compile_steps_agree : forall I D r sp acc left, canon_psteps r = true ->
  PatDefs.compile_steps D acc left (ssteps_of I sp r) = msteps_of I D acc left r.
Proof.
  intros I D. induction r as [|[[k t] ps] r IH]; intros sp acc left Hc; [reflexivity|].
  cbn [canon_psteps] in Hc. andbs Hc.
  cbn [ssteps_of PatDefs.compile_steps msteps_of mstep_of sstep_of PatDefs.s_attr PatDefs.s_test PatDefs.s_preds].
  assert (E : (if is_attr_kind k then PatDefs.MAttr (i_test I t) (map (i_pred I) ps)
               else if PatDefs.next_is_desc (ssteps_of I (sep_behind (k, t, ps)) r)
                    then PatDefs.MAny (i_test I t) (map (i_pred I) ps) (PatDefs.left_check D acc left)
                    else PatDefs.MImm (i_test I t) (map (i_pred I) ps)) =
              match k with
              | PkAttribute => PatDefs.MAttr (i_test I t) (map (i_pred I) ps)
              | PkAnyAncestor => PatDefs.MAny (i_test I t) (map (i_pred I) ps) (PatDefs.left_check D acc left)
              | _ => PatDefs.MImm (i_test I t) (map (i_pred I) ps)
              end).
  { unfold sep_behind. cbn [fst]. destruct k; try discriminate; cbn [is_attr_kind is_any]; try reflexivity.
    - destruct r; reflexivity.
    - destruct r as [|s r']; [discriminate|]. reflexivity. }
  rewrite E. f_equal. apply IH. exact Hc0.
Qed.

Lemma compile_agree : forall I D a, canon_lp a = true ->
  PatDefs.compile D (path_of_lp I a) = compiled_of I D a.
Proof.
  intros I D a Hc. unfold canon_lp, path_of_lp, compiled_of in *. destruct (split_head a) as [h r]. andbs Hc.
  unfold PatDefs.compile.
  destruct h as [| | |f|f]; cbn [PatDefs.p_head PatDefs.p_steps PatDefs.head_steps mhead_of].
  - cbn [app]. apply compile_steps_agree; auto.
  - assert (N : PatDefs.next_is_desc (ssteps_of I PatDefs.SChild r) = false) by (destruct r; reflexivity).
    rewrite N. f_equal. apply compile_steps_agree; auto.
  - assert (N : PatDefs.next_is_desc (ssteps_of I PatDefs.SDesc r) = true) by (destruct r; [discriminate|reflexivity]).
    rewrite N. f_equal. apply compile_steps_agree; auto.
  - assert (N : PatDefs.next_is_desc (ssteps_of I PatDefs.SChild r) = false) by (destruct r; reflexivity).
    rewrite N. f_equal. apply compile_steps_agree; auto.
  - apply andb_prop in Hc0. destruct Hc0 as [_ Hne].
    assert (N : PatDefs.next_is_desc (ssteps_of I PatDefs.SDesc r) = true) by (destruct r; [discriminate|reflexivity]).
    rewrite N. f_equal. apply compile_steps_agree; auto.
Qed.

(* the expression steps are the pattern steps read as child / attribute / descendant-or-self::node() steps *)
Lemma esteps_path_agree : forall I r sp, canon_psteps r = true -> (r = [] -> sp = PatDefs.SChild) ->
  esteps_path I sp (esteps_of r) = Some (ssteps_of I sp r).
Proof.
  intros I. induction r as [|[[k t] ps] r IH]; intros sp Hc Hsp.
  - rewrite (Hsp eq_refl). reflexivity.
  - cbn [canon_psteps] in Hc. andbs Hc.
    change (esteps_of ((k, t, ps) :: r)) with (estep_of (k, t, ps) ++ esteps_of r).
    unfold estep_of. cbn [ssteps_of sstep_of]. unfold sep_behind. cbn [fst].
    destruct k; try discriminate; cbn [is_attr_kind is_any app esteps_path].
    + rewrite IH; auto. 
    + rewrite IH; auto.
    + (* any: the dos step *)
      assert (NE : r <> []) by (destruct r; [discriminate|discriminate]).
      assert (IH' := IH PatDefs.SDesc Hc0 ltac:(intros; congruence)).
      unfold step_dos. cbn [esteps_path]. rewrite IH'. reflexivity.
Qed.
