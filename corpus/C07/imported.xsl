<?xml version="1.0"?>
<xsl:stylesheet version="1.0" xmlns:xsl="http://www.w3.org/1999/XSL/Transform">
  <xsl:variable name="imp-global" select="count(//item) * 2"/>
  <xsl:key name="by-cat-imp" match="item" use="@cat"/>
  <xsl:attribute-set name="base-set">
    <xsl:attribute name="origin">imported</xsl:attribute>
    <xsl:attribute name="n"><xsl:value-of select="$imp-global"/></xsl:attribute>
  </xsl:attribute-set>
  <xsl:template match="item" mode="imp">
    <imp-item id="{@id}" pos="{position()}"><xsl:value-of select="name"/></imp-item>
  </xsl:template>
  <xsl:template match="section" mode="imp">
    <imp-section><xsl:apply-templates select="item" mode="imp"/></imp-section>
  </xsl:template>
</xsl:stylesheet>
