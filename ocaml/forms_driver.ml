(* model side of the C05 correspondence: same line protocol as harness/forms.cpp modes B, W, O.
   Strings are comma separated hex UTF-16 code units (empty string = empty field); the fields of an
   event/node/write token are separated by '|', tokens by ' '.
     <id> B <events>      events: S|qname|an|av|...  A|qname|an|av|atype|... (declared types; output gets ' # value=index|- ...')  E  C|chars  I|ignorable-ws  M|comment  P|target|data
     <id> W <dom tokens>  S|qname|an|av|...  E  T|text  D|cdata  R|name ... r  M|comment  P|target|data  Y|name|entities
     <id> O <bs> <writes> w|units  c|unit  n|units  f
   Output:  <id> <depth>:<kind>:<index>:<name>:<value> ...   (document order; kinds e a t d r c p; the document type is not linked)   or  <id> ERR
            <id> W|units N|units ... B|pending-buffer G|narrow_ok                                        (mode O) *)
let str_of_field (f : string) : n list =
  if f = "" then [] else List.map (fun h -> n_of_int (int_of_string ("0x" ^ h))) (String.split_on_char ',' f)

let field_of_str (l : n list) : string =
  String.concat "," (List.map (fun c -> Printf.sprintf "%x" (int_of_n c)) l)

let rec attrs_of = function
  | a :: v :: r -> (str_of_field a, str_of_field v) :: attrs_of r
  | [] -> []
  | _ -> failwith "odd attribute fields"

(* typed start tag: A|qname|an|av|atype|...  (S|... = every attribute of type CDATA) *)
let rec tattrs_of = function
  | a :: v :: ty :: r -> ((str_of_field a, str_of_field v), str_of_field ty) :: tattrs_of r
  | [] -> []
  | _ -> failwith "attribute fields of an A token are not triples"

let cdata_type : n list = str_of_field "43,44,41,54,41"

let event_of_token (t : string) : sax_event =
  match String.split_on_char '|' t with
  | "S" :: q :: r -> EStart (str_of_field q, attrs_of r)
  | ["E"] -> EEnd
  | ["C"; s] -> EChars (str_of_field s)
  | ["I"; s] -> EIgnWs (str_of_field s)
  | ["M"; s] -> EComment (str_of_field s)
  | ["P"; a; b] -> EPi (str_of_field a, str_of_field b)
  | _ -> failwith ("bad event " ^ t)

let item d k i name v = Printf.sprintf "%d:%s:%d:%s:%s" d k (int_of_n i) (field_of_str name) (field_of_str v)

let rec dump_inode d acc = function
  | IElem (i, q, a, kids) ->
      let acc = item d "e" i q [] :: acc in
      let acc = List.fold_left (fun acc (j, (an, av)) -> item (d + 1) "a" j an av :: acc) acc a in
      List.fold_left (dump_inode (d + 1)) acc kids
  | IText (i, s) -> item d "t" i [] s :: acc
  | IComment (i, s) -> item d "c" i [] s :: acc
  | IPi (i, t, s) -> item d "p" i t s :: acc

let rec dump_wnode d acc = function
  | WElem (i, q, a, kids) ->
      let acc = item d "e" i q [] :: acc in
      let acc = List.fold_left (fun acc (j, (an, av)) -> item (d + 1) "a" j an av :: acc) acc a in
      List.fold_left (dump_wnode (d + 1)) acc kids
  | WText (i, s) -> item d "t" i [] s :: acc
  | WCData (i, s) -> item d "d" i [] s :: acc
  | WEntRef (i, nm, kids) -> List.fold_left (dump_wnode (d + 1)) (item d "r" i nm [] :: acc) kids
  | WComment (i, s) -> item d "c" i [] s :: acc
  | WPi (i, t, s) -> item d "p" i t s :: acc

(* token list -> xnode list; returns (nodes, remaining tokens) at the matching close token *)
let rec parse_xnodes (toks : string list) : xnode list * string list =
  match toks with
  | [] -> ([], [])
  | t :: rest ->
    (match String.split_on_char '|' t with
     | ["E"] | ["r"] -> ([], rest)
     | "S" :: q :: a ->
         let (kids, rest1) = parse_xnodes rest in
         let (sibs, rest2) = parse_xnodes rest1 in
         (XElem (str_of_field q, attrs_of a, kids) :: sibs, rest2)
     | ["R"; nm] ->
         let (kids, rest1) = parse_xnodes rest in
         let (sibs, rest2) = parse_xnodes rest1 in
         (XEntRef (str_of_field nm, kids) :: sibs, rest2)
     | _ ->
         let x = (match String.split_on_char '|' t with
           | ["T"; s] -> XText (str_of_field s)
           | ["D"; s] -> XCData (str_of_field s)
           | ["M"; s] -> XComment (str_of_field s)
           | ["P"; a; b] -> XPi (str_of_field a, str_of_field b)
           | ["Y"; nm; k] -> XDoctype (str_of_field nm, n_of_int (int_of_string k))
           | _ -> failwith ("bad dom token " ^ t)) in
         let (sibs, rest2) = parse_xnodes rest in
         (x :: sibs, rest2))

let write_of_token (t : string) : owrite =
  match String.split_on_char '|' t with
  | ["w"; s] -> OWide (str_of_field s)
  | ["c"; s] -> (match str_of_field s with [c] -> OChar c | _ -> failwith "c")
  | ["n"; s] -> ONarrow (str_of_field s)
  | ["f"] -> OFlush
  | _ -> failwith ("bad write " ^ t)

let () =
  let ic = if Array.length Sys.argv > 1 then open_in Sys.argv.(1) else stdin in
  iter_lines ic (fun line ->
    if line <> "" && line.[0] <> '#' then
    match split_ws line with
    | id :: "B" :: toks ->
        (try
          let typed = List.exists (fun t -> String.length t > 1 && t.[0] = 'A' && t.[1] = '|') toks in
          if not typed then
            (match build_sax (List.map event_of_token toks) with
             | Some d -> Printf.printf "%s %s\n" id (String.concat " " (List.rev (List.fold_left (dump_inode 0) [] d)))
             | None -> Printf.printf "%s ERR\n" id)
          else begin
            (* with typed start tags: the tree, then getElementById of every attribute value of the A tokens
               (first appearance order):  # value=index|-  *)
            let tev (t : string) : tevent =
              match String.split_on_char '|' t with
              | "A" :: q :: r -> TStart (str_of_field q, tattrs_of r)
              | "S" :: q :: r -> TStart (str_of_field q, List.map (fun a -> (a, cdata_type)) (attrs_of r))
              | _ -> TEv (event_of_token t) in
            let cands = ref [] in
            List.iter (fun t -> match String.split_on_char '|' t with
              | "A" :: _ :: r -> List.iter (fun ((_, v), _) -> if not (List.mem v !cands) then cands := v :: !cands) (tattrs_of r)
              | _ -> ()) toks;
            match build_ids (List.map tev toks) with
            | Some (d, tab) ->
                let obs = List.map (fun v -> field_of_str v ^ "=" ^ (match id_lookup tab v with Some i -> string_of_int (int_of_n i) | None -> "-")) (List.rev !cands) in
                Printf.printf "%s %s %s\n" id (String.concat " " (List.rev (List.fold_left (dump_inode 0) [] d))) (String.concat " " ("#" :: obs))
            | None -> Printf.printf "%s ERR\n" id
          end
        with Failure m -> Printf.printf "%s BAD %s\n" id m)
    | id :: "W" :: toks ->
        (try
          let (xs, _) = parse_xnodes toks in
          Printf.printf "%s %s\n" id (String.concat " " (List.rev (List.fold_left (dump_wnode 0) [] (wrap xs))))
        with Failure m -> Printf.printf "%s BAD %s\n" id m)
    | id :: "O" :: bs :: toks ->
        (try
          let ws = List.map write_of_token toks in
          let b = n_of_int (int_of_string bs) in
          let cs = chunks b ws in
          let st = orun b ws in
          let out = List.map (function CWide d -> "W|" ^ field_of_str d | CNarrow d -> "N|" ^ field_of_str d) cs in
          Printf.printf "%s %s\n" id (String.concat " " (out @ ["B|" ^ field_of_str st.o_buf; "G|" ^ (if narrow_ok b ws then "1" else "0")]))
        with Failure m -> Printf.printf "%s BAD %s\n" id m)
    | _ -> ())
