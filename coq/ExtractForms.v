(* ExtractForms.v - C05: extraction of the executable models for the correspondence run.
   (Z.of_N only so that the type z exists for ocaml/conv.ml.) *)
From Coq Require Import ZArith.
Require Import ExtrOcamlBasic.
Require Import XV.FormsDefs XV.FormsIdDefs.
Extraction "extracted/forms_model.ml" build_sax norm wrap chunks orun narrow_ok build_ids id_lookup Z.of_N.
