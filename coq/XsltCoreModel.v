(* C01 core interpreter: basic lemmas (run composition, output emission, variable lookups through the
   VariablesStack model, congruence of the evaluation glue, monotonicity of the reference semantics in fuel) *)
From Coq Require Import List NArith Bool Arith Lia.
Require Import XV.XsltEventsDefs XV.XsltEventsModel XV.XsltVarsDefs XV.XsltVarsModel XV.XsltCoreDefs.
Import ListNotations.

Section CoreBase.
  Variable ev_value : N -> list value -> N -> N -> N -> value.
  Variable ev_string : N -> list value -> N -> N -> N -> str.
  Variable ev_bool : N -> list value -> N -> N -> N -> bool.
  Variable ev_nodes : N -> list value -> N -> N -> N -> list N.
  Variable ev_sort : N -> list value -> N -> N -> N -> list N -> list N.
  Variable sel_template : N -> N -> option N.
  Variable node_copy : N -> list item.
  Variable node_shallow : N -> shallow.
  Variable templates : list instr.

  Notation step := (step ev_value ev_string ev_bool ev_nodes ev_sort sel_template node_copy node_shallow templates).
  Notation run := (run ev_value ev_string ev_bool ev_nodes ev_sort sel_template node_copy node_shallow templates).
  Notation sem := (sem ev_value ev_string ev_bool ev_nodes ev_sort sel_template node_copy node_shallow templates).

  (* ---- run ---- *)
  Lemma run_app : forall a b c s,
    run (a + b) c s = match run a c s with Run c' s' => run b c' s' | r => r end.
  Proof.
    induction a; intros b c s.
    - reflexivity.
    - cbn [plus XsltCoreDefs.run]. destruct (step c s); auto.
  Qed.

  Lemma run_to : forall a b c s c' s', run a c s = Run c' s' -> run (a + b) c s = run b c' s'.
  Proof. intros. rewrite run_app. rewrite H. reflexivity. Qed.

  Lemma run_one : forall c s c' s', step c s = Run c' s' -> run 1 c s = Run c' s'.
  Proof. intros. cbn [XsltCoreDefs.run]. rewrite H. reflexivity. Qed.

  Lemma run_done_more : forall a b c s s', run a c s = Done s' -> run (a + b) c s = Done s'.
  Proof. intros. rewrite run_app. rewrite H. reflexivity. Qed.

  (* ---- emission ---- *)
  Lemma emit_nil : forall o, emit [] o = o.
  Proof. destruct o; reflexivity. Qed.

  Lemma emit_app : forall a b o, emit (a ++ b) o = emit b (emit a o).
  Proof. destruct o; simpl; auto. rewrite run_ops_app. reflexivity. Qed.

  Lemma add_attrs_guarded : forall pre s, pending s = true ->
    fold_left (fun s p => eng_add_attr (fst p) (snd p) s) pre s =
    run_ops (map (fun p => IAttr (fst p) (snd p)) pre) s.
  Proof.
    induction pre; intros s Hp; simpl; auto.
    unfold run_ops in *. simpl. rewrite Hp. apply IHpre. unfold pending, eng_add_attr in *. simpl. exact Hp.
  Qed.

  Lemma emit_lre_start_ops : forall n pre o, nonempty n = true ->
    emit_lre_start n pre o = emit (IStart n :: map (fun p => IAttr (fst p) (snd p)) pre) o.
  Proof.
    intros n pre o Hn. destruct o; simpl; auto. f_equal.
    rewrite add_attrs_guarded.
    - reflexivity.
    - unfold pending, eng_start. simpl. exact Hn.
  Qed.

  (* ---- binding identities and the XObject heap ---- *)
  Definition Res (store : list value) (b : list (N * N)) (e : venv) : Prop :=
    Forall2 (fun p q => fst p = fst q /\ nth_error store (N.to_nat (snd p)) = Some (snd q)) b e.

  Lemma Res_ext : forall store x b e, Res store b e -> Res (store ++ x) b e.
  Proof.
    induction 1; constructor; auto. destruct H as [H1 H2]. split; auto.
    rewrite nth_error_app1; auto. apply nth_error_Some. congruence.
  Qed.

  Lemma Res_lookup : forall store b e n, Res store b e ->
    lookup_v n e = match lookup n b with Some i => nth_error store (N.to_nat i) | None => None end.
  Proof.
    induction 1; simpl; auto. destruct x as [n1 i1], y as [n2 v2]. simpl in *. destruct H as [H1 H2]. subst.
    destruct (N.eqb n2 n); auto.
  Qed.

  Lemma Res_lookup_none : forall store b e n, Res store b e -> lookup_v n e = None -> lookup n b = None.
  Proof.
    induction 1; simpl; auto. destruct x as [n1 i1], y as [n2 v2]. simpl in *. destruct H as [H1 H2]. subst.
    destruct (N.eqb n2 n); auto. discriminate.
  Qed.

  Lemma Res_lookup_some : forall store b e n v, Res store b e -> lookup_v n e = Some v ->
    exists i, lookup n b = Some i /\ nth_error store (N.to_nat i) = Some v.
  Proof.
    intros. rewrite (Res_lookup _ _ _ n H) in H0. destruct (lookup n b); try discriminate. eauto.
  Qed.

  Lemma Res_app : forall store b1 e1 b2 e2, Res store b1 e1 -> Res store b2 e2 -> Res store (b1 ++ b2) (e1 ++ e2).
  Proof. intros. apply Forall2_app; auto. Qed.

  Lemma Res_rev : forall store b e, Res store b e -> Res store (rev b) (rev e).
  Proof.
    induction 1; simpl. constructor. apply Forall2_app; auto.
  Qed.

  Lemma Res_new : forall store n v, Res (store ++ [v]) [(n, N.of_nat (length store))] [(n, v)].
  Proof.
    intros. constructor; [|constructor]. simpl. split; auto. rewrite Nat2N.id.
    rewrite nth_error_app2 by lia. rewrite Nat.sub_diag. reflexivity.
  Qed.

  Definition VS (F R : list entry) : vs := st (F ++ ECtx :: R) 2.
  Definition GoodR (F R : list entry) : Prop := Good [] F R.

  Lemma fp_bottom : forall X, frame_pushed_l 0%N (X ++ [EFrame 0%N; ECtx]) = true.
  Proof. induction X; simpl. reflexivity. apply fp_cons. exact IHX. Qed.

  Lemma good_frame_pushed : forall F R, GoodR F R -> frame_pushed_l 0%N (F ++ ECtx :: R) = true.
  Proof.
    intros F R [_ [_ [U HU]]]. rewrite HU. unfold gseg. simpl. rewrite app_assoc. apply fp_bottom.
  Qed.

  Lemma push_variable_VS : forall n b F R, GoodR F R ->
    push_variable n b 0%N (VS F R) = Some (VS (EVar n b :: F) R).
  Proof.
    intros. unfold push_variable, frame_pushed, VS. cbn [stk st]. rewrite good_frame_pushed by assumption.
    rewrite push_st. reflexivity.
  Qed.

  Lemma get_variable_VS : forall n F R, GoodR F R -> fst (get_variable n (VS F R)) = loc n F.
  Proof.
    intros. unfold VS. change 2 with (length (gseg [])). rewrite get_variable_st by assumption.
    simpl. destruct (loc n F); reflexivity.
  Qed.

  Lemma get_param_VS : forall n F R, GoodR F R ->
    get_param_variable n (VS F R) = (fst (fl n true F), VS (act n F) R).
  Proof. intros. unfold VS. change 2 with (length (gseg [])). apply get_param_st. assumption. Qed.

  Lemma Fr_loc : forall F benv wpb n, Fr true F benv wpb -> loc n F = lookup n benv.
  Proof.
    intros F benv wpb n [H0 [Ha [Hb _]]]. destruct (lookup n benv) eqn:E.
    - apply Ha. assumption.
    - apply Hb; auto.
  Qed.

  Lemma mlk_slk : forall F R benv wpb store en xs,
    GoodR F R -> Fr true F benv wpb -> Res store benv en ->
    mlk (VS F R) store xs = slk en xs.
  Proof.
    intros F R benv wpb store en xs HG HF HR. unfold mlk, slk.
    induction xs; simpl; auto. rewrite IHxs. rewrite get_variable_VS by assumption.
    rewrite (Fr_loc _ _ _ _ HF). rewrite (Res_lookup _ _ _ a HR). reflexivity.
  Qed.

  (* ---- the evaluation glue depends on the lookup function only through its results ---- *)
  Section Ext.
    Variables lk1 lk2 : lkfun.
    Hypothesis Hlk : forall xs, lk1 xs = lk2 xs.

    Lemma gx_ext : forall (A : Type) (evf : N -> list value -> N -> N -> N -> A) c e, gx evf lk1 c e = gx evf lk2 c e.
    Proof. intros. unfold gx. rewrite Hlk. reflexivity. Qed.

    Lemma ev_avt_ext : forall c parts, ev_avt ev_string lk1 c parts = ev_avt ev_string lk2 c parts.
    Proof. induction parts; simpl; auto. destruct a; rewrite IHparts; auto. rewrite gx_ext. reflexivity. Qed.

    Lemma ev_atts_ext : forall c atts, ev_atts ev_string lk1 c atts = ev_atts ev_string lk2 c atts.
    Proof. unfold ev_atts. induction atts; simpl; auto. rewrite IHatts. rewrite ev_avt_ext. reflexivity. Qed.

    Lemma sel_nodes_ext : forall c e srt, sel_nodes ev_nodes ev_sort lk1 c e srt = sel_nodes ev_nodes ev_sort lk2 c e srt.
    Proof. intros. unfold sel_nodes. rewrite gx_ext. destruct (gx ev_nodes lk2 c e); auto. destruct srt; auto. apply gx_ext. Qed.

    Lemma pick_ext : forall c l, pick ev_bool lk1 c l = pick ev_bool lk2 c l.
    Proof. induction l; simpl; auto. destruct a; auto. rewrite gx_ext. rewrite IHl. reflexivity. Qed.
  End Ext.

  (* ---- fuel monotonicity of the reference semantics ---- *)
  Definition gle (g g' : instr -> venv -> option (venv * list item)) : Prop :=
    forall x en r, g x en = Some r -> g' x en = Some r.

  Lemma sem_seq_mono : forall g g', gle g g' -> forall l en r, sem_seq g l en = Some r -> sem_seq g' l en = Some r.
  Proof.
    intros g g' H. induction l; intros en r; simpl; auto.
    destruct (g a en) as [[en' o1]|] eqn:E; try discriminate. rewrite (H _ _ _ E).
    destruct (sem_seq g l en') eqn:E2; try discriminate. rewrite (IHl _ _ E2). auto.
  Qed.

  Lemma each_mono : forall (g g' : N -> N -> option (list item)),
    (forall n p r, g n p = Some r -> g' n p = Some r) ->
    forall l pos r, each g l pos = Some r -> each g' l pos = Some r.
  Proof.
    intros g g' H. induction l; intros pos r; simpl; auto.
    destruct (g a pos) eqn:E; try discriminate. rewrite (H _ _ _ E).
    destruct (each g l (N.succ pos)) eqn:E2; try discriminate. rewrite (IHl _ _ E2). auto.
  Qed.

  Lemma sem_vvalue_mono : forall (s s' : list instr -> venv -> option (list item)),
    (forall l en r, s l en = Some r -> s' l en = Some r) ->
    forall c sel body en r, sem_vvalue ev_value s c sel body en = Some r -> sem_vvalue ev_value s' c sel body en = Some r.
  Proof.
    intros s s' H c sel body en r. unfold sem_vvalue. destruct sel; auto. destruct body; auto.
    destruct (s (i :: body) en) eqn:E; try discriminate. rewrite (H _ _ _ E). auto.
  Qed.

  Lemma sem_wps_mono : forall (s s' : list instr -> venv -> option (list item)),
    (forall l en r, s l en = Some r -> s' l en = Some r) ->
    forall c en l r, sem_wps ev_value s c en l = Some r -> sem_wps ev_value s' c en l = Some r.
  Proof.
    intros s s' H c en. induction l; intros r; simpl; auto. destruct a; auto.
    destruct (sem_vvalue ev_value s c sel body en) eqn:E; try discriminate.
    rewrite (sem_vvalue_mono s s' H _ _ _ _ _ E).
    destruct (sem_wps ev_value s c en l) eqn:E2; try discriminate. rewrite (IHl _ eq_refl). auto.
  Qed.

  Lemma sem_tmpl_mono : forall (g g' : venv -> ctx -> instr -> venv -> option (venv * list item)),
    (forall pv c, gle (g pv c) (g' pv c)) ->
    forall pv c t r, sem_tmpl ev_value templates g pv c t = Some r -> sem_tmpl ev_value templates g' pv c t = Some r.
  Proof.
    intros g g' H pv c t r. unfold sem_tmpl. destruct (nth_error templates (N.to_nat t)); auto. destruct i; auto.
    destruct (sem_params ev_value pv c ps []); auto. apply sem_seq_mono. apply H.
  Qed.

  Lemma sem_S_gen : forall f f1, (forall wp c, gle (sem f wp c) (sem f1 wp c)) ->
    forall wp c, gle (sem (S f) wp c) (sem (S f1) wp c).
  Proof.
    intros f f1 IHf wp c x en r H.
    assert (IHs : forall wp' c' l en' r', sem_seq (sem f wp' c') l en' = Some r' -> sem_seq (sem f1 wp' c') l en' = Some r').
    { intros wp' c'. apply sem_seq_mono. apply IHf. }
    assert (IHt : forall pv c' t r', sem_tmpl ev_value templates (sem f) pv c' t = Some r' -> sem_tmpl ev_value templates (sem f1) pv c' t = Some r').
    { apply sem_tmpl_mono. intros. apply IHf. }
    revert H. cbn [XsltCoreDefs.sem]. destruct x; auto.
    - destruct (nonempty n); auto. destruct (ev_atts ev_string (slk en) c atts); auto.
      destruct (sem_seq (sem f wp c) body en) eqn:E; try discriminate. rewrite (IHs _ _ _ _ _ E). auto.
    - destruct (gx ev_bool (slk en) c e) as [[|]|]; auto.
      destruct (sem_seq (sem f wp c) body en) eqn:E; try discriminate. rewrite (IHs _ _ _ _ _ E). auto.
    - destruct (pick ev_bool (slk en) c branches) as [[x|]|]; auto.
      destruct (sem f wp c x en) as [[e1 o1]|] eqn:E; try discriminate. rewrite (IHf _ _ _ _ _ E). auto.
    - destruct (sem_seq (sem f wp c) body en) eqn:E; try discriminate. rewrite (IHs _ _ _ _ _ E). auto.
    - destruct (sem_seq (sem f wp c) body en) eqn:E; try discriminate. rewrite (IHs _ _ _ _ _ E). auto.
    - destruct body; auto. destruct (sel_nodes ev_nodes ev_sort (slk en) c e srt); auto.
      match goal with |- match each ?g ?l ?p with _ => _ end = _ -> _ => destruct (each g l p) eqn:E; try discriminate end.
      erewrite each_mono; try exact E; try (intros n0 p0 r0; apply IHs); auto.
    - destruct (sem_wps ev_value (sem_seq (sem f wp c)) c en wps) eqn:E; try discriminate.
      rewrite (sem_wps_mono _ _ (IHs wp c) _ _ _ _ E).
      destruct (sem_tmpl ev_value templates (sem f) v c t) eqn:E2; try discriminate. rewrite (IHt _ _ _ _ E2). auto.
    - match goal with |- match sem_wps _ ?s ?c1 _ _ with _ => _ end = _ -> _ => destruct (sem_wps ev_value s c1 en wps) eqn:E; try discriminate end.
      erewrite sem_wps_mono; [| |exact E]; [|apply IHs].
      match goal with |- match sel_nodes _ _ _ ?c1 _ _ with _ => _ end = _ -> _ => destruct (sel_nodes ev_nodes ev_sort (slk en) c1 e srt); auto end.
      match goal with |- match each ?g ?l ?p with _ => _ end = _ -> _ => destruct (each g l p) eqn:E3; try discriminate end.
      erewrite each_mono; try exact E3; try (intros n0 p0 r0; cbv beta; destruct (sel_template n0 _); auto; fail); auto.
    - destruct (lookup_v n en); auto.
      destruct (sem_vvalue ev_value (sem_seq (sem f wp c)) c sel body en) eqn:E; try discriminate.
      rewrite (sem_vvalue_mono _ _ (IHs wp c) _ _ _ _ _ E). auto.
    - destruct (node_shallow (cnode c)); auto.
      + destruct (nonempty n); auto. destruct (sem_seq (sem f wp c) body en) eqn:E; try discriminate. rewrite (IHs _ _ _ _ _ E). auto.
      + destruct (sem_seq (sem f wp c) body en) eqn:E; try discriminate. rewrite (IHs _ _ _ _ _ E). auto.
  Qed.

  Lemma sem_S : forall f wp c, gle (sem f wp c) (sem (S f) wp c).
  Proof.
    induction f; intros wp c. intros x en r H; discriminate. apply sem_S_gen. exact IHf.
  Qed.

  Lemma sem_fuel_le : forall f f' wp c, f <= f' -> gle (sem f wp c) (sem f' wp c).
  Proof.
    induction 1. intros x en r H; exact H.
    intros x en r H0. apply sem_S. apply IHle. exact H0.
  Qed.
End CoreBase.
