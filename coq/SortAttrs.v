(* C16 — ElemForEach::sortChildren: which attributes each sort key ends up with; and the concrete
   code-point collation is a total preorder. *)
From Coq Require Import ZArith NArith List Bool Arith Lia.
Import ListNotations.
Require Import XV.GenSort XV.SortDefs XV.SortOrder XV.SortModel.

(* ------------------------------------------------------------------------------------------ *)
(* code-point order *)

Lemma lex_compare_refl : forall x, lex_compare x x = Eq.
Proof. induction x as [|a t IH]; simpl; [reflexivity|]. rewrite N.compare_refl. exact IH. Qed.

Lemma lex_compare_sym : forall x y, lex_compare y x = CompOpp (lex_compare x y).
Proof.
  induction x as [|a t IH]; destruct y as [|b u]; simpl; try reflexivity.
  rewrite (N.compare_antisym a b). destruct (N.compare a b); simpl; try reflexivity. apply IH.
Qed.

Lemma lex_compare_trans : forall x y z, lex_compare x y <> Gt -> lex_compare y z <> Gt -> lex_compare x z <> Gt.
Proof.
  induction x as [|a t IH]; intros y z; destruct y as [|b u]; destruct z as [|d v]; simpl; try congruence.
  destruct (N.compare_spec a b); destruct (N.compare_spec b d); intros H1 H2; try congruence; subst.
  - rewrite N.compare_refl. apply IH with u; assumption.
  - destruct (N.compare_spec b d); try congruence; subst; lia.
  - destruct (N.compare_spec a d); try congruence; subst; lia.
  - destruct (N.compare_spec a d); try congruence; subst; lia.
Qed.

Theorem cp_coll_ok : coll_ok cp_coll.
Proof.
  intros lang co. unfold cp_coll. split.
  - intro x. apply lex_compare_refl.
  - intros x y. apply lex_compare_sym.
  - intros x y z. apply lex_compare_trans.
Qed.

(* ------------------------------------------------------------------------------------------ *)
(* the attribute loop *)

Lemma avt_eval_nil : forall a, avt_eval [] a = avt_own a.
Proof. destruct a; reflexivity. Qed.

Lemma set_lang_set_lang : forall f g k, set_lang f (set_lang g k) = set_lang f k.
Proof. intros. reflexivity. Qed.

Definition lang_step (l : str) (e : sort_elem) : str := avt_eval (if lang_fresh then [] else l) (se_lang e).

Lemma step_spec : forall l e,
    sort_attr_step (l, []) e =
    match own_key e with
    | None => None
    | Some k => Some (set_lang (lang_step l e) k, (lang_step l e, []))
    end.
Proof.
  intros l e. unfold sort_attr_step, own_key, lang_step. rewrite avt_eval_nil.
  destruct (decode_dtype (avt_own (se_dtype e))); [|reflexivity]. cbv zeta. rewrite avt_eval_nil.
  destruct (decode_order (avt_own (se_order e))); [|reflexivity]. rewrite avt_eval_nil.
  destruct (decode_case (avt_own (se_case e))); reflexivity.
Qed.

(* the keys the loop produces: the declared ones, each with the language string as it is then *)
Fixpoint running_keys (l : str) (es : list sort_elem) (oks : list skey) : list skey :=
  match es, oks with
  | e :: t, k :: ks => set_lang (lang_step l e) k :: running_keys (lang_step l e) t ks
  | _, _ => []
  end.

Lemma loop_spec : forall es l r,
    sort_attrs_loop (l, []) es = r ->
    match r, own_keys es with
    | Some (ks, fin), Some oks => fin = fold_left lang_step es l /\ ks = running_keys l es oks
    | None, None => True
    | _, _ => False
    end.
Proof.
  induction es as [|e t IH]; intros l r <-.
  - simpl. split; reflexivity.
  - cbn [sort_attrs_loop own_keys]. rewrite step_spec. destruct (own_key e) as [k|].
    + specialize (IH (lang_step l e) _ eq_refl).
      destruct (sort_attrs_loop (lang_step l e, []) t) as [[ks fin]|]; destruct (own_keys t) as [oks|]; try contradiction.
      * destruct IH as [F M]. cbn. split; [exact F|]. rewrite M. reflexivity.
      * exact I.
    + destruct (own_keys t); exact I.
Qed.

Lemma final_lang_fold : forall es, final_lang es = fold_left lang_step es [].
Proof. reflexivity. Qed.

Lemma running_keys_set_lang : forall f es l oks, length es = length oks ->
    map (set_lang f) (running_keys l es oks) = map (set_lang f) oks.
Proof.
  induction es as [|e t IH]; intros l oks H; destruct oks as [|k ks]; simpl in *; try discriminate; try reflexivity.
  rewrite IH by congruence. reflexivity.
Qed.

Lemma own_keys_forall2 : forall es oks, own_keys es = Some oks -> Forall2 (fun e k => own_key e = Some k) es oks.
Proof.
  induction es as [|e t IH]; intros oks H; simpl in H.
  - inversion H. constructor.
  - destruct (own_key e) eqn:E; [|discriminate]. destruct (own_keys t) eqn:T; [|discriminate].
    inversion H; subst. constructor; [exact E | apply IH; reflexivity].
Qed.

Lemma Forall2_length : forall A B (R : A -> B -> Prop) l1 l2, Forall2 R l1 l2 -> length l1 = length l2.
Proof. intros A B R l1 l2 H. induction H; simpl; congruence. Qed.
Arguments Forall2_length {A B R l1 l2} _.

Lemma own_key_lang : forall e k, own_key e = Some k -> k_lang k = avt_own (se_lang e).
Proof.
  intros e k H. unfold own_key in H.
  destruct (decode_dtype (avt_own (se_dtype e))); [|discriminate].
  destruct (decode_order (avt_own (se_order e))); [|discriminate].
  destruct (decode_case (avt_own (se_case e))); [|discriminate].
  inversion H. reflexivity.
Qed.

Lemma str_eqb_eq : forall a b, str_eqb a b = true <-> a = b.
Proof.
  induction a as [|x t IH]; destruct b as [|y u]; simpl; split; intro H; try reflexivity; try discriminate.
  - apply andb_prop in H. destruct H as [H1 H2]. apply N.eqb_eq in H1. apply IH in H2. subst. reflexivity.
  - inversion H; subst. rewrite N.eqb_refl. simpl. apply IH. reflexivity.
Qed.

Lemma set_lang_id : forall k f, k_lang k = f -> set_lang f k = k.
Proof. intros [n d c l] f H. simpl in H. subst. reflexivity. Qed.

Lemma map_set_lang_id_iff : forall f es oks,
    Forall2 (fun e k => own_key e = Some k) es oks ->
    (map (set_lang f) oks = oks <-> forallb (fun e => str_eqb (avt_own (se_lang e)) f) es = true).
Proof.
  intros f es oks H. induction H as [|e k es' oks' HK HR IH]; simpl.
  - tauto.
  - rewrite andb_true_iff, str_eqb_eq, <- IH. pose proof (own_key_lang e k HK) as L. split.
    + intros E. inversion E as [[E1 E2]]. split; [|rewrite E2; exact E2].
      rewrite <- L. destruct k; simpl in *. inversion E1. congruence.
    + intros [E1 E2]. rewrite E2. f_equal. apply set_lang_id. congruence.
Qed.

(* in every configuration: data-type, order and case-order of each key are its own, and the
   errors are those of the keys themselves *)
Theorem key_attrs_other_independent : forall es ks,
    sort_attrs es = Some ks ->
    exists oks, own_keys es = Some oks /\ map (set_lang []) ks = map (set_lang []) oks.
Proof.
  intros es ks H. unfold sort_attrs in H.
  destruct (sort_attrs_loop ([], []) es) as [[ks0 fin]|] eqn:EL; [|discriminate].
  pose proof (loop_spec es [] _ EL) as S. destruct (own_keys es) as [oks|] eqn:EO; [|contradiction].
  destruct S as [_ M]. exists oks. split; [reflexivity|].
  pose proof (Forall2_length (own_keys_forall2 es oks EO)) as LEN.
  revert H. destruct lang_aliased; intros H; injection H as <-.
  - rewrite map_map. rewrite <- (running_keys_set_lang [] es [] oks LEN). rewrite M. apply map_ext. reflexivity.
  - rewrite M. apply running_keys_set_lang. exact LEN.
Qed.

Theorem sort_attrs_error_iff : forall es, sort_attrs es = None <-> own_keys es = None.
Proof.
  intros es. unfold sort_attrs.
  destruct (sort_attrs_loop ([], []) es) as [[ks0 fin]|] eqn:EL; pose proof (loop_spec es [] _ EL) as S;
    destruct (own_keys es) as [oks|]; try contradiction; split; congruence.
Qed.

(* ---- the source as it is: one scratch string, never cleared, kept by pointer ---- *)
Section SharedLang.
  Hypothesis FRESH : lang_fresh = false.
  Hypothesis ALIASED : lang_aliased = true.

  (* every key is its own except for the language, which is the final content of the scratch string *)
  Theorem sort_attrs_char : forall es,
      sort_attrs es = option_map (map (set_lang (final_lang es))) (own_keys es).
  Proof.
    intros es. unfold sort_attrs. rewrite ALIASED.
    destruct (sort_attrs_loop ([], []) es) as [[ks fin]|] eqn:EL; pose proof (loop_spec es [] _ EL) as H;
      destruct (own_keys es) as [oks|] eqn:EO; try contradiction.
    - destruct H as [F M]. simpl. rewrite final_lang_fold, <- F. rewrite M.
      rewrite running_keys_set_lang; [reflexivity | apply (Forall2_length (own_keys_forall2 es oks EO))].
    - reflexivity.
  Qed.

  Theorem sort_attrs_lang : forall es ks, sort_attrs es = Some ks -> Forall (fun k => k_lang k = final_lang es) ks.
  Proof.
    intros es ks H. rewrite sort_attrs_char in H. destruct (own_keys es) as [oks|]; [|discriminate].
    simpl in H. inversion H. apply Forall_forall. intros k Hin. apply in_map_iff in Hin.
    destruct Hin as (k0 & E & _). subst k. reflexivity.
  Qed.

  (* exact guard: the keys are the declared ones iff the final string is every key's own lang *)
  Theorem key_attrs_independent_partial : forall es oks,
      own_keys es = Some oks -> (sort_attrs es = Some oks <-> langs_independent es = true).
  Proof.
    intros es oks H. rewrite sort_attrs_char, H. simpl. unfold langs_independent.
    rewrite <- (map_set_lang_id_iff (final_lang es) es oks (own_keys_forall2 es oks H)).
    split; [intros E; inversion E as [E1]; rewrite E1; exact E1 | intros E; rewrite E; reflexivity].
  Qed.

  Lemma lang_step_shared : forall l e, lang_step l e = avt_eval l (se_lang e).
  Proof. intros. unfold lang_step. rewrite FRESH. reflexivity. Qed.

  Corollary single_key_independent : forall e, langs_independent [e] = true.
  Proof.
    intros e. unfold langs_independent.
    assert (F : final_lang [e] = avt_own (se_lang e)).
    { rewrite final_lang_fold. simpl. rewrite lang_step_shared. apply avt_eval_nil. }
    rewrite F. simpl. rewrite (proj2 (str_eqb_eq _ _) eq_refl). reflexivity.
  Qed.

  Lemma fold_absent : forall es l, Forall (fun e => se_lang e = AvtAbsent) es -> fold_left lang_step es l = l.
  Proof.
    induction es as [|e t IH]; intros l H; simpl; [reflexivity|]. inversion H; subst.
    rewrite lang_step_shared. rewrite H2. simpl. apply IH. assumption.
  Qed.

  Corollary no_lang_independent : forall es, Forall (fun e => se_lang e = AvtAbsent) es -> langs_independent es = true.
  Proof.
    intros es H. unfold langs_independent. rewrite final_lang_fold, fold_absent by exact H.
    apply forallb_forall. intros e Hin. rewrite Forall_forall in H. rewrite (H e Hin). reflexivity.
  Qed.
End SharedLang.

(* ---- a source in which every key has its own, initially empty, language string ---- *)
Section OwnLang.
  Hypothesis FRESH : lang_fresh = true.
  Hypothesis NOT_ALIASED : lang_aliased = false.

  Lemma running_keys_own : forall es l oks,
      Forall2 (fun e k => own_key e = Some k) es oks -> running_keys l es oks = oks.
  Proof.
    intros es l oks H. revert l. induction H as [|e k es' oks' HK HR IH]; intros l; simpl; [reflexivity|].
    rewrite IH. f_equal. apply set_lang_id. unfold lang_step. rewrite FRESH, avt_eval_nil.
    apply own_key_lang. exact HK.
  Qed.

  Theorem key_attrs_independent_full : forall es, sort_attrs es = own_keys es.
  Proof.
    intros es. unfold sort_attrs. rewrite NOT_ALIASED.
    destruct (sort_attrs_loop ([], []) es) as [[ks fin]|] eqn:EL; pose proof (loop_spec es [] _ EL) as H;
      destruct (own_keys es) as [oks|] eqn:EO; try contradiction.
    - destruct H as [_ M]. rewrite M. rewrite running_keys_own; [reflexivity | apply own_keys_forall2; exact EO].
    - reflexivity.
  Qed.
End OwnLang.
