(* SerUtfModel.v — C04: machine-checked facts about the buffered writers (SerUtfDefs) and the
   formatter (SerEscDefs): transparency of the staging buffer, soundness of every guard, UTF-8
   against the independent specification.  The generated constants of GenSer are used only
   through closed boolean checks decided by computation. *)
From Coq Require Import NArith List Bool Lia ZifyBool ZifyNat ZifyN.
Require Import XV.SerDefs.
Import ListNotations.
Local Open Scope N_scope.

Local Notation sound kb its := (forallb (item_sound kb) its = true).

(* ---- small list facts ---------------------------------------------------------------------- *)
Lemma len_app : forall a b, len (a ++ b) = len a + len b.
Proof. intros. unfold len. rewrite app_length. lia. Qed.

Lemma len_cons : forall x a, len (x :: a) = 1 + len a.
Proof. intros. unfold len. cbn [length]. lia. Qed.

Lemma len_nil : len [] = 0.
Proof. reflexivity. Qed.

Lemma len_rev : forall a, len (rev a) = len a.
Proof. intros. unfold len. rewrite rev_length. reflexivity. Qed.

Lemma sound_app : forall kb a b, sound kb a -> sound kb b -> sound kb (a ++ b).
Proof. intros. rewrite forallb_app, H, H0. reflexivity. Qed.

Lemma sound_app_inv : forall kb a b, sound kb (a ++ b) -> sound kb a /\ sound kb b.
Proof. intros kb a b H. rewrite forallb_app in H. apply andb_true_iff in H. exact H. Qed.

Lemma sound_nil : forall kb, sound kb [].
Proof. reflexivity. Qed.

Lemma sound_flat_map : forall kb (A : Type) (f : A -> list item) l,
  (forall x, sound kb (f x)) -> sound kb (flat_map f l).
Proof.
  intros kb A f l H. induction l as [|x l IH]; cbn [flat_map]; [reflexivity|].
  apply sound_app; auto.
Qed.

(* ==== 1. writer invariant and transparency =================================================== *)
Definition wr_inv (kb : N) (w : wr) : Prop := pos w = len (buf_rev w) /\ pos w + rem w = kb.

Lemma wr_init_inv : forall kb, wr_inv kb (wr_init kb).
Proof. intros kb. unfold wr_inv, wr_init. cbn [pos buf_rev rem]. rewrite len_nil. lia. Qed.

Lemma all_units_init : forall kb, all_units (wr_init kb) = [].
Proof. reflexivity. Qed.

Lemma flush_inv : forall kb w, wr_inv kb (flush kb w).
Proof. intros. unfold wr_inv, flush. cbn [pos buf_rev rem]. rewrite len_nil. lia. Qed.

Lemma flush_units : forall kb w, all_units (flush kb w) = all_units w.
Proof.
  intros. unfold all_units, flush. cbn [out_rev buf_rev rev].
  rewrite rev_app_distr, app_nil_r. reflexivity.
Qed.

Lemma stores_ok : forall kb xs w, pos w + len xs <= kb ->
  stores kb xs w = Some (mkwr (out_rev w) (rev xs ++ buf_rev w) (pos w + len xs) (rem w)).
Proof.
  intros kb xs. induction xs as [|x xs IH]; intros w H.
  - cbn [stores rev app]. rewrite len_nil, N.add_0_r. destruct w; reflexivity.
  - rewrite len_cons in H. cbn [stores].
    destruct (pos w <? kb) eqn:E; [|exfalso; lia].
    rewrite IH by (cbn [pos]; lia).
    cbn [out_rev buf_rev pos rem rev]. rewrite <- app_assoc. cbn [app].
    rewrite len_cons. do 2 f_equal. lia.
Qed.

Lemma sub64_exact : forall a b, b <= a -> a < 2 ^ 64 -> sub64 a b = a - b.
Proof.
  intros a b H1 H2. unfold sub64.
  replace (a + 2 ^ 64 - b) with ((a - b) + 1 * 2 ^ 64) by lia.
  rewrite N.mod_add by (apply N.pow_nonzero; lia).
  apply N.mod_small. lia.
Qed.

Lemma run_item_put : forall kb g xs d w, kb < 2 ^ 64 -> wr_inv kb w ->
  item_sound kb (IPut g xs d) = true ->
  exists w', run_item kb (IPut g xs d) w = Ok w' /\ wr_inv kb w' /\ all_units w' = all_units w ++ xs.
Proof.
  intros kb g xs d w Hkb Hinv Hs. cbn [item_sound] in Hs.
  apply andb_true_iff in Hs. destruct Hs as [Hs Hd]. apply andb_true_iff in Hs.
  destruct Hs as [Hg Hk]. apply N.leb_le in Hg, Hk. apply N.eqb_eq in Hd. subst d.
  cbn [run_item].
  set (w1 := if rem w <? g then flush kb w else w).
  assert (H1 : wr_inv kb w1 /\ len xs <= rem w1 /\ all_units w1 = all_units w).
  { subst w1. destruct (rem w <? g) eqn:E.
    - split; [apply flush_inv|]. split; [cbn [flush rem]; lia|apply flush_units].
    - split; [exact Hinv|]. split; [lia|reflexivity]. }
  destruct H1 as [[Hp Hr] [Hl Hu]].
  rewrite stores_ok by lia. cbn [out_rev buf_rev pos rem].
  eexists. split; [reflexivity|]. split.
  - unfold wr_inv. cbn [pos buf_rev rem]. rewrite len_app, len_rev.
    rewrite sub64_exact by lia. lia.
  - unfold all_units in *. cbn [out_rev buf_rev]. rewrite rev_app_distr, rev_involutive.
    rewrite app_assoc, Hu. reflexivity.
Qed.

Lemma run_item_direct : forall kb xs w,
  exists w', run_item kb (IDirect xs) w = Ok w' /\ wr_inv kb w' /\ all_units w' = all_units w ++ xs.
Proof.
  intros. cbn [run_item]. eexists. split; [reflexivity|]. split.
  - unfold wr_inv, flush. cbn [pos buf_rev rem]. rewrite len_nil. lia.
  - unfold all_units, flush. cbn [out_rev buf_rev rev].
    rewrite !rev_app_distr, rev_involutive, app_nil_r. reflexivity.
Qed.

Theorem run_transparent : forall kb its w, kb < 2 ^ 64 -> wr_inv kb w ->
  forallb (item_sound kb) its = true ->
  match payload its with
  | Ok bs => exists w', run kb its w = Ok w' /\ wr_inv kb w' /\ all_units w' = all_units w ++ bs
  | Thrown c => run kb its w = Thrown c
  | Oob => False
  end.
Proof.
  intros kb its. induction its as [|it r IH]; intros w Hkb Hinv Hs.
  - cbn [payload run]. exists w. rewrite app_nil_r. auto.
  - cbn [forallb] in Hs. apply andb_true_iff in Hs. destruct Hs as [Hit Hr].
    destruct it as [g xs d|xs| |c].
    + destruct (run_item_put kb g xs d w Hkb Hinv Hit) as [w1 [E1 [I1 U1]]].
      specialize (IH w1 Hkb I1 Hr).
      cbn [payload run]. rewrite E1. destruct (payload r) as [bs| |c].
      * destruct IH as [w' [E [I U]]]. exists w'. split; [exact E|]. split; [exact I|].
        rewrite U, U1, app_assoc. reflexivity.
      * exact IH.
      * exact IH.
    + destruct (run_item_direct kb xs w) as [w1 [E1 [I1 U1]]].
      specialize (IH w1 Hkb I1 Hr).
      cbn [payload run]. rewrite E1. destruct (payload r) as [bs| |c].
      * destruct IH as [w' [E [I U]]]. exists w'. split; [exact E|]. split; [exact I|].
        rewrite U, U1, app_assoc. reflexivity.
      * exact IH.
      * exact IH.
    + specialize (IH (flush kb w) Hkb (flush_inv kb w) Hr).
      cbn [payload run run_item]. rewrite flush_units in IH. exact IH.
    + cbn [payload run run_item]. reflexivity.
Qed.

Lemma payload_not_oob : forall its, payload its <> Oob.
Proof.
  induction its as [|it r IH]; cbn [payload]; [discriminate|].
  destruct it; try assumption; try discriminate; destruct (payload r); congruence.
Qed.

Lemma payload_app : forall a b,
  payload (a ++ b) =
  match payload a with
  | Ok x => match payload b with Ok y => Ok (x ++ y) | e => e end
  | e => e
  end.
Proof.
  induction a as [|it a IH]; intros b.
  - cbn [app payload]. destruct (payload b); reflexivity.
  - cbn [app]. destruct it as [g xs d|xs| |c]; cbn [payload]; rewrite ?IH.
    + destruct (payload a); [|reflexivity|reflexivity].
      destruct (payload b); [|reflexivity|reflexivity]. rewrite app_assoc. reflexivity.
    + destruct (payload a); [|reflexivity|reflexivity].
      destruct (payload b); [|reflexivity|reflexivity]. rewrite app_assoc. reflexivity.
    + reflexivity.
    + reflexivity.
Qed.

(* ==== 2. every item a writer produces is sound ================================================= *)
Lemma put_sound : forall kb g xs d, len xs <= g -> len xs <= kb -> d = len xs ->
  sound kb [IPut g xs d].
Proof.
  intros. cbn [forallb item_sound]. rewrite andb_true_r.
  rewrite !andb_true_iff. repeat split; [apply N.leb_le| apply N.leb_le| apply N.eqb_eq]; assumption.
Qed.

Lemma block_sound : forall kb xs,
  sound kb (if kb <? len xs then [IDirect xs] else [IPut (len xs) xs (len xs)]).
Proof.
  intros. destruct (kb <? len xs) eqn:E; [reflexivity|].
  apply put_sound; lia.
Qed.

(* ---- UTF-8 ---- *)
Definition unit_guard_ok (g kb : N) : bool := (1 <=? g) && (1 <=? kb).

Lemma unit_guard_utf8_ok : unit_guard_ok unit_guard_utf8 kbuf_utf8 = true.
Proof. vm_compute. reflexivity. Qed.
Lemma unit_guard_utf16_ok : unit_guard_ok unit_guard_utf16 kbuf_utf16 = true.
Proof. vm_compute. reflexivity. Qed.
Lemma unit_guard_other_ok : unit_guard_ok unit_guard_other kbuf_other = true.
Proof. vm_compute. reflexivity. Qed.

Lemma unit_sound : forall g kb c, unit_guard_ok g kb = true -> sound kb [IPut g [c] 1].
Proof.
  intros g kb c H. unfold unit_guard_ok in H. apply andb_true_iff in H. destruct H as [H1 H2].
  apply N.leb_le in H1, H2. apply put_sound; rewrite len_cons, len_nil; lia.
Qed.

Lemma u8_unit_sound : forall c, forallb (item_sound kbuf_utf8) (u8_unit c) = true.
Proof. intros. apply unit_sound. exact unit_guard_utf8_ok. Qed.

Lemma u8_block_sound : forall xs, forallb (item_sound kbuf_utf8) (u8_block xs) = true.
Proof. intros. apply block_sound. Qed.

Definition row_ok (kb : N) (row : N * N * list (N * N * N) * N) : bool :=
  match row with
  | (_, g, st, d) =>
      let n := N.of_nat (length st) in (n <=? g) && (n <=? kb) && (d =? n)
  end.

Lemma utf8_rows_ok : forallb (row_ok kbuf_utf8) utf8_rows = true.
Proof. vm_compute. reflexivity. Qed.

Lemma u8_rows_find_sound : forall kb cp rows, forallb (row_ok kb) rows = true ->
  sound kb (u8_rows_find cp rows).
Proof.
  intros kb cp rows. induction rows as [|[[[upper g] st] d] r IH]; intros H.
  - reflexivity.
  - cbn [forallb] in H. apply andb_true_iff in H. destruct H as [H1 H2].
    cbn [u8_rows_find]. destruct (cp <=? upper) eqn:E; [|auto].
    cbn [row_ok] in H1. cbn [forallb item_sound]. rewrite andb_true_r.
    unfold len, row_bytes. rewrite map_length. exact H1.
Qed.

Lemma u8_code_sound : forall cp, forallb (item_sound kbuf_utf8) (u8_code cp) = true.
Proof.
  intros. unfold u8_code. destruct (cp <=? utf8_ascii_upper) eqn:E.
  - apply u8_unit_sound.
  - apply u8_rows_find_sound. exact utf8_rows_ok.
Qed.

Lemma u8_str_sound_aux : forall l,
  sound kbuf_utf8 (u8_str l) /\ forall c, sound kbuf_utf8 (u8_str (c :: l)).
Proof.
  induction l as [|a l [IH1 IH2]].
  - split; [reflexivity|]. intros c. cbn [u8_str].
    destruct (negb (is_high c)); [|reflexivity].
    apply sound_app; [apply u8_code_sound|reflexivity].
  - split; [apply IH2|]. intros c. cbn [u8_str]. fold (u8_str (a :: l)).
    destruct (negb (is_high c)).
    + apply sound_app; [apply u8_code_sound|apply IH2].
    + destruct (is_low a); [|reflexivity].
      apply sound_app; [apply u8_code_sound|apply IH1].
Qed.

Lemma u8_str_sound : forall l, forallb (item_sound kbuf_utf8) (u8_str l) = true.
Proof. intros. apply u8_str_sound_aux. Qed.

Lemma u8_at_sound : forall c r, forallb (item_sound kbuf_utf8) (fst (u8_at c r)) = true.
Proof.
  intros. unfold u8_at. destruct (negb (is_high c)); [apply u8_code_sound|].
  destruct r as [|lo r]; [reflexivity|].
  destruct (is_low lo); [apply u8_code_sound|reflexivity].
Qed.

(* ---- UTF-16 ---- *)
Lemma u16_unit_sound : forall c, forallb (item_sound kbuf_utf16) (u16_unit c) = true.
Proof. intros. apply unit_sound. exact unit_guard_utf16_ok. Qed.

Lemma u16_block_sound : forall xs, forallb (item_sound kbuf_utf16) (u16_block xs) = true.
Proof. intros. apply block_sound. Qed.

(* ---- other encodings ---- *)
Lemma digits_rev_length : forall fuel n, (length (digits_rev fuel n) <= fuel)%nat.
Proof.
  induction fuel as [|f IH]; intros n; cbn [digits_rev]; [apply le_n|].
  destruct (n <? 10); cbn [length]; [lia|]. specialize (IH (n / 10)). lia.
Qed.

Lemma decimal_length : forall cp, (length (decimal cp) <= 20)%nat.
Proof. intros. unfold decimal. rewrite rev_length. apply digits_rev_length. Qed.

Lemma charref_len : forall cp, len (charref cp) <= 23.
Proof.
  intros. unfold charref. rewrite !len_cons, len_app, len_cons, len_nil.
  pose proof (decimal_length cp). unfold len. lia.
Qed.

Lemma charref_fits_other : (23 <=? kbuf_other) = true.
Proof. vm_compute. reflexivity. Qed.

Definition pair_guard_ok : bool :=
  (2 <=? other_pair_guard) && (2 <=? kbuf_other) && (other_pair_decrement =? 2).

Lemma other_pair_guard_ok : pair_guard_ok = true.
Proof. vm_compute. reflexivity. Qed.

Section OtherSound.
  Variable rep : N -> bool.

  Lemma o_charref_sound : forall cp, forallb (item_sound kbuf_other) (o_charref cp) = true.
  Proof.
    intros. unfold o_charref. pose proof (charref_len cp). pose proof charref_fits_other.
    apply put_sound; lia.
  Qed.

  Lemma o_unit_sound : forall c, forallb (item_sound kbuf_other) (o_unit rep c) = true.
  Proof.
    intros. unfold o_unit. destruct (rep c).
    - apply unit_sound. exact unit_guard_other_ok.
    - change (sound kbuf_other ([IPut unit_guard_other [] 0] ++ o_charref c)).
      apply sound_app; [|apply o_charref_sound].
      apply put_sound; rewrite ?len_nil; lia.
  Qed.

  Lemma o_str_sound : forall l, forallb (item_sound kbuf_other) (o_str rep l) = true.
  Proof. intros. unfold o_str. apply sound_flat_map. apply o_unit_sound. Qed.

  Lemma o_code_sound : forall cp, forallb (item_sound kbuf_other) (o_code cp) = true.
  Proof.
    intros. unfold o_code. destruct (other_split_gt <? cp).
    - pose proof other_pair_guard_ok as H. unfold pair_guard_ok in H.
      apply andb_true_iff in H. destruct H as [H H3]. apply andb_true_iff in H. destruct H as [H1 H2].
      apply put_sound; rewrite ?len_cons, ?len_nil; lia.
    - apply unit_sound. exact unit_guard_other_ok.
  Qed.

  Lemma o_at_gen_sound : forall fail, (forall v, sound kbuf_other (fail v)) ->
    forall c r, sound kbuf_other (fst (o_at_gen rep fail c r)).
  Proof.
    intros fail Hf c r. unfold o_at_gen. destruct (is_high c).
    - destruct r as [|lo r]; [reflexivity|]. destruct (is_low lo); [|reflexivity].
      cbn [fst]. destruct (rep _); [apply o_code_sound|apply Hf].
    - cbn [fst]. destruct (rep c); [apply o_code_sound|apply Hf].
  Qed.

  Lemma o_at_sound : forall c r, forallb (item_sound kbuf_other) (fst (o_at rep c r)) = true.
  Proof. intros. apply o_at_gen_sound. apply o_charref_sound. Qed.

  Lemma o_at_name_sound : forall c r, forallb (item_sound kbuf_other) (fst (o_at_name rep c r)) = true.
  Proof. intros. apply o_at_gen_sound. reflexivity. Qed.

  Lemma o_name_sound_aux : forall l,
    sound kbuf_other (o_name rep l) /\ forall c, sound kbuf_other (o_name rep (c :: l)).
  Proof.
    induction l as [|a l [IH1 IH2]].
    - split; [reflexivity|]. intros c. cbn [o_name].
      pose proof (o_at_name_sound c []) as H. destruct (o_at_name rep c []) as [its skip].
      cbn [fst] in H. apply sound_app; [exact H|]. destruct skip; reflexivity.
    - split; [apply IH2|]. intros c. cbn [o_name]. fold (o_name rep (a :: l)).
      pose proof (o_at_name_sound c (a :: l)) as H. destruct (o_at_name rep c (a :: l)) as [its skip].
      cbn [fst] in H. apply sound_app; [exact H|]. destruct skip; [apply IH1|apply IH2].
  Qed.

  Lemma o_name_sound : forall l, forallb (item_sound kbuf_other) (o_name rep l) = true.
  Proof. intros. apply o_name_sound_aux. Qed.

  Lemma o_cdata_char_sound : forall open close c r outside,
    forallb (item_sound kbuf_other) (fst (fst (o_cdata_char rep open close c r outside))) = true.
  Proof.
    intros. unfold o_cdata_char.
    match goal with |- context [match ?d with Some _ => _ | None => _ end] => destruct d as [[v skip]|] end;
      [|reflexivity].
    destruct (rep v); cbn [fst].
    - apply sound_app; [|apply o_code_sound]. destruct outside; [apply o_str_sound|reflexivity].
    - apply sound_app; [|apply o_charref_sound]. destruct outside; [reflexivity|apply o_str_sound].
  Qed.
End OtherSound.
