(* Extraction of the C10 "currule" model for the correspondence driver. ExtrOcamlBasic only. *)
Require Import ExtrOcamlBasic.
Require Import XV.TmplDefs XV.CurRuleDefs.
Extraction "extracted/curRule_model.ml"
  run walk spec wf glob_ok coded_choice_b fixed_variant st_reset push_i top.
