(* Extraction of the C11 model: the six entry points dispatching through the regenerated tables
   (and the data model builder). ExtrOcamlBasic only. *)
Require Import ExtrOcamlBasic.
Require Import XV.NumDefs XV.XpAst XV.DomDefs XV.XpDefs XV.ExecArms XV.GenExec XV.ExecDefs.
Extraction "extracted/exec_model.ml"
  build_doc exec_generic exec_bool exec_num exec_str exec_chars exec_nodelist
  to_string to_number to_boolean to_bits of_bits mkCtx.
