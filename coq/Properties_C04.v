(* Properties_C04.v — property theorems for C04 (XML output parses back to the result tree).
   Nothing but statements closed by [exact] and their assumptions.  The model is
   SerUtfDefs (buffered writers) / SerEscDefs (escaping, element stack) / XmlParseDefs (model
   reader); every table, buffer size and `m_bufferRemaining < k` guard comes from GenSer.v, which
   translator/gen_ser.py regenerates from /repo on every run. *)
From Coq Require Import NArith List Bool.
Require Import XV.SerDefs XV.XmlParseDefs XV.SerUtfModel XV.SerUtfModel2.
Import ListNotations.
Local Open Scope N_scope.

(* ---- the staging buffers ----------------------------------------------------------------------- *)

(* writer_inv + writer_transparent: for ANY sequence of buffer operations whose guards protect
   their stores, started at ANY buffer offset satisfying the invariant
   (position + remaining = kBufferSize): no store falls outside m_buffer, the invariant is kept,
   and what reaches the Writer is exactly the concatenation of the operations' data — a multi-unit
   character can never be torn or lost at a flush. *)
Theorem writer_transparent : forall kb its w, kb < 2 ^ 64 -> wr_inv kb w ->
  forallb (item_sound kb) its = true ->
  match payload its with
  | Ok bs => exists w', run kb its w = Ok w' /\ wr_inv kb w' /\ all_units w' = all_units w ++ bs
  | Thrown c => run kb its w = Thrown c
  | Oob => False
  end.
Proof. exact run_transparent. Qed.
Print Assumptions writer_transparent.

Theorem writer_inv_initially : forall kb, wr_inv kb (wr_init kb).
Proof. exact wr_init_inv. Qed.
Print Assumptions writer_inv_initially.

(* every operation the three writers offer has a guard that protects its stores, for the buffer
   sizes and the guards found in the source (this is the statement that a change of
   `m_bufferRemaining < 3` into `< 2` breaks) *)
Theorem writer_operations_guarded :
  fam_sound fam_utf8 /\ fam_sound fam_utf16 /\ forall rep, fam_sound (fam_other rep).
Proof. exact (conj fam_utf8_sound (conj fam_utf16_sound fam_other_sound)). Qed.
Print Assumptions writer_operations_guarded.

(* hence for every event script, version, and writer family the serializer's output is the plain
   concatenation of what the escaping layer emits: the buffers are invisible and never overrun *)
Theorem serialize_transparent : forall k v11 ver enc es,
  serialize k v11 ver enc es = payload (document_items (fam_of k) v11 ver enc es).
Proof. exact SerUtfModel.serialize_transparent. Qed.
Print Assumptions serialize_transparent.

Theorem serialize_never_out_of_bounds : forall k v11 ver enc es, serialize k v11 ver enc es <> Oob.
Proof. exact serialize_never_oob. Qed.
Print Assumptions serialize_never_out_of_bounds.

(* the function that is extracted and run against the library is this one *)
Theorem extracted_function_is_serialize : forall k v11 ver enc es,
  serialize_fast k v11 ver enc es = serialize k v11 ver enc es.
Proof. exact serialize_fast_eq. Qed.
Print Assumptions extracted_function_is_serialize.

Example writer_transparent_hypotheses_satisfiable :
  forallb (item_sound kbuf_utf8) (u8_str [97; 233; 8364; 55357; 56832]) = true /\
  payload (u8_str [97; 233; 8364; 55357; 56832]) = Ok [97; 195; 169; 226; 130; 172; 240; 159; 152; 128].
Proof. split; vm_compute; reflexivity. Qed.
Print Assumptions writer_transparent_hypotheses_satisfiable.

(* ---- UTF-8 ---------------------------------------------------------------------------------------- *)

(* the byte formulas of XalanUTF8Writer::write(XalanUnicodeChar) (leaf helpers regenerated from the
   source) are RFC 3629 *)
Theorem utf8_encoder_is_rfc3629 : forall cp, cp <= 1114111 -> payload (u8_code cp) = Ok (utf8_spec cp).
Proof. exact u8_code_spec. Qed.
Print Assumptions utf8_encoder_is_rfc3629.

Theorem utf8_above_unicode_throws : forall cp, 1114111 < cp -> payload (u8_code cp) = Thrown err_scalar.
Proof. exact u8_code_too_big. Qed.
Print Assumptions utf8_above_unicode_throws.

(* utf8_roundtrip: a strict decoder (shortest form, no surrogates) reads back exactly the code
   points of every UTF-16 string whose surrogates are paired *)
Theorem utf8_roundtrip : forall s cps, forallb (fun c => c <? 65536) s = true ->
  code_points s = Some cps ->
  exists bs, payload (u8_str s) = Ok bs /\ utf8_decode (S (length bs)) bs = Some cps.
Proof. exact utf8_roundtrip16. Qed.
Print Assumptions utf8_roundtrip.

Example utf8_roundtrip_instance :
  code_points [97; 55357; 56832; 8364] = Some [97; 128512; 8364] /\
  forallb (fun c => c <? 65536) [97; 55357; 56832; 8364] = true.
Proof. split; vm_compute; reflexivity. Qed.
Print Assumptions utf8_roundtrip_instance.

(* FULL statement without the pairing hypothesis is false of the model and of the library (known
   finding K7): a lone low surrogate is written as a 3-byte sequence that no UTF-8 decoder accepts *)
Theorem utf8_roundtrip_lone_low_refuted :
  payload (u8_str [56832]) = Ok [237; 184; 128] /\ utf8_decode 4 [237; 184; 128] = None /\
  code_points [56832] = None.
Proof. exact utf8_lone_low_refuted. Qed.
Print Assumptions utf8_roundtrip_lone_low_refuted.

Theorem utf8_lone_high_is_an_error : forall c, is_high c = true -> payload (u8_str [c]) = Thrown err_surrogate.
Proof. exact utf8_lone_high_throws. Qed.
Print Assumptions utf8_lone_high_is_an_error.
