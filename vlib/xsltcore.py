"""C01, whole-interpreter correspondence (coq/XsltCoreDefs.v): generator of programs of the core instruction
language, translation of the xsltref AST to the `instr` tokens of ocaml/xsltCore_driver.ml, and a recording
subclass of the reference interpreter that produces the oracle tables the abstract mechanisms of the model
(XPath evaluation, sorting, template selection, node copies) are instantiated with.

Everything here is namespace-free (all names unprefixed, no xmlns in documents): the known classes K-C01-4,
C14/K17, C14/KN9/KN10 cannot occur.  Line protocol: see the head comment of ocaml/xsltCore_driver.ml."""
import os

from vlib import core, xpgen, xpref, xsltref, xsltgen
from vlib.xsltgen import P, N, num, lit, fn

MODES = [None, "m1", "m2"]
MODE_ID = {None: 0, "m1": 1, "m2": 2}
EXPR_CHILDREN = 0          # child::node()  (built-in rule for root/elements; xsl:apply-templates without select)
EXPR_DOT = 1               # .              (built-in rule for text/attributes)
CHILD_NODE = ("path", None, [], [("child", "node", [])])
FUEL_MACHINE = 400000
FUEL_SEM = 600
FUEL_REF = 5000
MAX_TABLE = 2500


def enc(s):
    return ".".join("%x" % ord(c) for c in s)


def dec(t):
    return "".join(chr(int(h, 16)) for h in t.split(".")) if t else ""


def ids(l):
    return ".".join(str(x) for x in l)


# ---------------------------------------------------------------------------------------------------
# documents without namespaces

def gen_tree(r, depth, maxch, minel=0):
    name = r.choice(["a", "b", "c", "d", "a", "b"])
    attrs, used = [], set()
    for _ in range(r.choice([0, 0, 1, 1, 2, 3])):
        a = r.choice(["x", "y", "id", "n"])
        if a in used:
            continue
        used.add(a)
        attrs.append((a, r.choice(["1", "2", "3", "10", "a", "b", "ab", "", "1.5", "-1", " 2 ", "x y", "007"])))
    children = []
    if depth > 0:
        last_text = False
        for _ in range(r.randrange(0, maxch + 1)):
            k = r.random()
            if k < 0.6:
                children.append(gen_tree(r, depth - 1, maxch))
                last_text = False
            elif k < 0.85:
                if not last_text:
                    children.append(("t", r.choice(["1", "2", "3", "5", "10", "a", "b", "abc", " ", "\n  ", "1.5", "-2", "x y z", "é", "0", "  7 "])))
                    last_text = True
            elif k < 0.93:
                children.append(("c", r.choice(["c1", "", "note", "2"])))
                last_text = False
            else:
                children.append(("p", r.choice(["pi", "target", "a"]), r.choice(["", "data", "x=1"])))
                last_text = False
        while sum(1 for c in children if c[0] == "e") < minel:
            children.insert(r.randrange(len(children) + 1), gen_tree(r, depth - 1, maxch, minel - 1))
        for i in range(len(children) - 1, 0, -1):
            if children[i][0] == "t" and children[i - 1][0] == "t":
                del children[i]
    return ("e", name, attrs, children)


def gen_doc(r):
    depth, maxch = r.choice([(2, 3), (3, 2), (3, 3), (2, 4)])
    top = []
    if r.random() < 0.15:
        top.append(("c", "top"))
    if r.random() < 0.1:
        top.append(("p", "tp", "d"))
    top.append(gen_tree(r, depth, maxch, r.choice([1, 2, 2, 3])))
    if r.random() < 0.1:
        top.append(("c", "end"))
    return top


# ---------------------------------------------------------------------------------------------------
# translation: xsltref AST -> instr tokens

class NotInLanguage(Exception):
    pass


def expr_vars(e):
    """the variable names an xpgen expression mentions, in order of first occurrence"""
    out = []

    def go(x):
        if isinstance(x, tuple):
            if len(x) == 2 and x[0] == "var" and isinstance(x[1], str):
                if x[1] not in out:
                    out.append(x[1])
                return
            if len(x) == 2 and x[0] in ("lit", "num"):
                return
            for y in x:
                go(y)
        elif isinstance(x, list):
            for y in x:
                go(y)
    go(e)
    return out


class Translator:
    def __init__(self, sheet):
        if sheet.get("imports"):
            raise NotInLanguage("imports")
        self.tops = sheet["tops"]
        self.eids = {}          # id(expression object | sort list) -> expression id
        self.xvars = {EXPR_CHILDREN: [], EXPR_DOT: []}     # expression id -> variable names
        self.keep = []          # the objects (ids stay unique while they are alive)
        self.names = {}         # variable name -> name id
        self.tindex = {}
        for i, t in enumerate(self.tops):
            if t[0] != "template":
                raise NotInLanguage("top-level " + str(t[0]))
            if t[1].get("name") is not None:
                self.tindex[t[1]["name"]] = i
        self.B1 = len(self.tops)
        self.B2 = len(self.tops) + 1
        self.ninstr = 0
        out = [str(len(self.tops) + 2)]
        for t in self.tops:
            self.template(t[1], out)
        out += ["M", "0", "1", "A", "x%d" % EXPR_CHILDREN, "-", "-", "0"]
        out += ["M", "0", "1", "V", "x%d" % EXPR_DOT]
        self.tokens = out

    def name(self, n):
        if ":" in n:
            raise NotInLanguage("prefixed name")
        return self.names.setdefault(n, len(self.names) + 1)

    def eid_of(self, obj, vs):
        k = id(obj)
        if k not in self.eids:
            self.eids[k] = len(self.xvars)
            self.xvars[self.eids[k]] = vs
            self.keep.append(obj)
        return self.eids[k]

    def expr(self, e):
        i = self.eid_of(e, expr_vars(e))
        return "x%d%s" % (i, "".join(":%d" % self.name(v) for v in self.xvars[i]))

    def sorts(self, sorts):
        if not sorts:
            return "-"
        vs = []
        for e, _, _ in sorts:
            for v in expr_vars(e):
                if v not in vs:
                    vs.append(v)
        i = self.eid_of(sorts, vs)
        return "x%d%s" % (i, "".join(":%d" % self.name(v) for v in vs))

    def qn(self, q):
        if ":" in q or not q:
            raise NotInLanguage("prefixed or empty name")
        return "s" + enc(q)

    def avt(self, parts, out):
        out.append(str(len(parts)))
        for p in parts:
            out.append("s" + enc(p) if isinstance(p, str) else self.expr(p[1]))

    def vdef(self, tag, name, vd, out):
        out += [tag, str(self.name(name))]
        if vd[0] == "select":
            out += [self.expr(vd[1]), "0"]
        elif vd[0] == "empty" or not vd[1]:
            out += ["-", "0"]
        else:
            out.append("-")
            self.body(vd[1], out)

    def template(self, d, out):
        out += ["M", str(len(d.get("params", [])))]
        for nme, vd in d.get("params", []):
            out += ["Q", str(self.name(nme))]
            if vd[0] == "select":
                out.append(self.expr(vd[1]))
            elif vd[0] == "empty" or not vd[1]:
                out.append("-")
            else:
                raise NotInLanguage("param default with a body")
        self.body(d.get("body", []), out)

    def body(self, body, out):
        out.append(str(len(body)))
        for i in body:
            self.instr(i, out)

    def instr(self, i, out):
        self.ninstr += 1
        k = i[0]
        if k == "lre":
            if len(i) > 4 and i[4]:
                raise NotInLanguage("attribute sets")
            out += ["L", self.qn(i[1]), str(len(i[2]))]
            for a, parts in i[2]:
                out.append(self.qn(a))
                self.avt(parts, out)
            self.body(i[3], out)
        elif k in ("text", "lit"):
            if i[1] == "":
                raise NotInLanguage("empty text")
            out += ["T", "s" + enc(i[1])]
        elif k == "value-of":
            out += ["V", self.expr(i[1])]
        elif k == "if":
            out += ["I", self.expr(i[1])]
            self.body(i[2], out)
        elif k == "choose":
            out += ["C", str(len(i[1]) + (1 if i[2] is not None else 0))]
            for t, b in i[1]:
                out += ["W", self.expr(t)]
                self.body(b, out)
            if i[2] is not None:
                out.append("O")
                self.body(i[2], out)
        elif k == "for-each":
            out += ["F", self.expr(i[1]), self.sorts(i[2])]
            self.body(i[3], out)
        elif k == "call":
            if i[1] not in self.tindex:
                raise NotInLanguage("unknown template")
            out += ["K", str(self.tindex[i[1]]), str(len(i[2]))]
            for nme, vd in i[2]:
                self.vdef("P", nme, vd, out)
        elif k == "apply":
            out += ["A", self.expr(i[1]) if i[1] is not None else "x%d" % EXPR_CHILDREN, str(MODE_ID[i[2]]), self.sorts(i[3]), str(len(i[4]))]
            for nme, vd in i[4]:
                self.vdef("P", nme, vd, out)
        elif k == "variable":
            self.vdef("D", i[1], i[2], out)
        elif k == "copy":
            out.append("Y")
            self.body(i[1], out)
        elif k == "copy-of":
            out += ["Z", self.expr(i[1])]
        elif k == "attribute":
            if len(i[1]) != 1 or not isinstance(i[1][0], str):
                raise NotInLanguage("computed attribute name")
            parts = []
            for b in i[2]:
                if b[0] in ("text", "lit"):
                    parts.append(b[1])
                elif b[0] == "value-of":
                    parts.append(("x", b[1]))
                else:
                    raise NotInLanguage("xsl:attribute content")
            out += ["B", self.qn(i[1][0])]
            self.avt(parts, out)
        else:
            raise NotInLanguage(k)


# ---------------------------------------------------------------------------------------------------
# trees / items as comma atoms

def tree_atoms(nodes, out):
    """nodes of xsltref.Builder (dicts); attributes sorted by name (the canonical form of the driver)"""
    out.append(str(len(nodes)))
    for n in nodes:
        if n["k"] == "e":
            at = sorted((a[0][1], a[1]) for a in n["attrs"])
            out += ["e", enc(n["name"][1]), str(len(at))]
            for a, v in at:
                out += [enc(a), enc(v)]
            tree_atoms(n["ch"], out)
        elif n["k"] == "t":
            out += ["t", enc(n["v"])]
        elif n["k"] == "c":
            out += ["c", enc(n["v"])]
        else:
            out += ["p", enc(n["t"]), enc(n["v"])]


def tree_token(nodes):
    out = []
    tree_atoms(nodes, out)
    return ",".join(out)


def parse_tree_token(tok):
    """canonical tree of the driver -> the tree form of xsltref.freeze"""
    a = tok.split(",")
    pos = [0]

    def nxt():
        pos[0] += 1
        return a[pos[0] - 1]

    def nodes():
        out = []
        for _ in range(int(nxt())):
            k = nxt()
            if k == "e":
                nm = dec(nxt())
                at = []
                for _ in range(int(nxt())):
                    an = dec(nxt())
                    at.append(("", an, dec(nxt())))
                out.append(("e", ("", nm), tuple(sorted(at)), nodes()))
            elif k == "t":
                out.append(("t", dec(nxt())))
            elif k == "c":
                out.append(("c", xsltref.comment_recovery(dec(nxt()))))
            else:
                t = dec(nxt())
                out.append(("p", t, dec(nxt()).lstrip(" \t\r\n")))
        return tuple(out)
    return nodes()


def copy_atoms(nodes, n, out):
    """deep copy of source node n as items (the shape coq/XsltCoreDefs.v documents for node_copy)"""
    nd = nodes[n]
    if nd.kind == "elem":
        at = [a for a in nd.attrs if a.kind == "attr"]
        out += ["e", enc(nd.local), str(len(at) + len(nd.children))]
        for a in at:
            out += ["a", enc(a.local), enc(a.value)]
        for c in nd.children:
            copy_atoms(nodes, c.id, out)
    elif nd.kind == "text":
        out += ["t", enc(nd.value)]
    elif nd.kind == "attr":
        out += ["a", enc(nd.local), enc(nd.value)]
    elif nd.kind == "comment":
        out += ["c", enc(nd.value)]
    elif nd.kind == "pi":
        out += ["p", enc(nd.qname), enc(nd.value)]


def copy_token(nodes, n):
    nd = nodes[n]
    out = []
    if nd.kind == "doc":
        out.append(str(len(nd.children)))
        for c in nd.children:
            copy_atoms(nodes, c.id, out)
    else:
        out.append("1")
        copy_atoms(nodes, n, out)
    return "i" + ",".join(out)


def shallow_token(nodes, n):
    nd = nodes[n]
    if nd.kind == "doc":
        return "R"
    if nd.kind == "elem":
        return "E" + enc(nd.local)
    return "L" + copy_token(nodes, n)[1:]


# ---------------------------------------------------------------------------------------------------
# the recording reference interpreter

class TableConflict(Exception):
    pass


class Rec(xsltref.Interp):
    def __init__(self, sheet, doc, tr, fuel=FUEL_REF):
        self.tr = tr
        self.evtab = {}
        self.sorttab = {}
        self.tmpltab = {}
        self.in_sort = 0
        self.last_cx = None
        self.nev = 0
        xsltref.Interp.__init__(self, sheet, doc, fuel=fuel)
        for n in self.nodes:
            if n.kind != "nsdecl" and (n.uri or ":" in n.qname):
                raise NotInLanguage("namespaced source node")

    # values as they appear inside table keys
    def ser(self, v):
        if isinstance(v, bool):
            return "A" + enc("b:1" if v else "b:0")
        if isinstance(v, float):
            return "A" + enc("n:" + xpref.num_to_str(v))
        if isinstance(v, str):
            return "A" + enc("s:" + v)
        if isinstance(v, xsltref.RTF):
            return "R" + tree_token(v.nodes)
        return "N" + ids(v)

    def value_token(self, v):
        if isinstance(v, bool):
            return "A%s/%s" % (enc("b:1" if v else "b:0"), enc("true" if v else "false"))
        if isinstance(v, float):
            s = xpref.num_to_str(v)
            return "A%s/%s" % (enc("n:" + s), enc(s))
        if isinstance(v, str):
            return "A%s/%s" % (enc("s:" + v), enc(v))
        if isinstance(v, xsltref.RTF):
            return "R" + tree_token(v.nodes)
        return "N" + ids(v)

    def key(self, eid, env, cx):
        try:
            vals = [self.ser(env[n]) for n in self.tr.xvars[eid]]
        except KeyError as e:
            raise xsltref.XsltError("unbound variable " + str(e))
        return "%d|%s|%d|%d|%d" % (eid, ";".join(vals), cx[0], cx[1], cx[2])

    def record(self, eid, env, cx, v):
        if isinstance(v, list) and any(not isinstance(x, int) for x in v):
            raise NotInLanguage("namespace nodes")
        k = self.key(eid, env, cx)
        ent = (self.value_token(v), "s" + enc(self.ref.to_str(v)), "1" if self.ref.to_bool(v) else "0",
               "n" + (ids(v) if isinstance(v, list) else ""))
        old = self.evtab.get(k)
        if old is not None and old != ent:
            # two values the key cannot tell apart (-0 and 0): the tables would not be functions
            raise TableConflict(k)
        self.evtab[k] = ent
        self.nev += 1

    def xp(self, e, cx, env):
        v = xsltref.Interp.xp(self, e, cx, env)
        if self.in_sort:
            return v
        self.last_cx = cx
        eid = self.tr.eids.get(id(e))
        if eid is None:
            if e == CHILD_NODE:
                eid = EXPR_CHILDREN
            else:
                raise NotInLanguage("expression without identity")
        self.record(eid, env, cx, v)
        return v

    def sorted_nodes(self, nodes, sorts, env):
        if not sorts:
            return nodes
        cx = self.last_cx
        self.in_sort += 1
        try:
            out = xsltref.Interp.sorted_nodes(self, nodes, sorts, env)
        finally:
            self.in_sort -= 1
        sid = self.tr.eids[id(sorts)]
        k = self.key(sid, env, cx) + "|" + ids(nodes)
        ent = "n" + ids(out)
        if self.sorttab.get(k, ent) != ent:
            raise TableConflict(k)
        self.sorttab[k] = ent
        return out

    def find_template(self, n, mode):
        tm = xsltref.Interp.find_template(self, n, mode)
        if tm is not None:
            idx = self.templates.index(tm)
        else:
            kind = self.nodes[n].kind
            idx = self.tr.B1 if kind in ("doc", "elem") else (self.tr.B2 if kind in ("text", "attr") else None)
        self.tmpltab[(n, MODE_ID[mode])] = idx
        return tm

    def builtin(self, cx, mode, b):
        kind = self.nodes[cx[0]].kind
        if kind in ("doc", "elem"):
            self.record(EXPR_CHILDREN, {}, cx, self.ref.children(cx[0]))
        elif kind in ("text", "attr"):
            self.record(EXPR_DOT, {}, cx, [cx[0]])
        xsltref.Interp.builtin(self, cx, mode, b)

    def table_tokens(self):
        out = ["X", str(len(self.evtab))]
        for k, e in self.evtab.items():
            out.append(k)
            out += e
        out += ["S", str(len(self.sorttab))]
        for k, e in self.sorttab.items():
            out += [k, e]
        out += ["T", str(len(self.tmpltab))]
        for (n, m), t in self.tmpltab.items():
            out += [str(n), str(m), "-" if t is None else str(t)]
        src = [n.id for n in self.nodes if n.kind != "nsdecl"]
        out += ["C", str(len(src))]
        for n in src:
            out += [str(n), copy_token(self.nodes, n)]
        out += ["H", str(len(src))]
        for n in src:
            out += [str(n), shallow_token(self.nodes, n)]
        return out


def prepare(cid, sheet, doc):
    """translate + reference run with recording.  -> dict (line for the driver, reference tree, sizes); raises
    NotInLanguage / xsltref.XsltError / xpref.XPathTypeError / TableConflict / RecursionError"""
    tr = Translator(sheet)
    it = Rec(sheet, doc, tr)
    tree = it.transform()
    if len(it.evtab) > MAX_TABLE:
        raise xsltref.XsltError("table too large")
    line = " ".join([cid, str(FUEL_MACHINE), str(FUEL_SEM), "0", "P"] + tr.tokens + it.table_tokens())
    return {"id": cid, "line": line, "tree": tree, "flags": it.flags, "stats": it.stats, "n_ev": len(it.evtab), "n_evals": it.nev,
            "n_sort": len(it.sorttab), "n_tmpl": len(it.tmpltab), "n_instr": tr.ninstr, "n_expr": len(tr.xvars) - 2}


# ---------------------------------------------------------------------------------------------------
# the driver: core.build_model, or (while coq/ExtractXsltCore.v does not extract BinNums.Z, which ocaml/conv.ml
# mentions) the same build with the type declared in front of conv.ml

def build_driver():
    exe, ok, log = core.build_model("xsltCore")
    if ok or "Unbound type constructor z" not in log:
        return exe, ok, log
    ml = os.path.join(core.COQ, "extracted", "xsltCore_model.ml")
    drv = os.path.join(core.VERIF, "ocaml", "xsltCore_driver.ml")
    conv = os.path.join(core.VERIF, "ocaml", "conv.ml")
    exe = os.path.join(core.BUILD, "xsltCore_model_z")
    with core.Lock("ml_xsltCore_z"):
        if not core.newer(exe, [ml, ml + "i", drv, conv, __file__]):
            return exe, True, ""
        d = os.path.join(core.BUILD, "ml_xsltCore_z")
        os.makedirs(d, exist_ok=True)
        for src in (ml, ml + "i"):
            with open(src) as f, open(os.path.join(d, os.path.basename(src)), "w") as g:
                g.write(f.read())
        with open(os.path.join(d, "driver.ml"), "w") as g:
            g.write("open XsltCore_model\ntype z = Z0 | Zpos of positive | Zneg of positive\n")
            g.write(open(conv).read())
            g.write(open(drv).read())
        rc, out = core.sh(["ocamlfind", "ocamlopt", "-w", "-a", "-O2", "xsltCore_model.mli", "xsltCore_model.ml", "driver.ml", "-o", exe],
                          cwd=d, timeout=900)
        return exe, rc == 0, out


# ---------------------------------------------------------------------------------------------------
# generator: nesting and the stack mechanisms

def marker():
    return ("value-of", fn("concat", lit("["), fn("position"), lit("/"), fn("last"), lit("]")))


NESTING = ("for-each", "apply", "call", "variable", "choose", "if", "copy", "lre")


class CoreGen:
    def __init__(self, r, count=None):
        self.r = r
        self.x = xsltgen.Gen(r)
        self.budget = r.choice([20, 30, 45, 60])
        self.named = []          # (name, [param names], tier, index)
        self.has_rec = False
        self.vn = 0
        self.count = count or (lambda k: None)

    # ---- expressions (typed, over an env name -> type) ----
    def ex(self, ty, env, d=2):
        return self.x.g_typed(ty, env, d)

    def sel(self, env, down, rich=True):
        r = self.r
        if r.random() < 0.5:
            # selections that usually hold several nodes of several kinds
            c = [P([("child", N(None), [])]), P([("child", "node", [])]), P([("descendant", N(None), [])]),
                 P([("child", N(None), []), ("child", "node", [])]), P([("descendant", "node", [])]),
                 P([("child", N(None), []), ("attribute", N(None), [])]), P([("attribute", N(None), [])]),
                 P([("descendant", "text", [])]), P([("child", N(r.choice(["a", "b", "c"])), [])])]
            if not down:
                c += [P([("root", "root", []), ("descendant-or-self", "node", []), ("child", N(None), [])]),
                      P([("root", "root", []), ("child", N(None), []), ("child", "node", [])]),
                      P([("following-sibling", "node", [])]), P([("ancestor-or-self", N(None), [])]),
                      P([("preceding-sibling", N(None), [])]), P([("parent", "node", []), ("child", "node", [])]),
                      ("union", [P([("self", "node", [])]), P([("child", "node", [])])])]
                vs = self.vars_of(env, "nodes")
                if vs:
                    c += [("var", r.choice(vs))] * 3
            return r.choice(c)
        return xpgen.fix_bare_root(self.x.g_nodes(env, 2, down=down, rich=rich))

    def any_ex(self, env, tys=("str", "num", "nodes", "bool")):
        return xpgen.fix_bare_root(self.x.g_any(env, 2, tys))

    def vars_of(self, env, *tys):
        return [n for n, t in env.items() if t in tys]

    def fresh(self):
        self.vn += 1
        return "v%d" % self.vn

    def sorts(self, env):
        r = self.r
        s = self.x.sorts(env)
        if s and r.random() < 0.25:
            vs = self.vars_of(env, "str", "num", "anyparam")
            if vs:
                # a sort key that mentions a variable in scope (the key of the sort table then carries its value)
                s.append((fn("concat", fn("string", ("var", r.choice(vs))), fn("local-name")), "text", r.choice(["ascending", "descending"])))
        return s

    def avt(self, env):
        parts = self.x.avt(env, 1)
        return [p if isinstance(p, str) else ("x", xpgen.fix_bare_root(p[1])) for p in parts]

    def text_body(self, env):
        r = self.r
        out = []
        for _ in range(r.choice([0, 1, 1, 2])):
            if r.random() < 0.45:
                out.append(("lit", r.choice(["t", "a b", "1", "é", "x-y"])))
            else:
                out.append(("value-of", self.any_ex(env)))
        return out

    def vdef(self, cx, env, d, ty=None):
        r = self.r
        ty = ty or r.choice(["nodes", "num", "str", "bool", "rtf", "rtf", "rtf", "str", "empty"])
        if ty == "empty":
            return ("empty",), "str"
        if ty == "rtf":
            body = self.body(cx, dict(env), d - 1) if self.budget > 0 else [("lit", "r")]
            if not body:
                return ("empty",), "str"
            return ("body", body), "rtf"
        return ("select", self.ex(ty, env)), ty

    # ---- instructions ----
    def body(self, cx, env, d, in_elem=False):
        r = self.r
        out = []
        if in_elem:
            for _ in range(r.choice([0, 0, 0, 1, 1, 2])):
                out.append(("attribute", [r.choice(["k", "k", "m", "x"])], self.text_body(env)))
                self.budget -= 1
        n = r.choice([1, 2, 2, 3, 4]) if d > 0 else r.choice([0, 1, 1, 2])
        for _ in range(n):
            if self.budget <= 0:
                break
            ins = self.instr(cx, env, d)
            out.append(ins)
            if ins[0] == "variable" and ins[2][0] == "body" and r.random() < 0.6:
                use = r.choice([("copy-of", ("var", ins[1])), ("copy-of", ("var", ins[1])), ("value-of", ("var", ins[1])),
                                ("lre", "w", [("s", [("x", ("var", ins[1]))])], [("copy-of", ("var", ins[1]))])])
                out.append(use)
            if ins[0] in NESTING and ins[0] != "lre":
                # what follows a nested construct sees the context and the bindings it had before
                if r.random() < 0.55:
                    out.append(marker())
                vs = self.vars_of(env, "str", "num", "bool", "anyparam", "rtf")
                if vs and r.random() < 0.45:
                    out.append(("value-of", ("var", r.choice(vs))))
        if in_elem and r.random() < 0.1:
            out.append(("attribute", [r.choice(["late", "k"])], [("lit", "L")]))    # after children: ignored (7.1.3)
        return out

    def instr(self, cx, env, d):
        r = self.r
        self.budget -= 1
        k = r.random()
        if d <= 0:
            k *= 0.36
        if k < 0.04:
            return ("lit", r.choice(["t", "uv", "1", " w ", "é"]))
        if k < 0.10:
            return ("value-of", self.any_ex(env))
        if k < 0.17:
            vs = self.vars_of(env, "str", "num", "bool", "anyparam", "rtf", "nodes")
            if vs:
                return ("value-of", ("var", r.choice(vs)))
            return marker()
        if k < 0.21:
            return marker()
        if k < 0.25:
            return ("text", r.choice([" ", "tx", "\n"]))
        if k < 0.28:
            return ("copy-of", self.any_ex(env, ("nodes", "nodes", "nodes", "str", "num", "bool")))
        if k < 0.36:
            vs = self.vars_of(env, "rtf", "anyparam", "nodes", "rtf")
            if vs:
                return ("copy-of", ("var", r.choice(vs)))
            return ("copy-of", self.sel(env, r.random() < 0.5))
        # ---- below: only with depth left ----
        if k < 0.44:
            attrs, used = [], set()
            for _ in range(r.choice([0, 0, 1, 2])):
                an = r.choice(["k", "m", "x", "w"])
                if an not in used:
                    used.add(an)
                    attrs.append((an, self.avt(env)))
            return ("lre", r.choice(["e", "f", "g", "out", "e"]), attrs, self.body(cx, dict(env), d - 1, in_elem=True))
        if k < 0.48:
            return ("copy", self.body(cx, dict(env), d - 1, in_elem=True))
        if k < 0.57:
            name = self.fresh()
            vd, ty = self.vdef(cx, env, d)
            env[name] = ty
            return ("variable", name, vd)
        if k < 0.61:
            return ("if", self.ex("bool", env), self.body(cx, dict(env), d - 1))
        if k < 0.66:
            whens = [(self.ex("bool", env), self.body(cx, dict(env), d - 1)) for _ in range(r.choice([1, 2, 2, 3]))]
            return ("choose", whens, self.body(cx, dict(env), d - 1) if r.random() < 0.7 else None)
        if k < 0.81:
            down = r.random() < 0.6
            if r.random() < 0.08:
                sel = P([("child", N("nosuch"), [])])            # the empty selection
            else:
                sel = self.sel(env, down)
            cx2 = dict(cx, down=cx["down"] and down)
            return ("for-each", sel, self.sorts(env), self.body(cx2, dict(env), d - 1))
        if k < 0.91:
            return self.apply(cx, env, d)
        return self.call(cx, env, d)

    def with_params(self, cx, env, d, names):
        r = self.r
        out = []
        for nme in names:
            if nme == "pn":
                out.append((nme, ("select", self.sel(env, r.random() < 0.5))))
            else:
                vd, _ = self.vdef(cx, env, d - 1, ty=r.choice(["num", "str", "nodes", "rtf", "rtf", "bool", "empty"]))
                out.append((nme, vd))
        if r.random() < 0.15:
            out.append((r.choice(["zz", "v1", "q9"]), ("select", lit("u"))))      # not declared by the callee: ignored (11.6)
        r.shuffle(out)
        return out

    def apply(self, cx, env, d):
        r = self.r
        rank = cx["rank"]
        last = len(MODES) - 1
        stay = cx["down"] and (r.random() < 0.6 or rank == last)
        if stay:
            k = r.random()
            sel = None if k < 0.3 else (P([("child", N("nosuch"), [])]) if k < 0.35 else self.sel(env, True))
            mode = MODES[rank] if r.random() < 0.8 or rank == last else MODES[r.randrange(rank + 1, len(MODES))]
        else:
            if rank >= last:
                return marker()
            sel = self.sel(env, False)
            mode = MODES[r.randrange(rank + 1, len(MODES))]
        return ("apply", sel, mode, self.sorts(env), self.with_params(cx, env, d, r.sample(["pa", "pb", "pn"], r.choice([0, 0, 1, 2, 3]))))

    def call(self, cx, env, d):
        r = self.r
        cands = [t for t in self.named if (t[3] > cx["index"] if cx["named"] else t[2] >= cx["rank"])]
        if self.has_rec and r.random() < 0.4:
            return ("call", "rec", [("pa", ("select", lit(r.choice(["", "r", "0"]))))] if r.random() < 0.8 else [])
        if not cands:
            return marker()
        name, params, tier, idx = r.choice(cands)
        names = [p for p in params if r.random() < 0.7]
        return ("call", name, self.with_params(cx, env, d, names))

    # ---- top level ----
    def pattern(self):
        r = self.r
        k = r.random()
        if k < 0.3:
            return [P([("child", N(r.choice(["a", "b", "c", "d"])), [])])]
        if k < 0.45:
            return [P([("child", N(None), [])])]
        if k < 0.52:
            return [P([("child", "text", [])])]
        if k < 0.6:
            return [P([("attribute", r.choice([N("x"), N(None), N("id")]), [])])]
        if k < 0.7:
            return [P([("child", r.choice(["comment", ("pi", None), "node"]), [])])]
        if k < 0.8:
            return [P([("child", N(r.choice(["a", "b", "c"])), []), ("child", r.choice([N(r.choice(["a", "b"])), N(None), "text"]), [])])]
        if k < 0.92:
            pe = r.choice([P([("attribute", N(r.choice(["x", "y", "id", "n"])), [])]), P([("child", N(r.choice(["a", "b"])), [])]),
                           ("eq", P([("attribute", N("x"), [])]), lit("1"))])
            return [P([("child", r.choice([N(r.choice(["a", "b", "c"])), N(None)]), [(False, pe)])])]
        return [P([("child", N(r.choice(["a", "b"])), [])]), P([("child", N(r.choice(["c", "d"])), [])])]

    def params(self, names, env):
        r = self.r
        ps = []
        for nme in names:
            if nme == "pn":
                ps.append((nme, ("select", self.sel(env, r.random() < 0.6))))
                env[nme] = "nodes"
            else:
                k = r.random()
                if k < 0.35:
                    ps.append((nme, ("empty",)))
                else:
                    ps.append((nme, ("select", self.ex(r.choice(["str", "num", "bool"]), env))))
                env[nme] = "anyparam"
        return ps

    def rec_template(self):
        r = self.r
        inner = [("call", "rec", [("pa", ("select", fn("concat", ("var", "pa"), lit("."), fn("position"))))])]
        if r.random() < 0.6:
            inner.append(marker())
        if r.random() < 0.6:
            inner.append(("value-of", ("var", "v1")))
        body = [("variable", "v1", ("select", fn("count", P([("child", N(None), [])])))),
                ("lre", "r", [("d", [("x", ("var", "pa"))])],
                 [("value-of", fn("local-name")),
                  ("for-each", P([("child", N(None), [])]), self.x.sorts({}) if r.random() < 0.4 else [], inner),
                  marker()])]
        return ("template", {"match": None, "name": "rec", "mode": None, "priority": None,
                             "params": [("pa", ("empty",))], "body": body})

    def sheet(self):
        r = self.r
        tops = []
        # signatures of the named templates first (bodies may call the later ones)
        sigs = []
        for i in range(r.choice([0, 1, 2, 2, 3])):
            sigs.append(["t%d" % (i + 1), r.sample(["pa", "pb", "pn"], r.choice([0, 1, 2, 3])), r.randrange(0, len(MODES)), i + 1])
        sigs.sort(key=lambda s: s[2])
        for i, s in enumerate(sigs):
            s[3] = i + 1
        self.named = [tuple(s) for s in sigs]
        self.has_rec = r.random() < 0.3
        d = r.choice([2, 3, 3])
        mts = []
        if r.random() < 0.92:
            mts.append(([P([("root", "root", [])])], None))
        for _ in range(r.choice([2, 3, 4, 5, 6, 7])):
            mts.append((self.pattern(), r.choice(MODES + [None])))
        used_modes = sorted(set(MODES.index(m) for _, m in mts))
        for pat, mode in mts:
            self.vn = 0
            env = {}
            isroot = pat[0][3][0][0] == "root"
            ps = self.params(r.sample(["pa", "pb", "pn"], r.choice([0, 0, 1, 2, 3])), env) if not isroot else []
            cx = {"rank": MODES.index(mode), "down": True, "named": False, "index": 0}
            self.budget = r.choice([10, 16, 24]) if not isroot else r.choice([16, 24, 36])
            body = self.body(cx, env, d, in_elem=False)
            if isroot:
                # the drivers: every mode that has templates is entered over many nodes of all kinds
                allnodes = ("union", [P([("root", "root", []), ("descendant-or-self", "node", []), ("child", "node", [])]),
                                      P([("root", "root", []), ("descendant-or-self", "node", []), ("attribute", N(None), [])])])
                for m in used_modes:
                    if r.random() < 0.75:
                        k = r.random()
                        sel = None if k < 0.35 else (allnodes if k < 0.7 else P([("descendant", r.choice([N(None), "node"]), [])]))
                        drv = ("apply", sel, MODES[m], self.sorts({}) if r.random() < 0.3 else [],
                               self.with_params(cx, {}, 1, r.sample(["pa", "pb", "pn"], r.choice([0, 1, 2]))))
                        body.insert(r.randrange(len(body) + 1), drv)
                if r.random() < 0.5:
                    body = [("lre", "out", [], body)]
            tops.append(("template", {"match": pat, "name": None, "mode": mode,
                                      "priority": r.choice([None, None, None, "1", "0.5", "-1"]), "params": ps, "body": body}))
        if r.random() < 0.35:
            # the identity shape: xsl:copy on every kind of node, attributes and children applied in the same mode
            m = r.choice(MODES)
            inner = [("apply", ("union", [P([("attribute", N(None), [])]), P([("child", "node", [])])]), m, [], [])]
            if r.random() < 0.3:
                inner.append(marker())
            tops.append(("template", {"match": [P([("child", "node", [])]), P([("attribute", N(None), [])])], "name": None, "mode": m,
                                      "priority": r.choice([None, "-2", "2"]), "params": [], "body": [("copy", inner)]}))
        for name, params, tier, idx in self.named:
            self.vn = 0
            env = {}
            ps = self.params(params, env)
            cx = {"rank": tier, "down": False, "named": True, "index": idx}
            self.budget = r.choice([8, 12, 20])
            tops.append(("template", {"match": None, "name": name, "mode": None, "priority": None, "params": ps,
                                      "body": self.body(cx, env, d - 1, in_elem=False)}))
        if self.has_rec:
            tops.append(self.rec_template())
        r.shuffle(tops)
        return {"imports": [], "tops": tops}


def gen_case(r, count=None):
    doc = gen_doc(r)
    return CoreGen(r, count).sheet(), doc


def features(sheet):
    """nesting classes of a program: 'outer>inner' pairs over the constructs with their own stack discipline"""
    out = set()

    def body(b, ctxs):
        seen_nest = False
        for i in b:
            k = i[0]
            tag = k
            if k == "variable":
                tag = "var-rtf" if i[2][0] == "body" and i[2][1] else "var"
            for o in ctxs[-2:]:
                out.add("%s>%s" % (o, tag))
            if seen_nest and k == "value-of" and i[1][0] == "fn" and i[1][1] == "concat" and len(i[1][2]) == 5:
                out.add("position-after-nested")
            sub = []
            if k in ("lre", "for-each"):
                sub = [i[3]]
                if k == "for-each" and i[2]:
                    out.add("sort-in-for-each")
            elif k in ("if",):
                sub = [i[2]]
            elif k == "copy":
                sub = [i[1]]
            elif k == "choose":
                sub = [b2 for _, b2 in i[1]] + ([i[2]] if i[2] else [])
            elif k == "variable" and i[2][0] == "body":
                sub = [i[2][1]]
            elif k == "apply":
                if i[3]:
                    out.add("sort-in-apply")
                if i[4]:
                    out.add("apply-with-param")
                if i[2]:
                    out.add("apply-mode")
                sub = [vd[1] for _, vd in i[4] if vd[0] == "body"]
                tag = "with-param-rtf"
            elif k == "call":
                if i[2]:
                    out.add("call-with-param")
                sub = [vd[1] for _, vd in i[2] if vd[0] == "body"]
                tag = "with-param-rtf"
            if k in ("for-each", "apply", "call") or tag == "var-rtf":
                seen_nest = True
            for s in sub:
                body(s, ctxs + [tag])
    for t in sheet["tops"]:
        body(t[1].get("body", []), [])
    return out
