(* C01, whole-interpreter piece, part 2 ("core2"): the core language of XsltCoreDefs.v extended by
     xsl:element with a computed name (attribute value template),
     xsl:comment and xsl:processing-instruction (computed target),
   whose bodies (comment / PI) are instantiated INTO A STRING: the machine switches the output target to a text
   collector and back, and runs the body in "copy text nodes only" mode.

   This file re-states the instruction type with the three new constructors (instr2: the type of XsltCoreDefs.v is
   closed), the reference semantics sem2 and the implementation-shaped machine step2 / run2.  Everything that does
   not mention instructions is REUSED from XsltCoreDefs.v (values, expressions, contexts, gx, ev_avt, sel_nodes,
   copy_items, each, slk, mlk, find_next), XsltEventsDefs.v (the pending-start-tag machine: every output target,
   the text collector included, is one) and XsltVarsDefs.v (the VariablesStack).

   REFERENCE SEMANTICS (XSLT 1.0 7.1.2, 7.3, 7.4, 11.2), new parts:
     - xsl:element: the name is the value of the AVT in the current context; it must be a QName (abstract
       predicate name_ok; otherwise an error: None); the content is instantiated inside the new element;
     - xsl:comment / xsl:processing-instruction: the content is instantiated; "it is an error if instantiating the
       content creates nodes other than text nodes" (text_of_items = None); the string is the concatenation of the
       text nodes; "--" / a trailing "-" (comment) and "?>" (PI) are recovered by inserting a space (fix_comment,
       fix_pi: proved to be the identity on strings without the offending sequences and to produce none);
     - the mode tm records where an instruction is instantiated: TOff (ordinary), TOn (directly in the content of
       a comment / PI: creating a non-text node by xsl:copy / xsl:copy-of is the error above, detected on the spot),
       TFrag (in the body of an xsl:variable / xsl:with-param nested in such content: a result tree fragment is a
       tree of its own, 11.2, so anything may be created).
   The boolean g is the guard of (repaired) finding K-C01-core2-1: before /repo 16b1cb3 the library did not leave
   copy-text-nodes-only mode while it built such a nested fragment; sem2 with g = true is sem2 with g = false restricted
   to the evaluations in which no xsl:copy / xsl:copy-of creates a non-text node in mode TFrag.  The machine is
   parametrised by the source variant (fx_frag, fx_copy: see the Section); for fx_frag = true it refines sem2 with
   g = false, the reference semantics itself.

   IMPLEMENTATION MODEL, new parts read from: ElemElement.cpp (startElement 135-338: name AVT into a cached string,
   startElement(name), beginExecuteChildren; endElement 340-355: endExecuteChildren, pop the cached string,
   endElement(name)), ElemComment.cpp (startElement 96-106: pushCopyTextNodesOnly(true), getAndPushCachedString,
   beginChildrenToString; endElement 110-154: endChildrenToString, pop the string, the "--" loop, comment(),
   popCopyTextNodesOnly), ElemPI.cpp (startElement 115-139, endElement 143-195), ElemTemplateElement.cpp
   (beginChildrenToString 337-358: a single literal text child is assigned directly, otherwise beginFormatToText +
   beginExecuteChildren; endChildrenToString 362-371), StylesheetExecutionContextDefault.cpp (beginFormatToText
   2896-2907: pushOutputContext(FormatterToText); endFormatToText 2912-2926: endDocument on the formatter - NOT
   through the engine, a pending start tag is dropped -, popOutputContext; getCopyTextNodesOnly 302-311;
   cloneToResultTree 1051-1080 and outputToResultTree / outputResultTreeFragment 1217-1229 pass the flag on;
   beginCreateXResultTreeFrag 1083-1123 / endCreateXResultTreeFrag push / pop a false flag in the repaired variant), XSLTEngineImpl.cpp (cloneToResultTree
   2085-2110 / 2236-2260 and outputResultTreeFragment 2550-2567: with the flag only top-level TEXT nodes are
   copied), ElemCopy.cpp (102-190: with the flag the start tag of a copied element is not issued; before the repair the content ran and endElement was issued, since the repair nothing runs),
   FormatterToText (characters are appended; every other event is ignored).
     - m2_out bundles the three stacks that belong to output: o_fmt (the output contexts, each a pending-start-tag
       machine; a text collector is one whose character events are read back by pop_text), o_txt
       (m_copyTextNodesOnlyStack), o_str (the cached-string stack: element names, PI targets, result strings);
     - an element name that is not a QName / a PI target that is not valid: the machine is Stuck2 (the library
       warns and instantiates the content without the element, ElemElement.cpp:147-153 / raises an error,
       ElemPI.cpp:124-132; neither path is modelled; the reference semantics gives None).
   ATTRIBUTE SETS (XSLT 1.0 7.1.4; deliverable c): JLreU / JElementU / JCopyU carry use-attribute-sets as indices of JAttrSet
   entries of the program (a name stands for all its definitions, lowest import precedence first: that merging is done by
   whoever builds the program).  Reference semantics: the attributes of the used sets in order, each set after the sets it
   uses, evaluated in the current context with NO local binding visible; then the element's own attributes; then the
   content.  Machine, read from ElemUse.cpp (startElement 98-113, endElement 118-127, getNextChildElemToExecute 131-166,
   getFirstChildElemToExecute 170-201, getNextAttributeSet 205-235), ElemAttributeSet.cpp (startElement 123-137:
   ElemUse::startElement, pushContextMarker, pushOnElementRecursionStack; endElement 141-148; getInvoker 152-156),
   ElemLiteralResult.cpp (startElement: start tag, ElemUse::startElement, beginExecuteChildren - the AVTs are NOT evaluated
   there; evaluateAVTs: unguarded addResultAttribute), ElemElement.cpp, ElemCopy.cpp: the frame of the using element lists
   what ElemUse::getFirst/NextChildElemToExecute will hand out - JSet k for every set (the list plays the
   UseAttributeSetIndexes stack and the invoker stack), JAvts for evaluateAVTs after the last set, then the children; JSet k
   pushes a context marker and runs the set's own sets and its xsl:attribute children.  Not modelled:
   m_elementRecursionStack (a circular use never stops here; the library raises an error; SafeErrModel.attset_balanced_l).
   Definitions only (extracted by ExtractXsltCore2.v / ExtractXsltCore3.v). *)
From Coq Require Import List NArith Bool Arith.
Require Import XV.XsltEventsDefs XV.XsltVarsDefs XV.XsltCoreDefs.
Import ListNotations.
Inductive instr2 :=
| JLre (n : str) (atts : list (str * list avtpart)) (body : list instr2)
| JText (s : str)
| JValueOf (e : expr)
| JIf (e : expr) (body : list instr2)
| JChoose (branches : list instr2)
| JWhen (e : expr) (body : list instr2)
| JOtherwise (body : list instr2)
| JForEach (e : expr) (srt : option expr) (body : list instr2)
| JCall (t : N) (wps : list instr2)
| JApply (e : expr) (m : option N) (srt : option expr) (wps : list instr2)
| JWithParam (n : N) (sel : option expr) (body : list instr2)
| JVar (n : N) (sel : option expr) (body : list instr2)
| JParam (n : N) (sel : option expr)
| JCopy (body : list instr2)
| JCopyOf (e : expr)
| JAttribute (n : str) (v : list avtpart)
| JTemplate (ps : list instr2) (body : list instr2)
| JElement (nm : list avtpart) (body : list instr2)          (* xsl:element name="{...}" *)
| JComment (body : list instr2)                               (* xsl:comment *)
| JPI (nm : list avtpart) (body : list instr2)                (* xsl:processing-instruction name="{...}" *)
(* ---- attribute sets (XSLT 1.0 7.1.4).  use = the attribute sets named by use-attribute-sets, as indices into the
   program (the merging of same-named sets by import precedence is done by whoever builds the program: every name is
   replaced by its sets, lowest precedence first) ---- *)
| JLreU (n : str) (use : list N) (atts : list (str * list avtpart)) (body : list instr2)
| JElementU (nm : list avtpart) (use : list N) (body : list instr2)
| JCopyU (use : list N) (body : list instr2)
| JAttrSet (use : list N) (atts : list (str * list avtpart))   (* xsl:attribute-set: a top-level entry of the program, like JTemplate *)
| JSet (k : N)            (* pseudo-instruction: "the next attribute set is k" (ElemUse::getNextAttributeSet) *)
| JAvts (atts : list (str * list avtpart)).   (* pseudo-instruction: ElemLiteralResult::evaluateAVTs after the last set *)
(* what an element that uses attribute sets runs before its own content; what a set runs *)
Definition use_sets (use : list N) : list instr2 := map JSet use.
Definition set_body (use : list N) (atts : list (str * list avtpart)) : list instr2 :=
  use_sets use ++ map (fun p => JAttribute (fst p) (snd p)) atts.
Definition attr_items (pre : attrs) : list item := map (fun p => GAttr (fst p) (snd p)) pre.

Definition is_decl2 (i : instr2) : bool :=
  match i with JVar _ _ _ | JParam _ _ => true | _ => false end.

Definition has_decl2 (l : list instr2) : bool := existsb is_decl2 l.
(* ---- where an instruction is instantiated (see the head comment) ---- *)
Inductive tmode := TOff | TOn | TFrag.

Definition ton (t : tmode) : bool := match t with TOff => false | _ => true end.

(* the body of xsl:variable / xsl:with-param *)
Definition tfrag (t : tmode) : tmode := match t with TOff => TOff | _ => TFrag end.

Definition is_gtext (i : item) : bool := match i with GText _ => true | _ => false end.

(* the items xsl:copy (of a leaf) / xsl:copy-of adds in mode t; g = the guard of K-C01-core2-1 *)
Definition copy_guard (g : bool) (t : tmode) (its : list item) : option (list item) :=
  match t with
  | TOff => Some its
  | TOn => if forallb is_gtext its then Some its else None
  | TFrag => if forallb is_gtext its then Some its else if g then None else Some its
  end.

(* may xsl:copy of an element node create the element in mode t? *)
Definition elem_guard (g : bool) (t : tmode) : bool :=
  match t with TOff => true | TOn => false | TFrag => negb g end.

(* XSLT 1.0 7.3 / 7.4: the content of a comment / PI must consist of text nodes; the string is their concatenation *)
Fixpoint text_of_items (l : list item) : option str :=
  match l with
  | [] => Some []
  | GText s :: r => match text_of_items r with Some t => Some (s ++ t) | None => None end
  | _ :: _ => None
  end.

(* ElemComment::endElement, the loop at ElemComment.cpp:117-149: a space is inserted after every '-' that is followed by
   '-' or ends the string (iteration continues behind the inserted space) *)
Definition c_hyphen : N := 45%N.
Definition c_space : N := 32%N.
Definition c_qmark : N := 63%N.
Definition c_gt : N := 62%N.

Fixpoint fix_comment (s : str) : str :=
  match s with
  | [] => []
  | c :: r =>
      if N.eqb c c_hyphen then
        match r with
        | [] => [c; c_space]
        | d :: _ => if N.eqb d c_hyphen then c :: c_space :: fix_comment r else c :: fix_comment r
        end
      else c :: fix_comment r
  end.

(* ElemPI::endElement, the loop at ElemPI.cpp:158-187: a space is inserted between '?' and a following '>' (iteration
   continues behind the '>') *)
Fixpoint fix_pi (s : str) : str :=
  match s with
  | [] => []
  | c :: r =>
      if N.eqb c c_qmark then
        match r with
        | d :: r' => if N.eqb d c_gt then c :: c_space :: d :: fix_pi r' else c :: fix_pi r
        | [] => [c]
        end
      else c :: fix_pi r
  end.

(* the independent reading of 7.4 / 7.3: the offending sequences *)
Definition hd_is (x : N) (r : str) : bool := match r with d :: _ => N.eqb d x | [] => false end.

Fixpoint has_double_hyphen (s : str) : bool :=
  match s with
  | [] => false
  | c :: r => (N.eqb c c_hyphen && hd_is c_hyphen r) || has_double_hyphen r
  end.

Fixpoint ends_with_hyphen (s : str) : bool :=
  match s with
  | [] => false
  | c :: r => match r with [] => N.eqb c c_hyphen | _ :: _ => ends_with_hyphen r end
  end.

Definition comment_ok (s : str) : bool := negb (has_double_hyphen s) && negb (ends_with_hyphen s).

Fixpoint pi_ok_data (s : str) : bool :=
  match s with
  | [] => true
  | c :: r => negb (N.eqb c c_qmark && hd_is c_gt r) && pi_ok_data r
  end.

(* ---- the output side of the machine state: three stacks ---- *)
Record out2 := mkO { o_fmt : list est; o_txt : list bool; o_str : list str }.

(* StylesheetExecutionContextDefault::getCopyTextNodesOnly (302-311): false when the stack is empty *)
Definition tflag (o : out2) : bool := match o_txt o with b :: _ => b | [] => false end.

Definition emit2 (ops : list iop) (o : out2) : out2 :=
  mkO (match o_fmt o with e :: r => run_ops ops e :: r | [] => [] end) (o_txt o) (o_str o).

(* ElemLiteralResult::startElement: startElement(name), then the AVTs through the engine's unguarded addResultAttribute *)
Definition emit_lre_start2 (n : str) (pre : attrs) (o : out2) : out2 :=
  mkO (match o_fmt o with
       | e :: r => fold_left (fun s p => eng_add_attr (fst p) (snd p) s) pre (eng_start n e) :: r
       | [] => []
       end) (o_txt o) (o_str o).

(* ElemLiteralResult::evaluateAVTs: the AVTs through the engine's unguarded addResultAttribute *)
Definition emit_avts (pre : attrs) (o : out2) : out2 :=
  mkO (match o_fmt o with
       | e :: r => fold_left (fun s p => eng_add_attr (fst p) (snd p) s) pre e :: r
       | [] => []
       end) (o_txt o) (o_str o).

(* pushOutputContext *)
Definition push_fmt (e : est) (o : out2) : out2 := mkO (e :: o_fmt o) (o_txt o) (o_str o).

(* endCreateXResultTreeFrag: the fragment the top formatter has received *)
Definition pop_rtf2 (o : out2) : option (list rnode * out2) :=
  match o_fmt o with
  | e :: r => match build (rev (out (eng_finish e))) with Some t => Some (t, mkO r (o_txt o) (o_str o)) | None => None end
  | [] => None
  end.

(* endFormatToText: the characters the FormatterToText has appended to its string (endDocument goes to the formatter
   directly: no flushPending; FormatterToText ignores everything but characters) *)
Definition pop_text (o : out2) : option (str * out2) :=
  match o_fmt o with
  | e :: r => Some (chars_of_sax (rev (out e)), mkO r (o_txt o) (o_str o))
  | [] => None
  end.

Definition push_txt (b : bool) (o : out2) : out2 := mkO (o_fmt o) (b :: o_txt o) (o_str o).
Definition pop_txt (o : out2) : option out2 :=
  match o_txt o with _ :: r => Some (mkO (o_fmt o) r (o_str o)) | [] => None end.

(* getAndPushCachedString / getAndPopCachedString *)
Definition push_str (s : str) (o : out2) : out2 := mkO (o_fmt o) (o_txt o) (s :: o_str o).
Definition pop_str (o : out2) : option (str * out2) :=
  match o_str o with s :: r => Some (s, mkO (o_fmt o) (o_txt o) r) | [] => None end.

(* cloneToResultTree / outputResultTreeFragment with copyTextNodesOnly: only top-level text nodes *)
Definition tfilter (b : bool) (its : list item) : list item := if b then filter is_gtext its else its.

Section Core2.
  (* the guard of finding K-C01-core2-1 (true: the evaluations in which it cannot show are the only ones defined) *)
  Variable gd : bool.
  (* the two source variants (regenerated by translator/gen_xsltcore2.py as src2_fragment_leaves_text_only_mode and
     src2_copy_skips_ignored_element; both true since /repo 16b1cb3 + 6d0ffbc):
     fx_frag: beginCreateXResultTreeFrag pushes copy-text-nodes-only = false, endCreateXResultTreeFrag pops it;
     fx_copy: ElemCopy::startElement returns 0 for an element node when the flag is set (no attribute sets, no namespace
              nodes, no content) and ElemCopy::endElement does nothing then *)
  Variable fx_frag fx_copy : bool.
  (* ---- the abstract mechanisms ---- *)
  Variable ev_value : N -> list value -> N -> N -> N -> value.
  Variable ev_string : N -> list value -> N -> N -> N -> str.
  Variable ev_bool : N -> list value -> N -> N -> N -> bool.
  Variable ev_nodes : N -> list value -> N -> N -> N -> list N.
  Variable ev_sort : N -> list value -> N -> N -> N -> list N -> list N.
  Variable sel_template : N -> N -> option N.
  Variable node_copy : N -> list item.
  Variable node_shallow : N -> shallow.
  (* the program: its templates (the built-in rules included, as ordinary templates) *)
  Variable templates : list instr2.
  (* is a string a QName (xsl:element) / an NCName that is a PITarget (xsl:processing-instruction)? *)
  Variable name_ok : str -> bool.
  Variable pi_ok : str -> bool.

  Notation ev_avt := (ev_avt ev_string).
  Notation ev_atts := (ev_atts ev_string).
  Notation sel_nodes := (sel_nodes ev_nodes ev_sort).
  Notation copy_items := (copy_items node_copy).
  Notation find_next := (find_next sel_template).

  (* ElemChoose::startElement: the first xsl:when whose test holds, else xsl:otherwise *)
  Fixpoint pick2 (lk : lkfun) (c : ctx) (l : list instr2) : option (option instr2) :=
    match l with
    | [] => Some None
    | JWhen e b :: r => match gx ev_bool lk c e with
                        | Some true => Some (Some (JWhen e b))
                        | Some false => pick2 lk c r
                        | None => None
                        end
    | JOtherwise b :: _ => Some (Some (JOtherwise b))
    | _ :: _ => None
    end.

  Definition sem_seq2 (g : instr2 -> venv -> option (venv * list item)) : list instr2 -> venv -> option (list item) :=
    fix go (l : list instr2) (en : venv) : option (list item) :=
    match l with
    | [] => Some []
    | x :: r => match g x en with
                | Some (en', o1) => match go r en' with Some o2 => Some (o1 ++ o2) | None => None end
                | None => None
                end
    end.

  (* the value of xsl:variable / xsl:with-param: select, or the empty string, or the fragment built from the body *)
  Definition sem_vvalue2 (seq : list instr2 -> venv -> option (list item)) (c : ctx) (sel : option expr)
             (body : list instr2) (en : venv) : option value :=
    match sel with
    | Some e => gx ev_value (slk en) c e
    | None => match body with
              | [] => Some empty_string_value
              | _ => match seq body en with Some o => Some (VRtf (spec_tree false o)) | None => None end
              end
    end.

  Definition sem_wps2 (seq : list instr2 -> venv -> option (list item)) (c : ctx) (en : venv)
    : list instr2 -> option venv :=
    fix go (l : list instr2) : option venv :=
    match l with
    | [] => Some []
    | JWithParam n sel body :: r =>
        match sem_vvalue2 seq c sel body en with
        | Some v => match go r with Some pv => Some ((n, v) :: pv) | None => None end
        | None => None
        end
    | _ :: _ => None
    end.

  (* xsl:param children of a template: bound to the with-param of that name (the last one passed), else to the
     default; shadowing another binding of the template is an error (XSLT 1.0 11.5) *)
  Fixpoint sem_params2 (pv : venv) (c : ctx) (ps : list instr2) (en : venv) : option venv :=
    match ps with
    | [] => Some en
    | JParam n sel :: r =>
        match lookup_v n en with
        | Some _ => None
        | None =>
            match lookup_v n (rev pv) with
            | Some v => sem_params2 pv c r ((n, v) :: en)
            | None => match (match sel with Some e => gx ev_value (slk en) c e | None => Some empty_string_value end) with
                      | Some v => sem_params2 pv c r ((n, v) :: en)
                      | None => None
                      end
            end
        end
    | _ :: _ => None
    end.

  Definition sem_tmpl2 (g : venv -> ctx -> instr2 -> venv -> option (venv * list item)) (pv : venv) (c : ctx) (t : N)
    : option (list item) :=
    match nth_error templates (N.to_nat t) with
    | Some (JTemplate ps body) =>
        match sem_params2 pv c ps [] with
        | Some en0 => sem_seq2 (g pv c) body en0
        | None => None
        end
    | _ => None
    end.

  (* sem2 f tm wp c i en = Some (en', items): instruction i, instantiated in mode tm with the params wp of the running
     template instance, the context c and the bindings en in scope, adds items to the result and leaves en' in scope
     for its following siblings. None = an error of the stylesheet (unbound variable, shadowing, misplaced
     instruction, unknown template, element with an empty / invalid name, a non-text node in the content of a comment
     or PI), an evaluation excluded by the guard gd, or not enough fuel. *)
  Fixpoint sem2 (f : nat) (tm : tmode) (wp : venv) (c : ctx) (i : instr2) (en : venv) {struct f} : option (venv * list item) :=
    match f with
    | O => None
    | S f' =>
      let seq := fun tm' c' => sem_seq2 (sem2 f' tm' wp c') in
      let block := fun body => match seq tm c body en with Some o => Some (en, o) | None => None end in
      match i with
      | JLre n atts body =>
          if nonempty n then
            match ev_atts (slk en) c atts with
            | Some pre => match seq tm c body en with Some o => Some (en, [GElem n pre o]) | None => None end
            | None => None
            end
          else None
      | JText s => Some (en, [GText s])
      | JValueOf e => match gx ev_string (slk en) c e with Some s => Some (en, text_items s) | None => None end
      | JIf e body =>
          match gx ev_bool (slk en) c e with
          | Some true => block body
          | Some false => Some (en, [])
          | None => None
          end
      | JChoose bs =>
          match pick2 (slk en) c bs with
          | Some (Some x) => match sem2 f' tm wp c x en with Some (_, o) => Some (en, o) | None => None end
          | Some None => Some (en, [])
          | None => None
          end
      | JWhen _ body => block body
      | JOtherwise body => block body
      | JForEach e srt body =>
          match body with
          | [] => Some (en, [])
          | _ =>
            match sel_nodes (slk en) c e srt with
            | Some l =>
                match each (fun n pos => seq tm (mkC n pos (N.of_nat (length l)) (cmode c)) body en) l 1%N with
                | Some o => Some (en, o)
                | None => None
                end
            | None => None
            end
          end
      | JCall t wps =>
          match sem_wps2 (seq (tfrag tm) c) c en wps with
          | Some pv => match sem_tmpl2 (sem2 f' tm) pv c t with Some o => Some (en, o) | None => None end
          | None => None
          end
      | JApply e m srt wps =>
          (* the mode of the instruction is the current mode while its with-params are evaluated *)
          let md := match m with Some m' => m' | None => cmode c end in
          let c1 := mkC (cnode c) (cpos c) (csize c) md in
          match sem_wps2 (seq (tfrag tm) c1) c1 en wps with
          | Some pv =>
              match sel_nodes (slk en) c1 e srt with
              | Some l =>
                  match each (fun n pos => match sel_template n md with
                                           | Some t => sem_tmpl2 (sem2 f' tm) pv (mkC n pos (N.of_nat (length l)) md) t
                                           | None => Some []
                                           end) l 1%N with
                  | Some o => Some (en, o)
                  | None => None
                  end
              | None => None
              end
          | None => None
          end
      | JVar n sel body =>
          match lookup_v n en with
          | Some _ => None
          | None => match sem_vvalue2 (seq (tfrag tm) c) c sel body en with
                    | Some v => Some ((n, v) :: en, [])
                    | None => None
                    end
          end
      | JCopy body =>
          match node_shallow (cnode c) with
          | ShElem n => if nonempty n && elem_guard gd tm
                        then match seq tm c body en with Some o => Some (en, [GElem n [] o]) | None => None end
                        else None
          | ShRoot => block body
          | ShLeaf its => match copy_guard gd tm its with Some its' => Some (en, its') | None => None end
          end
      | JCopyOf e => match gx ev_value (slk en) c e with
                     | Some v => match copy_guard gd tm (copy_items v) with Some its => Some (en, its) | None => None end
                     | None => None
                     end
      | JAttribute n v => match ev_avt (slk en) c v with Some s => Some (en, [GAttr n s]) | None => None end
      | JElement nm body =>
          match ev_avt (slk en) c nm with
          | Some n => if name_ok n
                      then match seq tm c body en with Some o => Some (en, [GElem n [] o]) | None => None end
                      else None
          | None => None
          end
      | JComment body =>
          match seq TOn c body en with
          | Some o => match text_of_items o with Some s => Some (en, [GComment (fix_comment s)]) | None => None end
          | None => None
          end
      | JPI nm body =>
          match ev_avt (slk en) c nm with
          | Some n => if pi_ok n
                      then match seq TOn c body en with
                           | Some o => match text_of_items o with Some s => Some (en, [GPI n (fix_pi s)]) | None => None end
                           | None => None
                           end
                      else None
          | None => None
          end
      | JLreU n use atts body =>
          (* 7.1.4: the attributes of the used sets first, in the order of the names; then the element's own attributes
             (they replace same-named ones of the sets); then the content.  A set sees no local bindings *)
          if nonempty n then
            match seq tm c (use_sets use) en, ev_atts (slk en) c atts with
            | Some sa, Some pre => match seq tm c body en with
                                   | Some o => Some (en, [GElem n [] (sa ++ attr_items pre ++ o)])
                                   | None => None
                                   end
            | _, _ => None
            end
          else None
      | JElementU nm use body =>
          match ev_avt (slk en) c nm with
          | Some n => if name_ok n
                      then match seq tm c (use_sets use) en, seq tm c body en with
                           | Some sa, Some o => Some (en, [GElem n [] (sa ++ o)])
                           | _, _ => None
                           end
                      else None
          | None => None
          end
      | JCopyU use body =>
          match node_shallow (cnode c) with
          | ShElem n => if nonempty n && elem_guard gd tm
                        then match seq tm c (use_sets use) en, seq tm c body en with
                             | Some sa, Some o => Some (en, [GElem n [] (sa ++ o)])
                             | _, _ => None
                             end
                        else None
          | ShRoot => block body                  (* use-attribute-sets of xsl:copy applies to element nodes only *)
          | ShLeaf its => match copy_guard gd tm its with Some its' => Some (en, its') | None => None end
          end
      | JSet k =>
          match nth_error templates (N.to_nat k) with
          | Some (JAttrSet use atts) =>
              match seq tm c (set_body use atts) [] with Some o => Some (en, o) | None => None end
          | _ => None
          end
      | JWithParam _ _ _ | JParam _ _ | JTemplate _ _ | JAttrSet _ _ | JAvts _ => None
      end
    end.

  (* the transformation: the template selected for the root node in the default mode (0), no params *)
  Definition sem_main2 (f : nat) (root : N) : option (list item) :=
    match sel_template root 0%N with
    | Some t => sem_tmpl2 (sem2 f TOff) [] (mkC root 1%N 1%N 0%N) t
    | None => None
    end.

  (* ================= the machine ================= *)
  Definition frame2 := (instr2 * list instr2 * bool)%type.

  Record mstate2 := mkM2 {
    m2_stack : list frame2;
    m2_nodes : list (list N);
    m2_cnl : list (list N);
    m2_cur : list N;
    m2_modes : list N;
    m2_ifs : list bool;
    m2_pvs : list (list (N * N));
    m2_vs : vs;
    m2_store : list value;
    m2_out : out2 }.

  Inductive ctl2 := KStart (i : instr2) | KEnd (i : instr2) | KNext.

  Inductive res2 := Run2 (c : ctl2) (s : mstate2) | Done2 (s : mstate2) | Stuck2.

  (* beginCreateXResultTreeFrag: pushOutputContext(FormatterToSourceTree) [, pushCopyTextNodesOnly(false)] *)
  Definition fpush (o : out2) : out2 := if fx_frag then push_txt false o else o.
  Definition frag_begin (o : out2) : out2 := push_fmt e_init (fpush o).
  (* endCreateXResultTreeFrag: the fragment the top formatter has received [, popCopyTextNodesOnly], popOutputContext *)
  Definition frag_end (o : out2) : option (list rnode * out2) :=
    match pop_rtf2 o with
    | Some (t, o1) => if fx_frag then match pop_txt o1 with Some o2 => Some (t, o2) | None => None end else Some (t, o1)
    | None => None
    end.

  (* hasSingleTextChild (ElemTemplateElement.cpp:1402): the only child is a literal text *)
  Definition single_text (body : list instr2) : option str :=
    match body with
    | [x] => match x with JText t => Some t | _ => None end
    | _ => None
    end.

  Definition begin_children2 (body : list instr2) (v : vs) : vs :=
    if has_decl2 body then push (EFrame 0%N) v else v.

  Definition end_children2 (body : list instr2) (v : vs) : option vs :=
    if has_decl2 body then pop_frame v else Some v.

  Definition is_template2 (i : instr2) : bool := match i with JTemplate _ _ => true | _ => false end.

  Definition get_template2 (t : N) : option instr2 :=
    match nth_error templates (N.to_nat t) with
    | Some i => if is_template2 i then Some i else None
    | None => None
    end.

  (* ElemVariable / ElemWithParam: the value when it is known at startElement *)
  Definition start_value2 (lk : lkfun) (c : ctx) (sel : option expr) (body : list instr2) : option (option value) :=
    match sel with
    | Some e => match gx ev_value lk c e with Some v => Some (Some v) | None => None end
    | None => match body with [] => Some (Some empty_string_value) | _ => Some None end
    end.

  Definition is_rtf_def2 (sel : option expr) (body : list instr2) : bool :=
    match sel, body with None, _ :: _ => true | _, _ => false end.

  Definition step2 (c : ctl2) (s : mstate2) : res2 :=
    let 'mkM2 stk nodes cnl cur modes ifs pvs v store o := s in
    match cur, cnl, modes with
    | n :: cur', l :: cnl', md :: modes' =>
      let cx := mkC n (pos_of n l) (N.of_nat (length l)) md in
      let lk := mlk v store in
      match c with
      | KStart i =>
        match i with
        | JLre nm atts body =>
            match ev_atts lk cx atts with
            | Some pre => Run2 KNext (mkM2 ((i, body, false) :: stk) nodes cnl cur modes ifs pvs (begin_children2 body v) store
                                         (emit_lre_start2 nm pre o))
            | None => Stuck2
            end
        | JText t => Run2 (KEnd i) (mkM2 stk nodes cnl cur modes ifs pvs v store (emit2 [IChars t] o))
        | JValueOf e =>
            match gx ev_string lk cx e with
            | Some t => Run2 (KEnd i) (mkM2 stk nodes cnl cur modes ifs pvs v store (emit2 (ops_of (text_items t)) o))
            | None => Stuck2
            end
        | JIf e body =>
            match gx ev_bool lk cx e with
            | Some true => Run2 KNext (mkM2 ((i, body, false) :: stk) nodes cnl cur modes (true :: ifs) pvs (begin_children2 body v) store o)
            | Some false => Run2 (KEnd i) (mkM2 stk nodes cnl cur modes (false :: ifs) pvs v store o)
            | None => Stuck2
            end
        | JChoose bs =>
            match pick2 lk cx bs with
            | Some (Some x) => Run2 (KStart x) (mkM2 ((i, [], false) :: stk) nodes cnl cur modes ifs pvs v store o)
            | Some None => Run2 (KEnd i) s
            | None => Stuck2
            end
        | JWhen _ body | JOtherwise body =>
            Run2 KNext (mkM2 ((i, body, false) :: stk) nodes cnl cur modes ifs pvs (begin_children2 body v) store o)
        | JForEach e srt body =>
            match body with
            | [] => Run2 (KEnd i) s
            | _ =>
              match sel_nodes lk cx e srt with
              | Some sl =>
                  match sl with
                  | [] => Run2 (KEnd i) (mkM2 stk (sl :: nodes) (sl :: cnl) cur modes ifs pvs v store o)
                  | n1 :: rest => Run2 KNext (mkM2 ((i, body, false) :: stk) (rest :: nodes) (sl :: cnl) (n1 :: cur) modes ifs pvs
                                                (begin_children2 body v) store o)
                  end
              | None => Stuck2
              end
            end
        | JCall t wps =>
            match wps with
            | [] => match get_template2 t with
                    | Some tm => Run2 (KStart tm) (mkM2 ((i, [], true) :: stk) nodes cnl cur modes ifs pvs (push ECtx v) store o)
                    | None => Stuck2
                    end
            | _ => Run2 KNext (mkM2 ((i, wps, false) :: stk) nodes cnl cur modes ifs ([] :: pvs) v store o)
            end
        | JApply e m srt wps =>
            let modes1 := match m with Some m' => m' :: modes | None => modes end in
            match wps with
            | [] => Run2 KNext (mkM2 ((i, [], false) :: stk) nodes cnl cur modes1 ifs ([] :: pvs) v store o)
            | _ => Run2 KNext (mkM2 ((i, wps, false) :: stk) nodes cnl cur modes1 ifs ([] :: pvs) v store o)
            end
        | JWithParam nm sel body =>
            match start_value2 lk cx sel body with
            | Some (Some val) =>
                match pvs with
                | top :: pr => Run2 (KEnd i) (mkM2 stk nodes cnl cur modes ifs ((top ++ [(nm, N.of_nat (length store))]) :: pr) v (store ++ [val]) o)
                | [] => Stuck2
                end
            | Some None => Run2 KNext (mkM2 ((i, body, false) :: stk) nodes cnl cur modes ifs pvs (begin_children2 body v) store (frag_begin o))
            | None => Stuck2
            end
        | JVar nm sel body =>
            match start_value2 lk cx sel body with
            | Some (Some val) =>
                match push_variable nm (N.of_nat (length store)) 0%N v with
                | Some v' => Run2 (KEnd i) (mkM2 stk nodes cnl cur modes ifs pvs v' (store ++ [val]) o)
                | None => Stuck2
                end
            | Some None => Run2 KNext (mkM2 ((i, body, false) :: stk) nodes cnl cur modes ifs pvs (begin_children2 body v) store (frag_begin o))
            | None => Stuck2
            end
        | JParam nm sel =>
            match get_param_variable nm v with
            | (Some _, v1) => Run2 (KEnd i) (mkM2 stk nodes cnl cur modes ifs pvs v1 store o)
            | (None, v1) =>
                match start_value2 (mlk v1 store) cx sel [] with
                | Some (Some val) =>
                    match push_variable nm (N.of_nat (length store)) 0%N v1 with
                    | Some v' => Run2 (KEnd i) (mkM2 stk nodes cnl cur modes ifs pvs v' (store ++ [val]) o)
                    | None => Stuck2
                    end
                | _ => Stuck2
                end
            end
        | JCopy body =>
            match node_shallow n with
            | ShElem nm =>
                (* ElemCopy.cpp:112 -> cloneToResultTree(..., getCopyTextNodesOnly()): no start tag with the flag; repaired
                   variant (ElemCopy.cpp:121-128): return 0, nothing else runs *)
                if tflag o then
                  (if fx_copy then Run2 (KEnd i) s
                   else Run2 KNext (mkM2 ((i, body, false) :: stk) nodes cnl cur modes ifs pvs (begin_children2 body v) store o))
                else Run2 KNext (mkM2 ((i, body, false) :: stk) nodes cnl cur modes ifs pvs (begin_children2 body v) store
                                      (emit2 [IStart nm] o))
            | ShRoot => Run2 KNext (mkM2 ((i, body, false) :: stk) nodes cnl cur modes ifs pvs (begin_children2 body v) store o)
            | ShLeaf its => Run2 (KEnd i) (mkM2 stk nodes cnl cur modes ifs pvs v store (emit2 (ops_of (tfilter (tflag o) its)) o))
            end
        | JCopyOf e =>
            match gx ev_value lk cx e with
            | Some val => Run2 (KEnd i) (mkM2 stk nodes cnl cur modes ifs pvs v store (emit2 (ops_of (tfilter (tflag o) (copy_items val))) o))
            | None => Stuck2
            end
        | JAttribute nm av =>
            match ev_avt lk cx av with
            | Some t => Run2 (KEnd i) (mkM2 stk nodes cnl cur modes ifs pvs v store (emit2 [IAttr nm t] o))
            | None => Stuck2
            end
        | JTemplate ps body =>
            Run2 KNext (mkM2 ((i, ps ++ body, false) :: stk) nodes cnl cur modes ifs pvs (begin_children2 (ps ++ body) v) store o)
        | JElement nm body =>
            (* ElemElement::startElement: the name into a cached string, startElement(name), beginExecuteChildren *)
            match ev_avt lk cx nm with
            | Some en => if name_ok en
                         then Run2 KNext (mkM2 ((i, body, false) :: stk) nodes cnl cur modes ifs pvs (begin_children2 body v) store
                                               (emit2 [IStart en] (push_str en o)))
                         else Stuck2
            | None => Stuck2
            end
        | JComment body =>
            (* ElemComment::startElement: pushCopyTextNodesOnly(true), getAndPushCachedString, beginChildrenToString *)
            match single_text body with
            | Some t => Run2 (KEnd i) (mkM2 stk nodes cnl cur modes ifs pvs v store (push_str t (push_txt true o)))
            | None => Run2 KNext (mkM2 ((i, body, false) :: stk) nodes cnl cur modes ifs pvs (begin_children2 body v) store
                                       (push_fmt e_init (push_str [] (push_txt true o))))
            end
        | JPI nm body =>
            (* ElemPI::startElement: the target into a cached string, the validity check, a second cached string,
               pushCopyTextNodesOnly(true), beginChildrenToString *)
            match ev_avt lk cx nm with
            | Some pn => if pi_ok pn
                         then match single_text body with
                              | Some t => Run2 (KEnd i) (mkM2 stk nodes cnl cur modes ifs pvs v store (push_txt true (push_str t (push_str pn o))))
                              | None => Run2 KNext (mkM2 ((i, body, false) :: stk) nodes cnl cur modes ifs pvs (begin_children2 body v) store
                                                         (push_fmt e_init (push_txt true (push_str [] (push_str pn o)))))
                              end
                         else Stuck2
            | None => Stuck2
            end
        | JLreU nm use atts body =>
            (* ElemLiteralResult::startElement: startElement(name), ElemUse::startElement (invoker and index stacks),
               beginExecuteChildren; ElemUse::getFirst/NextChildElemToExecute: every attribute set, then evaluateAVTs, then
               the children (the frame's list plays the index stack) *)
            Run2 KNext (mkM2 ((i, use_sets use ++ JAvts atts :: body, false) :: stk) nodes cnl cur modes ifs pvs (begin_children2 body v) store
                             (emit2 [IStart nm] o))
        | JElementU nm use body =>
            match ev_avt lk cx nm with
            | Some en => if name_ok en
                         then Run2 KNext (mkM2 ((i, use_sets use ++ body, false) :: stk) nodes cnl cur modes ifs pvs (begin_children2 body v) store
                                               (emit2 [IStart en] (push_str en o)))
                         else Stuck2
            | None => Stuck2
            end
        | JCopyU use body =>
            match node_shallow n with
            | ShElem nm =>
                if tflag o then
                  (if fx_copy then Run2 (KEnd i) s
                   else Run2 KNext (mkM2 ((i, use_sets use ++ body, false) :: stk) nodes cnl cur modes ifs pvs (begin_children2 body v) store o))
                else Run2 KNext (mkM2 ((i, use_sets use ++ body, false) :: stk) nodes cnl cur modes ifs pvs (begin_children2 body v) store
                                      (emit2 [IStart nm] o))
            | ShRoot => Run2 KNext (mkM2 ((i, body, false) :: stk) nodes cnl cur modes ifs pvs (begin_children2 body v) store o)
            | ShLeaf its => Run2 (KEnd i) (mkM2 stk nodes cnl cur modes ifs pvs v store (emit2 (ops_of (tfilter (tflag o) its)) o))
            end
        | JSet k =>
            (* ElemAttributeSet::startElement: ElemUse::startElement (its own use-attribute-sets), pushContextMarker (only
               top-level bindings are visible in a set), pushOnElementRecursionStack (not modelled: a circular use never
               stops here; the library raises an error; its guard discipline is SafeErrModel.attset_balanced), the sets it
               uses, then its xsl:attribute children *)
            match nth_error templates (N.to_nat k) with
            | Some (JAttrSet use atts) =>
                Run2 KNext (mkM2 ((i, set_body use atts, false) :: stk) nodes cnl cur modes ifs pvs (push ECtx v) store o)
            | _ => Stuck2
            end
        | JAvts atts =>
            (* evaluateAVTs: addResultAttribute without the guard *)
            match ev_atts lk cx atts with
            | Some pre => Run2 (KEnd i) (mkM2 stk nodes cnl cur modes ifs pvs v store (emit_avts pre o))
            | None => Stuck2
            end
        | JAttrSet _ _ => Stuck2
        end
      | KEnd i =>
        match i with
        | JLre nm _ body =>
            match end_children2 body v with
            | Some v' => Run2 KNext (mkM2 stk nodes cnl cur modes ifs pvs v' store (emit2 [IEnd nm] o))
            | None => Stuck2
            end
        | JIf _ body =>
            match ifs with
            | true :: ifs' => match end_children2 body v with
                              | Some v' => Run2 KNext (mkM2 stk nodes cnl cur modes ifs' pvs v' store o)
                              | None => Stuck2
                              end
            | false :: ifs' => Run2 KNext (mkM2 stk nodes cnl cur modes ifs' pvs v store o)
            | [] => Stuck2
            end
        | JWhen _ body | JOtherwise body =>
            match end_children2 body v with
            | Some v' => Run2 KNext (mkM2 stk nodes cnl cur modes ifs pvs v' store o)
            | None => Stuck2
            end
        | JForEach _ _ body =>
            match body with
            | [] => Run2 KNext s
            | _ =>
              match (match l with [] => Some v | _ => end_children2 body v end) with
              | Some v' => Run2 KNext (mkM2 stk (tl_or_nil nodes) cnl' cur modes ifs pvs v' store o)
              | None => Stuck2
              end
            end
        | JCall _ _ => Run2 KNext (mkM2 stk nodes cnl cur modes ifs pvs (pop_ctx v) store o)
        | JApply _ m _ _ =>
            Run2 KNext (mkM2 stk (tl_or_nil nodes) cnl' cur (match m with Some _ => modes' | None => modes end) ifs pvs (pop_ctx v) store o)
        | JWithParam nm sel body =>
            if is_rtf_def2 sel body then
              match end_children2 body v, frag_end o, pvs with
              | Some v', Some (t, o'), top :: pr =>
                  Run2 KNext (mkM2 stk nodes cnl cur modes ifs ((top ++ [(nm, N.of_nat (length store))]) :: pr) v' (store ++ [VRtf t]) o')
              | _, _, _ => Stuck2
              end
            else Run2 KNext s
        | JVar nm sel body =>
            if is_rtf_def2 sel body then
              match end_children2 body v, frag_end o with
              | Some v', Some (t, o') =>
                  match push_variable nm (N.of_nat (length store)) 0%N v' with
                  | Some v'' => Run2 KNext (mkM2 stk nodes cnl cur modes ifs pvs v'' (store ++ [VRtf t]) o')
                  | None => Stuck2
                  end
              | _, _ => Stuck2
              end
            else Run2 KNext s
        | JParam nm _ =>
            match get_param_variable nm v with
            | (Some _, v1) => Run2 KNext (mkM2 stk nodes cnl cur modes ifs pvs v1 store o)
            | (None, _) => Run2 KNext s
            end
        | JCopy body =>
            match node_shallow n with
            | ShElem nm =>
                (* repaired variant (ElemCopy.cpp:174-177): nothing for an element when the flag is set *)
                if tflag o && fx_copy then Run2 KNext s
                else match end_children2 body v with
                     | Some v' => Run2 KNext (mkM2 stk nodes cnl cur modes ifs pvs v' store (emit2 [IEnd nm] o))
                     | None => Stuck2
                     end
            | ShRoot => match end_children2 body v with
                        | Some v' => Run2 KNext (mkM2 stk nodes cnl cur modes ifs pvs v' store o)
                        | None => Stuck2
                        end
            | ShLeaf _ => Run2 KNext s
            end
        | JTemplate ps body =>
            (* endExecuteChildren; popElementFrame of a template's frame2 deactivates the params (resetParams) *)
            if has_decl2 (ps ++ body) then
              match pop_frame v with
              | Some v' => Run2 KNext (mkM2 stk nodes cnl cur modes ifs pvs (reset_params v') store o)
              | None => Stuck2
              end
            else Run2 KNext s
        | JText _ | JValueOf _ | JChoose _ | JCopyOf _ | JAttribute _ _ | JAvts _ => Run2 KNext s
        | JAttrSet _ _ => Stuck2
        | JSet _ =>
            (* ElemAttributeSet::endElement: popElementRecursionStack, popContextMarker, ElemUse::endElement *)
            Run2 KNext (mkM2 stk nodes cnl cur modes ifs pvs (pop_ctx v) store o)
        | JLreU nm _ _ body =>
            match end_children2 body v with
            | Some v' => Run2 KNext (mkM2 stk nodes cnl cur modes ifs pvs v' store (emit2 [IEnd nm] o))
            | None => Stuck2
            end
        | JElementU _ _ body =>
            match end_children2 body v, pop_str o with
            | Some v', Some (en, o1) => Run2 KNext (mkM2 stk nodes cnl cur modes ifs pvs v' store (emit2 [IEnd en] o1))
            | _, _ => Stuck2
            end
        | JCopyU _ body =>
            match node_shallow n with
            | ShElem nm =>
                if tflag o && fx_copy then Run2 KNext s
                else match end_children2 body v with
                     | Some v' => Run2 KNext (mkM2 stk nodes cnl cur modes ifs pvs v' store (emit2 [IEnd nm] o))
                     | None => Stuck2
                     end
            | ShRoot => match end_children2 body v with
                        | Some v' => Run2 KNext (mkM2 stk nodes cnl cur modes ifs pvs v' store o)
                        | None => Stuck2
                        end
            | ShLeaf _ => Run2 KNext s
            end
        | JElement _ body =>
            (* ElemElement::endElement: endExecuteChildren, getAndPopCachedString, endElement(name) *)
            match end_children2 body v, pop_str o with
            | Some v', Some (en, o1) => Run2 KNext (mkM2 stk nodes cnl cur modes ifs pvs v' store (emit2 [IEnd en] o1))
            | _, _ => Stuck2
            end
        | JComment body =>
            (* ElemComment::endElement: endChildrenToString, getAndPopCachedString, the "--" loop, comment(), popCopyTextNodesOnly *)
            match (match single_text body with
                   | Some _ => match pop_str o with Some (t, o1) => Some (v, t, o1) | None => None end
                   | None => match end_children2 body v, pop_text o with
                             | Some v', Some (t, o1) => match pop_str o1 with Some (_, o2) => Some (v', t, o2) | None => None end
                             | _, _ => None
                             end
                   end) with
            | Some (v', t, o2) =>
                match pop_txt (emit2 [IComment (fix_comment t)] o2) with
                | Some o3 => Run2 KNext (mkM2 stk nodes cnl cur modes ifs pvs v' store o3)
                | None => Stuck2
                end
            | None => Stuck2
            end
        | JPI _ body =>
            (* ElemPI::endElement: endChildrenToString, pop the data, pop the target, the "?>" loop,
               processingInstruction(), popCopyTextNodesOnly *)
            match (match single_text body with
                   | Some _ => match pop_str o with Some (t, o1) => Some (v, t, o1) | None => None end
                   | None => match end_children2 body v, pop_text o with
                             | Some v', Some (t, o1) => match pop_str o1 with Some (_, o2) => Some (v', t, o2) | None => None end
                             | _, _ => None
                             end
                   end) with
            | Some (v', t, o2) =>
                match pop_str o2 with
                | Some (pn, o3) =>
                    match pop_txt (emit2 [IPI pn (fix_pi t)] o3) with
                    | Some o4 => Run2 KNext (mkM2 stk nodes cnl cur modes ifs pvs v' store o4)
                    | None => Stuck2
                    end
                | None => Stuck2
                end
            | None => Stuck2
            end
        end
      | KNext =>
        match stk with
        | [] => Done2 s
        | (p, rsib, tm) :: stk' =>
          if tm then
            match p with
            | JApply _ _ _ _ =>
                (* the template instance for one node is over: popCurrentNode, findNextTemplateToExecute *)
                match nodes with
                | rest :: nodes' =>
                    match find_next md rest with
                    | Some (n1, t, rest') =>
                        match get_template2 t with
                        | Some tmi => Run2 (KStart tmi) (mkM2 stk (rest' :: nodes') cnl (n1 :: cur') modes ifs pvs v store o)
                        | None => Stuck2
                        end
                    | None => Run2 (KEnd p) (mkM2 stk' ([] :: nodes') cnl cur' modes ifs pvs v store o)
                    end
                | [] => Stuck2
                end
            | _ => Run2 (KEnd p) (mkM2 stk' nodes cnl cur modes ifs pvs v store o)
            end
          else
            match rsib with
            | x :: r => Run2 (KStart x) (mkM2 ((p, r, false) :: stk') nodes cnl cur modes ifs pvs v store o)
            | [] =>
              match p with
              | JForEach _ _ body =>
                  (* popCurrentNode; getNextNodeToTransform; pushCurrentNode; endExecuteChildren; beginExecuteChildren *)
                  match nodes with
                  | (n1 :: rest) :: nodes' =>
                      match end_children2 body v with
                      | Some v' => Run2 KNext (mkM2 ((p, body, false) :: stk') (rest :: nodes') cnl (n1 :: cur') modes ifs pvs
                                                 (begin_children2 body v') store o)
                      | None => Stuck2
                      end
                  | [] :: nodes' => Run2 (KEnd p) (mkM2 stk' nodes cnl cur' modes ifs pvs v store o)
                  | [] => Stuck2
                  end
              | JCall t _ =>
                  (* the with-params are done: pushContextMarker, endParams, the template *)
                  match pvs, get_template2 t with
                  | top :: pr, Some tmi =>
                      Run2 (KStart tmi) (mkM2 ((p, [], true) :: stk') nodes cnl cur modes ifs pr (push_params top (push ECtx v)) store o)
                  | _, _ => Stuck2
                  end
              | JApply e _ srt _ =>
                  (* select (and sort), push the lists, pushContextMarker, endParams, findNextTemplateToExecute.
                     The select expression sees the caller's context: the mode pushed by startElement is not part of it *)
                  match pvs with
                  | top :: pr =>
                      match sel_nodes lk cx e srt with
                      | Some sl =>
                          let v' := push_params top (push ECtx v) in
                          match find_next md sl with
                          | Some (n1, t, rest') =>
                              match get_template2 t with
                              | Some tmi => Run2 (KStart tmi) (mkM2 ((p, [], true) :: stk') (rest' :: nodes) (sl :: cnl) (n1 :: cur) modes ifs pr v' store o)
                              | None => Stuck2
                              end
                          | None => Run2 (KEnd p) (mkM2 stk' ([] :: nodes) (sl :: cnl) cur modes ifs pr v' store o)
                          end
                      | None => Stuck2
                      end
                  | [] => Stuck2
                  end
              | _ => Run2 (KEnd p) (mkM2 stk' nodes cnl cur modes ifs pvs v store o)
              end
            end
        end
      end
    | _, _, _ => Stuck2
    end.

  Fixpoint run2 (fuel : nat) (c : ctl2) (s : mstate2) : res2 :=
    match fuel with
    | O => Run2 c s
    | S f => match step2 c s with
             | Run2 c' s' => run2 f c' s'
             | r => r
             end
    end.

  (* StylesheetRoot::process: the root node is the current node and the only member of the context node list,
     the default mode, the VariablesStack as XsltVarsDefs.impl_start leaves it without top-level variables *)
  Definition m_init2 (root : N) : mstate2 :=
    mkM2 [] [] [[root]] [root] [0%N] [] [] (impl_start []) [] (mkO [e_init] [] []).

  Definition machine_main2 (fuel : nat) (root : N) : res2 :=
    match sel_template root 0%N with
    | Some t => match get_template2 t with
                | Some tm => run2 fuel (KStart tm) (m_init2 root)
                | None => Stuck2
                end
    | None => Stuck2
    end.

  (* what the formatter of the main result tree has received when the loop has stopped *)
  Definition result_tree2 (s : mstate2) : option (list rnode) :=
    match o_fmt (m2_out s) with
    | [e] => build (rev (out (eng_finish e)))
    | _ => None
    end.

  Definition machine_result2 (fuel : nat) (root : N) : option (list rnode) :=
    match machine_main2 fuel root with
    | Done2 s => result_tree2 s
    | _ => None
    end.
End Core2.
