(* Properties_C02n.v — C02, the namespace axis as the library has it (known finding K21): the model of
   XPath::findNamespace (XpDefs.namespaces: bottom-up walk over the ancestor-or-self elements, attributes
   last to first, defaultNSFound flag, duplicate-name scan of the result list, final reverse) computes the
   declarative in-scope environment of XpNsDefs.v.  Every statement is for ALL document tables, contexts,
   node tests and nodes of the DomDefs/XpDefs model: no well-formedness hypothesis, no depth bound.
   XpDefs.namespaces is hand-written (not regenerated from /repo): its tie to the C++ is the
   correspondence run of props/C02.py (ns_part, the namespace-axis stream). *)
From Coq Require Import NArith List Bool.
Require Import XV.XpAst XV.DomDefs XV.XpDefs XV.XpNsDefs XV.XpNsModel.
Import ListNotations.

(** (1) the node list findNamespace's model returns IS the list of declaration nodes the top-down
    environment holds (same nodes, same order): the environment is built from the outermost element down
    to the context element, an inner declaration of a name replacing the inherited one, xmlns=""
    removing the default *)
Theorem namespaces_is_in_scope_environment : forall d c t n,
  namespaces d c t n = ns_in_scope d c t n.
Proof. exact namespaces_is_env. Qed.
Print Assumptions namespaces_is_in_scope_environment.

(** (2) on an element, a declaration is returned exactly when it is the NEAREST visible declaration of
    its name (nothing with the same name nearer to the element) and it is not xmlns="" *)
Theorem namespaces_nearest_declaration_wins : forall d c t n a,
  nkind_eqb (n_kind (get d n)) KElem = true ->
  (In a (namespaces d c t n) <->
   exists l1 l2, decls_nearest_first d c t n = l1 ++ a :: l2 /\
                 (forall y, In y l1 -> decl_key d y <> decl_key d a) /\ undeclares d a = false).
Proof. exact namespaces_in_iff. Qed.
Print Assumptions namespaces_nearest_declaration_wins.

(** (3) when the nearest default-namespace declaration is xmlns="", no default-namespace node is
    returned, whatever farther ancestors declare (the statement seed C02_i breaks) *)
Theorem namespaces_undeclared_default_has_no_node : forall d c t n l1 a l2,
  decls_nearest_first d c t n = l1 ++ a :: l2 ->
  undeclares d a = true ->
  (forall y, In y l1 -> is_default_decl d y = false) ->
  forall x, In x (namespaces d c t n) -> is_default_decl d x = false.
Proof. exact namespaces_undeclared_default. Qed.
Print Assumptions namespaces_undeclared_default_has_no_node.

(** (4) no two returned nodes declare the same name *)
Theorem namespaces_no_duplicate_prefix : forall d c t n,
  NoDup (map (decl_key d) (namespaces d c t n)).
Proof. exact namespaces_nodup_keys. Qed.
Print Assumptions namespaces_no_duplicate_prefix.

(** non-vacuity: <a xmlns="d" xmlns:p="u"><b xmlns=""><c xmlns:p="v"/></b></a>
    nodes: 1 a, 2 xmlns:xml (implicit), 3 xmlns="d", 4 xmlns:p="u", 5 b, 6 xmlns="", 7 c, 8 xmlns:p="v" *)
Definition exn_doc : doc :=
  build_doc [TElem [97]%N [(s_xmlns, [100]%N); (s_xmlns_colon ++ [112]%N, [117]%N)]
              [TElem [98]%N [(s_xmlns, [])] [TElem [99]%N [(s_xmlns_colon ++ [112]%N, [118]%N)] []]]].
Definition exn_ctx : ctx := mkCtx exn_doc 7 [7] [] (fun _ _ => false).
Definition exn_any : ntest := TName NsEmpty None.          (* namespace::* *)

Example exn_on_c : namespaces exn_doc exn_ctx exn_any 7 = [2; 8].       (* xml, the inner p; no default *)
Proof. vm_compute. reflexivity. Qed.

Example exn_on_a : namespaces exn_doc exn_ctx exn_any 1 = [2; 3; 4].
Proof. vm_compute. reflexivity. Qed.

(* the hypotheses of (3) hold on c: nearest first the declarations are 8 (p), 6 (xmlns=""), 4, 3, 2 *)
Example exn_hyp3 :
  decls_nearest_first exn_doc exn_ctx exn_any 7 = [8] ++ 6 :: [4; 3; 2] /\
  undeclares exn_doc 6 = true /\ is_default_decl exn_doc 8 = false /\ is_default_decl exn_doc 3 = true.
Proof. vm_compute. repeat split. Qed.

(* (2): 8 is the nearest p (returned), 4 is a farther p (shadowed, not returned) *)
Example exn_hyp2 :
  nkind_eqb (n_kind (get exn_doc 7)) KElem = true /\
  decl_key exn_doc 8 = decl_key exn_doc 4 /\ undeclares exn_doc 8 = false /\
  In 8 (namespaces exn_doc exn_ctx exn_any 7) /\ ~ In 4 (namespaces exn_doc exn_ctx exn_any 7).
Proof. vm_compute. repeat split; auto. intros [H|[H|[]]]; discriminate. Qed.
