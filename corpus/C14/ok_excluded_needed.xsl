# probed and fine (apply to <doc/>)
<xsl:stylesheet version="1.0" xmlns:xsl="http://www.w3.org/1999/XSL/Transform" xmlns:p="u4" exclude-result-prefixes="p"><xsl:template match="/"><e><xsl:attribute name="p:a">u4</xsl:attribute></e></xsl:template></xsl:stylesheet>
