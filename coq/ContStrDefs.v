(* ContStrDefs.v — executable model of xalanc::XalanDOMString (XalanDOM/XalanDOMString.{hpp,cpp}) as it
   is: a XalanVector<XalanDOMChar> kept NUL-terminated (or completely empty) plus a separately tracked
   m_size, every mutator expressed through the XalanVector model's operations, as repaired (resize()
   overwrites the old terminator before growing; append / substr with npos; erase on an empty buffer).  Specification:
   std::u16string as a list of code units.  Definitions only. *)
From Coq Require Import List Arith Bool.
Require Import XV.GenCont XV.ContVecDefs.
Import ListNotations.

Record xstr := mkstr { sdata : vec; ssize : nat }.
Definition sempty : xstr := mkstr vempty 0.
Definition chars (s : xstr) : list nat := firstn (ssize s) (vdata (sdata s)).
Definition buf_empty (s : xstr) : bool := vsize (sdata s) =? 0.

Fixpoint strlen_prefix (l : list nat) : list nat :=      (* the units before the first NUL *)
  match l with [] => [] | c :: t => if c =? 0 then [] else c :: strlen_prefix t end.

Definition set_back0 (v : vec) : vec := mkvec (set_nth (vsize v - 1) 0 (vdata v)) (vcap v).   (* m_data.back() = 0 *)

Definition erase_all (s : xstr) : xstr := mkstr (erase_range (sdata s) 0 (vsize (sdata s))) 0.

(* append(const XalanDOMChar*, theCount) with an explicit count = length w *)
Definition append_w (s : xstr) (w : list nat) : xstr :=
  if length w =? 0 then s
  else if buf_empty s then
    let d1 := reserve (sdata s) (length w + 1) in
    let d2 := insert_list false d1 (vsize d1) w in
    mkstr (do_push_back d2 0) (length w)
  else mkstr (insert_list false (sdata s) (vsize (sdata s) - 1) w) (ssize s + length w).

(* append(theCount, theChar) *)
Definition append_n (s : xstr) (n c : nat) : xstr :=
  if buf_empty s then mkstr (set_back0 (insert_list true (sdata s) (vsize (sdata s)) (repeat c (n + 1)))) n
  else mkstr (insert_list true (sdata s) (vsize (sdata s) - 1) (repeat c n)) (ssize s + n).

(* erase(theStartPosition, theCount), explicit count *)
Definition after_erase (d1 : vec) : xstr := mkstr d1 (if vsize d1 <? 2 then 0 else vsize d1 - 1).
Definition erase_cnt (s : xstr) (p n : nat) : xstr :=
  if ((p =? 0) && (ssize s <=? n))%bool then erase_all s
  else after_erase (erase_range (sdata s) p (p + n)).
(* erase(theStartPosition) : theCount = npos *)
Definition erase_npos (s : xstr) (p : nat) : xstr :=
  if p =? 0 then erase_all s
  else after_erase (erase_range (sdata s) p (p + (ssize s - p))).
(* erase(iterator, iterator), erase(iterator) *)
Definition erase_it (s : xstr) (a b : nat) : xstr :=
  let d1 := erase_range (sdata s) a b in mkstr d1 (vsize d1 - 1).
Definition erase_it1 (s : xstr) (p : nat) : xstr := mkstr (erase_range (sdata s) p (S p)) (ssize s - 1).

(* m_data.back() = theChar when the buffer is not empty (the old terminator becomes an ordinary position) *)
Definition set_back (c : nat) (v : vec) : vec :=
  if vsize v =? 0 then v else mkvec (set_nth (vsize v - 1) c (vdata v)) (vcap v).

Definition sresize (s : xstr) (n c : nat) : xstr :=
  if n =? ssize s then s else mkstr (set_back0 (resize (set_back c (sdata s)) (n + 1) c)) n.

Definition sreserve (s : xstr) (n : nat) : xstr := mkstr (reserve (sdata s) (n + 1)) (ssize s).

Definition assign_w (s : xstr) (w : list nat) : xstr := append_w (erase_npos s 0) w.
Definition assign_n (s : xstr) (n c : nat) : xstr := append_n (erase_npos s 0) n c.

Definition insert_w (s : xstr) (p : nat) (w : list nat) : xstr :=
  if buf_empty s then append_w s w
  else mkstr (insert_list false (sdata s) p w) (ssize s + length w).
Definition insert_n (s : xstr) (p n c : nat) : xstr :=
  if buf_empty s then assign_n s n c
  else mkstr (insert_list true (sdata s) p (repeat c n)) (ssize s + n).
Definition insert_it (s : xstr) (p c : nat) : xstr * nat :=
  if buf_empty s then (assign_n s 1 c, 0)
  else (mkstr (insert_list true (sdata s) p [c]) (S (ssize s)), p).

(* assign( this-string, thePosition, theCount) : memmove + resize *)
Definition self_sub (s : xstr) (p n : nat) : xstr :=
  if p =? 0 then (if n =? ssize s then s else sresize s n 0)
  else sresize (mkstr (mkvec (blit (sub p (p + n) (vdata (sdata s))) 0 (vdata (sdata s))) (vcap (sdata s))) (ssize s)) n 0.

(* assign(theSource, thePosition, theCount) from another string: erase(); append(c_str() + pos, count) *)
Definition assign_sub (t : xstr) (src : list nat) (p n : nat) : xstr := append_w (erase_npos t 0) (sub p (p + n) src).

(* XalanDOMString(theSource, mgr) : append(c_str(), npos) when the source is not empty *)
Definition scopy (src : xstr) : xstr :=
  if ssize src =? 0 then sempty else append_w sempty (strlen_prefix (vdata (sdata src))).

Definition sassign (t r : xstr) : xstr := mkstr (assign_from (sdata t) (sdata r)) (ssize r).

Definition c_str (s : xstr) : list nat := if buf_empty s then [] else strlen_prefix (vdata (sdata s)).

(* doCompare: 0 = less, 1 = equal, 2 = greater *)
Fixpoint cmp_units (a b : list nat) : nat :=
  match a, b with
  | [], [] => 1
  | [], _ :: _ => 0
  | _ :: _, [] => 2
  | x :: a', y :: b' => if x <? y then 0 else if y <? x then 2 else cmp_units a' b'
  end.

Definition scapacity (s : xstr) : nat := if vcap (sdata s) =? 0 then 0 else vcap (sdata s) - 1.
Definition terminated (s : xstr) : bool :=
  if buf_empty s then ssize s =? 0 else nth (ssize s) (vdata (sdata s)) 1 =? 0.

(* ---------------------------------------------------------------------------------------------- *)
Inductive sop :=
| SApp (w : list nat) | SAppN (n c : nat) | SPush (c : nat) | SIns (p : nat) (w : list nat) | SInsN (p n c : nat)
| SInsIt (p c : nat) | SErase (p n : nat) | SEraseNpos (p : nat) | SEraseIt (a b : nat) | SEraseIt1 (p : nat)
| SResize (n c : nat) | SResize0 (n : nat) | SReserve (n : nat) | SClear | SAssignW (w : list nat) | SAssignN (n c : nat)
| SSubstr (p n : nat) | SSelfSub (p n : nat) | SAppSub (p n : nat) | SAppO | SCmp | SCmpW (w : list nat)
| SIdx (i : nat) | SCStr | SRIter | SCopy | SAssign | SSelfAssign | SSwap | SSel (r : bool)
| SAppSubNpos (p : nat) | SSubstrNpos (p : nat).

Inductive sret := SRNone | SRNum (n : nat) | SRList (l : list nat).

Record ststate := mkst { sreg0 : xstr; sreg1 : xstr; stcur : bool }.
Definition stinit : ststate := mkst sempty sempty false.
Definition cur_str (s : ststate) := if stcur s then sreg1 s else sreg0 s.
Definition oth_str (s : ststate) := if stcur s then sreg0 s else sreg1 s.
Definition set_cur_st (s : ststate) (x : xstr) := if stcur s then mkst (sreg0 s) x true else mkst x (sreg1 s) false.
Definition set_oth_st (s : ststate) (x : xstr) := if stcur s then mkst x (sreg1 s) true else mkst (sreg0 s) x false.

Definition nonzero (l : list nat) : bool := forallb (fun c => negb (c =? 0)) l.

(* None = outside the C++ precondition or a NUL code unit as an argument: the driver skips the op *)
Definition ststep (s : ststate) (o : sop) : option (ststate * sret) :=
  let x := cur_str s in
  let n := ssize x in
  let y := oth_str s in
  match o with
  | SApp w => if nonzero w then Some (set_cur_st s (append_w x w), SRNone) else None
  | SAppN k c => if c =? 0 then None else Some (set_cur_st s (append_n x k c), SRNone)
  | SPush c => if c =? 0 then None else Some (set_cur_st s (append_n x 1 c), SRNone)
  | SIns p w => if (nonzero w && (p <=? n))%bool then Some (set_cur_st s (insert_w x p w), SRNone) else None
  | SInsN p k c => if (negb (c =? 0) && (p <=? n))%bool then Some (set_cur_st s (insert_n x p k c), SRNone) else None
  | SInsIt p c => if (negb (c =? 0) && (p <=? n))%bool
                  then let '(x', r) := insert_it x p c in Some (set_cur_st s x', SRNum r) else None
  | SErase p k => if p + k <=? n then Some (set_cur_st s (erase_cnt x p k), SRNone) else None
  | SEraseNpos p => if p <=? n then Some (set_cur_st s (erase_npos x p), SRNone) else None
  | SEraseIt a b => if ((a <=? b) && (b <=? n))%bool
                    then Some (set_cur_st s (erase_it x a b), SRNum a) else None
  | SEraseIt1 p => if p <? n then Some (set_cur_st s (erase_it1 x p), SRNum p) else None
  | SResize k c => if c =? 0 then None else Some (set_cur_st s (sresize x k c), SRNone)
  | SResize0 k => if n <? k then None else Some (set_cur_st s (sresize x k 0), SRNone)
  | SReserve k => Some (set_cur_st s (sreserve x k), SRNone)
  | SClear => Some (set_cur_st s (erase_all x), SRNone)
  | SAssignW w => if nonzero w then Some (set_cur_st s (assign_w x w), SRNone) else None
  | SAssignN k c => if c =? 0 then None else Some (set_cur_st s (assign_n x k c), SRNone)
  | SSubstr p k => if ((p <? n) && (p + k <=? n))%bool
                   then Some (s, SRList (chars (assign_sub sempty (chars x) p k))) else None
  | SSelfSub p k => if ((p <? n) && (p + k <=? n))%bool then Some (set_cur_st s (self_sub x p k), SRNone) else None
  | SAppSub p k => if ((p <? ssize y) && (p + k <=? ssize y))%bool
                   then Some (set_cur_st s (append_w x (sub p (p + k) (chars y))), SRNone) else None
  | SAppO => Some (set_cur_st s (append_w x (chars y)), SRNone)
  | SCmp => Some (s, SRNum (cmp_units (chars x) (c_str y)))
  | SCmpW w => if nonzero w then Some (s, SRNum (cmp_units (chars x) w)) else None
  | SIdx i => if i <? n then Some (s, SRNum (nth i (vdata (sdata x)) 0)) else None
  | SCStr => Some (s, SRList (c_str x))
  | SRIter => Some (s, SRList (if buf_empty x then [] else rev (removelast (vdata (sdata x)))))
  | SCopy => Some (set_oth_st s (scopy x), SRNone)
  | SAssign => Some (set_cur_st s (sassign x y), SRNone)
  | SSelfAssign => Some (s, SRNone)
  | SSwap => Some (mkst (sreg1 s) (sreg0 s) (stcur s), SRNone)
  | SSel r => Some (mkst (sreg0 s) (sreg1 s) r, SRNone)
  (* append(other, p, npos): append(c_str() + p, npos), the length is found by scanning for the NUL *)
  | SAppSubNpos p => if p <? ssize y
                     then Some (set_cur_st s (append_w x (strlen_prefix (skipn p (vdata (sdata y))))), SRNone) else None
  (* substr(result, p) with the default count: assign(this string, p, length() - p) into a fresh string *)
  | SSubstrNpos p => if p <? n then Some (s, SRList (chars (assign_sub sempty (chars x) p (n - p)))) else None
  end.

(* observation: return value, length(), the code units [0, length()), c_str()[length()] == 0, capacity() *)
Definition stobs : Type := option (sret * nat * list nat * bool * nat).

Fixpoint strun (s : ststate) (ops : list sop) : list stobs :=
  match ops with
  | [] => []
  | o :: r =>
    match ststep s o with
    | None => None :: strun s r
    | Some (s', rt) =>
      Some (rt, ssize (cur_str s'), chars (cur_str s'), terminated (cur_str s'), scapacity (cur_str s')) :: strun s' r
    end
  end.

Fixpoint stfinal (s : ststate) (ops : list sop) : ststate :=
  match ops with
  | [] => s
  | o :: r => match ststep s o with None => stfinal s r | Some (s', _) => stfinal s' r end
  end.

(* ---------------------------------------------------------------------------------------------- *)
(* specification: std::u16string = list of code units *)
Record ustate := mkus { u0 : list nat; u1 : list nat; ucur : bool }.
Definition uinit : ustate := mkus [] [] false.
Definition cur_u (s : ustate) := if ucur s then u1 s else u0 s.
Definition oth_u (s : ustate) := if ucur s then u0 s else u1 s.
Definition set_cur_u (s : ustate) (l : list nat) := if ucur s then mkus (u0 s) l true else mkus l (u1 s) false.
Definition set_oth_u (s : ustate) (l : list nat) := if ucur s then mkus l (u1 s) true else mkus (u0 s) l false.

Definition ustep (s : ustate) (o : sop) : option (ustate * sret) :=
  let l := cur_u s in
  let n := length l in
  let y := oth_u s in
  match o with
  | SApp w => if nonzero w then Some (set_cur_u s (l ++ w), SRNone) else None
  | SAppN k c => if c =? 0 then None else Some (set_cur_u s (l ++ repeat c k), SRNone)
  | SPush c => if c =? 0 then None else Some (set_cur_u s (l ++ [c]), SRNone)
  | SIns p w => if (nonzero w && (p <=? n))%bool then Some (set_cur_u s (ins_spec p w l), SRNone) else None
  | SInsN p k c => if (negb (c =? 0) && (p <=? n))%bool then Some (set_cur_u s (ins_spec p (repeat c k) l), SRNone) else None
  | SInsIt p c => if (negb (c =? 0) && (p <=? n))%bool then Some (set_cur_u s (ins_spec p [c] l), SRNum p) else None
  | SErase p k => if p + k <=? n then Some (set_cur_u s (erase_spec p (p + k) l), SRNone) else None
  | SEraseNpos p => if p <=? n then Some (set_cur_u s (firstn p l), SRNone) else None
  | SEraseIt a b => if ((a <=? b) && (b <=? n))%bool then Some (set_cur_u s (erase_spec a b l), SRNum a) else None
  | SEraseIt1 p => if p <? n then Some (set_cur_u s (erase_spec p (S p) l), SRNum p) else None
  | SResize k c => if c =? 0 then None else Some (set_cur_u s (resize_spec k c l), SRNone)
  | SResize0 k => if n <? k then None else Some (set_cur_u s (firstn k l), SRNone)
  | SReserve _ => Some (set_cur_u s l, SRNone)
  | SClear => Some (set_cur_u s [], SRNone)
  | SAssignW w => if nonzero w then Some (set_cur_u s w, SRNone) else None
  | SAssignN k c => if c =? 0 then None else Some (set_cur_u s (repeat c k), SRNone)
  | SSubstr p k => if ((p <? n) && (p + k <=? n))%bool then Some (s, SRList (sub p (p + k) l)) else None
  | SSelfSub p k => if ((p <? n) && (p + k <=? n))%bool then Some (set_cur_u s (sub p (p + k) l), SRNone) else None
  | SAppSub p k => if ((p <? length y) && (p + k <=? length y))%bool then Some (set_cur_u s (l ++ sub p (p + k) y), SRNone) else None
  | SAppO => Some (set_cur_u s (l ++ y), SRNone)
  | SCmp => Some (s, SRNum (cmp_units l y))
  | SCmpW w => if nonzero w then Some (s, SRNum (cmp_units l w)) else None
  | SIdx i => if i <? n then Some (s, SRNum (nth i l 0)) else None
  | SCStr => Some (s, SRList l)
  | SRIter => Some (s, SRList (rev l))
  | SCopy => Some (set_oth_u s l, SRNone)
  | SAssign => Some (set_cur_u s y, SRNone)
  | SSelfAssign => Some (s, SRNone)
  | SSwap => Some (mkus (u1 s) (u0 s) (ucur s), SRNone)
  | SSel r => Some (mkus (u0 s) (u1 s) r, SRNone)
  | SAppSubNpos p => if p <? length y then Some (set_cur_u s (l ++ skipn p y), SRNone) else None
  | SSubstrNpos p => if p <? n then Some (s, SRList (skipn p l)) else None
  end.

(* lock-step refinement: whenever the model performs an op (inside the preconditions) the specification performs it with the same return value, and the code units
   of the current string agree afterwards *)
Fixpoint st_refines (s : ststate) (u : ustate) (ops : list sop) : Prop :=
  match ops with
  | [] => True
  | o :: r =>
    match ststep s o with
    | None => st_refines s u r
    | Some (s', rt) =>
      match ustep u o with
      | Some (u', rt') => rt = rt' /\ chars (cur_str s') = cur_u u' /\ ssize (cur_str s') = length (cur_u u') /\
                          terminated (cur_str s') = true /\ st_refines s' u' r
      | None => False
      end
    end
  end.
