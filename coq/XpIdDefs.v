(* XpIdDefs.v — the mechanism behind the XPath core function id() (XPath 1.0 sections 4.1 / 5.2.1) as
   Xalan implements it, over the node tables of DomDefs plus a declared-type function:

     XalanSourceTreeDocument::createAttributes (SAX2 overload)   the element-by-ID table m_elementsByID, filled
                                                                 while the document is built: for every attribute,
                                                                 in arrival order, whose reported type passes the
                                                                 type test, insert (value -> owner element)
     XalanSourceTreeDocument::getElementById                     find
     FunctionID::execute / FunctionIDXObjectTypeCallback         argument -> string, tokenisation, look-up of
                                                                 every token, insertion in document order

   The type test, the insert-vs-overwrite decision, the delimiter set and the node-set separator are NOT
   written here: they come from GenXpId.v, regenerated from /repo on every run (translator/gen_xpid.py).
   Definitions only (extraction must work when a proof breaks). *)
From Coq Require Import NArith List Bool Arith.
Require Import XV.XpAst XV.DomDefs XV.XpDefs XV.GenXpId.
Import ListNotations.

(** * the attribute type test *)
(* [atype a] : the type string SAX2 Attributes::getType reports for attribute node a ("CDATA", "ID", "IDREF",
   "IDREFS", "NMTOKEN", "NMTOKENS", "ENTITY", "ENTITIES", "NOTATION", or "(a|b)" for an enumeration) *)
Definition atype_fn := nat -> str.

Definition is_id_type (t : str) : bool :=
  if gen_id_type_terminated then str_eqb t gen_id_type_chars else starts_with t gen_id_type_chars.

Definition s_ID : str := [73; 68]%N.

(** * the element-by-ID table *)
Definition table := list (str * nat).          (* in order of first insertion *)

Fixpoint tbl_find (t : table) (k : str) : option nat :=
  match t with
  | [] => None
  | (q, e) :: r => if str_eqb k q then Some e else tbl_find r k
  end.

Fixpoint tbl_set (t : table) (k : str) (e : nat) : table :=       (* operator[] : overwrite or append *)
  match t with
  | [] => [(k, e)]
  | (q, x) :: r => if str_eqb k q then (q, e) :: r else (q, x) :: tbl_set r k e
  end.

Definition tbl_insert (t : table) (k : str) (e : nat) : table :=
  if gen_id_insert_keeps_first then
    match tbl_find t k with Some _ => t | None => t ++ [(k, e)] end
  else tbl_set t k e.

(* the registrations one element causes: its attribute nodes in order (namespace declarations first, as
   createAttributes is called twice), those whose type passes the test *)
Definition elem_events (d : doc) (ty : atype_fn) (e : nat) : list (str * nat) :=
  if nkind_eqb (n_kind (get d e)) KElem then
    map (fun a => (n_value (get d a), e)) (filter (fun a => is_id_type (ty a)) (n_attrs (get d e)))
  else [].

(* startElement events arrive in document order = ascending node number *)
Definition id_events (d : doc) (ty : atype_fn) : list (str * nat) :=
  flat_map (elem_events d ty) (seq 0 (length d)).

Definition build_table (d : doc) (ty : atype_fn) : table :=
  fold_left (fun t kv => tbl_insert t (fst kv) (snd kv)) (id_events d ty) [].

(** * FunctionID *)
Definition is_delim (c : N) : bool := existsb (N.eqb c) gen_idfn_delims.

(* StringTokenizer with fReturnTokens = false, seen abstractly: the maximal delimiter-free pieces, in
   order ([cur] = the piece being read, reversed) *)
Fixpoint tokenize (s : str) (cur : str) : list str :=
  match s with
  | [] => match cur with [] => [] | _ => [rev cur] end
  | c :: r =>
      if is_delim c then match cur with [] => tokenize r [] | _ => rev cur :: tokenize r [] end
      else tokenize r (c :: cur)
  end.

Definition tokens (s : str) : list str := tokenize s [].

Definition lookup_add (tbl : table) (acc : list nat) (t : str) : list nat :=
  match tbl_find tbl t with Some e => insert_sorted e acc | None => acc end.

(* the general loop: every token looked up, found elements added with addNodeInDocOrder *)
Definition id_tokens (tbl : table) (toks : list str) : list nat := fold_left (lookup_add tbl) toks [].

(* FunctionID::execute after the argument has become a string, short cuts included *)
Definition id_of_string (tbl : table) (s : str) : list nat :=
  match s with
  | [] => []
  | _ =>
    match tokens s with
    | [t] => match tbl_find tbl t with Some e => [e] | None => [] end
    | toks => id_tokens tbl toks
    end
  end.

(* FunctionIDXObjectTypeCallback::NodeSet: string-value of every node followed by the separator *)
Definition nodes_string (d : doc) (l : list nat) : str :=
  flat_map (fun n => string_value (fun _ _ => false) d n ++ [gen_idfn_nodeset_separator]) l.

Definition id_of_nodes (d : doc) (tbl : table) (l : list nat) : list nat := id_of_string tbl (nodes_string d l).

(* the whole function over a document: argument either a string (number / boolean arguments are converted by
   the caller) or a node-set *)
Inductive id_arg := IdStr (s : str) | IdNodes (l : list nat).

Definition fn_id (d : doc) (ty : atype_fn) (a : id_arg) : list nat :=
  let tbl := build_table d ty in
  match a with
  | IdStr s => id_of_string tbl s
  | IdNodes l => id_of_nodes d tbl l
  end.

(** * specification (XPath 1.0 sections 4.1 and 5.2.1), independent of the table *)
(* element e carries an attribute declared of type ID whose value is v *)
Definition has_id (d : doc) (ty : atype_fn) (e : nat) (v : str) : Prop :=
  n_kind (get d e) = KElem /\ exists a, In a (n_attrs (get d e)) /\ ty a = s_ID /\ n_value (get d a) = v.

(* 5.2.1: of the elements reported with the same ID the first in document order has it, the others have none *)
Definition unique_id (d : doc) (ty : atype_fn) (e : nat) (v : str) : Prop :=
  has_id d ty e v /\ forall e', e' < e -> ~ has_id d ty e' v.

(* "ID values are unique" (what validity guarantees) *)
Definition ids_unique (d : doc) (ty : atype_fn) : Prop :=
  forall e e' v, has_id d ty e v -> has_id d ty e' v -> e = e'.

(* t is a whitespace-separated token of s: a maximal non-empty piece without white space *)
Definition ws_free (t : str) : Prop := forall c, In c t -> is_ws_char c = false.
Definition token_of (s t : str) : Prop :=
  t <> [] /\ ws_free t /\
  exists pre post, s = pre ++ t ++ post /\
    (pre = [] \/ exists p c, pre = p ++ [c] /\ is_ws_char c = true) /\
    (post = [] \/ exists c q, post = c :: q /\ is_ws_char c = true).

(* section 4.1 for a string argument: x is selected iff its unique ID is one of the tokens *)
Definition spec_id_string (d : doc) (ty : atype_fn) (s : str) (x : nat) : Prop :=
  exists t, token_of s t /\ unique_id d ty x t.

(* section 4.1 for a node-set argument: the union over the nodes of id(string-value) *)
Definition spec_id_nodes (d : doc) (ty : atype_fn) (l : list nat) (x : nat) : Prop :=
  exists n, In n l /\ spec_id_string d ty (string_value (fun _ _ => false) d n) x.
