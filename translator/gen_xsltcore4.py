"""C01, part core2, deliverable (c): structural facts of the attribute-set mechanism that coq/XsltCore2Defs.v models
(ElemUse, ElemAttributeSet, the users ElemLiteralResult / ElemElement / ElemCopy), re-read from the current source on
every run (coq/GenXsltCore4.v); coq/Properties_C01core4.v (core4_attribute_set_shapes_as_in_source) needs every one of
them to be `true`.  Lenient about formatting; fails closed (AnchorError) when a function cannot be found."""
import re
import srcfacts
from gen_xsltcore2 import in_order, body_of, nonrecursive


def gen_xsltcore4():
    facts = {}
    us = srcfacts.strip_comments(srcfacts.read("XSLT/ElemUse.cpp"))
    st = nonrecursive(us, r"ElemUse::startElement", "ElemUse::startElement")
    facts["use_start_pushes_invoker_and_indexes"] = in_order(
        st, r"if\s*\(\s*m_attributeSetsNamesCount\s*>\s*0\s*\)", r"pushInvoker\s*\(\s*this\s*\)", r"createUseAttributeSetIndexesOnStack\s*\(", r"getNextAttributeSet\s*\(")
    en = nonrecursive(us, r"ElemUse::endElement", "ElemUse::endElement")
    facts["use_end_pops_invoker_and_indexes"] = in_order(
        en, r"if\s*\(\s*m_attributeSetsNamesCount\s*>\s*0\s*\)", r"popInvoker\s*\(", r"popUseAttributeSetIndexesFromStack\s*\(")
    gf = nonrecursive(us, r"ElemUse::getFirstChildElemToExecute", "ElemUse::getFirstChildElemToExecute")
    facts["first_child_sets_before_avts_before_children"] = in_order(
        gf, r"if\s*\(\s*m_attributeSetsNamesCount\s*>\s*0\s*\)", r"attributeSetNameIndex\s*=\s*0", r"matchingAttributeSetIndex\s*=\s*0", r"nextElement\s*=\s*getNextAttributeSet\s*\(",
        r"else\s*\{\s*evaluateAVTs\s*\(", r"if\s*\(\s*0\s*==\s*nextElement\s*\)\s*\{\s*nextElement\s*=\s*ElemTemplateElement::getFirstChildElemToExecute\s*\(")
    gn = body_of(re.search(r"#if\s*!\s*defined\s*\(\s*XALAN_RECURSIVE_STYLESHEET_EXECUTION\s*\)(.*?)#endif", us, re.S).group(1),
                 r"ElemUse::getNextChildElemToExecute\s*\([^)]*\)\s*const\s*\{", "ElemUse::getNextChildElemToExecute")
    facts["next_child_sets_then_avts_then_children"] = in_order(
        gn, r"nextElement\s*=\s*getNextAttributeSet\s*\(", r"if\s*\(\s*0\s*==\s*nextElement\s*\)\s*\{\s*nextElement\s*=\s*ElemTemplateElement::getNextChildElemToExecute\s*\(",
        r"0\s*==\s*nextElement\s*&&\s*currentElem\s*->\s*getXSLToken\s*\(\s*\)\s*==\s*StylesheetConstructionContext::ELEMNAME_ATTRIBUTE_SET",
        r"evaluateAVTs\s*\(", r"nextElement\s*=\s*ElemTemplateElement::getFirstChildElemToExecute\s*\(")
    copy_guard = r"getXSLToken\s*\(\s*\)\s*!=\s*StylesheetConstructionContext::ELEMNAME_COPY\s*\|\|\s*executionContext\s*\.\s*getCurrentNode\s*\(\s*\)\s*->\s*getNodeType\s*\(\s*\)\s*==\s*XalanNode::ELEMENT_NODE"
    facts["copy_uses_sets_for_elements_only"] = bool(re.search(copy_guard, gf)) and bool(re.search(copy_guard, gn))
    ns = nonrecursive(us, r"ElemUse::getNextAttributeSet", "ElemUse::getNextAttributeSet")
    facts["next_set_walks_names_then_matching_sets"] = in_order(
        ns, r"while\s*\(\s*0\s*==\s*attributeSet\s*&&\s*useAttributeSetIndexes\s*\.\s*attributeSetNameIndex\s*<\s*m_attributeSetsNamesCount\s*\)",
        r"getAttributeSet\s*\(", r"m_attributeSetsNames\s*\[\s*useAttributeSetIndexes\s*\.\s*attributeSetNameIndex\s*\]", r"matchingAttributeSetIndex\s*\+\+",
        r"if\s*\(\s*0\s*==\s*attributeSet\s*\)", r"attributeSetNameIndex\s*\+\+", r"matchingAttributeSetIndex\s*=\s*0")

    at = srcfacts.strip_comments(srcfacts.read("XSLT/ElemAttributeSet.cpp"))
    b = nonrecursive(at, r"ElemAttributeSet::startElement", "ElemAttributeSet::startElement")
    facts["attribute_set_start_use_marker_guard_children"] = in_order(
        b, r"ElemUse::startElement\s*\(", r"pushContextMarker\s*\(\s*\)", r"pushOnElementRecursionStack\s*\(\s*this\s*\)", r"return\s+getFirstChildElemToExecute\s*\(") and \
        not re.search(r"setCurrentStackFrameIndex", b)
    b = nonrecursive(at, r"ElemAttributeSet::endElement", "ElemAttributeSet::endElement")
    facts["attribute_set_end_guard_marker_use"] = in_order(b, r"popElementRecursionStack\s*\(", r"popContextMarker\s*\(", r"ElemUse::endElement\s*\(")
    b = nonrecursive(at, r"ElemAttributeSet::getInvoker", "ElemAttributeSet::getInvoker")
    facts["attribute_set_returns_to_its_user"] = bool(re.search(r"return\s+executionContext\s*\.\s*getInvoker\s*\(\s*\)", b))

    lr = srcfacts.strip_comments(srcfacts.read("XSLT/ElemLiteralResult.cpp"))
    b = nonrecursive(lr, r"ElemLiteralResult::startElement", "ElemLiteralResult::startElement")
    # the start tag, then the attribute-set machinery, then the children; the element's own AVTs are NOT evaluated here
    facts["lre_start_tag_use_children_no_avts"] = in_order(
        b, r"executionContext\s*\.\s*startElement\s*\(\s*theElementName\s*\.\s*c_str\s*\(\s*\)\s*\)", r"ElemUse::startElement\s*\(", r"return\s+beginExecuteChildren\s*\(") and \
        not re.search(r"evaluateAVTs|avt\s*->\s*evaluate", b)
    b = nonrecursive(lr, r"ElemLiteralResult::evaluateAVTs", "ElemLiteralResult::evaluateAVTs")
    facts["lre_avts_added_without_guard"] = in_order(
        b, r"for\s*\(\s*XalanSize_t\s+i\s*=\s*0\s*;\s*i\s*<\s*m_avtsCount", r"avt\s*->\s*evaluate\s*\(", r"executionContext\s*\.\s*addResultAttribute\s*\(\s*theName\s*,\s*theStringedValue\s*\)") and \
        not re.search(r"isElementPending", b)
    b = nonrecursive(lr, r"ElemLiteralResult::endElement", "ElemLiteralResult::endElement")
    facts["lre_end_children_tag_use"] = in_order(b, r"endExecuteChildren\s*\(", r"executionContext\s*\.\s*endElement\s*\(", r"ElemUse::endElement\s*\(")

    el = srcfacts.strip_comments(srcfacts.read("XSLT/ElemElement.cpp"))
    b = nonrecursive(el, r"ElemElement::startElement", "ElemElement::startElement")
    facts["element_start_tag_use_children"] = in_order(
        b, r"executionContext\s*\.\s*startElement\s*\(\s*elemName\s*\.\s*c_str\s*\(\s*\)\s*\)", r"ElemUse::startElement\s*\(", r"return\s+beginExecuteChildren\s*\(")
    cp = srcfacts.strip_comments(srcfacts.read("XSLT/ElemCopy.cpp"))
    b = nonrecursive(cp, r"ElemCopy::startElement", "ElemCopy::startElement")
    facts["copy_clone_use_children"] = in_order(
        b, r"cloneToResultTree\s*\(", r"XalanNode::ELEMENT_NODE\s*==\s*nodeType", r"ElemUse::startElement\s*\(", r"return\s+beginExecuteChildren\s*\(")

    out = ["(* generated by translator/gen_xsltcore4.py from src/xalanc/XSLT/{ElemUse,ElemAttributeSet,ElemLiteralResult,ElemElement,ElemCopy}.cpp - do not edit *)"]
    for k in sorted(facts):
        out.append("Definition src4_%s : bool := %s." % (k, "true" if facts[k] else "false"))
    return "\n".join(out) + "\n", facts


GENERATORS = {"GenXsltCore4": gen_xsltcore4}
