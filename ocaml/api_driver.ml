(* model side of the C06 correspondence: runs operation histories through the extracted
   transformer state machine (ApiDefs.step) and prints, per operation, the predicted status,
   whether getLastError() is non-empty, the key handed to the transformation and the residue.

   Input:  H <id> <op>;<op>;...
     c<S>:<oc>            compile           oc = k | fx | fp | fs | fm | fd  (exception class)
     p<D>:<oc> q<D>:<oc>  parse (q: Xerces DOM)
     t<i>,<j>:<oc>:<ab>   transform(parsed j, compiled i); ab = index of the throwing statement
     T<S>,<D>:<po>:<oc>:<ab>   u<i>,<D>:<po>:<oc>:<ab>   v<S>,<j>:<oc>:<ab>
     s<n>=<v> n<n>=<v> x i<k> r<k> d<i> e<j> o<z>
   every transformation dirties ALL per-transformation members (the largest dirt set).
   Output: H <id> <r>;<r>...   r = <out>|<residue>
     out = "." | S<status>:<stale> | T<status>:<stale>:<key> | N
     key = - | s<S>,d<D>,x<0|1>,P<name>=<e|v><val>+...,F<k>+...,I<indent>     (sorted) *)

let name_string (l : name) : string = String.concat "" (List.map (fun c -> String.make 1 (Char.chr (int_of_n c))) l)

let class_name = function
  | CSecd -> "StylesheetExecutionContextDefault"
  | CXpec -> "XPathExecutionContextDefault"
  | CXpecBase -> "XPathExecutionContext"
  | CExecBase -> "ExecutionContext"
  | CEngine -> "XSLTEngineImpl"
  | CTransformer -> "XalanTransformer"
  | CVarStack -> "VariablesStack"
  | CCounters -> "CountersTable"

let mid_name (c, n) = class_name c ^ "::" ^ name_string n

let max_dirt = List.filter is_per_transformation member_ids

let outcome_of (s : string) : outcome =
  let m = [nat_of_int 88] in
  match s with
  | "k" -> Ok
  | "fx" -> Fail (EXSL, m)
  | "fp" -> Fail (ESAXParse, m)
  | "fs" -> Fail (ESAX, m)
  | "fm" -> Fail (EXML, m)
  | "fd" -> Fail (EDOM, m)
  | _ -> failwith ("bad outcome " ^ s)

let pair_of (s : string) (sep : char) : string * string =
  match String.index_opt s sep with
  | Some i -> (String.sub s 0 i, String.sub s (i + 1) (String.length s - i - 1))
  | None -> (s, "")

let ni s = nat_of_int (int_of_string s)

let op_of (s : string) : op =
  let c = s.[0] in
  let rest = String.sub s 1 (String.length s - 1) in
  let fs = String.split_on_char ':' rest in
  let arg = List.hd fs in
  let f k = List.nth fs k in
  match c with
  | 'c' -> OCompile (ni arg, outcome_of (f 1))
  | 'p' -> OParse (ni arg, false, outcome_of (f 1))
  | 'q' -> OParse (ni arg, true, outcome_of (f 1))
  | 't' -> let (a, b) = pair_of arg ',' in OTransHH (ni a, ni b, outcome_of (f 1), ni (f 2), max_dirt)
  | 'T' -> let (a, b) = pair_of arg ',' in OTransSS (ni a, ni b, outcome_of (f 1), outcome_of (f 2), ni (f 3), max_dirt)
  | 'u' -> let (a, b) = pair_of arg ',' in OTransHS (ni a, ni b, outcome_of (f 1), outcome_of (f 2), ni (f 3), max_dirt)
  | 'v' -> let (a, b) = pair_of arg ',' in OTransSH (ni a, ni b, outcome_of (f 1), ni (f 2), max_dirt)
  | 's' -> let (a, b) = pair_of arg '=' in OSetParamE (ni a, ni b)
  | 'n' -> let (a, b) = pair_of arg '=' in OSetParamV (ni a, ni b)
  | 'x' -> OClearParams
  | 'i' -> OInstall (ni arg)
  | 'r' -> OUninstall (ni arg)
  | 'd' -> ODestroyCS (ni arg)
  | 'e' -> ODestroyPS (ni arg)
  | 'o' -> OSetIndent (z_of_int (int_of_string arg))
  | _ -> failwith ("bad op " ^ s)

let show_status = function Some z -> string_of_int (int_of_z z) | None -> "esc"
let show_stale (e : nat list) = if e = [] then "0" else "1"

let show_key (k : tkey) : string =
  let ps = List.sort compare (List.map (fun (n, (isexpr, v)) ->
      (int_of_nat n, (if isexpr then "e" else "v") ^ string_of_int (int_of_nat v))) k.k_params) in
  let fs = List.sort compare (List.map int_of_nat k.k_funcs) in
  Printf.sprintf "s%d,d%d,x%d,P%s,F%s,I%d" (int_of_nat k.k_sheet) (int_of_nat k.k_src)
    (if k.k_xerces then 1 else 0)
    (String.concat "+" (List.map (fun (n, v) -> Printf.sprintf "%d=%s" n v) ps))
    (String.concat "+" (List.map string_of_int fs))
    (int_of_z k.k_indent)

let show_out (o : out) : string =
  match o with
  | OutVoid -> "."
  | OutStatus (z, e) -> Printf.sprintf "S%s:%s" (show_status z) (show_stale e)
  | OutTrans (k, z, e) ->
      Printf.sprintf "T%s:%s:%s" (show_status z) (show_stale e) (match k with Some k -> show_key k | None -> "-")
  | OutNoCall -> "N"

let show_residue (s : state) : string =
  let names = List.sort_uniq compare (List.map mid_name s.st_residue) in
  if names = [] then "-" else String.concat "," names

let () =
  let ic = if Array.length Sys.argv > 1 then open_in Sys.argv.(1) else stdin in
  iter_lines ic (fun line ->
    match split_ws line with
    | "H" :: id :: rest ->
        let ops = match rest with
          | [] -> []
          | s :: _ -> List.filter (fun x -> x <> "") (String.split_on_char ';' s) in
        let st = ref init in
        let outs = List.map (fun o ->
            let (s1, r) = step !st (op_of o) in
            st := s1;
            show_out r ^ "|" ^ show_residue s1) ops in
        Printf.printf "H %s %s\n" id (String.concat ";" outs)
    | "FACTS" :: _ ->
        Printf.printf "FACTS objstack_reset_rewinds=%b set_value_drops_expr=%b set_expr_drops_value=%b clear_params_clears_map=%b errclear_dotransform=%s errclear_compile=%s errclear_parse=%s stmts=%d dirt=%d\n"
          objstack_reset_rewinds set_value_drops_expr set_expr_drops_value clear_params_clears_map
          (match errclear_dotransform with ErrClearPush -> "clearpush" | ErrResize1 -> "resize1" | ErrNone -> "none")
          (match errclear_compile with ErrClearPush -> "clearpush" | ErrResize1 -> "resize1" | ErrNone -> "none")
          (match errclear_parse with ErrClearPush -> "clearpush" | ErrResize1 -> "resize1" | ErrNone -> "none")
          (List.length dotransform_try_stmts) (List.length max_dirt)
    | "CLASSES" :: _ ->
        List.iter (fun m ->
          let c = match classify m with
            | Some PerTransformation -> "per-transformation" | Some Sticky -> "sticky" | Some Constant -> "constant"
            | Some StackObject -> "stack-object" | Some Scratch -> "scratch" | None -> "UNCLASSIFIED" in
          Printf.printf "CLASS %s %s\n" (mid_name m) c) member_ids
    | _ -> ())
