(* XpSpecEvalModel.v — the assumption of XpSpecStepModel.v discharged for the interpreter itself:
   [eval] reads the context node list only through position() (index of the context node + 1) and
   last() (its length); hence a location-path expression of the interpreter denotes the relational
   composition of its steps, where each predicate expression is given the proximity position and
   the size of the set being filtered. *)
From Coq Require Import ZArith NArith List Bool Arith Lia Sorted FunctionalExtensionality.
Require Import XV.XpAst XV.DomDefs XV.NumDefs XV.XpDefs XV.DomModel XV.XpModel
               XV.XpSpecDefs XV.XpSpecAxesModel XV.XpSpecStepModel.
Import ListNotations.

Definition set_list (c : ctx) (l : list nat) : ctx :=
  mkCtx (cx_doc c) (cx_node c) l (cx_vars c) (cx_strip c).

Lemma pred_filter_set_list ev c l' l pe : forall rest i,
  pred_filter ev (set_list c l') l pe rest i = pred_filter ev c l pe rest i.
Proof.
  induction rest as [|a rest IH]; intros i; cbn [pred_filter]; [reflexivity|].
  change (with_node (set_list c l') a l) with (with_node c a l).
  destruct (ev (with_node c a l) pe); cbn [bind]; [rewrite IH|]; reflexivity.
Qed.

Lemma apply_pred_set_list ev c l' l p : apply_pred ev (set_list c l') l p = apply_pred ev c l p.
Proof.
  unfold apply_pred. destruct l as [|a l0]; [reflexivity|].
  destruct (snd p); try apply pred_filter_set_list. reflexivity.
Qed.

Lemma apply_preds_set_list ev c l' l ps : apply_preds ev (set_list c l') l ps = apply_preds ev c l ps.
Proof.
  unfold apply_preds. f_equal. extensionality acc. extensionality p.
  destruct acc as [q|e]; cbn [bind]; [apply apply_pred_set_list | reflexivity].
Qed.

Lemma steps_from_set_list ev c l' : forall sfuel sub rv rest,
  steps_from ev (set_list c l') sfuel sub rv rest = steps_from ev c sfuel sub rv rest.
Proof.
  induction sfuel as [|sf IH]; intros sub rv rest; [reflexivity|].
  cbn [steps_from]. destruct rest as [|[[ax t] ps] rest']; [reflexivity|].
  f_equal. extensionality acc. extensionality n. destruct acc as [q|e]; [|reflexivity]. cbn [bind].
  change (axis_nodes (set_list c l') ax t n) with (axis_nodes c ax t n).
  destruct (axis_nodes c ax t n) as [[l0 rv0]|e]; [|reflexivity]. cbn [bind].
  rewrite apply_preds_set_list.
  destruct (apply_preds ev c l0 ps) as [l1|e]; [|reflexivity]. cbn [bind]. rewrite IH. reflexivity.
Qed.

Lemma apply_preds_sl_fun ev c l' : apply_preds ev (set_list c l') = apply_preds ev c.
Proof. extensionality l. extensionality ps. apply apply_preds_set_list. Qed.

Lemma steps_from_sl_fun ev c l' : steps_from ev (set_list c l') = steps_from ev c.
Proof. extensionality sf. extensionality sub. extensionality rv. extensionality rest. apply steps_from_set_list. Qed.

Section SetList.
  Variables (c : ctx) (l' : list nat).
  Let c' := set_list c l'.
  Lemma sl_node_string : node_string c' = node_string c. Proof. reflexivity. Qed.
  Lemma sl_to_string : to_string c' = to_string c. Proof. reflexivity. Qed.
  Lemma sl_to_number : to_number c' = to_number c. Proof. reflexivity. Qed.
  Lemma sl_compare : compare c' = compare c. Proof. reflexivity. Qed.
  Lemma sl_name_of : name_of c' = name_of c. Proof. reflexivity. Qed.
  Lemma sl_local_name_of : local_name_of c' = local_name_of c. Proof. reflexivity. Qed.
  Lemma sl_ns_uri_of : ns_uri_of c' = ns_uri_of c. Proof. reflexivity. Qed.
  Lemma sl_f_lang : f_lang c' = f_lang c. Proof. reflexivity. Qed.
  Lemma sl_sum_nodes : sum_nodes c' = sum_nodes c. Proof. reflexivity. Qed.
  Lemma sl_cx_node : cx_node c' = cx_node c. Proof. reflexivity. Qed.
  Lemma sl_cx_vars : cx_vars c' = cx_vars c. Proof. reflexivity. Qed.
  Lemma sl_cx_list : cx_list c' = l'. Proof. reflexivity. Qed.
End SetList.

Ltac sl := rewrite ?sl_node_string, ?sl_to_string, ?sl_to_number, ?sl_compare, ?sl_name_of, ?sl_local_name_of,
             ?sl_ns_uri_of, ?sl_f_lang, ?sl_sum_nodes, ?sl_cx_node, ?sl_cx_vars, ?sl_cx_list.

Theorem eval_list_irrelevant : forall f c l',
  position_of (set_list c l') = position_of c -> length l' = length (cx_list c) ->
  forall e, eval f (set_list c l') e = eval f c e.
Proof.
  induction f as [|f IH]; intros c l' Hpos Hlen e; [reflexivity|].
  assert (Hg : eval f (set_list c l') = eval f c) by (extensionality x; apply IH; assumption).
  cbn [eval]. destruct e.
  1-2: (unfold ev_bool; rewrite Hg; reflexivity).
  1-6: (rewrite Hg; sl; reflexivity).
  1-6: (unfold ev_num; rewrite Hg; sl; reflexivity).
  - rewrite Hg. reflexivity.
  - reflexivity.
  - sl. reflexivity.
  - rewrite Hg. reflexivity.
  - reflexivity.
  - (* function call *)
    unfold call_function, ev_bool, ev_num. cbv beta zeta. rewrite Hg, Hpos. sl. rewrite Hlen. reflexivity.
  - reflexivity.
  - (* location path *)
    rewrite steps_from_sl_fun, apply_preds_sl_fun, Hg. sl. reflexivity.
Qed.

(* a context node list of length m with n at position k *)
Definition canon (n k m : nat) : list nat := repeat (S n) (k - 1) ++ n :: repeat (S n) (m - k).

Lemma position_of_canon c n k m : 1 <= k -> position_of (with_node c n (canon n k m)) = k.
Proof.
  intros Hk. unfold position_of, canon. cbn [with_node cx_list cx_node].
  enough (G : forall j i,
            (fix go (l0 : list nat) (i0 : nat) {struct l0} : nat :=
               match l0 with [] => 0 | a :: r => if Nat.eqb a n then S i0 else go r (S i0) end)
              (repeat (S n) j ++ n :: repeat (S n) (m - k)) i = S (i + j)).
  { rewrite (G (k - 1) 0). lia. }
  induction j as [|j IH]; intros i; cbn [repeat app].
  - rewrite Nat.eqb_refl. f_equal. lia.
  - destruct (Nat.eqb_spec (S n) n) as [E|_]; [lia|]. rewrite IH. f_equal. lia.
Qed.

Lemma canon_length n k m : 1 <= k <= m -> length (canon n k m) = m.
Proof. intros H. unfold canon. rewrite app_length. cbn [length]. rewrite !repeat_length. lia. Qed.

(* the value of a predicate expression at (node, position, size), by the interpreter *)
Definition pv_eval (f : nat) (c : ctx) (pe : expr) (n k m : nat) : res value :=
  eval f (with_node c n (canon n k m)) pe.

Lemma pv_eval_ok f c : forall pe l i n, NoDup l -> nth_error l i = Some n ->
  eval f (with_node c n l) pe = pv_eval f c pe n (S i) (length l).
Proof.
  intros pe l i n Hnd Hn. unfold pv_eval.
  assert (Hil : i < length l) by (apply nth_error_Some; congruence).
  change (with_node c n l) with (set_list (with_node c n (canon n (S i) (length l))) l).
  apply eval_list_irrelevant.
  - change (set_list (with_node c n (canon n (S i) (length l))) l) with (with_node c n l).
    rewrite (position_of_nth c n l i Hnd Hn), position_of_canon by lia. reflexivity.
  - cbn [with_node cx_list]. rewrite canon_length by lia. reflexivity.
Qed.

Lemma pv_eval_num f c t x k m : pv_eval (S f) c (ENumLit t) x k m = Ok (VNum (string_to_number t)).
Proof. reflexivity. Qed.

(* a relative location path of the interpreter = the relational composition of its steps *)
Theorem eval_path_spec f c hps steps v :
  wfd (cx_doc c) -> cx_node c < length (cx_doc c) -> steps_ok steps ->
  (Z.of_nat (length (cx_doc c)) < 2 ^ 53)%Z ->
  eval (S (S f)) c (EPath None hps steps) = Ok v ->
  exists r, v = VNodes r /\ ordered r /\
    forall x, In x r <-> path_denotes (cx_doc c) (test_node c) (pv_eval (S f) c) steps (cx_node c) x.
Proof.
  intros Hw Hn Hok Hsmall H.
  change (eval (S (S f)) c (EPath None hps steps))
    with (do r <- steps_from (eval (S f)) c (S (length steps)) [cx_node c] false steps; Ok (VNodes r)) in H.
  destruct (steps_from (eval (S f)) c (S (length steps)) [cx_node c] false steps) as [r|e] eqn:E; cbn [bind] in H; [|discriminate].
  inversion H; subst v. exists r. split; [reflexivity|].
  apply (path_from_node (eval (S f)) c (pv_eval (S f) c) (pv_eval_ok (S f) c) (pv_eval_num f c) Hsmall steps (cx_node c) r Hw Hn Hok E).
Qed.

(* a filter expression followed by steps (a variable, a function call or a parenthesised expression
   with predicates, then '/' steps): section 3.3, "the Predicate filters the node-set with respect to
   the child axis" (document order), then each remaining node is a context node of the path *)
Definition filter_head (h : expr) : Prop :=
  match h with EVar _ _ | EFunc _ _ | EExtFunc _ _ _ | EGroup _ => True | _ => False end.

Theorem eval_filter_path_spec f c h hps steps v :
  wfd (cx_doc c) -> steps_ok steps -> (Z.of_nat (length (cx_doc c)) < 2 ^ 53)%Z -> filter_head h ->
  eval (S (S f)) c (EPath (Some h) hps steps) = Ok v ->
  exists ns r, eval (S f) c h = Ok (VNodes ns) /\ v = VNodes r /\
    ((forall y, In y ns -> y < length (cx_doc c)) ->
     ordered r /\
     forall x, In x r <-> exists n, preds_set (pv_eval (S f) c) AxChild (fun y => In y ns) hps n /\
                                    path_denotes (cx_doc c) (test_node c) (pv_eval (S f) c) steps n x).
Proof.
  intros Hw Hok Hsmall Hh H.
  assert (H' : (do v0 <- eval (S f) c h; do ns <- as_nodes v0;
                do l1 <- apply_preds (eval (S f)) c (merge_doc_order [] ns) hps;
                do r <- steps_from (eval (S f)) c (S (length steps)) l1 false steps; Ok (VNodes r)) = Ok v).
  { remember (S f) as f1. destruct h; try contradiction; cbn [eval] in H; exact H. }
  clear H. destruct (eval (S f) c h) as [v0|e] eqn:Eh; cbn [bind] in H'; [|discriminate].
  destruct v0 as [b|x|s|ns]; cbn [as_nodes bind] in H'; try discriminate.
  destruct (apply_preds (eval (S f)) c (merge_doc_order [] ns) hps) as [l1|e] eqn:Ep; cbn [bind] in H'; [|discriminate].
  destruct (steps_from (eval (S f)) c (S (length steps)) l1 false steps) as [r|e] eqn:Es; cbn [bind] in H'; [|discriminate].
  inversion H'; subst v. exists ns, r. split; [reflexivity|]. split; [reflexivity|]. intros Hns.
  assert (Hm0 : forall y, In y (merge_doc_order [] ns) <-> In y ns).
  { intros y. rewrite merge_In. split; [intros [[]|Hy]; exact Hy | intros Hy; right; exact Hy]. }
  assert (Ho0 : axis_ordered AxChild (merge_doc_order [] ns)) by (apply axis_ordered_fwd; [reflexivity | apply merge_ordered, ordered_nil]).
  destruct (apply_preds_spec (eval (S f)) c (pv_eval (S f) c) (pv_eval_ok (S f) c) (pv_eval_num f c) Hsmall
              AxChild hps (fun y => In y ns) (merge_doc_order [] ns) l1 Ho0 Hm0 Hns Ep) as [Ho1 Hm1].
  destruct steps as [|st rest].
  - cbn [steps_from] in Es. inversion Es; subst r. split; [exact Ho1|].
    intros x. rewrite (Hm1 x). cbn [path_denotes]. split.
    + intros Hx. exists x. split; [exact Hx | reflexivity].
    + intros [n [Hn ->]]. exact Hn.
  - destruct (steps_from_spec (eval (S f)) c (pv_eval (S f) c) (pv_eval_ok (S f) c) (pv_eval_num f c) Hsmall Hw
                (st :: rest) (S (length (st :: rest))) l1 false r) as [Hor Hmr]; [discriminate | exact Hok | | exact Es |].
    + intros n Hn. apply Hm1 in Hn. apply preds_set_sub in Hn. apply Hns. exact Hn.
    + split; [exact Hor|]. intros x. rewrite (Hmr x). split.
      * intros [n [Hn Hp]]. exists n. split; [apply Hm1; exact Hn | exact Hp].
      * intros [n [Hn Hp]]. exists n. split; [apply Hm1; exact Hn | exact Hp].
Qed.
